// witness: expect=ok stdout=A|B
// D26 (fixed, /repo 027647f): a bound nested in the ARGUMENT of another bound (`T: Other<dyn D<G = GB>>`) was recorded as a
// bound of T; the block was dispatched on a binding it never wrote: u16 (G = GC, Other<..>) satisfies the second block
// but got no impl.
use disjoint_impls::disjoint_impls;
pub trait D { type G; }
pub trait E { type H; }
pub trait Other<X: ?Sized> {}
pub enum GA {} pub enum GB {} pub enum GC {}
impl D for u8 { type G = GA; }
impl E for u8 { type H = GA; }
impl D for u16 { type G = GC; }
impl E for u16 { type H = GB; }
impl Other<dyn D<G = GB>> for u16 {}
disjoint_impls! {
    pub trait K { const NAME: &'static str; }
    impl<T: E<H = GA>> K for T { const NAME: &'static str = "A"; }
    impl<T: E<H = GB> + D + Other<dyn D<G = GB>>> K for T { const NAME: &'static str = "B"; }
}
fn main() { println!("{}", <u8 as K>::NAME); println!("{}", <u16 as K>::NAME); }
