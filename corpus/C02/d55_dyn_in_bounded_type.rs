// witness: expect=ok stdout=B
// D55 (repaired, /repo b958512): `where Box<dyn Other<X = Q>>: Marker` — the binding inside the BOUNDED type was collected as a dispatch key of that type
// (main impl demanded `Box<dyn Other<X = Q>>: Other`: no type obtained the impl). Reported by the sub-agent that seeded C02i, replayed.
use disjoint_impls::disjoint_impls;
pub trait Dispatch { type Group; }
pub trait Other { type X; }
pub enum GroupA {}
pub enum GroupB {}
pub enum Q {}
impl Dispatch for String { type Group = GroupA; }
impl Dispatch for i32 { type Group = GroupB; }
pub trait Marker {}
impl Marker for Box<dyn Other<X = Q>> {}
disjoint_impls! {
    pub trait Kita { const NAME: &'static str; }
    impl<T: Dispatch<Group = GroupA>> Kita for T where Box<dyn Other<X = Q>>: Marker { const NAME: &'static str = "A"; }
    impl<T: Dispatch<Group = GroupB>> Kita for T where Box<dyn Other<X = Q>>: Marker { const NAME: &'static str = "B"; }
}
fn main() { println!("{}", <i32 as Kita>::NAME); }
