// witness: expect=ok stdout=A_B|A_B_C
// D23 (fixed, /repo 3e16a6b): headers that generalise each other (`(T)` / `T`, `::core::option::Option<T>` /
// `core::option::Option<T>`) waited on each other in make_sets; all their blocks were silently dropped.
use disjoint_impls::disjoint_impls;
pub trait Dispatch { type Group; }
pub enum GA {} pub enum GB {} pub enum GC {}
impl Dispatch for u8 { type Group = GA; }
impl Dispatch for u16 { type Group = GB; }
impl Dispatch for u32 { type Group = GC; }
disjoint_impls! {
    pub trait Kita { const NAME: &'static str; }
    impl<T: Dispatch<Group = GA>> Kita for ::core::option::Option<T> { const NAME: &'static str = "A"; }
    impl<T: Dispatch<Group = GB>> Kita for core::option::Option<T> { const NAME: &'static str = "B"; }
}
disjoint_impls! {
    pub trait Kita2 { const NAME: &'static str; }
    impl<T: Dispatch<Group = GA>> Kita2 for (T) { const NAME: &'static str = "A"; }
    impl<T: Dispatch<Group = GB>> Kita2 for T { const NAME: &'static str = "B"; }
    impl<T: Dispatch<Group = GC>> Kita2 for T { const NAME: &'static str = "C"; }
}
fn main() {
    println!("{} {}", <Option<u8> as Kita>::NAME, <Option<u16> as Kita>::NAME);
    println!("{} {} {}", <u8 as Kita2>::NAME, <u16 as Kita2>::NAME, <u32 as Kita2>::NAME);
}
