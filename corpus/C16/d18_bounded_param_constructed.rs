// D18: expected to print "A B"; rustc: error[E0277]: the trait bound `(_ŠČ0, u8): Plain` is not satisfied
pub trait D { type G; }
pub trait Plain {}
impl Plain for u8 {} impl<A: Plain, B: Plain> Plain for (A, B) {}
pub enum GA {} pub enum GB {}
pub struct L0; pub struct L1;
impl D for L0 { type G = GA; } impl D for L1 { type G = GB; }
impl Plain for L0 {} impl Plain for L1 {}
disjoint_impls::disjoint_impls! {
    pub trait Kita<P: Plain> { const NAME: &'static str; }
    impl<A: D<G = GA> + Plain, B> Kita<(A, u8)> for (A, B) { const NAME: &'static str = "A"; }
    impl<A: D<G = GB> + Plain, B> Kita<(A, u8)> for (A, B) { const NAME: &'static str = "B"; }
}
fn main() { println!("{} {}", <(L0, i8) as Kita<(L0, u8)>>::NAME, <(L1, i8) as Kita<(L1, u8)>>::NAME); }
