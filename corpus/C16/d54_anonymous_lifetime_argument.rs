// witness: expect=finding id=F-D54 stdout=B
// D54: `Kita<'_>` in a block header: `'_` is copied into positions where it is not allowed (E0637).
use disjoint_impls::disjoint_impls;
pub trait Dispatch { type Group; }
pub enum GroupA {}
pub enum GroupB {}
impl Dispatch for String { type Group = GroupA; }
impl Dispatch for i32 { type Group = GroupB; }
disjoint_impls! {
    pub trait Kita<'a> { const NAME: &'static str; }
    impl<T: Dispatch<Group = GroupA>> Kita<'_> for T { const NAME: &'static str = "A"; }
    impl<T: Dispatch<Group = GroupB>> Kita<'_> for T { const NAME: &'static str = "B"; }
}
fn main() { println!("{}", <i32 as Kita<'static>>::NAME); }
