// D17: expected to print "A B"; rustc: error[E0425]: cannot find type `P1` in this scope
pub trait D { type G; }
pub enum GA {} pub enum GB {}
pub struct L0; pub struct L1;
impl D for L0 { type G = GA; } impl D for L1 { type G = GB; }
disjoint_impls::disjoint_impls! {
    pub trait Kita<P0, P1 = u8> { const NAME: &'static str; }
    impl<T: D<G = GA>, Y> Kita<Y> for Option<T> { const NAME: &'static str = "A"; }
    impl<T: D<G = GB>, Y> Kita<Y> for Option<T> { const NAME: &'static str = "B"; }
}
fn main() { println!("{} {}", <Option<L0> as Kita<u16>>::NAME, <Option<L1> as Kita<u16, u8>>::NAME); }
