// witness: expect=finding id=F-D51 stdout=A
// D51: a trait type parameter spelled like a generated key parameter (`_ŠČ<m>`, len ps <= m < len ps + nkeys): the helper trait declares
// `<_ŠČ1: ?Sized, _ŠČ1>` (E0403). Found by the proof of C16_helper_generics_shape (exact condition keyNamesFresh_ha), replayed.
use disjoint_impls::disjoint_impls;
pub trait Dispatch { type Group; }
pub enum GroupA {}
pub enum GroupB {}
impl Dispatch for u8 { type Group = GroupA; }
impl Dispatch for u16 { type Group = GroupB; }
disjoint_impls! {
    pub trait Kita<_ŠČ1> { const NAME: &'static str; }
    impl<T: Dispatch<Group = GroupA>, X> Kita<X> for T { const NAME: &'static str = "A"; }
    impl<T: Dispatch<Group = GroupB>, X> Kita<X> for T { const NAME: &'static str = "B"; }
}
fn main() { println!("{}", <u8 as Kita<u32>>::NAME); }
