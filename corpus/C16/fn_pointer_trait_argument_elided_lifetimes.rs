// witness: expect=ok stdout=
// a trait argument that is a fn pointer with elided reference lifetimes: `Kita<fn(&u8) -> &u8>` (seeded change C16i named anonymous lifetimes inside the pointer type as impl parameters)
// C16 (trait-argument fidelity): a block written for `Kita<fn(&u8) -> &u8>` has to serve
// exactly that instantiation. The lifetimes left out inside a function pointer type are
// bound by the pointer itself (`for<'r> fn(&'r u8) -> &'r u8`), they are not anonymous
// parameters of the impl.
use std::marker::PhantomData;

use disjoint_impls::disjoint_impls;

pub trait Dispatch {
    type Group;
}

pub enum GroupA {}
pub enum GroupB {}

impl Dispatch for String {
    type Group = GroupA;
}
impl Dispatch for i32 {
    type Group = GroupB;
}

/// The trait argument of both blocks below
type Pick = fn(&u8) -> &u8;

disjoint_impls! {
    pub trait Kita<F> {
        const NAME: &'static str;

        fn name(&self) -> &'static str {
            Self::NAME
        }
    }

    impl<X: Dispatch<Group = GroupA>> Kita<fn(&u8) -> &u8> for X {
        const NAME: &'static str = "Blanket A";
    }
    impl<X: Dispatch<Group = GroupB>> Kita<fn(&u8) -> &u8> for X {
        const NAME: &'static str = "Blanket B";
    }
}

// `impls!(T: Kita<Pick>)` probe (autoref specialisation), answering with the dispatched value
struct Probe<T: ?Sized>(PhantomData<T>);

trait NotImplemented {
    fn dispatched(&self) -> Option<&'static str> {
        None
    }
}
impl<T: ?Sized> NotImplemented for &Probe<T> {}

trait Implemented {
    fn dispatched(&self) -> Option<&'static str>;
}
impl<T: ?Sized + Kita<Pick>> Implemented for Probe<T> {
    fn dispatched(&self) -> Option<&'static str> {
        Some(<T as Kita<Pick>>::NAME)
    }
}

// Not the instantiation of the blocks: both lifetimes are fixed from outside of the pointer
struct ProbeEarly<'a, 'b, T: ?Sized>(PhantomData<(&'a (), &'b (), T)>);

impl<'a, 'b, T: ?Sized> NotImplemented for &ProbeEarly<'a, 'b, T> {}
impl<'a, 'b, T: ?Sized + Kita<fn(&'a u8) -> &'b u8>> Implemented for ProbeEarly<'a, 'b, T> {
    fn dispatched(&self) -> Option<&'static str> {
        Some(<T as Kita<fn(&'a u8) -> &'b u8>>::NAME)
    }
}

fn main() {
    // matching argument list: the blocks answer
    assert_eq!((&Probe::<String>(PhantomData)).dispatched(), Some("Blanket A"));
    assert_eq!((&Probe::<i32>(PhantomData)).dispatched(), Some("Blanket B"));
    // no block for this type
    assert_eq!((&Probe::<u64>(PhantomData)).dispatched(), None);

    // non-matching argument list: nobody wrote a block for `fn(&'a u8) -> &'b u8`
    assert_eq!((&ProbeEarly::<String>(PhantomData)).dispatched(), None);
    assert_eq!((&ProbeEarly::<i32>(PhantomData)).dispatched(), None);
}
