// witness: expect=ok stdout=A_B
// D25 (fixed, /repo 1001a0e): a const trait parameter used in the trait items made the macro panic ("expected identifier")
// when the block passes a literal or a braced expression for it.
use disjoint_impls::disjoint_impls;
pub trait Dispatch { type Group; }
pub enum GA {} pub enum GB {}
impl Dispatch for u8 { type Group = GA; }
impl Dispatch for u16 { type Group = GB; }
pub struct W<T, const N: usize>([T; N]);

disjoint_impls! { pub trait K<const M: usize> { const NAME: &'static str; fn f() -> [u8; M]; }
 impl<T: Dispatch<Group = GA>> K<3> for T { const NAME: &'static str = "A"; fn f() -> [u8; 3] { [0; 3] } }
 impl<T: Dispatch<Group = GB>> K<3> for T { const NAME: &'static str = "B"; fn f() -> [u8; 3] { [1; 3] } } }
fn main(){ println!("{} {}", <u8 as K<3>>::NAME, <u16 as K<3>>::NAME); }
