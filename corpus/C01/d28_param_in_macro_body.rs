// witness: expect=finding id=F-D28 stdout=A_u32_B_4
// D28: generic parameters mentioned inside a macro invocation of an item body (format!, vec!, assert!, println! ...) are opaque
// tokens to syn; NonPredicateParamResolver never rewrites them while the impl's generics become _ŠČn: error[E0425] cannot find type `T`.
use disjoint_impls::disjoint_impls;
pub trait Dispatch { type Group; }
pub enum GroupA {} pub enum GroupB {}
impl Dispatch for u32 { type Group = GroupA; }
impl Dispatch for i32 { type Group = GroupB; }
disjoint_impls! {
    pub trait Kita { fn name() -> String; }
    impl<T: Dispatch<Group = GroupA>> Kita for T { fn name() -> String { format!("A {}", core::any::type_name::<T>()) } }
    impl<T: Dispatch<Group = GroupB>> Kita for T { fn name() -> String { format!("B {}", core::mem::size_of::<T>()) } }
}
fn main(){ println!("{} {}", <u32 as Kita>::name(), <i32 as Kita>::name()); }
