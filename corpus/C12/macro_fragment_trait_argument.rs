// witness: expect=ok stdout=ab
// a `$u:ty` fragment of macro_rules as an ARGUMENT of the dispatch trait (an invisible None-delimited group to syn, `Type::Group`): `D2<$u, G = GA>`
// with $u = u32 and `D2<u32, G = GB>` are the same key (TraitBound compares printed tokens). Seeded change C12h compared the arguments structurally.
use disjoint_impls::disjoint_impls;
pub trait D2<X> { type G; }
pub enum GA {}
pub enum GB {}
impl D2<u32> for String { type G = GA; }
impl D2<u32> for i32 { type G = GB; }
macro_rules! with_ty { ($u:ty) => {
    disjoint_impls! {
        pub trait Kita { const NAME: &'static str; }
        impl<T: D2<$u, G = GA>> Kita for T { const NAME: &'static str = "a"; }
        impl<T: D2<u32, G = GB>> Kita for T { const NAME: &'static str = "b"; }
    }
} }
with_ty!(u32);
fn main() { println!("{}{}", <String as Kita>::NAME, <i32 as Kita>::NAME); }
