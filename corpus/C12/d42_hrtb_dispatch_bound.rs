// witness: expect=finding id=F-D42 stdout=ok
// D42: a dispatch bound under a higher-ranked binder (`T: for<'a> Dispatch<'a, Group = GroupA>`): TraitBound keeps only the path, the main impl's where-clause
// gets `_ŠČ0: Dispatch<'a>` without the binder (E0261 undeclared lifetime). Found by the proof of C12_main_where_clause_emits_tbTokens, replayed.
use disjoint_impls::disjoint_impls;
pub trait Dispatch<'a> { type Group; }
pub enum GroupA {}
pub enum GroupB {}
disjoint_impls! {
    pub trait Kita {}
    impl<T: for<'a> Dispatch<'a, Group = GroupA>> Kita for T {}
    impl<T: for<'a> Dispatch<'a, Group = GroupB>> Kita for T {}
}
fn main() { println!("ok"); }
