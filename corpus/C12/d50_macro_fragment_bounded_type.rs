// witness: expect=finding id=F-D50 stdout=ab
// D50: a `$u:ty` fragment inside the BOUNDED type: `($u, T): D<G = GA>` with $u = u32 and `(u32, T): D<G = GB>` bound the same type, but `Bounded` compares
// syn::Type structurally and the invisible group makes them different keys: Unable to form impl group. Found while analysing seeded change C12h.
use disjoint_impls::disjoint_impls;
pub trait D { type G; }
pub enum GA {}
pub enum GB {}
impl D for (u32, String) { type G = GA; }
impl D for (u32, i32) { type G = GB; }
macro_rules! with_ty { ($u:ty) => {
    disjoint_impls! {
        pub trait Kita { const NAME: &'static str; }
        impl<T> Kita for T where ($u, T): D<G = GA> { const NAME: &'static str = "a"; }
        impl<T> Kita for T where (u32, T): D<G = GB> { const NAME: &'static str = "b"; }
    }
} }
with_ty!(u32);
fn main() { println!("{}{}", <String as Kita>::NAME, <i32 as Kita>::NAME); }
