// witness: expect=finding id=F-C13-dead-parameter-reserved-name stdout=A_B
use disjoint_impls::disjoint_impls;
pub trait Dispatch { type Group; }
pub enum GA {} pub enum GB {}
impl Dispatch for u8 { type Group = GA; }
impl Dispatch for u16 { type Group = GB; }
disjoint_impls! {
    pub trait Kita<'x> { const NAME: &'static str; }
    impl<'_ŠČ0, 'b, T: Dispatch<Group = GA>> Kita<'b> for T { const NAME: &'static str = "A"; }
    impl<'_ŠČ0, 'b, T: Dispatch<Group = GB>> Kita<'b> for T { const NAME: &'static str = "B"; }
}
fn main(){ println!("{} {}", <u8 as Kita>::NAME, <u16 as Kita>::NAME); }
