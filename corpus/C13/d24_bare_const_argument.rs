// witness: expect=finding id=F-D24 stdout=A_B
// D24: a const parameter passed as a bare generic argument (`W<T, N>`) is parsed as a type path; it is neither indexed
// nor renamed as the const parameter it is (E0425: cannot find type `N`). `W<T, { N }>` works.
use disjoint_impls::disjoint_impls;
pub trait Dispatch { type Group; }
pub enum GA {} pub enum GB {}
impl Dispatch for u8 { type Group = GA; }
impl Dispatch for u16 { type Group = GB; }
pub struct W<T, const N: usize>([T; N]);

disjoint_impls! { pub trait K { const NAME: &'static str; }
 impl<const N: usize, T: Dispatch<Group = GA>> K for W<T, N> { const NAME: &'static str = "A"; }
 impl<const N: usize, T: Dispatch<Group = GB>> K for W<T, N> { const NAME: &'static str = "B"; } }
fn main(){ println!("{} {}", <W<u8,2> as K>::NAME, <W<u16,3> as K>::NAME); }
