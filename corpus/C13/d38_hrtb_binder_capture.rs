// witness: expect=finding id=F-D38 stdout=B
// D38: a name introduced by a binder INSIDE the block (here the HRTB `for<'_ŠČ0>`) that is spelled like a canonical name is captured: the impl lifetime 'x becomes
// '_ŠČ0 and the binder keeps its spelling (E0496 lifetime name shadows a lifetime name that is already in scope). Only reachable with reserved spellings.
use disjoint_impls::disjoint_impls;
pub trait Dispatch { type Group; }
pub enum GroupA {} pub enum GroupB {}
impl Dispatch for u32 { type Group = GroupA; }
impl Dispatch for i32 { type Group = GroupB; }
disjoint_impls! {
    pub trait Kita<'x> { fn name(&self) -> &'static str; }
    impl<'x, T: Dispatch<Group = GroupA> + for<'_ŠČ0> PartialEq<&'_ŠČ0 u8>> Kita<'x> for T { fn name(&self) -> &'static str { "A" } }
    impl<'x, T: Dispatch<Group = GroupB>> Kita<'x> for T { fn name(&self) -> &'static str { "B" } }
}
fn main(){ println!("{}", <i32 as Kita>::name(&1)); }
