// witness: expect=ok stdout=A_B
// D29 (repaired, /repo 2b7edb4): an item of the first inherent block with two or more attributes (two-line doc comment) made the
// macro panic: gen_inherent_impl_items printed the attributes separated by commas.
use disjoint_impls::disjoint_impls;
pub trait Dispatch { type Group; }
pub enum GroupA {} pub enum GroupB {}
impl Dispatch for u32 { type Group = GroupA; }
impl Dispatch for i32 { type Group = GroupB; }
pub struct W<T>(pub T);
disjoint_impls! {
    impl<T: Dispatch<Group = GroupA>> W<T> {
        /// line one
        /// line two
        pub fn name(&self) -> &'static str { "A" }
    }
    impl<T: Dispatch<Group = GroupB>> W<T> {
        pub fn name(&self) -> &'static str { "B" }
    }
}
fn main(){ println!("{} {}", W(1u32).name(), W(1i32).name()); }
