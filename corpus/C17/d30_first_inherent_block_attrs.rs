// witness: expect=ok stdout=A_B
// D30 (repaired, /repo 33ac2d5): input.parse::<ItemTrait>().ok() consumed the outer attributes of the first inherent impl block when it
// failed; the allow attribute was dropped (error: method `Name` should have a snake case name) although the user wrote it.
#![deny(non_snake_case)]
use disjoint_impls::disjoint_impls;
pub trait Dispatch { type Group; }
pub enum GroupA {} pub enum GroupB {}
impl Dispatch for u32 { type Group = GroupA; }
impl Dispatch for i32 { type Group = GroupB; }
pub struct W<T>(pub T);
disjoint_impls! {
    #[allow(non_snake_case)]
    impl<T: Dispatch<Group = GroupA>> W<T> { pub fn Name(&self) -> &'static str { "A" } }
    #[allow(non_snake_case)]
    impl<T: Dispatch<Group = GroupB>> W<T> { pub fn Name(&self) -> &'static str { "B" } }
}
fn main(){ println!("{} {}", W(1u32).Name(), W(1i32).Name()); }
