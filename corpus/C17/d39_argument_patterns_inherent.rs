// witness: expect=ok stdout=7_7
// D39 (repaired, /repo fb123ce), inherent mode: tuple / `mut` / wildcard argument patterns in the first block were copied into the helper trait's
// method declaration (E0642) and passed on as expressions.
use disjoint_impls::disjoint_impls;
pub trait Dispatch { type Group; }
pub enum GroupA {} pub enum GroupB {}
impl Dispatch for u32 { type Group = GroupA; }
impl Dispatch for i32 { type Group = GroupB; }
pub struct W<T>(pub T);
disjoint_impls! {
    impl<T: Dispatch<Group = GroupA>> W<T> { pub fn sum(&self, (a, b): (u8, u8), mut c: u8, _: u8) -> u8 { c += 1; a + b + c } }
    impl<T: Dispatch<Group = GroupB>> W<T> { pub fn sum(&self, (a, b): (u8, u8), mut c: u8, _: u8) -> u8 { c += 2; a * b + c } }
}
fn main(){ println!("{} {}", W(1u32).sum((1,2),3,0), W(1i32).sum((1,2),3,0)); }
