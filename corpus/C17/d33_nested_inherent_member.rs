// witness: expect=finding id=F-D33 stdout=A|B
// D33: inherent mode, nested member: disjoint::generate gives every member the FIRST block's helper path arguments, so the helper impl of
// `impl<T> W<Vec<T>> where Vec<T>: Dispatch<Group = GroupB>` is `_W0<GroupB, _0> for W<Vec<_0>>` while the main impl asks for `_W0<GroupB, Vec<X>>`: the block's
// items are unreachable (E0599). Found by the proof of C17_expandOK_of_expand_inherent (side condition selfArgsFixed_inh), replayed.
use disjoint_impls::disjoint_impls;
pub trait Dispatch { type Group; }
pub enum GroupA {} pub enum GroupB {}
impl Dispatch for u32 { type Group = GroupA; }
impl Dispatch for Vec<u8> { type Group = GroupB; }
pub struct W<T>(pub T);
disjoint_impls! {
    impl<T: Dispatch<Group = GroupA>> W<T> { pub fn name(&self) -> &'static str { "A" } }
    impl<T> W<Vec<T>> where Vec<T>: Dispatch<Group = GroupB> { pub fn name(&self) -> &'static str { "B" } }
}
fn main(){ println!("{}", W(1u32).name()); println!("{}", W(vec![1u8]).name()); }
