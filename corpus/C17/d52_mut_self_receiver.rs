// witness: expect=ok stdout=A1
// D52 (repaired, /repo 19cb482): inherent method with a `mut self` receiver: the helper trait's body-less prototype kept the pattern (patterns aren't allowed in functions without bodies).
// Reported by the sub-agent that seeded C17i, replayed.
use disjoint_impls::disjoint_impls;
pub trait Dispatch { type Group; }
pub enum GroupA {}
pub enum GroupB {}
impl Dispatch for String { type Group = GroupA; }
impl Dispatch for i32 { type Group = GroupB; }
pub struct W<T>(pub T);
disjoint_impls! {
    impl<T: Clone + Dispatch<Group = GroupA>> W<T> { pub fn name(&self) -> &'static str { "A" } pub fn take(mut self) -> T { self.0.clone() } }
    impl<T: Clone + Dispatch<Group = GroupB>> W<T> { pub fn name(&self) -> &'static str { "B" } pub fn take(mut self) -> T { self.0.clone() } }
}
fn main() { println!("{}{}", W(String::new()).name(), W(1i32).take()); }
