// witness: expect=ok stdout=B
// D45 (repaired, /repo ccb06e8): inherent blocks for a path-qualified self type (`meters::Wrapper<T>`) made the macro panic (expected identifier):
// the helper trait was declared `trait meters::Wrapper`. Reported by the sub-agent that seeded C08g as a baseline hole, replayed.
use disjoint_impls::disjoint_impls;
pub trait Dispatch { type Group; }
pub enum GroupA {}
pub enum GroupB {}
impl Dispatch for String { type Group = GroupA; }
impl Dispatch for i32 { type Group = GroupB; }
pub mod meters { pub struct Wrapper<T>(pub T); }
disjoint_impls! {
    impl<T: Dispatch<Group = GroupA>> meters::Wrapper<T> { pub const NAME: &'static str = "A"; }
    impl<T: Dispatch<Group = GroupB>> meters::Wrapper<T> { pub const NAME: &'static str = "B"; }
}
fn main() { println!("{}", meters::Wrapper::<i32>::NAME); }
