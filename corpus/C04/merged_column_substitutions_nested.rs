// witness: expect=reject codes=E0119
// nested headers, two bindings of one bound: outer binds both to ONE parameter, nested block to two different types; both blocks apply to Vec<Leaf> (seeded change C04i required the per-column substitutions to merge)
// INVERTED demo for C04 ("Overlap is never silently resolved"):
// the invocation below contains a genuine overlap, so it must NOT compile.
//   * unchanged crate: does not compile (E0119 on the expansion)
//   * seeded crate:    compiles, and block A is silently chosen for `Vec<Leaf>`
use disjoint_impls::disjoint_impls;

pub trait Shape {
    type Elem;
    type Repr;
}

pub struct Leaf;
impl Shape for Leaf {
    type Elem = u8;
    type Repr = u16;
}
// `Vec<Leaf>` is its own element and representation type
impl Shape for Vec<Leaf> {
    type Elem = Vec<Leaf>;
    type Repr = Vec<Leaf>;
}

disjoint_impls! {
    pub trait Kita {
        const NAME: &'static str;
    }

    // Block A: applies to `Vec<Leaf>` (Elem = Repr = Self)
    impl<T: Shape<Elem = T, Repr = T>> Kita for T {
        const NAME: &'static str = "Blanket A";
    }
    // Block B: applies to `Vec<Leaf>` as well (Leaf: Shape<Elem = u8, Repr = u16>)
    impl<T: Shape<Elem = u8, Repr = u16>> Kita for Vec<T> {
        const NAME: &'static str = "Blanket B";
    }
}

fn witness_of_a<T: Shape<Elem = T, Repr = T>>() {}
fn witness_of_b<T: Shape<Elem = u8, Repr = u16>>() {}

fn main() {
    // `Vec<Leaf>` satisfies the header and the bounds of both blocks
    witness_of_a::<Vec<Leaf>>();
    witness_of_b::<Leaf>();

    // Reached only if the overlap was silently resolved
    assert_eq!("Blanket A", <Vec<Leaf> as Kita>::NAME);
}
