// witness: expect=reject codes=E0119
// A tie between two equally small groupings (seeded change C04h took the FIRST instead of the LAST candidate): with the nested block 3 filed
// under the outer family, `Vec<Leaf>` — which satisfies blocks 1 and 3, see the shadow traits — was silently dispatched to block 1.
use disjoint_impls::disjoint_impls;

pub trait Dispatch {
    type Group;
}
pub trait Tag {
    type Kind;
}

pub enum GroupA {}
pub enum GroupB {}
pub enum One {}
pub enum Two {}

pub struct Leaf;
pub struct Other;

impl Dispatch for Leaf {
    type Group = GroupB;
}
impl Tag for Leaf {
    type Kind = Two;
}
impl Tag for Other {
    type Kind = One;
}
impl Dispatch for Vec<Leaf> {
    type Group = GroupA;
}

disjoint_impls! {
    pub trait Kita {
        const NAME: &'static str;
    }

    // block 1
    impl<T: Dispatch<Group = GroupA>> Kita for T {
        const NAME: &'static str = "Blanket A";
    }
    // block 2
    impl<X: Tag<Kind = One>> Kita for Vec<X> {
        const NAME: &'static str = "Vec One";
    }
    // block 3
    impl<X: Tag<Kind = Two> + Dispatch<Group = GroupB>> Kita for Vec<X> {
        const NAME: &'static str = "Vec Two";
    }
}

// Shadow traits: one per block, same header and bounds. Both hold for `Vec<Leaf>`.
trait Shadow1 {}
impl<T: Dispatch<Group = GroupA>> Shadow1 for T {}
trait Shadow3 {}
impl<X: Tag<Kind = Two> + Dispatch<Group = GroupB>> Shadow3 for Vec<X> {}
fn witness<W: Shadow1 + Shadow3>() {}

fn main() {
    witness::<Vec<Leaf>>();
    // If we get here the overlap was resolved silently: one of the two blocks was picked.
    println!("Vec<Leaf> silently dispatched to: {}", <Vec<Leaf> as Kita>::NAME);
    println!("Vec<Other> dispatched to: {}", <Vec<Other> as Kita>::NAME);
}
