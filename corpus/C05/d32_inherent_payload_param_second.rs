// witness: expect=ok stdout=V_B
// D32, the accepted order: block with the payload-only parameter second
use disjoint_impls::disjoint_impls;
pub trait Dispatch { type Group; }
pub enum GroupA {} pub enum GroupB {}
impl Dispatch for u32 { type Group = GroupA; }
impl Dispatch for i32 { type Group = GroupB; }
pub struct W<T>(pub T);
impl Dispatch for u8 { type Group = Vec<u16>; }
disjoint_impls! {
    impl<T: Dispatch<Group = GroupB>> W<T> { pub fn name(&self) -> &'static str { "B" } }
    impl<T: Dispatch<Group = Vec<U>>, U> W<T> { pub fn name(&self) -> &'static str { "V" } }
}
fn main(){ println!("{} {}", W(1u8).name(), W(1i32).name()); }
