// witness: expect=finding id=F-D32 stdout=V_B
// D32: inherent mode takes the helper trait's parameters from ALL generics of the first block of a family; when that block has a
// parameter that occurs only in a payload (Group = Vec<U>) the other blocks' helper impls and the main impl mention an undeclared /
// unconstrained _ŠČ1 (E0425, E0207). With the blocks swapped (next witness) the same invocation compiles: order dependence.
use disjoint_impls::disjoint_impls;
pub trait Dispatch { type Group; }
pub enum GroupA {} pub enum GroupB {}
impl Dispatch for u32 { type Group = GroupA; }
impl Dispatch for i32 { type Group = GroupB; }
pub struct W<T>(pub T);
impl Dispatch for u8 { type Group = Vec<u16>; }
disjoint_impls! {
    impl<T: Dispatch<Group = Vec<U>>, U> W<T> { pub fn name(&self) -> &'static str { "V" } }
    impl<T: Dispatch<Group = GroupB>> W<T> { pub fn name(&self) -> &'static str { "B" } }
}
fn main(){ println!("{} {}", W(1u8).name(), W(1i32).name()); }
