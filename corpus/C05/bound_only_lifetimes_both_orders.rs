// witness: expect=ok stdout=
// the same two blocks in both orders; one block mentions one more bound-only lifetime, so the lifetimes that occur only in bounds are numbered
// differently in the two blocks (seeded change C05h made TraitBound's identity ignore lifetime arguments: the key stored last decided which
// lifetime name the main impl used, E0261 in one order only)
// C05 (block order independence): the two invocations below contain the same two impl blocks,
// only their order differs. Both must compile and dispatch identically.
use disjoint_impls::disjoint_impls;

pub trait Dispatch {
    type Group;
}
pub trait Marker<'m> {}
pub trait Tagged<'t> {
    type Tag;
}

pub enum GroupA {}
pub enum GroupB {}

impl Dispatch for String {
    type Group = GroupA;
}
impl Dispatch for i32 {
    type Group = GroupB;
}
impl<'t> Tagged<'t> for String {
    type Tag = u8;
}
impl<'t> Tagged<'t> for i32 {
    type Tag = u16;
}
impl<'m> Marker<'m> for i32 {}

// order 1: the block that mentions one more bound-only lifetime comes last
disjoint_impls! {
    pub trait Kita1 {
        const NAME: &'static str;
    }

    impl<'a, T: Dispatch<Group = GroupA> + Tagged<'a, Tag = u8>> Kita1 for T {
        const NAME: &'static str = "Blanket A";
    }
    impl<'x, 'a, T: Dispatch<Group = GroupB> + Marker<'x> + Tagged<'a, Tag = u16>> Kita1 for T {
        const NAME: &'static str = "Blanket B";
    }
}

// order 2: the same two blocks, swapped
disjoint_impls! {
    pub trait Kita2 {
        const NAME: &'static str;
    }

    impl<'x, 'a, T: Dispatch<Group = GroupB> + Marker<'x> + Tagged<'a, Tag = u16>> Kita2 for T {
        const NAME: &'static str = "Blanket B";
    }
    impl<'a, T: Dispatch<Group = GroupA> + Tagged<'a, Tag = u8>> Kita2 for T {
        const NAME: &'static str = "Blanket A";
    }
}

fn main() {
    assert_eq!("Blanket A", <String as Kita1>::NAME);
    assert_eq!("Blanket B", <i32 as Kita1>::NAME);

    assert_eq!("Blanket A", <String as Kita2>::NAME);
    assert_eq!("Blanket B", <i32 as Kita2>::NAME);
}
