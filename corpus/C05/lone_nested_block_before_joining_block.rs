// witness: expect=ok stdout=
// two blocks of one nested header, one joins the general family, the other forms a family alone; both orders (seeded change C05i tried only the family of the same header)
// C05 (block order independence): the same three blocks in two textual orders.
// Two blocks share the header `Vec<T>`; only one of them ("vec B") dispatches on the bound of
// the more general family `T` (and has to join it), the other ("vec other X") dispatches on an
// unrelated bound and has to form a family of its own.
use disjoint_impls::disjoint_impls;

pub trait Dispatch {
    type Group;
}
pub trait Other {
    type Kind;
}

pub enum GroupA {}
pub enum GroupB {}
pub enum KindX {}

impl Dispatch for String {
    type Group = GroupA;
}
impl Dispatch for Vec<u8> {
    type Group = GroupB;
}
impl Other for Option<Vec<u16>> {
    type Kind = KindX;
}

mod joining_block_first {
    use super::*;

    disjoint_impls! {
        pub trait Kita {
            const NAME: &'static str;
        }

        impl<T: Dispatch<Group = GroupA>> Kita for T {
            const NAME: &'static str = "general A";
        }
        impl<T> Kita for Vec<T> where Vec<T>: Dispatch<Group = GroupB> {
            const NAME: &'static str = "vec B";
        }
        impl<T> Kita for Vec<T> where Option<Vec<T>>: Other<Kind = KindX> {
            const NAME: &'static str = "vec other X";
        }
    }

    pub fn table() -> [&'static str; 3] {
        [String::NAME, <Vec<u8>>::NAME, <Vec<u16>>::NAME]
    }
}

mod joining_block_last {
    use super::*;

    disjoint_impls! {
        pub trait Kita {
            const NAME: &'static str;
        }

        impl<T: Dispatch<Group = GroupA>> Kita for T {
            const NAME: &'static str = "general A";
        }
        impl<T> Kita for Vec<T> where Option<Vec<T>>: Other<Kind = KindX> {
            const NAME: &'static str = "vec other X";
        }
        impl<T> Kita for Vec<T> where Vec<T>: Dispatch<Group = GroupB> {
            const NAME: &'static str = "vec B";
        }
    }

    pub fn table() -> [&'static str; 3] {
        [String::NAME, <Vec<u8>>::NAME, <Vec<u16>>::NAME]
    }
}

fn main() {
    let expected = ["general A", "vec B", "vec other X"];

    assert_eq!(expected, joining_block_first::table());
    assert_eq!(expected, joining_block_last::table());
}
