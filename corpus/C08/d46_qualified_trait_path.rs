// witness: expect=ok stdout=B
// D46 (repaired, /repo ccb06e8): a block naming the invocation's trait through a qualified path (`self::Kita`) made the helper impls
// implement `self::_Kita0`, which does not exist outside the anonymous constant (E0405). Reported by the sub-agent that seeded C08g, replayed.
use disjoint_impls::disjoint_impls;
pub trait Dispatch { type Group; }
pub enum GroupA {}
pub enum GroupB {}
impl Dispatch for String { type Group = GroupA; }
impl Dispatch for i32 { type Group = GroupB; }
disjoint_impls! {
    pub trait Kita { const NAME: &'static str; }
    impl<T: Dispatch<Group = GroupA>> self::Kita for T { const NAME: &'static str = "A"; }
    impl<T: Dispatch<Group = GroupB>> self::Kita for T { const NAME: &'static str = "B"; }
}
fn main() { println!("{}", <i32 as Kita>::NAME); }
