// witness: expect=finding id=F-D41 stdout=ok
// D41: helper names are "_" ++ name ++ idx without a separator: in inherent mode family 0 of `A1` and family 10 of `A` both get `_A10` (E0428). Needs >= 11 inherent families
// in one invocation. Found by the proof of C08_expandAll_helper_names_* (C08_inherent_helper_names_clash_counterexample), replayed.
use disjoint_impls::disjoint_impls;
pub trait Dispatch { type Group; }
pub enum GroupA {}
pub struct A1<T>(T); pub struct B<T>(T); pub struct C<T>(T); pub struct D<T>(T); pub struct E<T>(T);
pub struct F<T>(T); pub struct G<T>(T); pub struct H<T>(T); pub struct I<T>(T); pub struct J<T>(T); pub struct A<T>(T);
disjoint_impls! {
    impl<T: Dispatch<Group = GroupA>> A1<T> { pub fn name(&self) {} }
    impl<T: Dispatch<Group = GroupA>> B<T> { pub fn name(&self) {} }
    impl<T: Dispatch<Group = GroupA>> C<T> { pub fn name(&self) {} }
    impl<T: Dispatch<Group = GroupA>> D<T> { pub fn name(&self) {} }
    impl<T: Dispatch<Group = GroupA>> E<T> { pub fn name(&self) {} }
    impl<T: Dispatch<Group = GroupA>> F<T> { pub fn name(&self) {} }
    impl<T: Dispatch<Group = GroupA>> G<T> { pub fn name(&self) {} }
    impl<T: Dispatch<Group = GroupA>> H<T> { pub fn name(&self) {} }
    impl<T: Dispatch<Group = GroupA>> I<T> { pub fn name(&self) {} }
    impl<T: Dispatch<Group = GroupA>> J<T> { pub fn name(&self) {} }
    impl<T: Dispatch<Group = GroupA>> A<T> { pub fn name(&self) {} }
}
fn main() { println!("ok"); }
