// D31 (repaired, /repo 7c6c2ac): must be rejected with exactly `error: Expected trait impl, found inherent impl` (checked by the no-bounds mutations of the C14 generator on every run)
use disjoint_impls::disjoint_impls;
pub trait Dispatch { type Group; }
pub enum GroupA {} pub enum GroupB {}
impl Dispatch for u32 { type Group = GroupA; }
impl Dispatch for i32 { type Group = GroupB; }
pub struct W<T>(pub T);
disjoint_impls! {
    pub trait Kita { fn b(&self) -> &'static str; }
    impl<T: Dispatch<Group = GroupA>> Kita for T { fn b(&self) -> &'static str { "A" } }
    impl<T> W<T> { fn b(&self) -> &'static str { "B" } }
}
fn main(){ }
