// witness: expect=ok stdout=
// D56 (repaired, /repo 133a44b): inherent mode, the FIRST block writes an item once per `cfg` alternative: the validator walked the first block's items as a slice and asked the other
// block's table for `name` twice: 'Not found in one of the impls' for a well-formed invocation. Reported by the sub-agent that seeded C14i, replayed.
use disjoint_impls::disjoint_impls;
pub trait Dispatch { type Group; }
pub enum GroupA {} pub enum GroupB {}
impl Dispatch for String { type Group = GroupA; }
impl Dispatch for i32 { type Group = GroupB; }
pub struct Wrapper<T>(pub T);
disjoint_impls! {
    impl<T: Dispatch<Group = GroupA>> Wrapper<T> {
        #[cfg(debug_assertions)]
        pub fn name() -> &'static str { "A" }
        #[cfg(not(debug_assertions))]
        pub fn name() -> &'static str { "A" }
    }
    impl<T: Dispatch<Group = GroupB>> Wrapper<T> {
        pub fn name() -> &'static str { "B" }
    }
}
fn main() { assert_eq!("A", Wrapper::<String>::name()); assert_eq!("B", Wrapper::<i32>::name()); }
