// witness: expect=ok stdout=A_B
// D43 (repaired, /repo): a dispatch bound on a ONE-element tuple in a nested member (`(Vec<T>,): Dispatch<Group = GroupB>`) was re-expressed without its
// trailing comma (TypeTuple::substitute rebuilt the elements with collect()), not found among the general family's keys: two families, E0119.
use disjoint_impls::disjoint_impls;
pub trait Dispatch { type Group; }
pub enum GroupA {} pub enum GroupB {}
impl Dispatch for (u32,) { type Group = GroupA; }
impl Dispatch for (Vec<u8>,) { type Group = GroupB; }
impl Dispatch for (Vec<u16>,) { type Group = GroupB; }
disjoint_impls! {
    pub trait Kita { fn name(&self) -> &'static str; }
    impl<T> Kita for T where (T,): Dispatch<Group = GroupA> { fn name(&self) -> &'static str { "A" } }
    impl<T> Kita for Vec<T> where (Vec<T>,): Dispatch<Group = GroupB> { fn name(&self) -> &'static str { "B" } }
}
fn main(){ println!("{} {}", 1u32.name(), vec![1u8].name()); }
