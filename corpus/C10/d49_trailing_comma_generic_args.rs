// witness: expect=ok stdout=AB
// D49 (repaired, /repo 441aeb6): a trailing comma in the generic arguments / fn inputs of a dispatch-bounded type (`W2<T, u8,>: Dispatch<..>`)
// was dropped when the bound was re-expressed, even for a block of the family's own header: Unable to form impl group.
// Found by C10's identity stage (added after seeded change C10h), replayed.
use disjoint_impls::disjoint_impls;
pub trait Dispatch { type Group; }
pub enum GroupA {}
pub enum GroupB {}
pub struct W2<A, B>(pub A, pub B);
impl Dispatch for W2<String, u8> { type Group = GroupA; }
impl Dispatch for W2<i32, u8> { type Group = GroupB; }
disjoint_impls! {
    pub trait Kita { const NAME: &'static str; }
    impl<T> Kita for T where W2<T, u8,>: Dispatch<Group = GroupA> { const NAME: &'static str = "A"; }
    impl<T> Kita for T where W2<T, u8,>: Dispatch<Group = GroupB> { const NAME: &'static str = "B"; }
}
fn main() { println!("{}{}", <String as Kita>::NAME, <i32 as Kita>::NAME); }
