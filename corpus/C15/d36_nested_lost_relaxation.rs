// witness: expect=finding id=F-D36 stdout=A|B|B
// D36: a nested member whose relaxed dispatch parameter has another canonical number than the family's (B is _ŠČ2 in its block, the family's V is _ŠČ1):
// the relaxation is dropped, the main impl requires V: Sized and `str: Kita<(u8, u8)>` is not satisfied although block 2 applies. Found by the proof of C15_unsized_of_search.
use disjoint_impls::disjoint_impls;
pub trait Dispatch { type Group: ?Sized; }
pub enum GroupA {}
pub enum GroupB {}
disjoint_impls! {
    pub trait Kita<X> { fn name(&self) -> &'static str; }
    impl<T, V: Dispatch<Group = GroupA>> Kita<T> for V { fn name(&self) -> &'static str { "A" } }
    impl<A1, A2, B: ?Sized + Dispatch<Group = GroupB>> Kita<(A1, A2)> for B { fn name(&self) -> &'static str { "B" } }
}
impl Dispatch for u32 { type Group = GroupA; }
impl Dispatch for str { type Group = GroupB; }
impl Dispatch for u8 { type Group = GroupB; }
fn main() {
    println!("{}", <u32 as Kita<u8>>::name(&1));
    println!("{}", <u8 as Kita<(u8, u8)>>::name(&1));
    println!("{}", <str as Kita<(u8, u8)>>::name("x"));
}
