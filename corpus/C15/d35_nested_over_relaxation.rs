// witness: expect=finding id=F-D35 stdout=A_B
// D35: a NESTED block relaxing its own parameter (`impl<U: ?Sized> Kita for Box<U>`): the union of the members' ?Sized sets is taken by SPELLING, U and the family's
// T are both _ŠČ0, so the main impl becomes `impl<_0: ?Sized + Dispatch> Kita for _0` although no block relaxed T: with a by-value `self` method the expansion does
// not compile (E0277) — relaxing Sized in one block makes the invocation fail for the others. Found by the proof of C15_unsized_of_search.
use disjoint_impls::disjoint_impls;
pub trait Dispatch { type Group: ?Sized; }
pub enum GroupA {}
pub enum GroupB {}
disjoint_impls! {
    pub trait Kita { fn name(self) -> &'static str; }
    impl<T: Dispatch<Group = GroupA>> Kita for T { fn name(self) -> &'static str { "A" } }
    impl<U: ?Sized> Kita for Box<U> where Box<U>: Dispatch<Group = GroupB> { fn name(self) -> &'static str { "B" } }
}
impl Dispatch for u32 { type Group = GroupA; }
impl Dispatch for Box<str> { type Group = GroupB; }
fn main() { println!("{} {}", 1u32.name(), Box::<str>::from("x").name()); }
