// D16: expected to print "A B"; rustc: error[E0203]: duplicate relaxed `Sized` bounds
pub trait D { type G; }
pub enum GA {} pub enum GB {}
impl D for str { type G = GA; }
impl D for [u8] { type G = GB; }
pub struct W<T: ?Sized>(core::marker::PhantomData<T>);
disjoint_impls::disjoint_impls! {
    pub trait Kita<X: ?Sized> { const NAME: &'static str; }
    impl<T: ?Sized + D<G = GA>> Kita<T> for W<T> { const NAME: &'static str = "A"; }
    impl<T: ?Sized + D<G = GB>> Kita<T> for W<T> { const NAME: &'static str = "B"; }
}
fn main() { println!("{} {}", <W<str> as Kita<str>>::NAME, <W<[u8]> as Kita<[u8]>>::NAME); }
