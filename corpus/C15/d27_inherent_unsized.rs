// witness: expect=finding id=F-D27 stdout=A_A_B
// D27: inherent mode: the helper trait is declared from the first block with all parameter bounds removed
// (helper_trait.rs:31 remove_param_bounds), so a self-type parameter that the blocks relax with ?Sized is implicitly Sized
// in `_W0<.., T>`: every helper impl and the main impl are rejected (E0277).
use disjoint_impls::disjoint_impls;
use std::marker::PhantomData;
pub trait D { type G; }
pub enum GA {} pub enum GB {}
impl D for str { type G = GA; }
impl D for [u8] { type G = GB; }
impl D for u8 { type G = GA; }
pub struct W<T: ?Sized>(PhantomData<T>);
disjoint_impls! {
    impl<T: ?Sized + D<G = GA>> W<T> { pub const NAME: &'static str = "A"; }
    impl<T: ?Sized + D<G = GB>> W<T> { pub const NAME: &'static str = "B"; }
}
fn main(){ println!("{} {} {}", W::<u8>::NAME, W::<str>::NAME, W::<[u8]>::NAME); }
