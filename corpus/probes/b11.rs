use disjoint_impls::disjoint_impls;
pub trait Dispatch { type Group; }
pub enum GroupA {}
pub enum GroupB {}
impl Dispatch for String { type Group = GroupA; }
impl Dispatch for i32 { type Group = GroupB; }
pub enum GroupC {}
impl Dispatch for u8 { type Group = GroupC; }
disjoint_impls! {
    pub trait Kita { const NAME: &'static str; }
    impl<T: Dispatch<Group = GroupA>, U> Kita for (T, U) { const NAME: &'static str = "A"; }
    impl<T: Dispatch<Group = GroupB>, U> Kita for (T, U) { const NAME: &'static str = "B"; }
    impl<V: Dispatch<Group = GroupC>> Kita for (V, V) { const NAME: &'static str = "C"; }
}
fn main(){ println!("{} {} {}", <(String, u8)>::NAME, <(i32, i32)>::NAME, <(u8,u8)>::NAME); }
