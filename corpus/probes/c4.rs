use disjoint_impls::disjoint_impls;
pub trait Dispatch { type Group; }
pub enum GroupA {}
pub enum GroupB {}
impl Dispatch for String { type Group = GroupA; }
impl Dispatch for i32 { type Group = GroupB; }
pub struct W<T, const N: usize>([T; N]);
disjoint_impls! {
    pub trait Kita { const NAME: &'static str; }
    impl<T: Dispatch<Group = GroupA>, const N: usize> Kita for W<T, N> { const NAME: &'static str = "A"; }
    impl<T: Dispatch<Group = GroupB>, const N: usize> Kita for W<T, N> { const NAME: &'static str = "B"; }
}
fn main(){ println!("{} {}", <W<String,2>>::NAME, <W<i32,2>>::NAME); }
