use disjoint_impls::disjoint_impls;
pub trait Dispatch { type Group; }
pub enum GroupA {}
pub enum GroupB {}
impl Dispatch for String { type Group = GroupA; }
impl Dispatch for i32 { type Group = GroupB; }
disjoint_impls! {
    pub trait Kita<U = u32> { fn f(&self) -> &'static str; }
    impl<T: Dispatch<Group = GroupA>> Kita for T { fn f(&self) -> &'static str { "A" } }
    impl<T: Dispatch<Group = GroupB>> Kita for T { fn f(&self) -> &'static str { "B" } }
}
fn main(){ println!("{} {}", <String as Kita>::f(&String::new()), <i32 as Kita<u32>>::f(&1)); }
