use disjoint_impls::disjoint_impls;
pub trait Dispatch { type Group; }
pub enum GroupA {}
pub enum GroupB {}
impl Dispatch for String { type Group = GroupA; }
impl Dispatch for i32 { type Group = GroupB; }
impl Dispatch for Box<i32> { type Group = GroupA; }
disjoint_impls! {
    pub trait Kita { const NAME: &'static str; }
    impl<T: Dispatch<Group = GroupA>> Kita for T { const NAME: &'static str = "A"; }
    impl<U: Dispatch<Group = GroupB>> Kita for Box<U> { const NAME: &'static str = "B"; }
}
// shadow traits: one per block, same header and bounds
pub trait S1 {} impl<T: Dispatch<Group = GroupA>> S1 for T {}
pub trait S2 {} impl<U: Dispatch<Group = GroupB>> S2 for Box<U> {}
fn both<X: S1 + S2>() {}
fn main(){ both::<Box<i32>>(); println!("{} {}", String::NAME, <Box<i32>>::NAME); }
