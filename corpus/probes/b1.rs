use disjoint_impls::disjoint_impls;
pub trait Dispatch { type Group; }
pub enum GroupA {}
pub enum GroupB {}
impl Dispatch for String { type Group = GroupA; }
impl Dispatch for i32 { type Group = GroupB; }
impl Dispatch for [String; 3] { type Group = GroupA; }
impl Dispatch for [i32; 3] { type Group = GroupB; }
disjoint_impls! {
    pub trait Kita { const NAME: &'static str; }
    impl<T> Kita for T where [T; 2 + 1]: Dispatch<Group = GroupA> { const NAME: &'static str = "A"; }
    impl<U> Kita for U where [U; 2 + 1]: Dispatch<Group = GroupB> { const NAME: &'static str = "B"; }
}
fn main(){ println!("{} {}", String::NAME, i32::NAME); }
