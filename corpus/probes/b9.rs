use disjoint_impls::disjoint_impls;
#[allow(non_camel_case_types)]
pub trait _Kita0 { type Group; }
pub enum GroupA {}
pub enum GroupB {}
impl _Kita0 for String { type Group = GroupA; }
impl _Kita0 for i32 { type Group = GroupB; }
disjoint_impls! {
    pub trait Kita { const NAME: &'static str; }
    impl<T: _Kita0<Group = GroupA>> Kita for T { const NAME: &'static str = "A"; }
    impl<T: _Kita0<Group = GroupB>> Kita for T { const NAME: &'static str = "B"; }
}
fn main(){ println!("{} {}", String::NAME, i32::NAME); }
