use disjoint_impls::disjoint_impls;
pub trait Dispatch { type Group; }
pub enum GroupA {}
pub enum GroupB {}
impl Dispatch for String { type Group = GroupA; }
impl Dispatch for i32 { type Group = GroupB; }
disjoint_impls! {
    pub trait Kita<'a, U> { fn f(&'a self, u: U) -> &'static str; }
    impl<'T, T: Dispatch<Group = GroupA>> Kita<'T, T> for T { fn f(&'T self, _u: T) -> &'static str { "A" } }
    impl<'T, T: Dispatch<Group = GroupB>> Kita<'T, T> for T { fn f(&'T self, _u: T) -> &'static str { "B" } }
}
fn main(){ println!("{} {}", String::new().f(String::new()), 1i32.f(2i32)); }
