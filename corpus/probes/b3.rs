use disjoint_impls::disjoint_impls;
pub trait Dispatch { type Group; }
pub enum GroupA {}
pub enum GroupB {}
impl Dispatch for String { type Group = GroupA; }
impl Dispatch for i32 { type Group = GroupB; }
pub trait Tr<X> { type Out; }
pub enum GroupC {}
impl Dispatch for u8 { type Group = GroupC; }
disjoint_impls! {
    pub trait Kita { const NAME: &'static str; }
    impl<T, U: Dispatch<Group = GroupA>> Kita for (Box<dyn Tr<T, Out = T>>, U) { const NAME: &'static str = "A"; }
    impl<T, U: Dispatch<Group = GroupB>> Kita for (Box<dyn Tr<T, Out = T>>, U) { const NAME: &'static str = "B"; }
    impl<U: Dispatch<Group = GroupC>> Kita for (Box<dyn Tr<i32, Out = u32>>, U) { const NAME: &'static str = "C"; }
}
fn main(){ println!("{}", <(Box<dyn Tr<String, Out=String>>, String)>::NAME);
 println!("{}", <(Box<dyn Tr<i32, Out=u32>>, u8)>::NAME); }
