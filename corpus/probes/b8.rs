use disjoint_impls::disjoint_impls;
pub trait Dispatch { type Group; }
pub enum GroupA {}
pub enum GroupB {}
impl Dispatch for String { type Group = GroupA; }
impl Dispatch for i32 { type Group = GroupB; }
impl Dispatch for Box<str> { type Group = GroupA; }
impl Dispatch for Box<[u8]> { type Group = GroupB; }
disjoint_impls! {
    pub trait Kita { const NAME: &'static str; }
    impl<T: ?Sized> Kita for Box<T> where Box<T>: Dispatch<Group = GroupA> { const NAME: &'static str = "A"; }
    impl<T: ?Sized> Kita for Box<T> where Box<T>: Dispatch<Group = GroupB> { const NAME: &'static str = "B"; }
}
fn main(){ println!("{} {}", <Box<str>>::NAME, <Box<[u8]>>::NAME); }
