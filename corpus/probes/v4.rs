use disjoint_impls::disjoint_impls;
pub trait Dispatch { type Group; }
pub enum GroupA {}
pub enum GroupB {}
impl Dispatch for String { type Group = GroupA; }
impl Dispatch for i32 { type Group = GroupB; }
disjoint_impls! {
    pub unsafe trait Kita { const NAME: &'static str; }
    unsafe impl<T: Dispatch<Group = GroupA>> Kita for T { const NAME: &'static str = "A"; }
    impl<T: Dispatch<Group = GroupB>> Kita for T { const NAME: &'static str = "B"; }
}
fn main(){}
