use disjoint_impls::disjoint_impls;
pub trait Dispatch { type Group; }
pub enum GroupA {}
pub enum GroupB {}
impl Dispatch for String { type Group = GroupA; }
impl Dispatch for i32 { type Group = GroupB; }
pub struct Wrapper<T, U>(T, U);
disjoint_impls! {
    impl<U, T: Dispatch<Group = GroupA>> Wrapper<T, U> { pub fn kita(_a: T, _b: U) -> &'static str { "A" } }
    impl<U, T: Dispatch<Group = GroupB>> Wrapper<T, U> { pub fn kita(_a: T, _b: U) -> &'static str { "B" } }
}
fn main(){ println!("{} {}", <Wrapper<String, u8>>::kita(String::new(), 1u8), <Wrapper<i32, u8>>::kita(1, 1u8)); }
