use disjoint_impls::disjoint_impls;
pub trait Dispatch { type Group; }
pub enum GroupA {}
pub enum GroupB {}
impl Dispatch for String { type Group = GroupA; }
impl Dispatch for i32 { type Group = GroupB; }
pub enum GroupC {}
impl Dispatch for Vec<i32> { type Group = GroupC; }
impl Dispatch for Vec<String> { type Group = GroupA; }
disjoint_impls! {
    pub trait Kita { const NAME: &'static str; }
    impl<T: Dispatch<Group = GroupA>, U: Dispatch<Group = GroupA>> Kita for (T, U) { const NAME: &'static str = "AA"; }
    impl<T: Dispatch<Group = GroupA>, U: Dispatch<Group = GroupB>> Kita for (T, U) { const NAME: &'static str = "AB"; }
    impl<T: Dispatch<Group = GroupB>, U> Kita for (T, Vec<U>) where Vec<U>: Dispatch { const NAME: &'static str = "B*"; }
}
fn main(){ println!("{}", <(String, String)>::NAME);
 println!("{}", <(String, i32)>::NAME);
 println!("{}", <(i32, Vec<i32>)>::NAME); }
