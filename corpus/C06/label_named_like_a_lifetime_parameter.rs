// witness: expect=ok stdout=
// a loop label spelled like the impl lifetime parameter next to its alpha-renamed twin (seeded change C06i stopped renaming label declarations)
// C06: consistently renaming the generic parameters of a block changes neither acceptance
// nor the dispatch result.
//
// `Scan` and `ScanRenamed` are the same invocation up to the name of the lifetime parameter
// of the first block (`'a` vs `'s`). The body of that block uses a loop label `'a`, which lives
// in the name space of labels and is unrelated to the lifetime parameter.
use disjoint_impls::disjoint_impls;

pub trait Dispatch {
    type Group;
}

pub enum GroupA {}
pub enum GroupB {}

impl Dispatch for String {
    type Group = GroupA;
}
impl<T> Dispatch for Vec<T> {
    type Group = GroupA;
}
impl Dispatch for i32 {
    type Group = GroupB;
}
impl Dispatch for u8 {
    type Group = GroupB;
}

// Variant 1: the lifetime parameter is called `'s`, the label `'a`
disjoint_impls! {
    pub trait ScanRenamed<'x> {
        fn first_even(items: &'x [u32]) -> Option<&'x u32>;
    }

    impl<'s, T: Dispatch<Group = GroupA>> ScanRenamed<'s> for T {
        fn first_even(items: &'s [u32]) -> Option<&'s u32> {
            let mut found = None;

            'a: for chunk in items.chunks(2) {
                for item in chunk {
                    if item % 2 == 0 {
                        found = Some(item);
                        break 'a;
                    }
                }
            }

            found
        }
    }
    impl<'s, T: Dispatch<Group = GroupB>> ScanRenamed<'s> for T {
        fn first_even(_: &'s [u32]) -> Option<&'s u32> {
            None
        }
    }
}

// Variant 2: the same invocation, the lifetime parameter of the first block is called `'a`
disjoint_impls! {
    pub trait Scan<'x> {
        fn first_even(items: &'x [u32]) -> Option<&'x u32>;
    }

    impl<'a, T: Dispatch<Group = GroupA>> Scan<'a> for T {
        fn first_even(items: &'a [u32]) -> Option<&'a u32> {
            let mut found = None;

            'a: for chunk in items.chunks(2) {
                for item in chunk {
                    if item % 2 == 0 {
                        found = Some(item);
                        break 'a;
                    }
                }
            }

            found
        }
    }
    impl<'s, T: Dispatch<Group = GroupB>> Scan<'s> for T {
        fn first_even(_: &'s [u32]) -> Option<&'s u32> {
            None
        }
    }
}

fn main() {
    let items = [1, 3, 6, 8, 5];

    assert_eq!(Some(&6), <String as ScanRenamed>::first_even(&items));
    assert_eq!(Some(&6), <Vec<u8> as ScanRenamed>::first_even(&items));
    assert_eq!(None, <i32 as ScanRenamed>::first_even(&items));
    assert_eq!(None, <u8 as ScanRenamed>::first_even(&items));

    assert_eq!(Some(&6), <String as Scan>::first_even(&items));
    assert_eq!(Some(&6), <Vec<u8> as Scan>::first_even(&items));
    assert_eq!(None, <i32 as Scan>::first_even(&items));
    assert_eq!(None, <u8 as Scan>::first_even(&items));
}
