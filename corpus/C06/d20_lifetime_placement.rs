// D20: expected to print "A B" (it does when both bounds of the second block are written inline); observed: proc macro panicked "Unable to form impl group"
pub trait DL<'l> { type G; }
pub enum GA {} pub enum GB {}
pub struct L0; pub struct L1;
impl<'w> DL<'w> for L0 { type G = GA; }
impl<'w> DL<'w> for L1 { type G = GB; }
disjoint_impls::disjoint_impls! {
    pub trait Kita { const NAME: &'static str; }
    impl<'x0, 'x1, T: DL<'x0, G = GA>, U: DL<'x1, G = GA>> Kita for (T, U) { const NAME: &'static str = "A"; }
    impl<'x0, 'x1, T, U: DL<'x1, G = GB>> Kita for (T, U) where T: DL<'x0, G = GA> { const NAME: &'static str = "B"; }
}
fn main() { println!("{} {}", <(L0, L0) as Kita>::NAME, <(L0, L1) as Kita>::NAME); }
