// witness: expect=ok stdout=A_B_2_103
// D22 (fixed, /repo ee0c7f0): the main impl declared the block's const parameters as type parameters (E0423/E0207).
use disjoint_impls::disjoint_impls;
pub trait Dispatch { type Group; }
pub enum GA {} pub enum GB {}
impl Dispatch for u8 { type Group = GA; }
impl Dispatch for u16 { type Group = GB; }
disjoint_impls! {
    pub trait Kita { const NAME: &'static str; fn n(&self) -> usize; }
    impl<const N: usize, T: Dispatch<Group = GA>> Kita for [T; N] { const NAME: &'static str = "A"; fn n(&self) -> usize { N } }
    impl<const N: usize, T: Dispatch<Group = GB>> Kita for [T; N] { const NAME: &'static str = "B"; fn n(&self) -> usize { N + 100 } }
}
fn main() { println!("{} {} {} {}", <[u8; 2] as Kita>::NAME, <[u16; 3] as Kita>::NAME, [1u8, 2].n(), [1u16, 2, 3].n()); }
