// witness: expect=finding id=F-D40 stdout=via_A|via_B
// D40: a dispatch key whose bounded type is a parameter that occurs only in a payload (T: Dispatch<Group = U>, U: Dispatch<Group = GroupA>): the main impl declares
// _ŠČ1 which neither the header nor a projection constrains (E0207); a hand-written encoding dispatches on <<T as Dispatch>::Group as Dispatch>::Group.
use disjoint_impls::disjoint_impls;
pub trait Dispatch { type Group; }
pub enum GroupA {} pub enum GroupB {}
impl Dispatch for u32 { type Group = GroupA; }
impl Dispatch for i32 { type Group = GroupB; }
impl Dispatch for u8 { type Group = u32; }
impl Dispatch for u16 { type Group = i32; }
disjoint_impls! {
    pub trait Kita { fn name(&self) -> &'static str; }
    impl<T: Dispatch<Group = U>, U: Dispatch<Group = GroupA>> Kita for T { fn name(&self) -> &'static str { "via A" } }
    impl<T: Dispatch<Group = U>, U: Dispatch<Group = GroupB>> Kita for T { fn name(&self) -> &'static str { "via B" } }
}
fn main(){ println!("{}", 1u8.name()); println!("{}", 1u16.name()); }
