// witness: expect=finding id=F-D53 stdout=AB
// D53: self type whose definition bounds its parameter (`struct W<T: Clone>`): the main impl drops `T: Clone` (E0277).
use disjoint_impls::disjoint_impls;
pub trait Dispatch { type Group; }
pub enum GroupA {}
pub enum GroupB {}
impl Dispatch for String { type Group = GroupA; }
impl Dispatch for i32 { type Group = GroupB; }
pub struct W<T: Clone>(pub T);
disjoint_impls! {
    pub trait Kita { const NAME: &'static str; }
    impl<T: Clone + Dispatch<Group = GroupA>> Kita for W<T> { const NAME: &'static str = "A"; }
    impl<T: Clone + Dispatch<Group = GroupB>> Kita for W<T> { const NAME: &'static str = "B"; }
}
fn main() { println!("{}{}", <W<String> as Kita>::NAME, <W<i32> as Kita>::NAME); }
