// witness: expect=ok stdout=ok
// D44 (repaired, /repo 0270d47): the repair of D39 names un-passable argument patterns `_arg<idx>`; a signature that already uses that
// identifier (`fn g(_: u32, _arg0: u32)`) bound it twice (E0415). Reported by the sub-agent that seeded C07g as a baseline hole, replayed.
use disjoint_impls::disjoint_impls;
pub trait Dispatch { type Group; }
pub enum GroupA {}
pub enum GroupB {}
impl Dispatch for String { type Group = GroupA; }
impl Dispatch for i32 { type Group = GroupB; }
disjoint_impls! {
    pub trait Kita {
        fn g(_: u32, _arg0: u32) -> u32;
    }
    impl<T: Dispatch<Group = GroupA>> Kita for T { fn g(_: u32, _arg0: u32) -> u32 { 1 } }
    impl<T: Dispatch<Group = GroupB>> Kita for T { fn g(x: u32, _arg0: u32) -> u32 { x } }
}
fn main() {
    assert_eq!(<i32 as Kita>::g(7, 1), 7);
    println!("ok");
}
