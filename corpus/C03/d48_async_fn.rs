// witness: expect=ok stdout=12
// D48 (repaired, /repo 81f363f): an `async fn` of the trait was delegated without `.await` (E0308). Reported by the sub-agent that seeded C14h, replayed.
use disjoint_impls::disjoint_impls;
use std::future::Future;
use std::pin::pin;
use std::task::{Context, Poll, Waker};
pub trait Dispatch { type Group; }
pub enum GroupA {} pub enum GroupB {}
impl Dispatch for String { type Group = GroupA; }
impl Dispatch for u32 { type Group = GroupB; }
disjoint_impls! {
    pub trait Kita { async fn f(&self) -> u8; }
    impl<T: Dispatch<Group = GroupA>> Kita for T { async fn f(&self) -> u8 { 1 } }
    impl<T: Dispatch<Group = GroupB>> Kita for T { async fn f(&self) -> u8 { 2 } }
}
fn block_on<F: Future>(f: F) -> F::Output {
    let mut f = pin!(f);
    let mut cx = Context::from_waker(Waker::noop());
    loop { if let Poll::Ready(v) = f.as_mut().poll(&mut cx) { return v; } }
}
fn main() { println!("{}{}", block_on(String::new().f()), block_on(7u32.f())); }
