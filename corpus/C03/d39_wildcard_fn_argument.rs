// witness: expect=ok stdout=A_B
// D39 (repaired, /repo fb123ce): a trait method with a wildcard argument pattern (`_: u32`): the delegating main impl passed the pattern on as an
// expression (error: in expressions, `_` can only be used on the left-hand side of an assignment).
use disjoint_impls::disjoint_impls;
pub trait Dispatch { type Group; }
pub enum GroupA {} pub enum GroupB {}
impl Dispatch for u32 { type Group = GroupA; }
impl Dispatch for i32 { type Group = GroupB; }
disjoint_impls! {
    pub trait Kita { fn other(&self, _: u32) -> &'static str; }
    impl<T: Dispatch<Group = GroupA>> Kita for T { fn other(&self, _: u32) -> &'static str { "A" } }
    impl<T: Dispatch<Group = GroupB>> Kita for T { fn other(&self, _: u32) -> &'static str { "B" } }
}
fn main(){ println!("{} {}", 1u32.other(0), 1i32.other(0)); }
