// witness: expect=ok stdout=
// `Handler<Out> for fn(T) -> Out` next to `Handler<u32> for fn(T)`: disjoint families (seeded change C03i let a missing return type match `()` and dropped the substitution)
use disjoint_impls::disjoint_impls;

pub trait Request {
    type Kind;
}

pub enum Json {}
pub enum Form {}
pub enum Ping {}
pub enum Probe {}

pub struct JsonReq;
pub struct FormReq;
pub struct PingReq;
pub struct ProbeReq;

impl Request for JsonReq {
    type Kind = Json;
}
impl Request for FormReq {
    type Kind = Form;
}
impl Request for PingReq {
    type Kind = Ping;
}
impl Request for ProbeReq {
    type Kind = Probe;
}

pub trait Status: Copy {
    fn code(self) -> u32;
}
impl Status for u32 {
    fn code(self) -> u32 {
        self
    }
}
impl Status for bool {
    fn code(self) -> u32 {
        if self { 200 } else { 500 }
    }
}

disjoint_impls! {
    /// A handler producing `Out`
    pub trait Handler<Out>: Copy where Out: Status {
        type Req: Request;
        const NAME: &'static str;

        fn handle(&self, req: Self::Req) -> Out;

        fn status(&self, req: Self::Req) -> u32 {
            self.handle(req).code()
        }
    }

    // Family 1: handlers that return their output
    impl<Out: Status, T: Request<Kind = Json>> Handler<Out> for fn(T) -> Out {
        type Req = T;
        const NAME: &'static str = "json";

        fn handle(&self, req: T) -> Out {
            self(req)
        }
    }
    impl<Out: Status, T: Request<Kind = Form>> Handler<Out> for fn(T) -> Out {
        type Req = T;
        const NAME: &'static str = "form";

        fn handle(&self, req: T) -> Out {
            self(req)
        }
    }

    // Family 2: handlers that return nothing always succeed
    impl<T: Request<Kind = Ping>> Handler<u32> for fn(T) {
        type Req = T;
        const NAME: &'static str = "ping";

        fn handle(&self, req: T) -> u32 {
            self(req);
            204
        }
    }
    impl<T: Request<Kind = Probe>> Handler<u32> for fn(T) {
        type Req = T;
        const NAME: &'static str = "probe";

        fn handle(&self, req: T) -> u32 {
            self(req);
            202
        }
    }
}

fn json(_: JsonReq) -> u32 {
    201
}
fn form(_: FormReq) -> bool {
    false
}
fn ping(_: PingReq) {}
fn probe(_: ProbeReq) {}

fn main() {
    let json = json as fn(JsonReq) -> u32;
    let form = form as fn(FormReq) -> bool;
    let ping = ping as fn(PingReq);
    let probe = probe as fn(ProbeReq);

    assert_eq!(<fn(JsonReq) -> u32 as Handler<u32>>::NAME, "json");
    assert_eq!(<fn(FormReq) -> bool as Handler<bool>>::NAME, "form");
    assert_eq!(<fn(PingReq) as Handler<u32>>::NAME, "ping");
    assert_eq!(<fn(ProbeReq) as Handler<u32>>::NAME, "probe");

    assert_eq!(json.status(JsonReq), 201);
    assert_eq!(form.status(FormReq), 500);
    assert_eq!(ping.status(PingReq), 204);
    assert_eq!(probe.status(ProbeReq), 202);
}
