// witness: expect=ok stdout=105_2
// D47 (repaired, /repo 94aac73): any trait bound with parenthesized arguments (`F: Fn(&T) -> usize`), dispatch bound or not, reached
// `unreachable!()` in TraitBound's Hash/Eq/Ord and made the macro panic. Reported by the sub-agent that seeded C11g, replayed.
use disjoint_impls::disjoint_impls;
pub trait Dispatch { type Group; }
pub enum GroupA {}
pub enum GroupB {}
impl Dispatch for String { type Group = GroupA; }
impl Dispatch for i32 { type Group = GroupB; }
impl Dispatch for Vec<i32> { type Group = GroupA; }
disjoint_impls! {
    pub trait Kita<F> { fn run(&self, f: F) -> usize; }
    impl<T: Dispatch<Group = GroupA>, F> Kita<F> for T where F: Fn(&T) -> usize + Send { fn run(&self, f: F) -> usize { f(self) } }
    impl<T: Dispatch<Group = GroupB>, F: FnOnce(&T) -> usize> Kita<F> for T { fn run(&self, f: F) -> usize { f(self) + 100 } }
}
fn main() { println!("{} {}", 5i32.run(|x: &i32| *x as usize), String::from("ab").run(|s: &String| s.len())); }
