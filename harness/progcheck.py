"""Program-level evaluation shared by C01-C08, C14-C17: compile and run the macro program and the
shadow program of a plan and turn the outputs into dispatch tables."""

import re

from . import common as C
from .gen_inv import parse_table


class Eval:
    def __init__(self, plan, macro, shadow):
        self.plan = plan
        self.macro = macro          # result dict of run_programs
        self.shadow = shadow
        self.macro_ok = macro["rc"] == 0 and macro.get("ran") and macro.get("run_rc") == 0
        self.shadow_ok = shadow["rc"] == 0 and shadow.get("ran") and shadow.get("run_rc") == 0
        self.mt = parse_table(macro["stdout"]) if self.macro_ok else {}
        self.st = parse_table(shadow["stdout"]) if self.shadow_ok else {}

    def applicable(self, pi):
        return [bi for bi, v in enumerate(self.st.get(pi, [])) if v == "1"]

    def overlap_probes(self):
        return [pi for pi in self.st if len(self.applicable(pi)) > 1]

    def macro_error_codes(self):
        return error_codes(self.macro)

    def first_error(self):
        for l in self.macro["stderr"].splitlines():
            if l.startswith("error"):
                return l[:300]
        return ""


def error_codes(res):
    return sorted(set(re.findall(r"error\[(E\d+)\]", res["stderr"])))


def error_lines(res):
    return [l for l in res["stderr"].splitlines() if l.startswith("error") and not l.startswith("error: aborting")]


def evaluate(so, plans, need_shadow=True):
    inh = [p for p in plans if p.mode == "inherent"]
    if inh:
        # inherent mode: the macro program may only mention items of probes that match some block; ask the shadow program first
        sres = C.run_programs(so, [("s", p.shadow_program()) for p in inh])
        for p, s in zip(inh, sres):
            ok = s["rc"] == 0 and s.get("ran")
            st = parse_table(s["stdout"]) if ok else {}
            p.notes["probe_pos"] = [("1" in st.get(pi, [])) for pi in range(len(p.probes))]
            p.notes["shadow_result"] = s
    progs = []
    for i, p in enumerate(plans):
        progs.append((f"m{i}", p.macro_program()))
        if need_shadow:
            progs.append((f"s{i}", p.shadow_program()))
    res = C.run_programs(so, progs)
    out = []
    step = 2 if need_shadow else 1
    for i, p in enumerate(plans):
        m = res[step * i]
        s = res[step * i + 1] if need_shadow else {"rc": 1, "stdout": "", "stderr": "", "ran": False}
        out.append(Eval(p, m, s))
    return out


def expected_tag(plan, bi, kind, name, has_default):
    fi, mi, m = plan.blocks()[bi]
    if kind == "type":
        return f"Tag{bi}"
    if has_default and m.overrides is not None and name not in m.overrides:
        return f"dflt.{name}"
    return f"b{bi}.{name}"


def classify_reject(ev):
    """signature of a macro program that does not compile although its shadow program does (for C03 / known findings)"""
    err = ev.macro["stderr"]
    codes = ev.macro_error_codes()
    first = ev.first_error()
    if "proc macro panicked" in err or "proc-macro derive panicked" in err:
        m = re.search(r"message: (.*)", err)
        return "panic:" + (m.group(1)[:80] if m else "")
    return ",".join(codes) + "|" + re.sub(r"`[^`]*`", "`…`", first)[:100]
