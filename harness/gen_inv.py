"""Plan-based generator of `disjoint_impls!` invocations together with the surrounding program
(dispatch-trait world, probes) — DESIGN.md §4.1/§4.2.

A *plan* fixes the intended structure (families -> header, keys, members with their substitution and
payload rows); printing a plan gives the invocation text. The intended semantics is never computed
here: the *shadow program* (one blanket impl of a private marker trait per user block) lets rustc
itself say which blocks apply to which probe."""

import copy
import re
import itertools

from .gen_pat import pr, subst, params_of

MARKERS = ["GA", "GB", "GC", "GD"]
PNAMES = ["T", "U", "V", "X", "Y", "Z"]


def leaf(s):
    return ("leaf", s)


def named(t, names):
    """replace parameter i by the identifier names[i] (types and const params alike)"""
    m = {}
    for pk, i in set(params_of(t)):
        m[i] = ("ty", leaf(names[i])) if pk == "tp" else ("ex", ("path", names[i]))
    return subst(t, m)


class DTrait:
    def __init__(self, name, assocs=("G",), arity=0, unsized_assoc=False, lifetimes=0, consts=0):
        self.name, self.assocs, self.arity, self.unsized_assoc = name, list(assocs), arity, unsized_assoc
        self.lifetimes, self.consts = lifetimes, consts

    def decl(self):
        gs = [f"'l{i}" for i in range(self.lifetimes)] + [f"P{i}" for i in range(self.arity)] + [f"const C{i}: usize" for i in range(self.consts)]
        g = "<" + ", ".join(gs) + ">" if gs else ""
        items = " ".join(f"type {a}{': ?Sized' if self.unsized_assoc else ''};" for a in self.assocs)
        return f"pub trait {self.name}{g} {{ {items} }}"


class Key:
    """(bounded type over family params, dispatch trait index, trait args (type ASTs), assoc name)"""

    def __init__(self, bounded, dt, dargs, assoc):
        self.bounded, self.dt, self.dargs, self.assoc = bounded, dt, list(dargs), assoc


class Member:
    def __init__(self, theta, row, nparams, names=None, decl_order=None, inline=None, extra=None, unsized=None,
                 overrides=None, unsafe=False, vis=None):
        self.theta = theta            # family param -> ('ty', AST over member params); missing = same index
        self.row = row                # per key: payload AST (over member params) | None (wildcard: bound without binding)
        self.nparams = nparams        # number of member params (indices 0..n-1)
        self.const_params = set()     # indices that are declared `const X: usize` (used as ('ep', i) in the header)
        self.names = names or PNAMES[:nparams]
        self.decl_order = decl_order or list(range(nparams))
        self.inline = inline or {}    # key index -> bool (bound written inline on the param when possible)
        self.extra = extra or []      # [(bounded AST, 'Plain' text)] non-dispatch bounds
        self.unsized = unsized or set()   # member param indices relaxed with ?Sized
        self.unsized_where = False
        self.overrides = overrides    # set of trait item names this block defines (None = all)
        self.lifetimes = []           # extra lifetime params used by the header
        self.vis = vis or {}
        self.unsafe = unsafe
        self.tag_as = None
        self.patch = {}               # single-defect mutations for C14: trait_name / drop_item / add_item / unsafe / inherent / as_trait
        self.custom_bounds = None     # [(bounded AST over member params, dtrait idx, [darg ASTs], assoc, payload|None)] replacing the key-derived bounds
        self.tag = None


class Family:
    def __init__(self, self_ty, targs, nparams, keys, members):
        self.self_ty, self.targs, self.nparams, self.keys, self.members = self_ty, list(targs), nparams, keys, members


class Plan:
    def __init__(self):
        self.mode = "trait"
        self.trait_name = "Kita"
        self.trait_unsafe = False
        self.trait_vis = "pub "
        self.trait_generics = []      # list of ('lt', "'a", bounds) | ('ty', 'P', bounds_text, default_text|None) | ('const', 'N', 'usize', default|None)
        self.trait_supers = ""
        self.trait_inner = ""         # inner attributes at the start of the trait body (`#![allow(..)]`, `#![doc = ".."]`)
        self.lt_ty = "&'a u8"         # type of the `ltfn` item: mentions the trait's / the block's lifetime 'a
        self.trait_where = ""
        self.items = [("const", "NAME", False), ("fn", "tag", False), ("fn", "dtag", True)]   # (kind, name, has_default)
        self.dtraits = [DTrait("D0")]
        self.families = []
        self.world = []               # [(dtrait idx, [darg texts], ground type text, {assoc: ground text})]
        self.plain = []               # [(plain trait text, ground type text)]
        self.probes = []              # [(ground self type text, [ground trait arg texts])]
        self.locals = []              # local leaf type names
        self.block_order = None       # permutation of global block indices for printing
        self.inherent_ty = None       # inherent mode: (name, generics decl text)
        self.body_paths = False       # fn bodies mention `Self::<item>` / `<Self>::<item>` paths (expansion-level checks only: in a trait
                                      # family rustc finds such a path ambiguous between the trait and its helper, E0034)
        self.header_qual = ""         # qualifier of the trait path / the self type (inherent mode): `self::` in every block header
        self.trait_extra_items = ""   # further items of the trait definition, verbatim (methods with non-identifier argument patterns)
        self.notes = {}

    # ------------------------------------------------------------------ blocks
    def blocks(self):
        """[(family idx, member idx, Member)] in plan order; global block index = position"""
        out = []
        for fi, f in enumerate(self.families):
            for mi, m in enumerate(f.members):
                out.append((fi, mi, m))
        return out

    def member_header(self, f, m):
        th = {i: m.theta.get(i, ("ty", ("tp", i))) for i in range(f.nparams)}
        return subst(f.self_ty, th), [subst(a, th) for a in f.targs], th

    def block_text(self, bi, shadow=False, with_items=True):
        fi, mi, m = self.blocks()[bi]
        f = self.families[fi]
        self_ty, targs, th = self.member_header(f, m)
        names = m.names
        # bounds: one clause per key, via theta
        inline = {}    # param idx -> [bound text]
        where = []
        clauses = [(subst(k.bounded, th), k.dt, [subst(a, th) for a in k.dargs], k.assoc, m.row[ki]) for ki, k in enumerate(f.keys)]
        if m.custom_bounds is not None:
            clauses = m.custom_bounds
        for ki, (bounded, dti, dargs_ast, assoc_name, payload) in enumerate(clauses):
            dt = self.dtraits[dti]
            dargs = [pr(named(a, names)) for a in dargs_ast]
            parts = list(dargs)
            if payload is not None:
                parts.append(f"{assoc_name} = {pr(named(payload, names))}")
            btxt = dt.name + ("<" + ", ".join(parts) + ">" if parts else "")
            if bounded[0] == "tp" and m.inline.get(ki, True):
                inline.setdefault(bounded[1], []).append(btxt)
            else:
                where.append(f"{pr(named(bounded, names))}: {btxt}")
            red = getattr(m, "redundant", {}).get(ki)
            if red is not None and payload is not None:
                # the same dispatch bound stated a second time without its binding (legal, redundant): (inline?, before?)
                plain_b = dt.name + ("<" + ", ".join(dargs) + ">" if dargs else "")
                if bounded[0] == "tp" and red[0]:
                    lst = inline.setdefault(bounded[1], [])
                    lst.insert(0 if red[1] else len(lst), plain_b)
                else:
                    where.insert(0 if red[1] else len(where), f"{pr(named(bounded, names))}: {plain_b}")
        for b, plain in m.extra:
            if b[0] == "tp" and hash((bi, plain)) % 2 == 0:
                inline.setdefault(b[1], []).append(plain)
            else:
                where.append(f"{pr(named(b, names))}: {plain}")
        for p in sorted(m.unsized):
            if m.unsized_where:
                where.append(f"{names[p]}: ?Sized")
            else:
                inline.setdefault(p, []).insert(0, "?Sized")
        if m.patch.get("no_bounds") and not shadow:
            inline, where = {}, []      # C14: a block of the wrong kind that has no dispatch bounds either (no family can be formed with it)
        decl = list(m.lifetimes)
        eliminated = {p for p, v in m.theta.items() if not params_of(v[1])}     # instantiated by a concrete type: not a parameter of this block
        for p in m.decl_order:
            if p in eliminated:
                continue
            bs = inline.get(p, [])
            if p in m.const_params:
                decl.append(f"const {names[p]}: usize")
                continue
            decl.append(names[p] + (": " + " + ".join(bs) if bs else ""))
        generics = "<" + ", ".join(decl) + ">" if decl else ""
        wh = " where " + ", ".join(where) if where else ""
        force_inherent = m.patch.get("inherent") and not shadow
        force_trait = m.patch.get("as_trait") if not shadow else None
        if (self.mode == "trait" or shadow or force_trait) and not force_inherent:
            tname = f"S{bi}" if shadow else (force_trait or m.patch.get("trait_name") or self.trait_name)
            ta = "<" + ", ".join(pr(named(a, names)) for a in targs) + ">" if targs else ""
            uns = "unsafe " if (self.trait_unsafe and not shadow) or (m.unsafe and not shadow) else ""
            if "unsafe" in m.patch and not shadow:
                uns = "unsafe " if m.patch["unsafe"] else ""
            st = pr(named(self_ty, names))
            if m.patch.get("paren_self") and not shadow:
                st = "(" + st + ")"     # a syntactic twin of the header: same type, another ImplGroupId
            qual = self.header_qual if (not shadow and not force_trait and self.mode == "trait") else ""
            head = f"{uns}impl{generics} {qual}{tname}{ta} for {st}{wh}"
        else:
            head = f"impl{generics} {self.header_qual if not shadow else ''}{pr(named(self_ty, names))}{wh}"
        if shadow or not with_items:
            return head + " {}"
        return head + " { " + " ".join(self.block_items(bi, m)) + " }"

    def block_items(self, bi, m):
        out = []
        if m.patch.get("add_item"):
            out.append(m.patch["add_item"])
        for kind, name, has_default in self.items:
            if has_default and m.overrides is not None and name not in m.overrides:
                continue
            if m.patch.get("drop_item") == name:
                continue
            vis = m.vis.get(name, "")
            if m.patch.get("vis_flip") == name:
                vis = "" if vis else "pub "      # C14: one item with another visibility than in the sibling blocks
            tag = f"b{bi}.{name}" if m.tag_as is None else f"{m.tag_as}.{name}"
            if self.body_paths and kind in ("fn", "method", "ufn"):
                # the user's body is kept verbatim whatever it mentions (seeded change C01g rewrote `Self::<item>` paths)
                nm = [n_ for k_, n_, _ in self.items if k_ in ("const", "fn", "ufn")]
                refs = " ".join(f"let _ = Self::{n_};" for n_ in nm[:2]) + (f" let _ = <Self>::{nm[0]}; let _ = Self::{nm[0]}.len();" if nm else "")
                tag = tag + '" } else { ' + refs + ' "' + tag      # closes the string: `{ if true { "tag" } else { …; "tag" } }`
                rcv = "&self" if kind == "method" else ""
                uns_ = "unsafe " if kind == "ufn" else ""
                out.append(f'{vis}{uns_}fn {name}({rcv}) -> &\'static str {{ if true {{ "{tag}" }} }}')
                continue
            if kind == "const":
                out.append(f'{vis}const {name}: &\'static str = "{tag}";')
            elif kind == "type":
                out.append(f"{vis}type {name} = Tag{bi if m.tag_as is None else 0};")
            elif kind == "fn":
                out.append(f'{vis}fn {name}() -> &\'static str {{ "{tag}" }}')
            elif kind == "method":
                out.append(f'{vis}fn {name}(&self) -> &\'static str {{ "{tag}" }}')
            elif kind == "ltfn":
                out.append(f"{vis}fn {name}(x: {self.lt_ty}) -> {self.lt_ty} {{ x }}")
            elif kind == "ufn":
                out.append(f'{vis}unsafe fn {name}() -> &\'static str {{ "{tag}" }}')
            elif kind in ("tpfn", "pdfn"):
                fi_ = self.blocks()[bi][0]
                f_ = self.families[fi_]
                _st, targs_, _th = self.member_header(f_, m)
                tys = [a for a in targs_ if a[0] not in ("lt_", "cst_")]
                arg = pr(named(tys[0], m.names)) if tys else "u8"
                if kind == "tpfn":
                    out.append(f"{vis}fn {name}(x: Option<{arg}>) -> Option<{arg}> {{ x }}")
                elif m.overrides is None or name in m.overrides:
                    out.append(f'{vis}fn {name}() -> &\'static str {{ "{tag}" }}')
            elif kind == "cfgdup":
                # the same item once per `cfg` alternative: legal Rust (the inactive one is dropped before name resolution); seeded change C14i
                out.append(f"#[cfg(any())] {vis}fn {name}() -> u8 {{ 0 }} #[cfg(not(any()))] {vis}fn {name}() -> u8 {{ {1 + bi % 100} }}")
            elif kind == "cfgoff":
                # an item that the current build configures out (`cfg(any())` is always false), with its attributes: seeded change C17i
                out.append(f"#[cfg(any())] #[doc = \" off\"] {vis}const {name}: u8 = 1;")
            elif kind == "gfn":
                # a generic method whose const parameter is declared BEFORE its type parameter (seeded changes C03h / C17h forwarded the
                # method's generics explicitly, types first)
                out.append(f"{vis}fn {name}<const GN: usize, GX: Clone>(x: GX) -> [GX; GN] {{ core::array::from_fn(|_| x.clone()) }}")
            elif kind == "afn":
                # declared `-> impl Future` in the trait (and written that way in odd-numbered blocks), `async fn` in even-numbered blocks:
                # legal Rust, the qualifiers of a block's fn need not be those of the declaration (seeded change C14h)
                if bi % 2 == 0:
                    out.append(f"{vis}async fn {name}(&self) -> u8 {{ {bi % 200} }}")
                else:
                    out.append(f"{vis}fn {name}(&self) -> impl core::future::Future<Output = u8> {{ async {{ {bi % 200} }} }}")
            elif kind == "elfn":
                # a late-bound lifetime named in the trait (and in even-numbered blocks), elided in odd-numbered blocks: legal Rust
                if bi % 2 == 0:
                    out.append(f"{vis}fn {name}<'q>(x: &'q u8) -> &'q u8 {{ x }}")
                else:
                    out.append(f"{vis}fn {name}(x: &u8) -> &u8 {{ x }}")
            elif kind == "pfn":
                fi = self.blocks()[bi][0]
                n = self.families[fi].nparams
                args = ", ".join(f"_a{i}: Option<&{m.names[i]}>" if i not in m.const_params else f"_a{i}: Option<&[u8; {m.names[i]}]>" for i in range(n))
                out.append(f'{vis}fn {name}({args}) -> &\'static str {{ "{tag}" }}')
        return out

    def trait_text(self):
        gens = []
        for g in self.trait_generics:
            if g[0] == "lt":
                gens.append(g[1] + (": " + g[2] if g[2] else ""))
            elif g[0] == "ty":
                gens.append(g[1] + (": " + g[2] if g[2] else "") + (" = " + g[3] if g[3] else ""))
            else:
                gens.append(f"const {g[1]}: {g[2]}" + (" = " + g[3] if g[3] else ""))
        gtxt = "<" + ", ".join(gens) + ">" if gens else ""
        items = []
        for kind, name, has_default in self.items:
            if kind == "const":
                items.append(f"const {name}: &'static str" + (f' = "dflt.{name}"' if has_default else "") + ";")
            elif kind == "type":
                items.append(f"type {name};")
            elif kind == "fn":
                items.append(f"fn {name}() -> &'static str" + (f' {{ "dflt.{name}" }}' if has_default else ";"))
            elif kind == "method":
                items.append(f"fn {name}(&self) -> &'static str" + (f' {{ "dflt.{name}" }}' if has_default else ";"))
            elif kind == "ltfn":
                items.append(f"fn {name}(x: {self.lt_ty}) -> {self.lt_ty};")
            elif kind == "cfgdup":
                items.append(f"fn {name}() -> u8;")
            elif kind == "cfgoff":
                items.append(f"#[cfg(any())] const {name}: u8;")
            elif kind == "gfn":
                items.append(f"fn {name}<const GN: usize, GX: Clone>(x: GX) -> [GX; GN];")
            elif kind == "afn":
                items.append(f"fn {name}(&self) -> impl core::future::Future<Output = u8>;")
            elif kind == "elfn":
                items.append(f"fn {name}<'q>(x: &'q u8) -> &'q u8;")
            elif kind in ("tpfn", "pdfn"):
                tp0 = next((g[1] for g in self.trait_generics if g[0] == "ty"), None)
                if tp0 and kind == "tpfn":
                    items.append(f"fn {name}(x: Option<{tp0}>) -> Option<{tp0}>;")
                elif tp0:
                    # the parameter as a PATH PREFIX in expression position inside a default body
                    items.append(f'fn {name}() -> &\'static str {{ let _x = {tp0}::default(); "dflt.{name}" }}')
        uns = "unsafe " if self.trait_unsafe else ""
        return f"{self.trait_vis}{uns}trait {self.trait_name}{gtxt}{self.trait_supers}{self.trait_where} {{ {self.trait_inner}{' '.join(items)}{self.trait_extra_items} }}"

    def order(self):
        n = len(self.blocks())
        return self.block_order if self.block_order is not None else list(range(n))

    def invocation_text(self):
        parts = []
        if self.mode == "trait":
            parts.append(self.trait_text())
        for bi in self.order():
            parts.append(self.block_text(bi))
        return " ".join(parts)

    # ------------------------------------------------------------------ whole programs
    def prelude(self):
        out = ["#![allow(warnings)]", "use core::marker::PhantomData;"]
        for m in MARKERS:
            out.append(f"pub enum {m} {{}}")
        for l in self.locals:
            out.append(f"pub struct {l};")
        out.append("pub struct W1<T: ?Sized>(PhantomData<T>); pub struct W2<T: ?Sized, U: ?Sized>(PhantomData<T>, PhantomData<U>);")
        out.append("pub trait PlainD<X: ?Sized> {}")
        out.append("pub trait Plain0 {} pub trait Plain1 {} impl Plain0 for u8 {} impl Plain0 for u16 {} impl Plain0 for String {} impl<A: Plain0, B: Plain0> Plain0 for (A, B) {}")
        if self.inherent_ty:
            out.append(self.inherent_ty)
        for bi in range(len(self.blocks())):
            out.append(f"pub struct Tag{bi};")
        for d in self.dtraits:
            out.append(d.decl())
        for dt, dargs, ty, assocs in self.world:
            d = self.dtraits[dt]
            ta = "<" + ", ".join(dargs) + ">" if dargs else ""
            body = " ".join(f"type {a} = {v};" for a, v in assocs.items())
            lts = sorted({a for a in dargs if a.startswith("'") and a != "'static"})
            out.append(f"impl{'<' + ', '.join(lts) + '>' if lts else ''} {d.name}{ta} for {ty} {{ {body} }}")
        for plain, ty in self.plain:
            if plain == "Plain0" and (ty in ("u8", "u16", "String") or ty.startswith("(")):
                continue
            if plain == "Clone":
                # std implements Clone structurally; only the local leaf types need an impl
                if re.fullmatch(r"[A-Z][A-Za-z0-9]*", ty) and ty not in ("String",):
                    out.append(f"impl Clone for {ty} {{ fn clone(&self) -> Self {{ loop {{}} }} }}")
                continue
            out.append(f"impl {plain} for {ty} {{}}")
        out.append(PROBE_MACROS)
        return "\n".join(out)

    def trait_ref(self, targs, shadow_idx=None):
        name = f"S{shadow_idx}" if shadow_idx is not None else self.trait_name
        return name + ("<" + ", ".join(targs) + ">" if targs else "")

    def macro_program(self):
        if self.mode == "inherent":
            return self.inherent_program()
        lines = [self.prelude(), "disjoint_impls::disjoint_impls! { " + self.invocation_text() + " }", "fn main() {"]
        for pi, (ty, targs) in enumerate(self.probes):
            tr = self.trait_ref(targs)
            lines.append(f'  print!("{pi} {{}}", impls!({ty}: {tr}));')
            for kind, name, _ in self.items:
                if kind in ("const",):
                    lines.append(f'  print!(" {{}}", item_const!({ty}, {tr}, {name}));')
                elif kind == "fn":
                    lines.append(f'  print!(" {{}}", item_fn!({ty}, {tr}, {name}));')
                elif kind == "type":
                    lines.append(f'  print!(" {{}}", item_type!({ty}, {tr}, {name}));')
            lines.append('  println!();')
        lines.append("}")
        return "\n".join(lines)

    def inherent_program(self, outside=False):
        """items are read through the type itself (no trait import); only probes known to match some block are
        referenced (`probe_pos`, filled in from the shadow program's answer)"""
        inv = "disjoint_impls::disjoint_impls! { " + self.invocation_text() + " }"
        lines = [self.prelude(), inv, "fn main() {"]
        pos = self.notes.get("probe_pos") or [True] * len(self.probes)
        for pi, (ty, targs) in enumerate(self.probes):
            if not pos[pi]:
                lines.append(f'  println!("{pi} 0");')
                continue
            lines.append(f'  print!("{pi} 1");')
            for kind, name, _ in self.items:
                if kind == "const":
                    lines.append(f'  print!(" {{}}", <{ty}>::{name});')
                elif kind == "fn":
                    lines.append(f'  print!(" {{}}", <{ty}>::{name}());')
                elif kind == "ufn":
                    lines.append(f'  print!(" {{}}", unsafe {{ <{ty}>::{name}() }});')
                elif kind == "pfn":
                    n = max(f.nparams for f in self.families)
                    lines.append(f'  print!(" {{}}", <{ty}>::{name}({", ".join(["None"] * self.notes.get("pfn_arity", n))}));')
            lines.append("  println!();")
        lines.append("}")
        return "\n".join(lines)

    # ------------------------------------------------------------------ hand-written style reference encoding (C03)
    def reference_program(self):
        """the plan encoded with helper traits the way one would write it by hand: one helper trait per family whose leading
        parameters are the family's keys, one helper impl per block, one blanket impl of the trait per family delegating to
        the helper. Built from the plan's own structure (families/keys/rows), not from anything the macro computes."""
        assert self.mode == "trait"
        lines = [self.prelude()]
        # the trait itself
        lines.append(self.trait_text())
        tg_decl, tg_use = [], []
        for g in self.trait_generics:
            if g[0] == "lt":
                tg_decl.append(g[1] + (": " + g[2] if g[2] else ""))
            elif g[0] == "ty":
                tg_decl.append(g[1] + (": " + g[2] if g[2] else "") + (" = " + g[3] if g[3] else ""))
            else:
                tg_decl.append(f"const {g[1]}: {g[2]}")
        nlt = sum(1 for g in self.trait_generics if g[0] == "lt")
        bi = 0
        fam_names = ["F0", "F1", "F2", "F3", "F4", "F5", "F6", "F7"]
        for fi, f in enumerate(self.families):
            nk = len(f.keys)
            kdecl = [f"K{i}: ?Sized" for i in range(nk)]
            lts = [d for d, g in zip(tg_decl, self.trait_generics) if g[0] == "lt"]
            rest = [d for d, g in zip(tg_decl, self.trait_generics) if g[0] != "lt"]
            hgen = "<" + ", ".join(lts + kdecl + rest) + ">" if (lts or kdecl or rest) else ""
            items = []
            for kind, name, has_default in self.items:
                if kind == "const":
                    items.append(f"const {name}: &'static str" + (f' = "dflt.{name}"' if has_default else "") + ";")
                elif kind == "type":
                    items.append(f"type {name};")
                elif kind == "fn":
                    items.append(f"fn {name}() -> &'static str" + (f' {{ "dflt.{name}" }}' if has_default else ";"))
                elif kind == "ltfn":
                    items.append(f"fn {name}(x: {self.lt_ty}) -> {self.lt_ty};")
            uns = "unsafe " if self.trait_unsafe else ""
            lines.append(f"pub {uns}trait H{fi}{hgen}{self.trait_supers}{self.trait_where} {{ {' '.join(items)} }}")
            # full list of trait arguments of this family (defaults filled in)
            def full_targs(targs_txt):
                out = list(targs_txt)
                for g in self.trait_generics[len(out):]:
                    out.append(g[3] if g[0] == "ty" and g[3] else "u8")
                return out
            # helper impls
            for mi, m in enumerate(f.members):
                self_ty, targs, th = self.member_header(f, m)
                names = m.names
                txt = self.block_text(bi)
                # header of the user's block up to the first ` {` is reused: swap the trait reference
                head, body = txt.split(" { ", 1)
                targs_txt = full_targs([pr(named(a, names)) for a in targs])
                row = []
                for ki, k in enumerate(f.keys):
                    if m.row[ki] is not None:
                        row.append(pr(named(m.row[ki], names)))
                    else:
                        d = self.dtraits[k.dt]
                        da = [pr(named(subst(a, th), names)) for a in k.dargs]
                        row.append(f"<{pr(named(subst(k.bounded, th), names))} as {d.name}{'<' + ', '.join(da) + '>' if da else ''}>::{k.assoc}")
                lt_args = targs_txt[:nlt]
                hargs = lt_args + row + targs_txt[nlt:]
                old_ref = self.trait_name + ("<" + ", ".join(pr(named(a, names)) for a in targs) + ">" if targs else "")
                new_ref = f"H{fi}" + ("<" + ", ".join(hargs) + ">" if hargs else "")
                head = head.replace(f" {old_ref} for ", f" {new_ref} for ", 1)
                lines.append(head + " { " + body)
                bi += 1
            # main impl over the family's own parameters
            fn = fam_names[: f.nparams]
            relaxed = set()
            for m in f.members:
                for p in m.unsized:
                    # which family parameter does the member's parameter p stand for? (identity unless nested)
                    relaxed.add(p)
            decl = [d.split(" = ")[0] if False else None for d in []]
            lt_decl = [g[1] + (": " + g[2] if g[2] else "") for g in self.trait_generics if g[0] == "lt"]
            gens = lt_decl + [n_ + (": ?Sized" if i in relaxed else "") for i, n_ in enumerate(fn)]
            targs_txt = full_targs([pr(named(a, fn + fam_names[f.nparams:])) for a in f.targs])
            # parameters that occur only in the trait arguments
            used = set(i for _, i in params_of(f.self_ty))
            for a in f.targs:
                for _, i in params_of(a):
                    if i >= f.nparams and i not in used:
                        used.add(i)
                        gens.append(fam_names[i])
            where = []
            projs = []
            for k in f.keys:
                d = self.dtraits[k.dt]
                da = [pr(named(a, fam_names)) for a in k.dargs]
                dref = d.name + ("<" + ", ".join(da) + ">" if da else "")
                where.append(f"{pr(named(k.bounded, fam_names))}: {dref}")
                projs.append(f"<{pr(named(k.bounded, fam_names))} as {dref}>::{k.assoc}")
            # bounds the trait puts on its parameters, instantiated
            tys = [g for g in self.trait_generics if g[0] != "lt"]
            for g, a in zip(tys, targs_txt[nlt:]):
                if g[0] == "ty" and g[2] and g[2] != "?Sized":
                    where.append(f"{a}: {g[2]}")
            hargs = targs_txt[:nlt] + projs + targs_txt[nlt:]
            href = f"H{fi}" + ("<" + ", ".join(hargs) + ">" if hargs else "")
            where.append(f"Self: {href}")
            items = []
            for kind, name, has_default in self.items:
                if kind == "const":
                    items.append(f"const {name}: &'static str = <Self as {href}>::{name};")
                elif kind == "type":
                    items.append(f"type {name} = <Self as {href}>::{name};")
                elif kind == "fn":
                    items.append(f"fn {name}() -> &'static str {{ <Self as {href}>::{name}() }}")
                elif kind == "ltfn":
                    items.append(f"fn {name}(x: {self.lt_ty}) -> {self.lt_ty} {{ <Self as {href}>::{name}(x) }}")
            tref_ = self.trait_name + ("<" + ", ".join(targs_txt) + ">" if targs_txt else "")
            gtxt = "<" + ", ".join(gens) + ">" if gens else ""
            lines.append(f"{uns}impl{gtxt} {tref_} for {pr(named(f.self_ty, fam_names))} where {', '.join(where)} {{ {' '.join(items)} }}")
        lines.append("fn main() {")
        for pi, (ty, targs) in enumerate(self.probes):
            tr = self.trait_ref(targs)
            lines.append(f'  print!("{pi} {{}}", impls!({ty}: {tr}));')
            for kind, name, _ in self.items:
                if kind in ("const",):
                    lines.append(f'  print!(" {{}}", item_const!({ty}, {tr}, {name}));')
                elif kind == "fn":
                    lines.append(f'  print!(" {{}}", item_fn!({ty}, {tr}, {name}));')
                elif kind == "type":
                    lines.append(f'  print!(" {{}}", item_type!({ty}, {tr}, {name}));')
            lines.append('  println!();')
        lines.append("}")
        return "\n".join(lines)

    def shadow_program(self):
        lines = [self.prelude()]
        nb = len(self.blocks())
        # shadow traits take the main trait's generic parameters
        gens = []
        for g in self.trait_generics:
            if g[0] == "lt":
                gens.append(g[1] + (": " + g[2] if g[2] else ""))
            elif g[0] == "ty":
                gens.append(g[1] + (": ?Sized" if "?Sized" in (g[2] or "") else "") + (" = " + g[3] if g[3] else ""))
            else:
                gens.append(f"const {g[1]}: {g[2]}")
        gtxt = "<" + ", ".join(gens) + ">" if gens else ""
        for bi in range(nb):
            lines.append(f"pub trait S{bi}{gtxt} {{}}")
            lines.append(self.block_text(bi, shadow=True))
        lines.append("fn main() {")
        for pi, (ty, targs) in enumerate(self.probes):
            lines.append(f'  print!("{pi}");')
            for bi in range(nb):
                lines.append(f'  print!(" {{}}", impls!({ty}: {self.trait_ref(targs, bi)}));')
            lines.append("  println!();")
        lines.append("}")
        return "\n".join(lines)


PROBE_MACROS = r"""
macro_rules! impls { ($t:ty : $($tr:tt)+) => {{
    struct Wp<T: ?Sized>(PhantomData<T>);
    trait No { const V: u8 = 0; } impl<T: ?Sized> No for Wp<T> {}
    impl<T: ?Sized + $($tr)+> Wp<T> { const V: u8 = 1; }
    <Wp<$t>>::V }} }
macro_rules! item_const { ($t:ty, $tr:path, $name:ident) => {{
    struct Wp<T: ?Sized>(PhantomData<T>);
    trait No { fn get(&self) -> &'static str { "-" } } impl<T: ?Sized> No for &Wp<T> {}
    trait Yes { fn get(&self) -> &'static str; } impl<T: ?Sized + $tr> Yes for Wp<T> { fn get(&self) -> &'static str { <T as $tr>::$name } }
    (&Wp::<$t>(PhantomData)).get() }} }
macro_rules! item_fn { ($t:ty, $tr:path, $name:ident) => {{
    struct Wp<T: ?Sized>(PhantomData<T>);
    trait No { fn get(&self) -> &'static str { "-" } } impl<T: ?Sized> No for &Wp<T> {}
    trait Yes { fn get(&self) -> &'static str; } impl<T: ?Sized + $tr> Yes for Wp<T> { fn get(&self) -> &'static str { <T as $tr>::$name() } }
    (&Wp::<$t>(PhantomData)).get() }} }
macro_rules! item_type { ($t:ty, $tr:path, $name:ident) => {{
    struct Wp<T: ?Sized>(PhantomData<T>);
    trait No { fn get(&self) -> &'static str { "-" } } impl<T: ?Sized> No for &Wp<T> {}
    trait Yes { fn get(&self) -> &'static str; } impl<T: ?Sized + $tr> Yes for Wp<T> { fn get(&self) -> &'static str { core::any::type_name::<<T as $tr>::$name>() } }
    (&Wp::<$t>(PhantomData)).get() }} }
"""


def parse_table(stdout):
    """-> {probe idx: [fields]}"""
    out = {}
    for line in stdout.splitlines():
        parts = line.split()
        if parts and parts[0].isdigit():
            out[int(parts[0])] = [x.rsplit("::", 1)[-1] for x in parts[1:]]
    return out


# ---------------------------------------------------------------------------------------------
# random plans
# ---------------------------------------------------------------------------------------------
HEADER_SHAPES = [
    (1, ("tp", 0)),
    (1, ("tp", 0)),
    (2, ("tuple", [("tp", 0), ("tp", 1)])),
    (1, ("ctor", "Vec", [("aty", ("tp", 0))])),
    (1, ("ctor", "Box", [("aty", ("tp", 0))])),
    (1, ("ctor", "Option", [("aty", ("tp", 0))])),
    (1, ("ctor", "W1", [("aty", ("tp", 0))])),
    (2, ("ctor", "W2", [("aty", ("tp", 0)), ("aty", ("tp", 1))])),
    (1, ("array", ("tp", 0), ("lit", "2"))),
    (1, ("ref", None, False, ("tp", 0))),
    (3, ("tuple", [("tp", 0), ("tp", 1), ("tp", 2)])),
]

NEST = [
    lambda v: ("ctor", "Vec", [("aty", v)]),
    lambda v: ("ctor", "Option", [("aty", v)]),
    lambda v: ("ctor", "Box", [("aty", v)]),
    lambda v: ("ctor", "W1", [("aty", v)]),
    lambda v: ("tuple", [v, ("leaf", "u8")]),
    lambda v: ("tuple", [v]),          # `(T,)`: the trailing comma is part of the type (repaired defect D43)
]


class PlanGen:
    def __init__(self, rng):
        self.r = rng
        self.fresh = 0

    def pick(self, xs):
        return xs[self.r.randrange(len(xs))]

    def local(self, plan):
        name = f"L{len(plan.locals)}"
        plan.locals.append(name)
        return name

    def ground(self, plan, depth=1):
        """a ground type text built mostly from fresh local leaves"""
        r = self.r
        c = r.random()
        if depth <= 0 or c < 0.6:
            return self.local(plan) if (r.random() < 0.85 or plan.notes.get("keep_plain")) else self.pick(["i32", "String", "u8"])
        if c < 0.75:
            return f"Vec<{self.ground(plan, depth - 1)}>"
        if c < 0.85:
            return f"Option<{self.ground(plan, depth - 1)}>"
        if c < 0.93:
            return f"({self.ground(plan, depth - 1)}, {self.ground(plan, depth - 1)})"
        return f"W1<{self.ground(plan, depth - 1)}>"

    def payload(self, nparams_before, allow_generic=True):
        """returns (payload AST, number of new payload-only params)"""
        r = self.r
        c = r.random()
        if not allow_generic or c < 0.7:
            return leaf(self.pick(MARKERS)), 0
        p = ("tp", nparams_before)
        if c < 0.85:
            return ("ctor", "Vec", [("aty", p)]), 1
        if c < 0.93:
            return ("tuple", [p, leaf(self.pick(MARKERS))]), 1
        return ("ctor", "Option", [("aty", p)]), 1

    def family(self, plan, targs_fn=None, nested=True, max_members=3, generic_payloads=True, wildcard=True, extra_bounds=True):
        r = self.r
        nparams, self_ty = self.pick(HEADER_SHAPES)
        self_ty = copy.deepcopy(self_ty)
        targs = targs_fn(nparams) if targs_fn else []
        # keys: 1-3, each on a family param (or a type built from one), over available dispatch traits
        nkeys = self.pick([1, 1, 1, 2, 2, 3])
        keys = []
        used = set()
        for _ in range(nkeys):
            p = r.randrange(nparams)
            dt = r.randrange(len(plan.dtraits))
            d = plan.dtraits[dt]
            assoc = self.pick(d.assocs)
            if r.random() < 0.2:
                bounded = self.pick(NEST[:4])(("tp", p))
            else:
                bounded = ("tp", p)
            dargs = [("lt_", f"'x{len(keys)}") for _ in range(d.lifetimes)] + [leaf(self.pick(["u8", "i32"])) for _ in range(d.arity)] + \
                [("cst_", ("lit", self.pick(["1", "2"]))) for _ in range(d.consts)]
            sig = (repr(bounded), dt, repr(dargs), assoc)
            if sig in used:
                continue
            used.add(sig)
            keys.append(Key(bounded, dt, dargs, assoc))
        nmem = self.pick([2, 2, 3][: max(1, max_members - 1)] + [max_members])
        members = []
        rows = []
        attempts = 0
        while len(members) < nmem and attempts < 40:
            attempts += 1
            # member header: same as family or nested
            theta = {}
            mparams = nparams
            if nested and members and r.random() < 0.3:
                p = r.randrange(nparams)
                theta[p] = ("ty", self.pick(NEST)(("tp", p)))
            row = []
            np_ = mparams
            for k in keys:
                if wildcard and members and r.random() < 0.12:
                    row.append(None)
                    continue
                pl, extra = self.payload(np_, generic_payloads and not plan.dtraits[k.dt].lifetimes)
                np_ += extra
                row.append(pl)
            if theta and generic_payloads and r.random() < 0.4:
                # the binding of a NESTED member mentions the very expression its header instantiates the family's parameter with
                # (`impl<U> Kita for Vec<U> where Vec<U>: D<G = W1<Vec<U>>>`): the row must hold the member's own binding, not a
                # re-expression of it over the family's parameters (seeded change C11g)
                cand = [ki for ki, (k, e) in enumerate(zip(keys, row)) if e is not None and not params_of(e) and not plan.dtraits[k.dt].lifetimes]
                if cand:
                    ki = self.pick(cand)
                    img = list(theta.values())[0][1]
                    row[ki] = ("ctor", "W1", [("aty", img)]) if r.random() < 0.6 else ("tuple", [img, leaf(self.pick(MARKERS))])
            if any(_rows_unify(row, other) for other in rows):
                continue
            rows.append(row)
            m = Member(theta, row, np_)
            m.decl_order = list(range(np_))
            if r.random() < 0.4:
                r.shuffle(m.decl_order)
            m.names = self.names(np_)
            # bound-only lifetimes used as arguments of dispatch traits: declared by every member, in its own order and spelling
            lts = [a[1] for k in keys for a in k.dargs if a[0] == "lt_"]
            if lts:
                m.lifetimes = list(lts)
                if r.random() < 0.5:
                    m.lifetimes.reverse()
            m.inline = {ki: r.random() < 0.6 for ki in range(len(keys))}
            if extra_bounds and r.random() < 0.15:
                m.redundant = {r.randrange(len(keys)): (r.random() < 0.5, r.random() < 0.5)}
            if extra_bounds and r.random() < 0.3:
                m.extra.append((("tp", r.randrange(nparams)), self.pick(["Plain0", "Plain1"])))
            simple = [d_ for d_ in plan.dtraits if not (d_.arity or d_.lifetimes or d_.consts or d_.unsized_assoc)]
            if extra_bounds and simple and r.random() < 0.18:
                # a non-dispatch bound whose ARGUMENT mentions a dispatch trait with bindings (`T: PlainD<dyn D0<G = GB>>`):
                # the nested bound constrains the trait object, not T
                d_ = self.pick(simple)
                obj = "dyn " + d_.name + "<" + ", ".join(f"{a_} = {self.pick(MARKERS)}" for a_ in d_.assocs) + ">"
                m.extra.append((("tp", r.randrange(nparams)), f"PlainD<{obj}>"))
            if extra_bounds and simple and r.random() < 0.1:
                # … and a non-dispatch predicate whose BOUNDED type contains such a trait object (`Box<dyn D0<G = GB>>: Plain1`): the binding
                # inside it bounds nothing of the block (defect D55, repaired: the visitor descended into the bounded type)
                d_ = self.pick(simple)
                obj = "dyn " + d_.name + "<" + ", ".join(f"{a_} = {self.pick(MARKERS)}" for a_ in d_.assocs) + ">"
                m.extra.append((leaf(f"Box<{obj}>"), self.pick(["Plain0", "Plain1"])))
            has_dflt = [n for _, n, d in plan.items if d]
            m.overrides = {n for n in has_dflt if r.random() < 0.5}
            members.append(m)
        return Family(self_ty, targs, nparams, keys, members)

    def names(self, n):
        r = self.r
        c = r.random()
        if c < 0.6:
            pool = PNAMES[:]
        elif c < 0.8:
            pool = ["A", "B", "C", "E", "F", "H"]
        else:
            pool = ["T0", "T1", "T2", "T3", "T4", "T5"]
        if r.random() < 0.5:
            r.shuffle(pool)
        return pool[:n]

    def witness(self, plan, fi, mi, partial=False):
        """add world impls that make member (fi, mi) applicable to a fresh ground instance; returns the probe"""
        f = plan.families[fi]
        m = f.members[mi]
        rho = {i: ("ty", leaf(self.ground(plan, 0 if plan.notes.get("keep_plain") else self.pick([0, 0, 1])))) for i in range(m.nparams)}
        for p in m.unsized:
            if self.r.random() < 0.7:
                rho[p] = ("ty", leaf(self.pick(["str", "[u8]"])))
        for p in m.const_params:
            rho[p] = ("ex", ("lit", self.pick(["1", "2", "3"])))
        self_ty, targs, th = plan.member_header(f, m)
        q = pr(subst(self_ty, rho))
        qargs = [pr(subst(a, rho)) for a in targs]
        clauses = []
        src = [(subst(k.bounded, th), k.dt, [subst(a, th) for a in k.dargs], k.assoc, m.row[ki]) for ki, k in enumerate(f.keys)]
        if m.custom_bounds is not None:
            src = m.custom_bounds
        for bounded_ast, dti, dargs_ast, assoc_name, payload in src:
            bounded = pr(subst(bounded_ast, rho))
            dargs = [pr(subst(a, rho)) for a in dargs_ast]
            val = pr(subst(payload, rho)) if payload is not None else self.pick(MARKERS + ["Zed"])
            clauses.append((dti, dargs, bounded, assoc_name, val))
        if partial and clauses:
            # break one clause: either drop it or give it a payload nobody mentions
            j = self.r.randrange(len(clauses))
            if self.r.random() < 0.5:
                clauses.pop(j)
            else:
                c = clauses[j]
                clauses[j] = (c[0], c[1], c[2], c[3], "Zed")
        for dt, dargs, bounded, assoc, val in clauses:
            self.add_world(plan, dt, dargs, bounded, assoc, val)
        for b, plain in m.extra:
            if not partial or plan.notes.get("keep_plain") or self.r.random() < 0.5:
                plan.plain.append((plain, pr(subst(b, rho))))
        return (q, qargs)

    def add_world(self, plan, dt, dargs, ty, assoc, val):
        d = plan.dtraits[dt]
        dargs = ["'w" if (a.startswith("'") and a != "'static") else a for a in dargs]
        for w in plan.world:
            if w[0] == dt and w[1] == dargs and w[2] == ty:
                w[3].setdefault(assoc, val)
                return
        assocs = {assoc: val}
        for a in d.assocs:
            assocs.setdefault(a, self.pick(MARKERS + ["Zed"]))
        plan.world.append((dt, dargs, ty, assocs))

    def finish_world(self, plan):
        # make the world coherent (one impl per (trait, args, type)) and total (all assocs defined)
        seen = {}
        for w in plan.world:
            key = (w[0], tuple(w[1]), w[2])
            if key not in seen:
                seen[key] = w
        plan.world = list(seen.values())
        plan.plain = sorted(set(plan.plain))
        if "Zed" not in plan.locals:
            plan.locals.append("Zed")

    def basic(self, nfam=None, **kw):
        """trait-mode plan with 1-3 families, witnesses for every member, partial and negative probes"""
        r = self.r
        plan = Plan()
        ndt = self.pick([1, 1, 2, 3])
        plan.dtraits = [DTrait("D0")]
        if ndt >= 2:
            plan.dtraits.append(DTrait("D1", assocs=("G", "H")))
        if ndt >= 3:
            plan.dtraits.append(DTrait("D2", assocs=("G",), arity=1))
        if r.random() < 0.15:
            plan.dtraits.append(DTrait("DL", assocs=("G",), lifetimes=1))
        if r.random() < 0.25:
            plan.dtraits.append(DTrait("DC", assocs=("G",), consts=1))
        items = [("const", "NAME", False)]
        if r.random() < 0.7:
            items.append(("fn", "tag", False))
        if r.random() < 0.6:
            items.append(("fn", "dtag", True))
        if r.random() < 0.4:
            items.append(("const", "DFLT", True))
        if r.random() < 0.4:
            items.append(("type", "Out", False))
        plan.items = items
        nfam = nfam or self.pick([1, 1, 2, 2, 3])
        shapes = set()
        tries = 0
        while len(plan.families) < nfam and tries < 20:
            tries += 1
            f = self.family(plan, **kw)
            sig = pr(f.self_ty)
            # keep family headers pairwise non-unifiable: distinct outer constructors, and at most one bare `T`
            outer = f.self_ty[0] + (":" + f.self_ty[1] if f.self_ty[0] == "ctor" else (":" + str(len(f.self_ty[1])) if f.self_ty[0] == "tuple" else ""))
            if outer in shapes or (f.self_ty[0] == "tp" and shapes) or ("tp" in shapes):
                continue
            shapes.add(outer)
            if len(f.members) >= 1:
                plan.families.append(f)
        self.populate(plan)
        return plan

    def single_member_multi_key_plan(self):
        """directed shape (seeded change C07d): families with ONE member whose dispatched parameter carries bindings of two or
        three DIFFERENT dispatch traits (`impl<T: D0<G = A> + D1<G = B>> Kita for W1<T>`): the keys of such a family are laid
        out by `AssocBoundsGroup::new` alone, no later member re-orders them"""
        r = self.r
        plan = Plan()
        plan.dtraits = [DTrait("D0"), DTrait("D1", assocs=("G", "H")), DTrait("D2", assocs=("G",), arity=1)][: self.pick([2, 3, 3])]
        plan.items = [("const", "NAME", False)] + ([("fn", "tag", False)] if r.random() < 0.5 else [])
        wraps = ["W1", "Box", "Vec", "Option"]
        r.shuffle(wraps)
        nfam = self.pick([1, 2, 3])
        for fi in range(nfam):
            self_ty = ("ctor", wraps[fi], [("aty", ("tp", 0))]) if (nfam > 1 or r.random() < 0.5) else ("tp", 0)
            dts = list(range(len(plan.dtraits)))
            r.shuffle(dts)
            keys = []
            for dt in dts[: self.pick([2, 2, len(dts)])]:
                d = plan.dtraits[dt]
                dargs = [leaf(self.pick(["u8", "i32"])) for _ in range(d.arity)]
                for a in (d.assocs if r.random() < 0.4 else [self.pick(d.assocs)]):
                    keys.append(Key(("tp", 0), dt, dargs, a))
            row = [leaf(self.pick(MARKERS)) for _ in keys]
            m = Member({}, row, 1)
            m.names = self.names(1)
            m.inline = {ki: r.random() < 0.7 for ki in range(len(keys))}
            plan.families.append(Family(self_ty, [], 1, keys, [m]))
        self.populate(plan)
        return plan

    def wildcard_prefix_plan(self):
        """directed shape (seeded changes C11e / C05e): a family with two or three keys in which the FIRST one or two members
        only name one key (bound without binding: a wildcard row entry) while later members are told apart by that key alone.
        Pruning a key 'nobody binds' is only correct once all rows are known; the first block's unbound key must stay a key."""
        r = self.r
        plan = Plan()
        plan.dtraits = [DTrait("D0"), DTrait("D1", assocs=("G", "H"))]
        plan.items = [("const", "NAME", False)] + ([("fn", "tag", False)] if r.random() < 0.5 else [])
        two = r.random() < 0.6
        if two:
            hdr, n = self.pick([(("tuple", [("tp", 0), ("tp", 1)]), 2), (("ctor", "W2", [("aty", ("tp", 0)), ("aty", ("tp", 1))]), 2)])
            keys = [Key(("tp", 0), 0, [], "G"), Key(("tp", 1), self.pick([0, 1]), [], "G")]
        else:
            hdr, n = self.pick([(("tp", 0), 1), (("ctor", "W1", [("aty", ("tp", 0))]), 1)])
            keys = [Key(("tp", 0), 0, [], "G"), Key(("tp", 0), 1, [], self.pick(["G", "H"]))]
        wk = self.pick([0, 1])            # the key the leading members leave unbound
        ok = 1 - wk
        marks = list(MARKERS)
        r.shuffle(marks)
        members = []
        nlead = self.pick([1, 2, 2])
        for i in range(nlead):
            row = [None, None]
            row[ok] = leaf(marks[i])
            members.append(Member({}, row, n))
        # later members: same binding on the other key, distinguished only by the key the leading members left unbound
        shared = leaf(marks[nlead])
        for j in range(2):
            row = [None, None]
            row[ok] = shared
            row[wk] = leaf(marks[(nlead + 1 + j) % len(marks)])
            members.append(Member({}, row, n))
        for m in members:
            m.names = self.names(n)
            m.inline = {ki: r.random() < 0.6 for ki in range(2)}
        if r.random() < 0.3:
            # the wildcard members last instead (README order): control
            members = members[nlead:] + members[:nlead]
        plan.families = [Family(hdr, [], n, keys, members)]
        plan.notes["directed"] = "leading members leave a key unbound"
        plan.notes["keep_plain"] = True
        self.populate(plan)
        return plan

    def interleaved_keys_plan(self):
        """directed shape (seeded change C02e): a family over (T, U) whose key order interleaves the bounded types —
        (T, D0), (U, D0), (T, D1) — with rows that are NOT symmetric under any regrouping of the keys by bounded type: the main
        impl must pass its projections to the helper trait in exactly the order the helper impls use"""
        r = self.r
        plan = Plan()
        plan.dtraits = [DTrait("D0"), DTrait("D1", assocs=("G", "H"))]
        plan.items = [("const", "NAME", False)] + ([("fn", "tag", False)] if r.random() < 0.5 else [])
        hdr = self.pick([("tuple", [("tp", 0), ("tp", 1)]), ("ctor", "W2", [("aty", ("tp", 0)), ("aty", ("tp", 1))])])
        a, b = self.pick([(0, 1), (1, 0)])
        keys = [Key(("tp", a), 0, [], "G"), Key(("tp", b), 0, [], "G"), Key(("tp", a), 1, [], self.pick(["G", "H"]))]
        rows = [["GA", "GA", "GB"], ["GA", "GB", "GA"], ["GB", "GA", "GA"], ["GA", "GB", "GB"]]
        r.shuffle(rows)
        members = []
        for row in rows[: self.pick([2, 3, 3])]:
            m = Member({}, [leaf(x) for x in row], 2)
            m.names = self.names(2)
            # the third bound in the where-clause so that the key order of the first block is (a,D0), (b,D0), (a,D1)
            m.inline = {0: True, 1: True, 2: False}
            members.append(m)
        plan.families = [Family(hdr, [], 2, keys, members)]
        plan.notes["directed"] = "key order interleaves the bounded types"
        plan.notes["keep_plain"] = True
        self.populate(plan)
        return plan

    def default_vs_explicit_plan(self):
        """directed shape (seeded change C02f): `trait Kita<P0 = u8>`; one family omits the trait argument (`impl<..> Kita for T`), another
        instantiates it explicitly with a NON-default type (`impl<..> Kita<u16> for T`), same self type, same dispatch key, disjoint rows:
        `Kita` (= `Kita<u8>`) and `Kita<u16>` are different instantiations and must stay independent families"""
        r = self.r
        plan = Plan()
        plan.dtraits = [DTrait("D0")]
        plan.trait_generics = [("ty", "P0", "", "u8")]
        plan.items = [("const", "NAME", False)] + ([("fn", "tag", False)] if r.random() < 0.5 else [])
        hdr = self.pick([("tp", 0), ("ctor", "W1", [("aty", ("tp", 0))])])
        marks = list(MARKERS)
        r.shuffle(marks)
        fams = []
        for fi, targs in enumerate([[], [leaf(self.pick(["u16", "String"]))]]):
            members = []
            for j in range(2):
                m = Member({}, [leaf(marks[2 * fi + j])], 1)
                m.names = self.names(1)
                m.inline = {0: r.random() < 0.6}
                members.append(m)
            fams.append(Family(hdr, targs, 1, [Key(("tp", 0), 0, [], "G")], members))
        if r.random() < 0.5:
            fams.reverse()
        plan.families = fams
        plan.notes["directed"] = "omitted default argument next to an explicit non-default one"
        plan.notes["keep_plain"] = True
        self.populate(plan)
        # every witness also asked with the other family's trait argument
        extra = []
        for ty, targs in plan.probes[:8]:
            extra.append((ty, [] if targs else ["u16"]))
        plan.probes += extra
        self.finish_world(plan)
        return plan

    def assoc_subsets_plan(self):
        """directed shape (seeded change C05f): a dispatch trait with THREE associated types; the blocks of one family bind different
        two-element subsets of them (equally many bindings each), two blocks being distinguishable only through a name that the others
        do not all bind: the dispatched columns are the union over all members, whichever block comes last"""
        r = self.r
        plan = Plan()
        plan.dtraits = [DTrait("D3", assocs=("G", "H", "I"))]
        plan.items = [("const", "NAME", False)]
        hdr = self.pick([("tp", 0), ("ctor", "W1", [("aty", ("tp", 0))])])
        keys = [Key(("tp", 0), 0, [], a) for a in ("G", "H", "I")]
        rows = [[leaf("GA"), leaf("GA"), None], [leaf("GA"), leaf("GB"), None], [leaf("GB"), None, leaf("GA")]]
        if r.random() < 0.5:
            rows.append([leaf("GC"), None, leaf("GB")])
        r.shuffle(rows)
        members = []
        for row in rows:
            m = Member({}, row, 1)
            m.names = self.names(1)
            m.inline = {ki: r.random() < 0.6 for ki in range(3)}
            members.append(m)
        plan.families = [Family(hdr, [], 1, keys, members)]
        plan.notes["directed"] = "members bind different subsets of three associated types"
        plan.notes["keep_plain"] = True
        self.populate(plan)
        return plan

    def populate(self, plan, per_member=1):
        plan.world, plan.plain, plan.probes = [], [], []
        for fi, f in enumerate(plan.families):
            for mi, m in enumerate(f.members):
                for _ in range(per_member):
                    plan.probes.append(self.witness(plan, fi, mi))
                if self.r.random() < 0.6:
                    plan.probes.append(self.witness(plan, fi, mi, partial=True))
        # negative probes
        plan.probes.append((self.local(plan), self.default_targs(plan)))
        plan.probes.append(("i32", self.default_targs(plan)))
        self.finish_world(plan)

    def sibling_groups_plan(self):
        """directed shape (seeded change C05g): a root header `T` and two sibling sub-headers `A<T>`, `B<T>` that dispatch on ANOTHER trait than
        the root (so each forms a family of its own), plus a block with header `B<A<T>>` — generalised by the root and by `B<T>` but not by
        `A<T>` — that can only join `B<T>`'s family. The scan over the families formed so far must skip the non-generalising `A<T>` family,
        whichever order the blocks come in."""
        r = self.r
        plan = Plan()
        plan.dtraits = [DTrait("D0"), DTrait("D1")]
        plan.items = [("const", "NAME", False)] + ([("fn", "tag", False)] if r.random() < 0.4 else [])
        wa, wb = r.sample(["Vec", "Option", "W1", "Box"], 2)
        A = lambda t: ("ctor", wa, [("aty", t)])
        B = lambda t: ("ctor", wb, [("aty", t)])
        T0 = ("tp", 0)
        marks = r.sample(MARKERS, min(4, len(MARKERS)))

        def mem(theta, mark):
            m = Member(theta, [leaf(mark)], 1)
            m.names = self.names(1)
            m.inline = {0: not theta and r.random() < 0.5}
            return m
        root = Family(T0, [], 1, [Key(T0, 0, [], "G")], [mem({}, marks[0])] + ([mem({}, marks[1])] if r.random() < 0.5 else []))
        for m in root.members:
            m.inline = {0: r.random() < 0.5}
        fa = Family(A(T0), [], 1, [Key(A(T0), 1, [], "G")], [mem({}, marks[0])])
        fb = Family(B(T0), [], 1, [Key(B(T0), 1, [], "G")], [mem({}, marks[1]), mem({0: ("ty", A(T0))}, marks[2])])
        for f_ in (fa, fb):
            for m in f_.members:
                m.inline = {0: False}
        plan.families = [root, fa, fb]
        plan.notes["directed"] = "sibling sub-headers in families of their own; a doubly nested block joins the later sibling"
        plan.notes["keep_plain"] = True
        self.populate(plan)
        # a second instance of `B<A<_>>`, served by the plain `B<T>` block: the projection `<B<A<X>> as D1>::G` is then not normalisable, and
        # only the family (one helper trait for both blocks) tells the doubly nested block from the plain one
        ty = pr(subst(B(A(T0)), {0: ("ty", leaf(self.local(plan)))}))
        self.add_world(plan, 1, [], ty, "G", marks[1])
        plan.probes.append((ty, []))
        self.finish_world(plan)
        return plan

    def shifted_nested_plan(self):
        """directed shape (seeded change C01d): a family over 2-3 positions keyed on a LATER position, plus nested members whose
        header fixes an EARLIER position to a concrete type: their canonical parameter numbers are shifted against the family's
        (`(T, U)` / `(u8, U)` is `(_0, _1)` / `(u8, _0)`), so the matcher must bind `_1 -> _0` (not report an identity) and the
        nested member's bound on its `_0` must be re-expressed as the family's key on `_1`. Rows are pairwise distinct: no overlap."""
        r = self.r
        plan = Plan()
        plan.dtraits = [DTrait("D0")] + ([DTrait("D1", assocs=("G", "H"))] if r.random() < 0.3 else [])
        plan.items = [("const", "NAME", False)] + ([("fn", "tag", False)] if r.random() < 0.5 else []) + ([("fn", "dtag", True)] if r.random() < 0.3 else [])
        n = self.pick([2, 2, 3])
        tps = [("tp", i) for i in range(n)]
        if n == 2:
            hdr = self.pick([("tuple", tps), ("ctor", "W2", [("aty", tps[0]), ("aty", tps[1])])])
        else:
            hdr = self.pick([("tuple", tps), ("ctor", "W2", [("aty", tps[0]), ("aty", ("tuple", tps[1:]))])])
        targs = []
        if n == 2 and r.random() < 0.3:
            # the earlier position is a trait argument: `Kita<U> for T` next to `Kita<u8> for T`
            plan.trait_generics = [("ty", "P0", "", None)]
            hdr, targs = tps[1], [tps[0]]
        kp = r.randrange(1, n)
        dt = r.randrange(len(plan.dtraits))
        keys = [Key(("tp", kp), dt, [], self.pick(plan.dtraits[dt].assocs))]
        marks = r.sample(MARKERS, min(4, len(MARKERS)))
        members = []
        for i in range(self.pick([1, 2])):
            m = Member({}, [leaf(marks[i])], n)
            m.names = self.names(n)
            m.inline = {0: r.random() < 0.6}
            m.decl_order = list(range(n))
            if r.random() < 0.4:
                r.shuffle(m.decl_order)
            members.append(m)
        for i in range(self.pick([1, 1, 2])):
            fixed = r.randrange(0, kp)
            m = Member({fixed: ("ty", leaf(self.pick(["u8", "u16", "String"])))}, [leaf(marks[2 + i])], n)
            m.names = self.names(n)
            m.inline = {0: r.random() < 0.6}
            members.append(m)
            if len(marks) < 4:
                break
        r.shuffle(members)
        has_dflt = [nm for _, nm, d in plan.items if d]
        for m in members:
            m.overrides = {nm for nm in has_dflt if r.random() < 0.5}
        plan.families = [Family(hdr, targs, n, keys, members)]
        plan.notes["directed"] = "nested member with shifted canonical numbers"
        plan.notes["keep_plain"] = True
        self.populate(plan)
        return plan

    # ------------------------------------------------------------------ overlapping pairs (C04)
    def shifted_overlap(self):
        """C04: family (T0, T1, T2) dispatching on one position, plus a nested block whose header fixes that position to a
        concrete type and that bounds ANOTHER position: its canonical parameter numbers are shifted against the family's
        (and parameters before the fixed position keep theirs). A type whose fixed element satisfies the family's key and whose
        other element satisfies the nested block's bound satisfies both blocks."""
        r = self.r
        plan = Plan()
        plan.dtraits = [DTrait("D0")] + ([DTrait("D1", assocs=("G", "H"))] if r.random() < 0.3 else [])
        plan.items = [("const", "NAME", False)] + ([("fn", "tag", False)] if r.random() < 0.5 else [])
        tps = [("tp", 0), ("tp", 1), ("tp", 2)]
        hdr = self.pick([("tuple", tps), ("ctor", "W2", [("aty", tps[0]), ("aty", ("tuple", tps[1:]))]),
                         ("tuple", [tps[0], ("ctor", "W2", [("aty", tps[1]), ("aty", tps[2])])])])
        pa, pb = self.pick([(1, 2), (1, 2), (0, 1), (0, 2), (1, 0), (2, 0)])
        dt = r.randrange(len(plan.dtraits))
        assoc = self.pick(plan.dtraits[dt].assocs)
        ma, mb = r.sample(MARKERS, 2)
        a = Member({}, [leaf(ma)], 3)
        a.names = self.names(3)
        a.inline = {0: r.random() < 0.5}
        g = self.local(plan)
        b = Member({pa: ("ty", leaf(g))}, [leaf(mb)], 3)
        b.names = self.names(3)
        b.custom_bounds = [(("tp", pb), dt, [], assoc, leaf(mb))]
        b.overrides = set()
        members = [a, b]
        extra = None
        if r.random() < 0.5:
            # a third, legitimately disjoint block of the general header
            mc = self.pick([x for x in MARKERS if x not in (ma, mb)])
            extra = Member({}, [leaf(mc)], 3)
            extra.names = self.names(3)
            members.append(extra)
        r.shuffle(members)
        f = Family(hdr, [], 3, [Key(("tp", pa), dt, [], assoc)], members)
        plan.families = [f]
        plan.world, plan.plain, plan.probes = [], [], []
        plan.notes["keep_plain"] = True
        q = self.witness(plan, 0, members.index(b))
        self.add_world(plan, dt, [], g, assoc, ma)
        plan.probes.append(q)
        plan.probes.append(self.witness(plan, 0, members.index(a)))
        plan.probes.append((self.local(plan), self.default_targs(plan)))
        self.finish_world(plan)
        plan.notes["overlap_mode"] = "nested-shifted-key"
        return plan, "nested-shifted-key"

    def overlap(self, mode=None):
        """a plan in which two blocks have a common instance by construction; returns (plan, mode)"""
        r = self.r
        if mode is None and r.random() < 0.12:
            return self.shifted_overlap()
        for _ in range(50):
            plan = self.basic(nfam=self.pick([1, 1, 2]), nested=False, wildcard=False)
            fams = [f for f in plan.families if f.members]
            f = self.pick(fams)
            a = self.pick(f.members)
            mode_ = mode or self.pick(["equal", "wild", "general", "nested-equal", "inner", "equal", "wild", "nested-other-key", "duplicate", "other-key", "other-key"])
            b = copy.deepcopy(a)
            b.names = self.names(b.nparams + 1)
            b.overrides = set()
            if mode_ == "equal":
                if len(f.keys) > 1 and r.random() < 0.5:
                    b.inline = {ki: not v for ki, v in a.inline.items()}
            elif mode_ == "duplicate":
                b.names = list(a.names)
                b.overrides = None if a.overrides is None else set(a.overrides)
                b.tag_as = "dup"
                a.tag_as = "dup"
            elif mode_ == "wild":
                ki = r.randrange(len(f.keys))
                if b.row[ki] is None or params_of(b.row[ki]):
                    continue
                b.row[ki] = None
            elif mode_ == "general":
                ki = r.randrange(len(f.keys))
                if b.row[ki] is None or b.row[ki][0] != "leaf":
                    continue
                newp = ("tp", b.nparams)
                b.nparams += 1
                b.decl_order.append(b.nparams - 1)
                old = b.row[ki]
                if old[0] == "leaf":
                    b.row[ki] = newp
                elif old[0] == "ctor":
                    b.row[ki] = ("ctor", old[1], [("aty", newp)])
                else:
                    b.row[ki] = newp
            elif mode_ == "nested-equal":
                p0 = r.randrange(f.nparams)
                if a.theta:
                    continue
                b.theta = {p0: ("ty", self.pick(NEST[:4])(("tp", p0)))}
            elif mode_ == "inner":
                # D4 shape: the nested member bounds the *inner* parameter
                if a.theta or any(k.bounded[0] != "tp" for k in f.keys):
                    continue
                p0 = f.keys[0].bounded[1]
                wrap = self.pick(NEST[:4])
                b.theta = {p0: ("ty", wrap(("tp", p0)))}
                other = [x for x in MARKERS if ("leaf", x) not in [row for row in a.row]]
                b.custom_bounds = []
                for ki, k in enumerate(f.keys):
                    pl = a.row[ki]
                    if ki == 0:
                        pl = leaf(self.pick(other)) if other else pl
                    b.custom_bounds.append((k.bounded, k.dt, k.dargs, k.assoc, pl))
            elif mode_ == "other-key":
                # same header, but b dispatches on another key (another trait, or the same trait with another const argument):
                # no key is shared, a type implementing both satisfies both blocks
                if a.theta or any(k.bounded[0] != "tp" for k in f.keys):
                    continue
                k0 = f.keys[0]
                d0 = plan.dtraits[k0.dt]
                b.nparams = f.nparams
                b.decl_order = list(range(f.nparams))
                b.row = [leaf(self.pick(MARKERS)) for _ in f.keys]
                if any(params_of(x) for x in a.row if x is not None):
                    continue
                if d0.consts and r.random() < 0.7:
                    nd = [x if x[0] != "cst_" else ("cst_", ("lit", "3")) for x in k0.dargs]
                    b.custom_bounds = [(k0.bounded, k0.dt, nd, k0.assoc, leaf(self.pick(MARKERS)))]
                else:
                    odt = [i for i in range(len(plan.dtraits)) if i != k0.dt and plan.dtraits[i].arity == 0 and not plan.dtraits[i].lifetimes and not plan.dtraits[i].consts]
                    if not odt:
                        continue
                    b.custom_bounds = [(k0.bounded, odt[0], [], plan.dtraits[odt[0]].assocs[0], leaf(self.pick(MARKERS)))]
            elif mode_ == "nested-other-key":
                if a.theta or len(plan.dtraits) < 2 or any(k.bounded[0] != "tp" for k in f.keys):
                    continue
                p0 = f.keys[0].bounded[1]
                b.theta = {p0: ("ty", self.pick(NEST[:4])(("tp", p0)))}
                odt = [i for i in range(len(plan.dtraits)) if i != f.keys[0].dt and plan.dtraits[i].arity == 0 and not plan.dtraits[i].lifetimes and not plan.dtraits[i].consts]
                if not odt:
                    continue
                b.custom_bounds = [(("tp", p0), odt[0], [], plan.dtraits[odt[0]].assocs[0], leaf(self.pick(MARKERS)))]
            f.members.append(b)
            if r.random() < 0.5:
                f.members[-1], f.members[0] = f.members[0], f.members[-1]
                a_idx = len(f.members) - 1
            plan.world, plan.plain, plan.probes = [], [], []
            fi = plan.families.index(f)
            # witness: an instance of b that also satisfies a
            mi_b = f.members.index(b)
            mi_a = f.members.index(a)
            if mode_ in ("inner", "nested-other-key", "other-key"):
                q = self.witness(plan, fi, mi_b)
                # make the same ground type satisfy a as well
                rho_ty = q[0]
                fa = f
                self_ty, targs, th = plan.member_header(fa, a)
                # a's header is the family header over its own params: match by construction (a.theta empty, b nested in p0)
                self._force(plan, fa, a, q)
                plan.probes.append(q)
            else:
                plan.probes.append(self.witness(plan, fi, mi_b))
            for fj, g in enumerate(plan.families):
                for mj, m in enumerate(g.members):
                    if (fj, mj) != (fi, mi_b) and r.random() < 0.5:
                        plan.probes.append(self.witness(plan, fj, mj))
            plan.probes.append((self.local(plan), self.default_targs(plan)))
            self.finish_world(plan)
            plan.notes["overlap_mode"] = mode_
            return plan, mode_
        raise RuntimeError("could not build an overlapping plan")

    def _force(self, plan, f, a, q):
        """add world impls making ground type text q[0] satisfy member a whose header is a bare family header
        (only used when a's header is the family header and all keys are on plain parameters)"""
        # naive: the whole probe type stands for parameter p0 when the header is a bare parameter; otherwise split textually is
        # not possible here, so only bare-parameter headers and single-constructor headers are supported
        import re as _re
        hdr = f.self_ty
        if hdr[0] == "tp":
            binding = {hdr[1]: q[0]}
        elif hdr[0] == "ctor" and len(hdr[2]) == 1 and hdr[2][0][1][0] == "tp":
            m_ = _re.match(r"^[A-Za-z0-9_]+<(.*)>$", q[0])
            binding = {hdr[2][0][1][1]: m_.group(1)} if m_ else {}
        else:
            binding = {}
        for ki, k in enumerate(f.keys):
            if k.bounded[0] == "tp" and k.bounded[1] in binding and a.row[ki] is not None and not params_of(a.row[ki]):
                self.add_world(plan, k.dt, [pr(x) for x in k.dargs], binding[k.bounded[1]], k.assoc, pr(a.row[ki]))

    # ------------------------------------------------------------------ bound-only lifetimes as dispatch-trait arguments (C06)
    def lifetime_keys_plan(self):
        r = self.r
        plan = Plan()
        plan.dtraits = [DTrait("DL", assocs=("G",), lifetimes=1), DTrait("D0")]
        plan.items = [("const", "NAME", False)] + ([("fn", "tag", False)] if r.random() < 0.5 else [])
        nparams, self_ty = self.pick([(2, ("tuple", [("tp", 0), ("tp", 1)])), (2, ("ctor", "W2", [("aty", ("tp", 0)), ("aty", ("tp", 1))]))])
        keys = [Key(("tp", 0), 0, [("lt_", "'x0")], "G"), Key(("tp", 1), 0, [("lt_", "'x1")], "G")]
        members, rows = [], []
        tries = 0
        while len(members) < self.pick([2, 3]) and tries < 20:
            tries += 1
            row = [leaf(self.pick(MARKERS)), leaf(self.pick(MARKERS))]
            if any(_rows_unify(row, o) for o in rows):
                continue
            rows.append(row)
            m = Member({}, row, nparams)
            m.names = self.names(nparams)
            m.inline = {0: True, 1: True}
            m.lifetimes = ["'x0", "'x1"]
            members.append(m)
        plan.families = [Family(self_ty, [], nparams, keys, members)]
        plan.notes["keep_plain"] = True
        plan.notes["bound_only_lifetimes"] = True
        self.populate(plan)
        return plan

    # ------------------------------------------------------------------ nested header lattices: chains and diamonds (C02, C05, C11)
    def lattice(self):
        """several bucket headers over pairs that generalise one another: (T,U) ⊒ (Vec<T>,U), (T,Vec<U>) ⊒ (Vec<T>,Vec<U>).
        style 'merged': one family keyed on the whole header, nested members through θ (tests/supersets_2.rs);
        style 'separate': every header is its own family with its own keys; rustc accepts the overlapping main impls
        because the dispatch traits are not implemented for the overlapping instances."""
        r = self.r
        plan = Plan()
        plan.dtraits = [DTrait("D0")] + ([DTrait("D1", assocs=("G", "H"))] if r.random() < 0.4 else [])
        plan.items = [("const", "NAME", False)] + ([("fn", "dtag", True)] if r.random() < 0.4 else [])
        wrap = self.pick(["Vec", "Option", "W1"])
        V = lambda t: ("ctor", wrap, [("aty", t)])
        T0, T1 = ("tp", 0), ("tp", 1)
        shapes = {"TU": ("tuple", [T0, T1]), "VU": ("tuple", [V(T0), T1]), "TV": ("tuple", [T0, V(T1)]), "VV": ("tuple", [V(T0), V(T1)]),
                  "WU": ("tuple", [V(V(T0)), T1])}
        thetas = {"TU": {}, "VU": {0: ("ty", V(T0))}, "TV": {1: ("ty", V(T1))}, "VV": {0: ("ty", V(T0)), 1: ("ty", V(T1))},
                  "WU": {0: ("ty", V(V(T0)))}}
        subset = self.pick([["TV", "VU", "VV"], ["TU", "VU", "TV", "VV"], ["TV", "VU"], ["TU", "VV"], ["TU", "VU", "VV"],
                            ["VU", "TV", "VV", "TU"], ["TU", "VU", "WU"], ["VV", "TV", "VU"], ["VU", "WU", "TV", "VV"]])
        style = self.pick(["merged", "separate", "separate"])
        plan.notes["lattice"] = (style, subset)
        if style == "merged":
            top = "TU" if "TU" in subset else subset[0]
            # family header = the most general shape present; every other shape must be an instance of it
            if top != "TU":
                subset = [x for x in subset if x == top or (top in ("VU", "TV") and x == "VV") or (top == "VU" and x == "WU")]
            dt = r.randrange(len(plan.dtraits))
            key = Key(shapes[top], dt, [], self.pick(plan.dtraits[dt].assocs))
            members = []
            used = []
            for sh in subset:
                for _ in range(self.pick([1, 1, 2])):
                    cand = [m_ for m_ in MARKERS if m_ not in used]
                    if not cand:
                        break
                    mk = self.pick(cand)
                    used.append(mk)
                    th = dict(thetas[sh])
                    if top != "TU":
                        # θ relative to the family header `top`
                        th = {k: v for k, v in th.items() if not (k in thetas[top])}
                        if sh == "WU" and top == "VU":
                            th = {0: ("ty", V(T0))}
                    m = Member(th, [leaf(mk)], 2)
                    m.names = self.names(2)
                    m.inline = {0: False}
                    members.append(m)
            r.shuffle(members)
            plan.families = [Family(shapes[top], [], 2, [key], members)]
        else:
            for sh in subset:
                hdr = shapes[sh]
                # keys on bare parameters (or on the pair of inner parameters for the doubly nested shape)
                kb = self.pick([T0, T1]) if sh != "VV" else self.pick([("tuple", [T0, T1]), T0, T1])
                if sh == "TV":
                    kb = T0 if r.random() < 0.7 else T1
                if sh == "VU":
                    kb = T1 if r.random() < 0.7 else T0
                dt = r.randrange(len(plan.dtraits))
                key = Key(kb, dt, [], self.pick(plan.dtraits[dt].assocs))
                members = []
                used = []
                for _ in range(self.pick([1, 2, 2])):
                    cand = [m_ for m_ in MARKERS if m_ not in used]
                    mk = self.pick(cand)
                    used.append(mk)
                    m = Member({}, [leaf(mk)], 2)
                    m.names = self.names(2)
                    m.decl_order = [0, 1] if r.random() < 0.6 else [1, 0]
                    m.inline = {0: kb[0] == "tp" and r.random() < 0.6}
                    has_dflt = [n for _, n, d in plan.items if d]
                    m.overrides = {n for n in has_dflt if r.random() < 0.5}
                    members.append(m)
                plan.families.append(Family(hdr, [], 2, [key], members))
            r.shuffle(plan.families)
        plan.notes["keep_plain"] = True     # fresh local leaves only: no accidental impls for constructed types
        self.populate(plan)
        return plan

    # ------------------------------------------------------------------ trait arguments (C16)
    def diagonal_trait_args_plan(self):
        """C16: `Kita<T> for S[T]` (the trait argument is a parameter of the self type) next to `Kita<M> for S[T]` for a
        concrete M that implements no dispatch trait: two instantiations with the same self type that must stay
        independent families (the ids are NOT instances of one another: T would have to be M and itself)."""
        r = self.r
        plan = Plan()
        plan.dtraits = [DTrait("D0")]
        plan.trait_generics = [("ty", "P0", "", None)]
        plan.notes["keep_plain"] = True
        plan.items = [("const", "NAME", False)] + ([("fn", "tag", False)] if r.random() < 0.5 else [])
        wrap = self.pick([lambda t: t, lambda t: ("ctor", "Vec", [("aty", t)]), lambda t: ("tuple", [t, leaf("u8")])])
        self_ty = wrap(("tp", 0))
        marker = self.local(plan)
        marks = r.sample(MARKERS, 4)
        fams = []
        for targ, ms in ((("tp", 0), marks[:2]), (leaf(marker), marks[2:])):
            members = []
            for mk in ms:
                m = Member({}, [leaf(mk)], 1)
                m.names = self.names(1)
                m.inline = {0: r.random() < 0.6}
                members.append(m)
            fams.append(Family(copy.deepcopy(self_ty), [targ], 1, [Key(("tp", 0), 0, [], "G")], members))
        if r.random() < 0.5:
            fams.reverse()
        plan.families = fams
        self.populate(plan)
        # every witness also asked with the other family's trait argument
        extra = []
        for ty, targs in plan.probes[:8]:
            if targs and targs[0] != marker:
                extra.append((ty, [marker]))
        plan.probes += extra
        self.finish_world(plan)
        plan.notes["diagonal"] = True
        return plan

    def trait_args_plan(self):
        r = self.r
        plan = Plan()
        plan.dtraits = [DTrait("D0")] + ([DTrait("D1", assocs=("G", "H"))] if r.random() < 0.4 else [])
        has_lt = r.random() < 0.4
        ntp = self.pick([1, 1, 2])
        has_const = r.random() < 0.35
        if has_lt and r.random() < 0.4:
            ntp, has_const = 0, False      # a trait whose only parameters are lifetimes (seeded change C16d)
        gens = []
        if has_lt:
            gens.append(("lt", "'a", ""))
            if r.random() < 0.3:
                gens.append(("lt", "'b", "'a"))
        tp_bounds = []
        where_bounds = []
        for i in range(ntp):
            b = self.pick(["", "", "Plain0", "Clone"]) if (i > 0 or r.random() < 0.85) else "Default"
            dflt = "u8" if (i == ntp - 1 and not has_const and r.random() < 0.3) else None
            if b == "Clone" and r.random() < 0.6:
                # the bound in the trait's where-clause instead of inline
                gens.append(("ty", f"P{i}", "", dflt))
                where_bounds.append(f"P{i}: Clone")
            else:
                gens.append(("ty", f"P{i}", b, dflt))
            tp_bounds.append(b)
        if where_bounds:
            plan.trait_where = " where " + ", ".join(where_bounds)
        if has_const:
            gens.append(("const", "N", "usize", None))
        plan.trait_generics = gens
        plan.notes["keep_plain"] = True   # probes must be well-formed trait references: bounds of trait parameters always hold
        nlt = sum(1 for g_ in gens if g_[0] == "lt")
        plan.items = [("const", "NAME", False)] + ([("fn", "tag", False)] if r.random() < 0.5 else []) + ([("fn", "dtag", True)] if r.random() < 0.4 else [])
        if ntp and r.random() < 0.35:
            plan.items.append(("tpfn", "tp", False))      # a signature mentioning the trait's first type parameter (seeded change C16f)
        if ntp and tp_bounds[0] == "Default":
            plan.items.append(("pdfn", "pd", True))       # `P0::default()` in a default body (seeded change C03f)
        if has_lt:
            plan.items.append(("ltfn", "lt", False))
            plan.lt_ty = self.pick(["&'a u8", "&'a u8", "Option<&'a u8>", "core::result::Result<&'a u8, Vec<&'a str>>", "(u8, Box<&'a [u8]>)"])
        nfam = self.pick([1, 2, 2, 3])
        sigs = []
        tries = 0
        while len(plan.families) < nfam and tries < 30:
            tries += 1
            nparams, self_ty = self.pick(HEADER_SHAPES[:8])
            self_ty = copy.deepcopy(self_ty)
            # instantiate the trait's type parameters
            targs_ty = []
            extra = []
            fresh = nparams
            for i in range(ntp):
                c = r.random()
                if tp_bounds[i] == "Default":
                    targs_ty.append(self.pick([("ctor", "Vec", [("aty", leaf("u8"))]), ("ctor", "Option", [("aty", leaf("u16"))]),
                                               ("ctor", "Vec", [("aty", ("tp", 0))]), leaf("u8"), leaf("String")]))
                    continue
                if c < 0.4:
                    p = r.randrange(nparams) if r.random() < 0.6 else None
                    if p is None:
                        p = fresh
                        fresh += 1
                    targs_ty.append(("tp", p))
                    if tp_bounds[i]:
                        extra.append((("tp", p), tp_bounds[i]))
                elif c < 0.72:
                    targs_ty.append(leaf(self.pick(["u8", "u16", "String"])))
                elif c < 0.8 and not tp_bounds[i]:
                    # a LOCAL type spelled like one of the trait's own type parameters, nested inside the argument (seeded change C16f:
                    # an inserted argument must not be substituted again)
                    nm = f"P{r.randrange(ntp)}"
                    if nm not in plan.locals:
                        plan.locals.append(nm)
                    targs_ty.append(self.pick([("tuple", [leaf(nm), leaf("u8")]), ("ctor", "Vec", [("aty", leaf(nm))]), ("tuple", [leaf(nm), leaf(nm)])]))
                elif c < 0.8:
                    targs_ty.append(leaf(self.pick(["u8", "u16", "String"])))
                else:
                    targs_ty.append(("tuple", [("tp", 0), leaf("u8")]))
                    if tp_bounds[i]:
                        extra.append((("tp", 0), tp_bounds[i]))
            use_default = gens and any(g_[0] == "ty" and g_[3] for g_ in gens) and r.random() < 0.5
            cargs = [("lit", str(self.pick([1, 2, 3])))] if has_const else []
            # families must not overlap: require a concrete distinguishing position w.r.t. every earlier family
            sig = (self_ty[0] + (self_ty[1] if self_ty[0] == "ctor" else ""), [pr(t) if not params_of(t) else None for t in targs_ty], [pr(c_) for c_ in cargs], use_default)
            def disjoint(a, b):
                if a[0] != b[0] and "tp" not in (a[0], b[0]):
                    return True
                if a[2] != b[2]:
                    return True
                ta = list(a[1]); tb = list(b[1])
                if a[3]: ta[-1] = "u8"
                if b[3]: tb[-1] = "u8"
                return any(x is not None and y is not None and x != y for x, y in zip(ta, tb))
            if any(not disjoint(sig, o) for o in sigs):
                continue
            sigs.append(sig)
            nparams_total = fresh
            keys, used = [], set()
            for _ in range(self.pick([1, 1, 2])):
                p = r.randrange(nparams)
                dt = r.randrange(len(plan.dtraits))
                assoc = self.pick(plan.dtraits[dt].assocs)
                if (p, dt, assoc) in used:
                    continue
                used.add((p, dt, assoc))
                keys.append(Key(("tp", p), dt, [], assoc))
            members, rows = [], []
            t2 = 0
            want = self.pick([2, 2, 3])
            while len(members) < want and t2 < 20:
                t2 += 1
                row = [leaf(self.pick(MARKERS)) for _ in keys]
                if any(_rows_unify(row, o) for o in rows):
                    continue
                rows.append(row)
                m = Member({}, row, nparams_total)
                m.names = self.names(nparams_total)
                m.decl_order = list(range(nparams_total))
                if r.random() < 0.4:
                    r.shuffle(m.decl_order)
                m.inline = {ki: r.random() < 0.6 for ki in range(len(keys))}
                m.extra = list(extra)
                m.lifetimes = [g_[1] + (": " + g_[2] if g_[2] else "") for g_ in gens if g_[0] == "lt"]
                has_dflt = [n for _, n, d in plan.items if d]
                m.overrides = {n for n in has_dflt if r.random() < 0.5}
                members.append(m)
            # a member whose header instantiates a trait-argument parameter of the family (nesting through the trait path)
            targ_params = [t[1] for t in targs_ty if t[0] == "tp"]
            if targ_params and len(members) >= 2 and r.random() < 0.4 and not use_default:
                p_ = self.pick(targ_params)
                if all(k.bounded != ("tp", p_) for k in keys) and not any(("tp", p_) == b_ for b_, _ in extra) and p_ not in [i for _, i in params_of(self_ty)]:
                    members[-1].theta = {p_: ("ty", leaf(self.pick(["u32", "i64"])))}
            lt_args = [("lt_", g_[1]) for g_ in gens if g_[0] == "lt"]
            targs = lt_args + (targs_ty[:-1] if use_default else targs_ty) + [("cst_", c_) for c_ in cargs]
            if use_default and has_const:
                continue
            plan.families.append(Family(self_ty, targs, nparams_total, keys, members))
        self.populate(plan)
        # probes with non-matching trait arguments
        extra_probes = []
        for ty, targs in plan.probes[: 6]:
            if targs:
                t2 = list(targs)
                j = r.randrange(len(t2))
                if t2[j].startswith("'"):
                    continue
                t2[j] = {"1": "2", "2": "3", "3": "1"}.get(t2[j], "u16" if t2[j] != "u16" else "u8")
                if any(tt not in ("u8", "u16", "String", "1", "2", "3") and not tt.startswith("'") and (tt, ) and ("Plain0", tt) not in plan.plain
                       for tt, gg in zip(t2, plan.trait_generics) if gg[0] == "ty" and gg[2]):
                    continue
                extra_probes.append((ty, t2))
        plan.probes += extra_probes
        plan.probes = [(ty, [a.replace("'a", "'static").replace("'b", "'static") for a in ta]) for ty, ta in plan.probes]
        return plan

    # ------------------------------------------------------------------ ?Sized (C15)
    def unsized_diagonal_plan(self):
        """directed shape (seeded change C15d/C02d): a family over (Box<T0>, Box<T1>) keyed on ONE bare parameter that some
        general member relaxes with ?Sized, plus a nested member with the diagonal instance (Box<V<X>>, Box<V<X>>) bounding
        V<X>: the reverse substitution of its bound has two images (_0 and _1), `intersection` yields two alternatives of
        which only one is keyed like the family; the relaxed key parameter must stay ?Sized in the main impl."""
        r = self.r
        plan = Plan()
        plan.dtraits = [DTrait("D0")]
        plan.items = [("const", "NAME", False)] + ([("fn", "tag", False)] if r.random() < 0.5 else [])
        wrap = self.pick(["Vec", "Option", "W1"])
        V = lambda t: ("ctor", wrap, [("aty", t)])
        B = lambda t: ("ctor", "Box", [("aty", t)])
        T0, T1 = ("tp", 0), ("tp", 1)
        self_ty = self.pick([("tuple", [B(T0), B(T1)]), ("ctor", "W2", [("aty", B(T0)), ("aty", B(T1))])])
        kp = self.pick([0, 1, 1])
        keys = [Key(("tp", kp), 0, [], "G")]
        marks = r.sample(MARKERS, 3)
        members = []
        for i in range(self.pick([1, 2])):
            m = Member({}, [leaf(marks[i])], 2)
            m.names = self.names(2)
            m.inline = {0: r.random() < 0.6}
            m.unsized = {kp} if (i == 0 or r.random() < 0.5) else set()
            m.unsized_where = r.random() < 0.4
            members.append(m)
        X = ("tp", 0)
        nm = Member({0: ("ty", V(X)), 1: ("ty", V(X))}, [leaf(marks[2])], 1)
        nm.names = self.names(1)
        nm.inline = {0: False}
        members.append(nm)
        r.shuffle(members)
        plan.families = [Family(self_ty, [], 2, keys, members)]
        plan.notes["directed"] = "diagonal nested member next to a relaxed key parameter"
        plan.notes["keep_plain"] = True
        plan.world, plan.plain, plan.probes = [], [], []
        for mi, m in enumerate(members):
            saved = m.unsized
            m.unsized = set()
            plan.probes.append(self.witness(plan, 0, mi))
            if m.theta == {}:
                m.unsized = {0, 1}
                for _ in range(2):
                    plan.probes.append(self.witness(plan, 0, mi))
            m.unsized = saved
        self.finish_world(plan)
        return plan

    def unsized_plan(self, d7=None):
        r = self.r
        if d7 is not True and r.random() < 0.15:
            return self.unsized_diagonal_plan()
        plan = Plan()
        plan.dtraits = [DTrait("D0"), DTrait("D1", assocs=("G", "H"))][: self.pick([1, 2])]
        plan.items = [("const", "NAME", False)] + ([("fn", "tag", False)] if r.random() < 0.5 else [])
        shapes = [(1, ("tp", 0)), (1, ("ctor", "Box", [("aty", ("tp", 0))])), (1, ("ref", None, False, ("tp", 0))),
                  (1, ("ctor", "W1", [("aty", ("tp", 0))])), (2, ("ctor", "W2", [("aty", ("tp", 0)), ("aty", ("tp", 1))])),
                  (2, ("tuple", [("ctor", "Box", [("aty", ("tp", 0))]), ("tp", 1)])),
                  (2, ("tuple", [("ref", None, False, ("tp", 0)), ("ctor", "Box", [("aty", ("tp", 1))])])),
                  (2, ("ctor", "W2", [("aty", ("ctor", "Box", [("aty", ("tp", 0))])), ("aty", ("tp", 1))]))]
        nparams, self_ty = self.pick(shapes)
        targs = []
        if r.random() < 0.3:
            # the relaxed parameter as trait argument: trait Kita<X: ?Sized>
            plan.trait_generics = [("ty", "X", "?Sized", None)]
            targs = [("tp", r.randrange(nparams))]
        keys = []
        use_d7 = (r.random() < 0.25) if d7 is None else d7
        for p in range(nparams):
            dt = r.randrange(len(plan.dtraits))
            bounded = ("tp", p)
            if use_d7 and self_ty[0] == "ctor" and self_ty[1] == "Box" and p == 0:
                bounded = self_ty          # D7 shape: the key bounds Box<T>, T itself is only relaxed
            keys.append(Key(bounded, dt, [], self.pick(plan.dtraits[dt].assocs)))
            if len(plan.dtraits) > 1 and r.random() < 0.3:
                # the same (possibly relaxed) parameter is a dispatch key through two different dispatch traits (seeded change C15e)
                keys.append(Key(bounded, 1 - dt, [], self.pick(plan.dtraits[1 - dt].assocs)))
            if r.random() < 0.25:
                break
        members, rows = [], []
        tries = 0
        want = self.pick([2, 2, 3])
        while len(members) < want and tries < 30:
            tries += 1
            row = [leaf(self.pick(MARKERS)) for _ in keys]
            if len(keys) > 1 and r.random() < 0.4:
                row[r.randrange(len(keys))] = None      # wildcard: bound without binding (any key, any member incl. the first)
            if any(_rows_unify(row, o) for o in rows):
                continue
            rows.append(row)
            m = Member({}, row, nparams)
            m.names = self.names(nparams)
            m.inline = {ki: r.random() < 0.6 for ki in range(len(keys))}
            m.unsized = {p for p in range(nparams) if r.random() < 0.55}
            m.unsized_where = r.random() < 0.4
            members.append(m)
        if not any(m.unsized for m in members):
            members[0].unsized = {0}
        r.shuffle(members)
        if len(keys) >= 2 and all(k.bounded[0] == "tp" for k in keys) and r.random() < 0.45:
            # directed shape: the FIRST block relaxes the parameter of a key it only names (wildcard), the later blocks bind
            # that key and do not relax it; the other column keeps the rows apart
            j = r.randrange(len(keys))
            o = (j + 1) % len(keys)
            marks = r.sample(MARKERS, min(len(MARKERS), len(members)))
            if len(marks) == len(members):
                for mi, m in enumerate(members):
                    m.row[o] = leaf(marks[mi])
                    if mi == 0:
                        m.row[j] = None
                        m.unsized = set(m.unsized) | {keys[j].bounded[1]}
                    else:
                        if m.row[j] is None:
                            m.row[j] = leaf(self.pick(MARKERS))
                        m.unsized = set(m.unsized) - {keys[j].bounded[1]}
                plan.notes["directed"] = "first block relaxes a wildcard key"
        plan.families = [Family(self_ty, targs, nparams, keys, members)]
        plan.world, plan.plain, plan.probes = [], [], []
        for mi, m in enumerate(members):
            # one sized and (if relaxed) one unsized witness per member, plus unsized instances for members that did not relax
            saved = m.unsized
            m.unsized = set()
            plan.probes.append(self.witness(plan, 0, mi))
            m.unsized = set(range(nparams))
            for _ in range(2):
                plan.probes.append(self.witness(plan, 0, mi))
            m.unsized = saved
        plan.probes.append(("str", self.default_targs(plan)))
        self.finish_world(plan)
        return plan

    def unsized_shifted_plan(self):
        """directed shape (seeded change C15g): a family over three positions `(S, Box<T>, Box<U>)` keyed on a LATER position whose general
        block relaxes `Sized` on the key parameter (and maybe on the last one), plus a nested block fixing the FIRST position to a concrete
        type: its canonical numbers are shifted against the family's (`_1` of the family is `_0` of the nested block), so a relaxed
        parameter of the family must never be looked up in the nested block's numbering (or the other way round)."""
        r = self.r
        plan = Plan()
        plan.dtraits = [DTrait("D0")]
        plan.items = [("const", "NAME", False)]
        bx = lambda t: ("ctor", self.pick(["Box", "W1"]), [("aty", t)])
        b1, b2 = bx(("tp", 1)), bx(("tp", 2))
        hdr = self.pick([("tuple", [("tp", 0), b1, b2]), ("ctor", "W2", [("aty", ("tp", 0)), ("aty", ("tuple", [b1, b2]))])])
        kp = self.pick([1, 1, 2])
        keys = [Key(("tp", kp), 0, [], "G")]
        marks = r.sample(MARKERS, 3)
        gen = Member({}, [leaf(marks[0])], 3)
        gen.unsized = {kp} | ({3 - kp} if r.random() < 0.4 else set())
        nested = Member({0: ("ty", leaf(self.pick(["u32", "u16", "String"])))}, [leaf(marks[1])], 3)
        nested.unsized = self.pick([set(), set(), {kp}, {3 - kp}])
        members = [gen, nested]
        if r.random() < 0.4:
            third = Member({}, [leaf(marks[2])], 3)
            third.unsized = self.pick([set(), {kp}])
            members.append(third)
        for m in members:
            m.names = self.names(3)
            m.inline = {0: r.random() < 0.6}
            m.unsized_where = r.random() < 0.4
        if r.random() < 0.5:
            members.reverse()
        plan.families = [Family(hdr, [], 3, keys, members)]
        plan.notes["directed"] = "relaxed key parameter in a family with a shifted nested member"
        plan.notes["keep_plain"] = True
        plan.world, plan.plain, plan.probes = [], [], []
        for mi, m in enumerate(members):
            saved = m.unsized
            m.unsized = set()
            plan.probes.append(self.witness(plan, 0, mi))
            m.unsized = {1, 2}
            for _ in range(2):
                plan.probes.append(self.witness(plan, 0, mi))
            m.unsized = saved
        self.finish_world(plan)
        return plan

    # ------------------------------------------------------------------ inherent mode (C17, C06)
    def inherent(self):
        r = self.r
        plan = Plan()
        plan.mode = "inherent"
        plan.dtraits = [DTrait("D0")] + ([DTrait("D1", assocs=("G", "H"))] if r.random() < 0.4 else [])
        plan.items = [("const", "NAME", False)] + ([("fn", "tag", False)] if r.random() < 0.6 else [])
        use_pfn = r.random() < 0.6
        use_ltfn = r.random() < 0.7
        ntp = self.pick([1, 2, 2])
        has_const = r.random() < 0.35
        has_lt = r.random() < 0.45
        two_lt = has_lt and r.random() < 0.5
        lt_outlives = two_lt and r.random() < 0.4      # `impl<'a, 'b: 'a, ..>` in every block (the struct does not imply it)
        const_first = has_const and r.random() < 0.5       # `Wr<const N: usize, A0, ..>`: the const argument precedes the type arguments
        const_param = has_const and r.random() < 0.5       # the blocks are generic over it (`impl<const X: usize, ..> Wr<{ X }, ..>`)
        cdecl = ["const N: usize"] if has_const else []
        decl = (["'a"] if has_lt else []) + (["'b"] if two_lt else []) + (cdecl if const_first else []) + [f"A{i}" for i in range(ntp)] + ([] if const_first else cdecl)
        fields = ", ".join((["&'a ()"] if has_lt else []) + (["&'b ()"] if two_lt else []) + [f"PhantomData<A{i}>" for i in range(ntp)])
        plan.inherent_ty = f"pub struct Wr<{', '.join(decl)}>({fields});"
        nfam = 1 if const_param else self.pick([1, 1, 2])
        insts = []
        for fi in range(nfam):
            # instantiation of the type's parameters by the family header: params or concrete types / literals
            args = []
            nparams = 0
            cpar = None
            if const_param and const_first:
                cpar = 0
                nparams = 1
            for i in range(ntp):
                if fi == 0 or r.random() < 0.6 or nparams == 0 and i == ntp - 1:
                    args.append(("aty", ("tp", nparams)))
                    nparams += 1
                else:
                    args.append(("aty", leaf(self.pick(["u8", "u16"]))))
            if const_param and not const_first:
                cpar = nparams
                nparams += 1
            cargs = ([("aconst", ("ep", cpar))] if const_param else [("aconst", ("lit", str(1 + fi)))]) if has_const else []
            sig = repr((args, cargs))
            if sig in insts or nparams - (1 if const_param else 0) == 0:
                continue
            # families must not overlap: differing const literal, or a concrete argument facing a different concrete one
            if fi > 0 and not has_const:
                # make the first family concrete at a position where this one is concrete with another type
                continue
            insts.append(sig)
            self_ty = ("ctor", "Wr", ([("alt", "'a")] if has_lt else []) + ([("alt", "'b")] if two_lt else []) + (cargs + args if const_first else args + cargs))
            nkeys = self.pick([1, 1, 2])
            keys, used = [], set()
            tparams = [p_ for p_ in range(nparams) if p_ != cpar]
            for _ in range(nkeys):
                p = self.pick(tparams)
                dt = r.randrange(len(plan.dtraits))
                assoc = self.pick(plan.dtraits[dt].assocs)
                if (p, dt, assoc) in used:
                    continue
                used.add((p, dt, assoc))
                keys.append(Key(("tp", p), dt, [], assoc))
            members, rows = [], []
            tries = 0
            while len(members) < self.pick([2, 2, 3]) and tries < 20:
                tries += 1
                row = [leaf(self.pick(MARKERS)) for _ in keys]
                if any(_rows_unify(row, o) for o in rows):
                    continue
                rows.append(row)
                m = Member({}, row, nparams)
                m.names = self.names(nparams)
                m.decl_order = list(range(nparams))
                if cpar is not None:
                    m.const_params = {cpar}
                if r.random() < 0.5:
                    r.shuffle(m.decl_order)
                m.inline = {ki: r.random() < 0.6 for ki in range(len(keys))}
                m.lifetimes = (["'a"] if has_lt else []) + (["'b" + (": 'a" if lt_outlives else "")] if two_lt else [])
                if two_lt and r.random() < 0.5:
                    m.lifetimes.reverse()
                members.append(m)
            vis = {name: self.pick(["", "pub ", "pub(crate) "]) for _, name, _ in plan.items}
            for m in members:
                m.vis = dict(vis)
            plan.families.append(Family(self_ty, [], nparams, keys, members))
        if use_pfn and len({f.nparams for f in plan.families}) == 1:
            plan.items.append(("pfn", "pf", False))
            plan.notes["pfn_arity"] = plan.families[0].nparams
            for f in plan.families:
                for m in f.members:
                    m.vis["pf"] = f.members[0].vis.get("NAME", "")
        if r.random() < 0.45:
            # fn qualifiers are an input dimension of their own: `pub unsafe fn`
            plan.items.insert(1, ("ufn", "uraw", False))
            for f in plan.families:
                v_ = self.pick(["", "pub ", "pub ", "pub(crate) "])
                for m in f.members:
                    m.vis["uraw"] = v_
        if has_lt and use_ltfn:
            plan.items.append(("ltfn", "lt", False))
            plan.lt_ty = self.pick(["&'a u8", "&'a u8", "Option<&'a u8>", "core::result::Result<&'a u8, Vec<&'a str>>", "(u8, Box<&'a [u8]>)"])
            for f in plan.families:
                for m in f.members:
                    m.vis["lt"] = f.members[0].vis.get("NAME", "")
        self.populate(plan)
        plan.probes = [(ty.replace("'a", "'static").replace("'b", "'static"), ta) for ty, ta in plan.probes]
        return plan

    def default_targs(self, plan):
        return [{"lt": "'static", "ty": "u8", "const": "1"}[g[0]] for g in plan.trait_generics]


def _unify(a, b, sa, sb):
    """two-way unification of payload ASTs whose params are renamed apart (a: side 0, b: side 1); crude but safe:
    returns True when they MAY unify."""
    if a is None or b is None:
        return True
    if a[0] == "tp" or b[0] == "tp":
        return True
    if a[0] != b[0]:
        return False
    if a[0] == "leaf":
        return a[1] == b[1]
    if a[0] == "ctor":
        if a[1] != b[1] or len(a[2]) != len(b[2]):
            return False
        return all(_unify(x[1], y[1], sa, sb) for x, y in zip(a[2], b[2]))
    if a[0] == "tuple":
        return len(a[1]) == len(b[1]) and all(_unify(x, y, sa, sb) for x, y in zip(a[1], b[1]))
    return True


def _rows_unify(r1, r2):
    return all(_unify(a, b, {}, {}) for a, b in zip(r1, r2))


def add_header_twins(plan, rng, prob=0.15):
    """with probability `prob` write the self type of one block of a multi-member family in parentheses: the two
    spellings are different impl-group ids that generalise each other (trait mode only)"""
    if plan.mode != "trait" or rng.random() >= prob:
        return False
    cands = [m for f in plan.families if len(f.members) >= 2 for m in f.members]
    if not cands:
        return False
    rng.choice(cands).patch["paren_self"] = True
    return True
