#!/bin/bash
# usage: harness/sweep.sh <first seed> <last seed> [checks...]   — runs quick checks on the unchanged tree, prints every non-zero exit
cd "$(dirname "$0")/.."
a=$1; b=$2; shift 2
checks=${@:-C01 C02 C03 C04 C05 C06 C07 C08 C09 C10 C11 C12 C13 C14 C15 C16 C17}
for s in $(seq $a $b); do
  for c in $checks; do
    out=$(VERIF_SEED=$s ./check $c --tier quick 2>&1); rc=$?
    if [ $rc -ne 0 ]; then echo "seed=$s $c rc=$rc"; echo "$out" | grep -E "VIOLATION|Traceback|Error" | head -3; fi
  done
done
echo sweep-done
