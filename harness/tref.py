"""Independent (Python) reference operations on model trees, used by the per-case oracles:
instantiation, erasure of presentation, exact first-order matching, diffing. They share no code with
the Lean model or with the crate."""

WRAPPERS = {"Type::Group", "Type::Paren", "Expr::Group", "Pat::Paren"}


def N(kind, atoms=(), kids=()):
    return ("N", kind, list(atoms), list(kids))


def inst(sig, t):
    """sig: dict name -> ('ty', T) | ('ex', T) | ('id',)"""
    if t[0] == "P":
        v = sig.get(t[1])
        return v[1] if v and v[0] == "ty" else t
    if t[0] == "E":
        v = sig.get(t[1])
        return v[1] if v and v[0] == "ex" else t
    _, k, atoms, kids = t
    if k == "GenericArgument::Type" and not atoms and len(kids) == 1 and kids[0][0] == "P":
        v = sig.get(kids[0][1])
        if v and v[0] == "ex":
            return N("GenericArgument::Const", [], [v[1]])
    return ("N", k, atoms, [inst(sig, x) for x in kids])


def erase(t):
    if t[0] in "PE":
        return t
    _, k, atoms, kids = t
    if k == "Ign":
        return N("Ign")
    if k in WRAPPERS:
        return erase(kids[-1]) if kids else N("Ign")
    return ("N", k, atoms, [erase(x) for x in kids])


def params(t, acc=None):
    acc = acc if acc is not None else []
    if t[0] in "PE":
        acc.append(t[1])
    else:
        for x in t[3]:
            params(x, acc)
    return acc


def ref_match(a, b, sig=None, under_qself=False, info=None):
    """exact first-order matching of erased trees. Returns dict or None. `info['qself_bind']` is set when a
    parameter beneath an associated-type projection (QSelf) would have to be bound non-identically."""
    sig = {} if sig is None else sig
    info = info if info is not None else {}
    if a[0] in "PE":
        val = ("id",) if b == a else (("ty", b) if a[0] == "P" else ("ex", b))
        if under_qself and val != ("id",):
            info["qself_bind"] = True
        if a[1] in sig:
            return sig if sig[a[1]] == val else None
        sig[a[1]] = val
        return sig
    if b[0] in "PE":
        return None
    _, k, atoms, kids = a
    _, k2, atoms2, kids2 = b
    if k == "GenericArgument::Type" and k2 == "GenericArgument::Const" and len(kids) == 1 and kids[0][0] == "P":
        val = ("ex", kids2[0])
        n = kids[0][1]
        if under_qself:
            info["qself_bind"] = True
        if n in sig:
            return sig if sig[n] == val else None
        sig[n] = val
        return sig
    if k != k2 or atoms != atoms2 or len(kids) != len(kids2):
        return None
    uq = under_qself or k == "QSelf"
    for x, y in zip(kids, kids2):
        if ref_match(x, y, sig, uq, info) is None:
            return None
    return sig


def first_diff(x, y, path=()):
    """path of kinds down to the first position where two trees differ, or None"""
    if x == y:
        return None
    if x[0] in "PE" or y[0] in "PE":
        return path + ((x[1] if x[0] == "N" else x[0]) + "≠" + (y[1] if y[0] == "N" else y[0]),)
    _, k, atoms, kids = x
    _, k2, atoms2, kids2 = y
    if k != k2:
        return path + (f"{k}≠{k2}",)
    if atoms != atoms2:
        return path + (f"{k}:atoms",)
    if len(kids) != len(kids2):
        return path + (f"{k}:arity",)
    for i, (a, b) in enumerate(zip(kids, kids2)):
        d = first_diff(a, b, path + (k,))
        if d:
            return d
    return path + (k,)


def contains_kind(t, kinds):
    if t[0] in "PE":
        return False
    if t[1] in kinds:
        return True
    return any(contains_kind(x, kinds) for x in t[3])


def show(t, limit=200):
    """compact human-readable rendering for evidence samples"""
    def go(t):
        if t[0] in "PE":
            return t[1]
        _, k, atoms, kids = t
        inner = ",".join(list(atoms) + [go(x) for x in kids])
        return f"{k}[{inner}]" if inner else k
    s = go(t)
    return s if len(s) <= limit else s[:limit] + "…"
