#!/usr/bin/env python3
"""Confirm a seeded change (patch + demonstration) in a scratch worktree and run checks against it.
usage: seedtest.py <seed dir with patch.diff, demo.rs|demo_test.rs, meta.json> <name> <check id>...
Writes /verif/seeded/<name>/{patch.diff, demo.*, meta.json(+confirmation, +detection)}; /repo is restored afterwards."""
import json, os, shutil, subprocess, sys, time

def sh(cmd, cwd=None, env=None, timeout=1800):
    e = dict(os.environ); e["CARGO_NET_OFFLINE"] = "true"
    if env: e.update(env)
    p = subprocess.run(cmd, cwd=cwd, env=e, capture_output=True, text=True, timeout=timeout, shell=isinstance(cmd, str))
    return p.returncode, p.stdout, p.stderr

def main():
    src, name, checks = sys.argv[1], sys.argv[2], sys.argv[3:]
    out = f"/verif/seeded/{name}"
    os.makedirs(out, exist_ok=True)
    for f in os.listdir(src):
        if f in ("patch.diff", "demo.rs", "demo_test.rs", "meta.json"):
            shutil.copy(os.path.join(src, f), os.path.join(out, f))
    meta = json.load(open(os.path.join(out, "meta.json"))) if os.path.exists(os.path.join(out, "meta.json")) else {}
    wt = f"/tmp/verify/{name}"
    tgt = "/tmp/verify/target"
    os.makedirs("/tmp/verify", exist_ok=True)
    sh(["git", "-C", "/repo", "worktree", "remove", "--force", wt])
    rc, o, e = sh(["git", "-C", "/repo", "worktree", "add", "-q", "--detach", wt, "HEAD"])
    assert rc == 0, e
    conf = {}
    try:
        def build_and_demo(tag):
            rc, o, e = sh(["cargo", "build", "--offline"], cwd=wt, env={"CARGO_TARGET_DIR": tgt})
            if rc != 0:
                return {"build": "failed", "stderr": e[-800:]}
            r = {"build": "ok"}
            demo = os.path.join(out, "demo.rs")
            if os.path.exists(demo):
                rc, o, e = sh(f"rustc --edition 2024 -A warnings --extern disjoint_impls={tgt}/debug/libdisjoint_impls.so -L {tgt}/debug/deps {demo} -o /tmp/verify/{name}.bin", cwd="/tmp/verify")
                r["demo_compiles"] = rc == 0
                r["demo_errors"] = [l for l in e.splitlines() if l.startswith("error")][:4]
                if rc == 0:
                    rc2, o2, e2 = sh([f"/tmp/verify/{name}.bin"])
                    r["demo_exit"] = rc2
                    r["demo_stdout"] = o2[-600:]
                    r["demo_stderr"] = e2[-300:]
            return r
        conf["without_change"] = build_and_demo("base")
        rc, o, e = sh(["git", "apply", os.path.join(out, "patch.diff")], cwd=wt)
        conf["patch_applies"] = rc == 0
        if rc != 0:
            conf["apply_error"] = e[-500:]
        else:
            conf["with_change"] = build_and_demo("patched")
            rc, o, e = sh(["cargo", "test", "--workspace", "--no-fail-fast", "--offline"], cwd=wt, env={"CARGO_TARGET_DIR": tgt})
            passed = sum(int(l.split()[3]) for l in o.splitlines() if l.startswith("test result"))
            failed = sum(int(l.split()[5]) for l in o.splitlines() if l.startswith("test result"))
            conf["test_suite_with_change"] = {"rc": rc, "passed": passed, "failed": failed}
            dt = os.path.join(out, "demo_test.rs")
            conf["has_demo_test"] = os.path.exists(dt)
    finally:
        sh(["git", "-C", "/repo", "worktree", "remove", "--force", wt])
    meta["confirmation"] = conf
    # detection by the registered checks, against /repo itself
    det = {}
    rc, o, e = sh(["git", "-C", "/repo", "status", "--porcelain"])
    assert o.strip() == "", "repo not clean: " + o
    rc, o, e = sh(["git", "-C", "/repo", "apply", os.path.join(out, "patch.diff")])
    if rc == 0:
        try:
            for c in checks:
                t0 = time.time()
                rc, o, e = sh(["./check", c, "--tier", "quick"], cwd="/verif", timeout=3600)
                lines = [l for l in o.splitlines() if l.startswith("VIOLATION") or l.startswith("[")]
                det[c] = {"exit": rc, "violation_lines": [l for l in lines if l.startswith("VIOLATION")][:3], "summary": lines[-1:] , "wall_s": round(time.time() - t0, 1)}
                # keep the first replay for the record
                for l in lines:
                    if l.startswith("VIOLATION"):
                        rp = l.split("replay=")[1].split()[0]
                        try:
                            r = json.load(open(rp))
                            det[c]["replay_excerpt"] = {k: (v if not isinstance(v, str) else v[:400]) for k, v in list(r.items())[:12] if k not in ("macro_program", "shadow_program", "program", "control_program", "reference_program", "program_a", "program_b", "program_base", "program_variant")}
                        except Exception:
                            pass
                        break
        finally:
            sh(["git", "-C", "/repo", "checkout", "--", "."])
            sh(["git", "-C", "/repo", "clean", "-fdq", "src"])
            # files of /verif that the checks regenerate from /repo's source / rewrite on every run: back to the unchanged tree's
            sh(["python3", "-c", "import sys; sys.path.insert(0, '/verif'); from harness import facts, matchfacts; facts.generate(); matchfacts.generate()"], cwd="/verif")
            sh(["git", "-C", "/verif", "checkout", "--", "evidence"])
    else:
        det["error"] = "patch does not apply to /repo: " + e[-300:]
    meta["detection"] = det
    meta["checks_run"] = [f"./check {c} --tier quick" for c in checks]
    json.dump(meta, open(os.path.join(out, "meta.json"), "w"), indent=1, ensure_ascii=False)
    print(json.dumps({"confirmation": conf, "detection": {k: (v.get("exit"), v.get("violation_lines")) if isinstance(v, dict) else v for k, v in det.items()}}, indent=1, ensure_ascii=False)[:3000])

main()
