"""Shared machinery of every check: builds, drivers, evidence, findings, replays (DESIGN.md §2.3, §3)."""

import concurrent.futures as cf
import glob
import hashlib
import json
import os
import re
import shutil
import subprocess
import sys
import time

VERIF = os.path.dirname(os.path.dirname(os.path.abspath(__file__)))
REPO = os.environ.get("VERIF_REPO", "/repo")
WORK = os.path.join(VERIF, ".work")
LEAN = os.path.join(VERIF, "lean")
GUARD = "disjoint_impls_verif"
ALLOWED_AXIOMS = {"propext", "Classical.choice", "Quot.sound"}
NCPU = os.cpu_count() or 4

os.makedirs(WORK, exist_ok=True)


def log(*a):
    print(*a, file=sys.stderr, flush=True)


def _env(extra=None):
    e = dict(os.environ)
    e["CARGO_NET_OFFLINE"] = "true"
    e.pop("RUSTFLAGS", None)
    if extra:
        e.update(extra)
    return e


def sh(cmd, env=None, cwd=None, timeout=None, check=True, input=None):
    p = subprocess.run(cmd, env=env, cwd=cwd, timeout=timeout, capture_output=True, text=True, input=input)
    if check and p.returncode != 0:
        raise RuntimeError(f"command failed ({p.returncode}): {' '.join(cmd)}\n{p.stdout[-4000:]}\n{p.stderr[-4000:]}")
    return p


# ---------------------------------------------------------------------------------------------
# builds of /repo's current working tree
# ---------------------------------------------------------------------------------------------
_sysroot_cache = {}


def sysroot_lib(toolchain=None):
    if toolchain not in _sysroot_cache:
        cmd = ["rustc"] + ([f"+{toolchain}"] if toolchain else []) + ["--print", "sysroot"]
        root = sh(cmd).stdout.strip()
        libs = glob.glob(os.path.join(root, "lib", "rustlib", "*", "lib"))
        _sysroot_cache[toolchain] = libs[0]
    return _sysroot_cache[toolchain]


def build_hook():
    """cargo test --lib --no-run with the guard on; returns the path of the unit-test binary."""
    env = _env({"RUSTFLAGS": f"--cfg {GUARD}", "CARGO_TARGET_DIR": os.path.join(WORK, "target-hook")})
    p = sh(
        ["cargo", "test", "--offline", "--lib", "--no-run", "--message-format=json", "--manifest-path", os.path.join(REPO, "Cargo.toml")],
        env=env,
        check=False,
    )
    if p.returncode != 0:
        raise BuildError("hook build failed:\n" + _cargo_errors(p.stdout) + p.stderr[-3000:])
    exe = None
    for line in p.stdout.splitlines():
        try:
            m = json.loads(line)
        except ValueError:
            continue
        if m.get("reason") == "compiler-artifact" and m.get("executable") and m.get("profile", {}).get("test"):
            exe = m["executable"]
    if not exe:
        raise BuildError("hook build produced no test executable")
    return exe


def _cargo_errors(stdout):
    out = []
    for line in stdout.splitlines():
        try:
            m = json.loads(line)
        except ValueError:
            continue
        if m.get("reason") == "compiler-message" and m["message"].get("level") == "error":
            out.append(m["message"].get("rendered", ""))
    return "\n".join(out)


class BuildError(Exception):
    pass


def build_macro(toolchain=None):
    """cargo build of the proc-macro; returns the .so path. toolchain None = default (stable), or 'nightly'."""
    tdir = os.path.join(WORK, "target-" + (toolchain or "stable"))
    env = _env({"CARGO_TARGET_DIR": tdir})
    cmd = ["cargo"] + ([f"+{toolchain}"] if toolchain else []) + [
        "build", "--offline", "--message-format=json", "--manifest-path", os.path.join(REPO, "Cargo.toml")]
    p = sh(cmd, env=env, check=False)
    if p.returncode != 0:
        raise BuildError("macro build failed:\n" + _cargo_errors(p.stdout) + p.stderr[-3000:])
    so = None
    for line in p.stdout.splitlines():
        try:
            m = json.loads(line)
        except ValueError:
            continue
        if m.get("reason") == "compiler-artifact" and m.get("target", {}).get("name") == "disjoint_impls":
            for f in m.get("filenames", []):
                if f.endswith(".so"):
                    so = f
    if not so:
        raise BuildError("macro build produced no .so")
    return so


def run_hook(exe, requests, tag="hook"):
    """requests: list of (cmd, [args]) -> list of (status, [fields])"""
    inp = os.path.join(WORK, f"{tag}.{os.getpid()}.in")
    outp = os.path.join(WORK, f"{tag}.{os.getpid()}.out")
    with open(inp, "w") as f:
        for i, (cmd, args) in enumerate(requests):
            for a in args:
                assert "\t" not in a and "\n" not in a, a
            f.write("\t".join([str(i), cmd] + list(args)) + "\n")
    env = _env({"DISJOINT_IMPLS_VERIF_IN": inp, "DISJOINT_IMPLS_VERIF_OUT": outp, "LD_LIBRARY_PATH": sysroot_lib()})
    if os.path.exists(outp):
        os.remove(outp)
    p = sh([exe, "verif_driver::verif_driver", "--exact", "--test-threads=1"], env=env, check=False, timeout=3600)
    res = [None] * len(requests)
    if os.path.exists(outp):
        with open(outp) as f:
            for line in f:
                parts = line.rstrip("\n").split("\t")
                res[int(parts[0])] = (parts[1], parts[2:])
    missing = [i for i, r in enumerate(res) if r is None]
    if missing:
        # the driver died (stack overflow / abort) at the first missing request: mark it and continue after it
        first = missing[0]
        res[first] = ("crash", [p.stderr[-500:]])
        if first + 1 < len(requests):
            tail = run_hook(exe, requests[first + 1 :], tag=tag + "r")
            for j, r in enumerate(tail):
                res[first + 1 + j] = r
    for f in (inp, outp):
        if os.path.exists(f):
            os.remove(f)
    return res


# ---------------------------------------------------------------------------------------------
# Lean: proofs + executable model
# ---------------------------------------------------------------------------------------------
def lake_build(targets, clean=False):
    if clean:
        shutil.rmtree(os.path.join(LEAN, ".lake", "build"), ignore_errors=True)
    t0 = time.time()
    p = sh(["lake", "build"] + targets, cwd=LEAN, check=False, timeout=7200)
    return p.returncode == 0, (p.stdout + p.stderr)[-6000:], time.time() - t0


def driver_exe():
    return os.path.join(LEAN, ".lake", "build", "bin", "driver")


def run_lean(requests):
    """requests: list of 'cmd sexpr...' strings -> list of response strings (sexpr text)"""
    inp = "".join(f"{i} {r}\n" for i, r in enumerate(requests))
    p = subprocess.run([driver_exe()], input=inp, capture_output=True, text=True, timeout=3600)
    res = [None] * len(requests)
    for line in p.stdout.splitlines():
        i, _, rest = line.partition(" ")
        res[int(i)] = rest
    if any(r is None for r in res):
        raise RuntimeError("lean driver did not answer every request: " + p.stderr[-2000:])
    return res


_THEOREM_RE = re.compile(r"^\s*theorem\s+([A-Za-z0-9_'.]+)", re.M)


def proof_obligations(prop):
    """Build Props/<prop>.lean, audit axioms of every theorem in it.
    returns dict(obligations, discharged, failures[list of str], theorems[list], log)"""
    src = os.path.join(LEAN, "DisjointImpls", "Props", f"{prop}.lean")
    out = {"obligations": 0, "discharged": 0, "failures": [], "theorems": [], "log": ""}
    if not os.path.exists(src):
        out["failures"].append(f"missing {src}")
        return out
    text = open(src).read()
    # forbidden constructs (outside comments)
    code = re.sub(r"/-.*?-/", "", text, flags=re.S)
    code = re.sub(r"--.*", "", code)
    for bad in ("sorry", "admit", "native_decide", "bv_decide", "implemented_by", "maxHeartbeats 0"):
        if re.search(r"\b" + re.escape(bad) + r"\b", code) :
            out["failures"].append(f"forbidden construct `{bad}` in Props/{prop}.lean")
    if re.search(r"^\s*axiom\s", code, flags=re.M):
        out["failures"].append(f"own axiom in Props/{prop}.lean")
    names = []
    stack = []
    for line in code.splitlines():
        m = re.match(r"^\s*namespace\s+([A-Za-z0-9_.']+)", line)
        if m:
            stack.append(m.group(1))
            continue
        m = re.match(r"^\s*end\s+([A-Za-z0-9_.']+)\s*$", line)
        if m and stack and stack[-1] == m.group(1):
            stack.pop()
            continue
        m = re.match(r"^\s*(?:private\s+|protected\s+)?theorem\s+([A-Za-z0-9_'.]+)", line)
        if m:
            names.append(".".join(stack + [m.group(1)]))
    out["theorems"] = names
    out["obligations"] = len(names)
    ok, logtxt, secs = lake_build([f"DisjointImpls.Props.{prop}", "driver"])
    out["log"] = logtxt
    out["build_s"] = round(secs, 1)
    if not ok:
        out["failures"].append(f"lake build DisjointImpls.Props.{prop} failed")
        return out
    audit = os.path.join(WORK, f"audit_{prop}.lean")
    with open(audit, "w") as f:
        f.write(f"import DisjointImpls.Props.{prop}\n")
        for n in names:
            f.write(f"#print axioms {n}\n")
    p = sh(["lake", "env", "lean", audit], cwd=LEAN, check=False, timeout=3600)
    txt = p.stdout + p.stderr
    # output: "'DI.name' depends on axioms: [a, b]" or "'DI.name' does not depend on any axioms"
    seen = {}
    for m in re.finditer(r"'([^']+)' (does not depend on any axioms|depends on axioms: \[([^\]]*)\])", txt, flags=re.S):
        axs = set(a.strip() for a in (m.group(3) or "").replace("\n", " ").split(",") if a.strip())
        seen[m.group(1)] = axs
    axioms_used = set()
    for n in names:
        key = n
        if key not in seen:
            out["failures"].append(f"theorem {n}: no axiom report (does it exist in namespace DI?)")
            continue
        extra = seen[key] - ALLOWED_AXIOMS
        axioms_used |= seen[key]
        if extra:
            out["failures"].append(f"theorem {n} depends on disallowed axioms {sorted(extra)}")
        else:
            out["discharged"] += 1
    out["axioms_used"] = sorted(axioms_used)
    return out


# ---------------------------------------------------------------------------------------------
# rustc programs
# ---------------------------------------------------------------------------------------------
def run_programs(so, programs, toolchain=None, mode="run", extra_flags=(), jobs=None, env_fn=None):
    """programs: list of (name, source).  mode: 'run' (compile+run), 'check' (metadata only), 'expand'.
    returns list of dict(rc, stdout, stderr, errors[list of error lines])"""
    pdir = os.path.join(WORK, f"progs.{os.getpid()}")
    shutil.rmtree(pdir, ignore_errors=True)
    os.makedirs(pdir)
    deps = os.path.dirname(so)

    def one(idx):
        name, src = programs[idx]
        path = os.path.join(pdir, f"p{idx}.rs")
        with open(path, "w") as f:
            f.write(src)
        base = ["rustc"] + ([f"+{toolchain}"] if toolchain else []) + [
            "--edition", "2024", "-A", "warnings", "--extern", f"disjoint_impls={so}", "-L", deps] + list(extra_flags)
        env = _env(env_fn(idx) if env_fn else None)
        if mode == "check":
            cmd = base + ["--emit=metadata", "--crate-type", "lib" if "fn main" not in src else "bin", "-o", os.path.join(pdir, f"p{idx}.rmeta"), path]
        elif mode == "expand":
            cmd = base + ["-Zunpretty=expanded", path]
        else:
            cmd = base + ["-C", "debuginfo=0", "-C", "opt-level=0", "-o", os.path.join(pdir, f"p{idx}.bin"), path]
        try:
            p = subprocess.run(cmd, capture_output=True, text=True, timeout=300, env=env, cwd=pdir)
        except subprocess.TimeoutExpired:
            return {"rc": -9, "stdout": "", "stderr": "timeout", "errors": ["timeout"], "ran": False}
        res = {"rc": p.returncode, "stdout": p.stdout, "stderr": p.stderr, "ran": False,
               "errors": [l for l in p.stderr.splitlines() if l.startswith("error")]}
        if mode == "run" and p.returncode == 0:
            try:
                q = subprocess.run([os.path.join(pdir, f"p{idx}.bin")], capture_output=True, text=True, timeout=60)
                res.update({"ran": True, "run_rc": q.returncode, "stdout": q.stdout, "run_stderr": q.stderr[-2000:]})
            except subprocess.TimeoutExpired:
                res.update({"ran": True, "run_rc": -9, "stdout": "", "run_stderr": "timeout"})
            try:
                os.remove(os.path.join(pdir, f"p{idx}.bin"))
            except OSError:
                pass
        return res

    with cf.ThreadPoolExecutor(max_workers=jobs or NCPU) as ex:
        results = list(ex.map(one, range(len(programs))))
    shutil.rmtree(pdir, ignore_errors=True)
    return results


# ---------------------------------------------------------------------------------------------
# findings, replays, evidence
# ---------------------------------------------------------------------------------------------
def load_findings():
    path = os.path.join(VERIF, "known_findings.json")
    if not os.path.exists(path):
        return {"findings": [], "fixed": []}
    return json.load(open(path))


def findings_for(prop):
    return [f for f in load_findings()["findings"] if prop in f["property"] and f.get("status", "open") == "open"]


def write_replay(prop, payload):
    d = os.path.join(VERIF, "replays", prop)
    os.makedirs(d, exist_ok=True)
    blob = json.dumps(payload, indent=1, sort_keys=True, ensure_ascii=False)
    h = hashlib.sha1(blob.encode()).hexdigest()[:12]
    path = os.path.join(d, f"{h}.json")
    with open(path, "w") as f:
        f.write(blob)
    return path


TRUSTED_BASE = [
    "Lean 4.33.0 kernel; axioms per theorem as reported by `#print axioms` (subset of propext, Classical.choice, Quot.sound)",
    "hand-written Lean model of the macro; tie to /repo = correspondence run of this check (hook driver / rustc) on generated cases",
    "harness: syn Debug parser + schema (harness/syn_dbg.py), Lean driver S-expression reader, case generators and oracles",
    "syn/proc-macro2/quote/indexmap/itertools as pinned in Cargo.lock; rustc 1.95 trait selection and coherence",
]


def write_evidence(prop, tier, seed, level, coverage, wall_s, violations, assumptions=None):
    d = os.path.join(VERIF, "evidence")
    os.makedirs(d, exist_ok=True)
    ev = {
        "property_id": prop,
        "tier": tier,
        "seed": seed,
        "level": level,
        "coverage": coverage,
        "assumptions": assumptions or [],
        "wall_s": round(wall_s, 2),
        "violations": violations,
    }
    with open(os.path.join(d, f"{prop}.json"), "w") as f:
        json.dump(ev, f, indent=1, ensure_ascii=False)
        f.write("\n")
    return ev


class Report:
    """Collects what a check run found and turns it into exit status / VIOLATION lines / evidence."""

    def __init__(self, prop, tier, seed):
        self.prop, self.tier, self.seed = prop, tier, seed
        self.t0 = time.time()
        self.proof = None
        self.evaluations = 0
        self.distinct = set()
        self.samples = []
        self.disagreements = []      # model vs implementation
        self.oracle_failures = []    # implementation vs property oracle (unlisted)
        self.known_hits = {}         # finding id -> count
        self.broken = []             # proof obligations / build problems
        self.dist = {}
        self.extra = {}
        self.rule = ""

    def count(self, key, n=1):
        self.dist[key] = self.dist.get(key, 0) + n

    def case(self, fingerprint, nontrivial=True, sample=None):
        self.evaluations += 1
        if nontrivial:
            self.distinct.add(hashlib.sha1(repr(fingerprint).encode()).hexdigest())
        if sample is not None and len(self.samples) < 6:
            self.samples.append(sample)

    def known(self, fid, n=1):
        self.known_hits[fid] = self.known_hits.get(fid, 0) + n

    def witnesses(self):
        """Regression / finding witnesses: every corpus/<prop>/*.rs whose first line is
        `// witness: expect=ok stdout=<text>` (must compile against the current macro and print exactly that: the
        minimized inputs of repaired defects) or `// witness: expect=finding id=<F-..>` (an open finding: counted as
        known while it still fails, silently fine once it passes) or `// witness: expect=reject codes=E0119` (must not compile)."""
        d = os.path.join(VERIF, "corpus", self.prop)
        files = sorted(f for f in (os.listdir(d) if os.path.isdir(d) else []) if f.endswith(".rs"))
        todo = []
        for f in files:
            first = open(os.path.join(d, f), encoding="utf-8").readline().strip()
            if first.startswith("// witness:"):
                kv = dict(x.split("=", 1) for x in first[len("// witness:"):].split() if "=" in x)
                todo.append((f, kv))
        if not todo:
            return
        try:
            so = build_macro()
        except BuildError as e:
            self.broken.append(str(e)[:2000])
            return
        import tempfile
        known = {f["id"] for f in findings_for(self.prop)}
        with tempfile.TemporaryDirectory(prefix="verif-wit-") as tmp:
            for f, kv in todo:
                src = os.path.join(d, f)
                exe = os.path.join(tmp, f[:-3])
                r = subprocess.run(["rustc", "--edition", "2024", "-A", "warnings", "--extern", f"disjoint_impls={so}",
                                    "-L", os.path.dirname(so), src, "-o", exe], capture_output=True, text=True)
                out = None
                if r.returncode == 0:
                    rr = subprocess.run([exe], capture_output=True, text=True, timeout=60)
                    out = rr.stdout.strip().replace("\n", "|") if rr.returncode == 0 else f"<exit {rr.returncode}>"
                self.count("witness:" + kv.get("expect", "?"))
                self.case(("witness", f))
                if kv.get("expect") == "ok":
                    want = kv.get("stdout", "").replace("_", " ")
                    if out != want:
                        self.oracle_failures.append({"clause": "regression witness of a repaired defect no longer behaves as repaired",
                                                     "witness": "corpus/%s/%s" % (self.prop, f), "expected_stdout": want, "got_stdout": out,
                                                     "compiler_errors": [l for l in r.stderr.splitlines() if l.startswith("error")][:5]})
                elif kv.get("expect") == "reject":
                    # a program that must NOT compile (a genuine overlap: some type satisfies two blocks — shown by the shadow traits inside the
                    # program itself); `codes=` lists the acceptable diagnostics
                    codes = set(re.findall(r"error\[(E\d+)\]", r.stderr))
                    allowed = set(kv.get("codes", "").split(",")) - {""}
                    if r.returncode == 0:
                        self.oracle_failures.append({"clause": "an invocation with two blocks that a common type satisfies compiles (the overlap is resolved silently)",
                                                     "witness": "corpus/%s/%s" % (self.prop, f), "stdout_of_the_compiled_program": out})
                    elif allowed and not (codes & allowed) and "proc macro panicked" not in r.stderr and "error: " not in r.stderr:
                        self.oracle_failures.append({"clause": "rejected for another reason than the overlap", "witness": f, "codes": sorted(codes)})
                elif kv.get("expect") == "finding":
                    if out is None or out != kv.get("stdout", out).replace("_", " "):
                        if kv.get("id") in known:
                            self.known(kv["id"])
                        else:
                            self.oracle_failures.append({"clause": "witness of a finding that is not listed", "witness": f})

    def finish(self, level=None, assumptions=None, checker_cmd=None):
        prop = self.prop
        if not getattr(self, "_witnessed", False):
            self._witnessed = True
            self.witnesses()
        if level is None:
            try:
                level = json.load(open(os.path.join(VERIF, "harness", "built.json")))[prop].get("category", "proof")
            except Exception:
                level = "proof"
        violations = []
        findings = {f["id"]: f for f in findings_for(prop)}
        for fid, n in sorted(self.known_hits.items()):
            f = findings.get(fid)
            if f:
                print(f"KNOWN-FINDING: property={prop} {fid}: {f['what']} ({n} case(s) this run)")
        for of in self.oracle_failures[:5]:
            path = write_replay(prop, {"kind": "oracle-failure", "property": prop, "tier": self.tier, "seed": self.seed, **of})
            violations.append(f"VIOLATION property={prop} replay={path}")
        if not self.oracle_failures:
            if self.broken:
                path = write_replay(prop, {"kind": "proof-or-build-broken", "property": prop, "tier": self.tier,
                                           "seed": self.seed, "no_longer_checks": self.broken,
                                           "smallest_disagreements": self.disagreements[:3]})
                violations.append(f"VIOLATION property={prop} replay={path} no-failing-input-found")
            elif self.disagreements:
                path = write_replay(prop, {"kind": "correspondence-broken", "property": prop, "tier": self.tier,
                                           "seed": self.seed,
                                           "no_longer_checks": "model/implementation correspondence of " + prop,
                                           "smallest_disagreements": self.disagreements[:5]})
                violations.append(f"VIOLATION property={prop} replay={path} no-failing-input-found")
        proof = self.proof or {"obligations": 0, "discharged": 0, "theorems": [], "axioms_used": []}
        coverage = {
            "obligations": proof["obligations"],
            "discharged": proof["discharged"],
            "checker_cmd": checker_cmd or f"cd lean && lake build DisjointImpls.Props.{prop} && lake env lean <#print axioms of every theorem>",
            "trusted_base": TRUSTED_BASE,
            "theorems": proof.get("theorems", []),
            "axioms_used": proof.get("axioms_used", []),
            "evaluations": self.evaluations,
            "distinct_nontrivial": len(self.distinct),
            "rule": self.rule,
            "samples": self.samples,
            "traces_validated_against_impl": self.evaluations,
            "programs": max(self.evaluations, 1),
            "disagreements_checked": self.evaluations,
            "model_vs_impl_disagreements": len(self.disagreements),
            "impl_vs_oracle_failures_unlisted": len(self.oracle_failures),
            "known_findings_hit": self.known_hits,
            "input_distribution": self.dist,
            "proof_failures": self.broken,
        }
        coverage.update(self.extra)
        wall = time.time() - self.t0
        write_evidence(prop, self.tier, self.seed, level, coverage, wall, len(violations), assumptions)
        for v in violations:
            print(v)
        print(f"[{prop}] tier={self.tier} seed={self.seed} obligations={proof['obligations']} discharged={proof['discharged']} "
              f"cases={self.evaluations} distinct={len(self.distinct)} disagreements={len(self.disagreements)} "
              f"oracle_failures={len(self.oracle_failures)} known={sum(self.known_hits.values())} wall={wall:.1f}s")
        return 1 if violations else 0
