"""C15 — ?Sized relaxation is exact (DESIGN.md §7 C15)."""

import random

from .. import common as C
from ..gen_inv import PlanGen
from .. import progcheck as PC
from .dispatch_common import plan_summary, judge_tables
from . import shape

PROP = "C15"


def relaxed_non_key_params(plan):
    """(member idx, param idx) relaxed by the member although no key bounds that bare parameter (D7's shape)"""
    f = plan.families[0]
    # a (bounded, trait) pair is a dispatch key only if some member binds an associated type of it (all-wildcard columns are pruned)
    keyed = {k.bounded[1] for ki, k in enumerate(f.keys) if k.bounded[0] == "tp" and any(m.row[ki] is not None for m in f.members)}
    return [(mi, p) for mi, m in enumerate(f.members) for p in m.unsized if p not in keyed]


def run(tier, seed, replay=None):
    rep = C.Report(PROP, tier, seed)
    rep.rule = ("one family, 2-3 members, every subset of members relaxing every subset of parameters (inline or where-clause), "
                "parameter in self position / under Box, &, local wrappers / as trait argument of `Kita<X: ?Sized>`; worlds with sized "
                "and unsized (str, [u8]) instances for every member, also for members that did not relax; judged against the shadow "
                "program: implemented iff some block applies, and the item is the applicable block's; distinct = distinct invocations")
    proof = C.proof_obligations(PROP)
    rep.proof = proof
    rep.broken += proof["failures"]
    try:
        so = C.build_macro()
        exe = C.build_hook()
    except C.BuildError as e:
        rep.broken.append(str(e)[:2000])
        return rep.finish()
    rng = random.Random(seed * 7919 + 15)
    g = PlanGen(rng)
    n = 70 if tier == "quick" else 1200
    plans = [g.unsized_plan() for _ in range(n)]
    # a relaxed key parameter in a family with a nested member whose canonical numbers are shifted (seeded change C15g)
    plans += [g.unsized_shifted_plan() for _ in range(max(6, n // 6))]
    evs = PC.evaluate(so, plans)
    known = {f["id"] for f in C.findings_for(PROP)}
    ok_plans = []
    for ev in evs:
        plan = ev.plan
        if not ev.shadow_ok:
            rep.count("control-rejected")
            continue
        if ev.overlap_probes():
            rep.count("overlapping")
            continue
        rep.case(plan.invocation_text() + repr(plan.probes), True, sample=plan_summary(plan))
        nonkey = relaxed_non_key_params(plan)
        rep.count("relaxed-non-key-param" if nonkey else "relaxed-key-params-only")
        if not ev.macro_ok:
            sig = PC.classify_reject(ev)
            if "E0203" in sig and any(g_[0] == "ty" and "?Sized" in (g_[2] or "") for g_ in plan.trait_generics) and "F-D16" in known:
                rep.known("F-D16")
                continue
            rep.oracle_failures.append({"clause": "relaxing Sized must not make the invocation fail (the shadow program compiles)",
                                        "first_error": ev.first_error(), "invocation": plan.invocation_text(),
                                        "macro_program": plan.macro_program(), "shadow_program": plan.shadow_program()})
            continue
        fails = judge_tables(PROP, rep, ev, {"coverage", "items"})
        real = []
        for f in fails:
            # D7: an unsized probe of a block that relaxed a parameter no key bounds
            if f.get("clause", "").startswith("implemented iff") and not f.get("implemented") and nonkey and "F-D7" in known:
                apps = f.get("applicable_blocks", [])
                if any(mi == a for a in apps for (mi, p) in nonkey):
                    rep.known("F-D7")
                    continue
            real.append(f)
        for f in real[:2]:
            rep.oracle_failures.append({**f, "invocation": plan.invocation_text(), "macro_program": plan.macro_program(),
                                        "shadow_program": plan.shadow_program()})
        for pi, (ty, _) in enumerate(plan.probes):
            rep.count("probe:unsized" if ("str" in ty or "[u8]" in ty) else "probe:sized")
        ok_plans.append(plan)
    shape.validate(rep, exe, ok_plans, PROP)
    # the Lean model of the three generators (Expand.lean) against the real helper trait / helper impls / main impl
    from . import expandcorr
    expandcorr.compare(rep, exe, ok_plans)
    return rep.finish()
