"""C02 — exact coverage (DESIGN.md §7 C02)."""
from . import dispatch_common as D


def run(tier, seed, replay=None):
    return D.run("C02", tier, seed, replay, {"coverage"}, 60, 1500,
                 "random plans as for C01, plus partial worlds (a clause dropped or given a payload no block mentions) and types matching "
                 "no block; judged: for every probe, `implemented` (inherent-const-over-trait-const probe in the macro program) iff some "
                 "block applies according to the shadow program compiled by rustc")
