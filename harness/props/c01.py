"""C01 — dispatch soundness (DESIGN.md §7 C01)."""
from . import dispatch_common as D


def run(tier, seed, replay=None):
    return D.run("C01", tier, seed, replay, {"items"}, 60, 1500,
                 "random plans (1-3 families, 2-4 members, 1-3 keys, generic payloads, wildcards, nested members, shuffled declaration "
                 "order, defaults overridden or not) with a world making every member applicable to a fresh ground instance, partial and "
                 "negative probes; distinct = distinct (invocation, probes); non-trivial = at least two blocks; judged: probes to which exactly "
                 "one block applies according to the shadow program compiled by rustc")
