"""C06 — independence from parameter names, declaration order and bound placement (DESIGN.md §7 C06)."""

import random

from .. import common as C
from ..gen_inv import PlanGen
from .. import progcheck as PC
from .dispatch_common import plan_summary
from . import variants as V

PROP = "C06"


def run(tier, seed, replay=None):
    rep = C.Report(PROP, tier, seed)
    rep.rule = ("base plans (trait mode and inherent mode; accepted and rejected) x variants: consistent renamings of every block's "
                "parameters (pools include the reserved canonical names in permuted order, names of associated types/items/marker "
                "types, single letters in reverse), permutations of the declaration order in impl<..>, inline/where placement of every "
                "dispatch bound; observable = (compiles?, dispatch table); distinct = distinct invocation texts")
    proof = C.proof_obligations(PROP)
    rep.proof = proof
    rep.broken += proof["failures"]
    try:
        so = C.build_macro()
    except C.BuildError as e:
        rep.broken.append(str(e)[:2000])
        return rep.finish()
    rng = random.Random(seed * 7919 + 6)
    g = PlanGen(rng)
    nbase, nvar = (16, 9) if tier == "quick" else (300, 24)
    bases = []
    while len(bases) < nbase:
        c = rng.random()
        if c < 0.15:
            p, _ = g.overlap()
        elif c < 0.35:
            p = g.inherent()
        elif c < 0.5:
            p = g.lifetime_keys_plan()
        elif c < 0.62:
            # `?Sized` relaxations, inline or in the where-clause: the placement variants move them too (seeded change C06f)
            p = g.unsized_plan(d7=False)
        else:
            p = g.basic(nfam=rng.choice([1, 1, 2]))
            if rng.random() < 0.5:
                # a redundant second statement of a dispatch bound without its binding, on one or two members: its placement
                # (inline / where, before / after the binding) is one more thing the placement variants move
                ms = [(f_, m_) for f_ in p.families for m_ in f_.members if m_.custom_bounds is None and any(x is not None for x in m_.row)]
                for f_, m_ in rng.sample(ms, min(len(ms), rng.choice([1, 2]))):
                    kis = [ki for ki, x in enumerate(m_.row) if x is not None]
                    m_.redundant = {rng.choice(kis): (rng.random() < 0.5, rng.random() < 0.5)}
        bases.append(p)
    for _ in range(3 if tier == "quick" else 40):
        # every run: families whose key parameter is relaxed by exactly ONE member, inline in the base presentation — the placement
        # variants move the `?Sized` to the where-clause (seeded change C06f)
        p = g.unsized_plan(d7=False)
        for f_ in p.families:
            for mi_, m_ in enumerate(f_.members):
                m_.unsized_where = False
        bases.append(p)
    allv, owner = [], []
    for bi, b in enumerate(bases):
        allv.append(b)
        owner.append((bi, "base"))
        for k in range(nvar):
            kind = ["rename", "declorder", "placement", "all"][k % 4]
            q = b
            if kind in ("rename", "all"):
                q = V.rename_variant(q, rng)
            if kind in ("declorder", "all"):
                q = V.declorder_variant(q, rng)
            if kind in ("placement", "all"):
                q = V.placement_variant(q, rng)
            allv.append(q)
            owner.append((bi, kind))
    evs = PC.evaluate(so, allv, need_shadow=False)
    by_base = {}
    for ev, (bi, label) in zip(evs, owner):
        by_base.setdefault(bi, []).append((label, ev))
    known_ids = {f["id"] for f in C.findings_for(PROP)}
    for bi, lst in by_base.items():
        ref_label, ref = lst[0]
        ref_obs = V.observable(ref)
        rep.count("base:" + ref_obs[0] + ":" + bases[bi].mode)
        for label, ev in lst:
            rep.case(ev.plan.invocation_text(), label != "base",
                     sample={**plan_summary(ev.plan), "variant": label, "observable": V.observable(ev)[0]} if label != "base" else None)
            rep.count("variant:" + label)
            obs = V.observable(ev)
            if obs != ref_obs:
                def has_dup(pl):
                    ts = [pl.block_text(i) for i in range(len(pl.blocks()))]
                    return len(set(ts)) != len(ts)
                if (has_dup(ref.plan) or has_dup(ev.plan)) and "F-D12" in known_ids:
                    rep.known("F-D12")
                    break
                bol = ref.plan.mode == "trait" and any(len(m_.lifetimes) >= 2 and any(a_[0] == "lt_" for k_ in f_.keys for a_ in k_.dargs)
                                                       for f_ in ref.plan.families for m_ in f_.members)
                if (ref.plan.notes.get("bound_only_lifetimes") or bol) and label in ("placement", "all") and "F-D20" in known_ids:
                    rep.known("F-D20")
                    continue
                rep.oracle_failures.append({"clause": f"a {label} variant changed " + ("whether the invocation compiles" if obs[0] != ref_obs[0] else "the dispatch table"),
                                            "variant": label, "observable_base": repr(ref_obs)[:600], "observable_variant": repr(obs)[:600],
                                            "first_error_variant": ev.first_error(), "first_error_base": ref.first_error(),
                                            "program_base": ref.plan.macro_program(), "program_variant": ev.plan.macro_program()})
                break
    return rep.finish()
