"""C13 — parameter canonicalisation is a consistent, capture-free bijection (DESIGN.md §7 C13)."""

import copy
import random
import re

from .. import common as C
from ..gen_inv import PlanGen
from ..syn_dbg import parse_dbg, decode, sexpr, parse_sexpr, from_sx, PARAM_PREFIX
from .. import tref
from . import variants as V

PROP = "C13"

NAME_POOLS = V.ADVERSARIAL_NAMES + [["Kita", "D0", "D1", "Plain0", "Tr", "Clone"]]


def label_item(lts, rng):
    """loop / block labels spelled like the block's lifetime parameters: labels and lifetimes share their syntax
    (`syn::Lifetime`), declaration and jump sites must be rewritten consistently or not at all"""
    a = sorted(lts)[0]
    b = sorted(lts)[-1]
    return (f"fn lbl(n: usize) -> usize {{ let mut i = 0; {a}: loop {{ i += 1; if i > n {{ break {a}; }} }} "
            f"{b}: for _j in 0..n {{ if i > 1 {{ continue {b}; }} i += 1; }} let r = {a}: {{ if n > 3 {{ break {a} 1; }} 2 }}; i + r }}")


def item_text(names, nparams, rng, form=None, fixed=None):
    """an item whose signature and body mention the parameters in many syntactic positions"""
    if nparams == 0:
        return ""
    p0 = names[0]
    p1 = names[min(1, nparams - 1)]
    q0 = (fixed or names)[0]      # spelling used at positions that are NOT occurrences of the parameter (field, module path)
    forms = [
        f"fn g(a: &{p0}, b: Option<{p1}>) -> usize {{ let _z: Vec<{p0}> = Vec::new(); core::mem::size_of::<{p1}>() }}",
        f"fn g() -> usize {{ <{p0} as Clone>::clone; {p0}::default; let x: [{p1}; 2]; x.{q0}; m::{q0}(1); 0 }}",
        f"fn g(x: {p0}) -> <{p1} as core::ops::Deref>::Target {{ let f = |y: {p0}| -> {p1} {{ y.into() }}; loop {{}} }}",
        f"type Alias = ({p0}, fn({p1}) -> {p0}, &'static dyn Fn({p0}) -> {p1});",
        f"const C: usize = core::mem::size_of::<{p0}>() + {p1}::LEN;",
        # generic arguments on a LATER segment of a parameter-rooted path (generic associated types, turbofish on an
        # associated fn): they mention other parameters and must be rewritten too
        f"fn h(x: {p0}::Of<{p1}>, y: Option<{p1}::Of<Vec<{p0}>, {p0}>>) -> usize {{ let _k = {p0}::make::<{p1}>(); let _v: <{p0} as m::Tr>::Of<{p1}> = loop {{}}; 0 }}",
        # qualified EXPRESSION paths whose path part (trait arguments, turbofish of the last segment) mentions parameters; the
        # traits are not spelled like any parameter pool entry (seeded change C13d: early return on a qualified self)
        f"fn q(x: {p0}) -> usize {{ let _a = <{p1} as From<{p0}>>::from; let _b = <Option<{p0}>>::map_or::<usize, fn({p0}) -> usize>; "
        f"let _c = <{p0} as m::Tg<{p1}, [{p0}; 2]>>::tag::<{p1}>; let _d = <({p0}, {p1}) as m::Tg<{p0}>>::K; 0 }}",
        # parameters inside macro invocations (opaque token streams to syn): open finding F-D28
        f"fn mc() -> usize {{ let _s = format!(\"{{}}\", core::any::type_name::<{p0}>()); let _v = vec![core::mem::size_of::<{p1}>()]; 0 }}",
    ]
    return forms[form % len(forms)] if form is not None else rng.choice(forms)


def macro_param_occurrences(t, names, out):
    """identifier tokens spelled like a declared type/const parameter inside a macro invocation (`Eq[Macro{…}]` leaves)"""
    if t[0] != "N":
        return out
    _, k, atoms, kids = t
    if k == "Eq":
        txt = tref.show(t, 1000000)
        if "Macro{" in txt:
            for nm in names:
                if ("Ident{sym:%s}" % nm) in txt:
                    out.append(nm)
        return out
    for x in kids:
        macro_param_occurrences(x, names, out)
    return out


def independent_rename(t, ren):
    """capture-free simultaneous renaming at parameter occurrences only (independent of the model):
    lifetimes by identifier, type/expression paths by their first segment (only when not qualified)."""
    if t[0] == "P":
        return ("P", ren["ty"].get(t[1], t[1]))
    if t[0] == "E":
        n = t[1]
        return ("E", ren["ty"].get(n, ren["co"].get(n, n)))
    _, k, atoms, kids = t
    if k in ("Ign", "Eq"):
        return t
    if k == "Lifetime" and kids and kids[0][1] == "Ident":
        x = kids[0][2][0]
        return ("N", k, atoms, [("N", "Ident", [ren["lt"].get(x, x)], [])])
    kids2 = [independent_rename(x, ren) for x in kids]
    if k in ("Type::Path", "Expr::Path"):
        path = kids2[-1]
        segs = path[3][1][3]
        if segs:
            first = segs[0]
            ident = first[3][0][2][0]
            m = dict(ren["ty"])
            bare = kids2[-2][1] == "None" and len(segs) == 1 and first[3][1][1] == "PathArguments::None" and path[3][0] == tref.N("IgnL", [], [tref.N("None")])
            if k == "Expr::Path" and bare:
                # a const parameter is named only by a bare identifier
                for a, b in ren["co"].items():
                    m.setdefault(a, b)
            if ident in m:
                newseg = ("N", "PathSegment", [], [("N", "Ident", [m[ident]], []), first[3][1]])
                path = ("N", "Path", [], [path[3][0], ("N", "List", [], [newseg] + segs[1:])])
                kids2 = kids2[:-1] + [path]
    return ("N", k, atoms, kids2)


def norm_paths(t, reserved):
    """identify `X::rest` with `<X>::rest` when X is a canonical parameter, and single-segment canonical paths with P/E"""
    if t[0] in "PE":
        return t
    _, k, atoms, kids = t
    kids = [norm_paths(x, reserved) for x in kids]
    if k in ("Type::Path", "Expr::Path"):
        qself, path = kids[-2], kids[-1]
        segs = path[3][1][3]
        if qself[1] == "None" and segs:
            ident = segs[0][3][0][2][0]
            if ident.startswith(reserved) and segs[0][3][1][1] == "PathArguments::None":
                if len(segs) == 1 and path[3][0] == tref.N("IgnL", [], [tref.N("None")]):
                    return ("P" if k == "Type::Path" else "E", ident)
                if len(segs) > 1 and (k == "Type::Path" or ident in reserved_types(reserved, ident)):
                    q = tref.N("Some", [], [tref.N("QSelf", [], [("P", ident), tref.N("Atom", ["0"]), tref.N("None")])])
                    p = tref.N("Path", [], [tref.N("IgnL", [], [tref.N("Some", ["PathSep"])]), tref.N("List", [], segs[1:])])
                    pre = [tref.N("Ign", [], [tref.N("List")])] if k == "Expr::Path" else []
                    return ("N", k, atoms, pre + [q, p])
    return ("N", k, atoms, kids)


_TYPE_NAMES = set()


def reserved_types(prefix, ident):
    return _TYPE_NAMES


def generics_names(item):
    """[(kind, ident)] of the declared parameters, in declaration order"""
    out = []
    g = item[3][3]
    for p in g[3][1][3]:
        kind = p[1]
        inner = p[3][0]
        if kind == "GenericParam::Lifetime":
            out.append(("lt", inner[3][1][3][0][2][0]))
        elif kind == "GenericParam::Type":
            out.append(("ty", inner[3][1][2][0]))
        else:
            out.append(("co", inner[3][1][2][0]))
    return out


def run(tier, seed, replay=None):
    global _TYPE_NAMES
    rep = C.Report(PROP, tier, seed)
    rep.rule = ("impl blocks printed from random plans (inline and where-clause bounds, generic payloads, nested headers, trait arguments, "
                "lifetimes) with items whose signatures and bodies mention the parameters (`T::assoc`, `<T as Tr>::C`, closures, casts, "
                "fields/methods/modules spelled like parameters), under adversarial spellings (reserved canonical names permuted, names of "
                "traits/associated types/items); distinct = distinct block texts; non-trivial = at least one parameter")
    proof = C.proof_obligations(PROP)
    rep.proof = proof
    rep.broken += proof["failures"]
    try:
        exe = C.build_hook()
    except C.BuildError as e:
        rep.broken.append(str(e)[:2000])
        return rep.finish()
    rng = random.Random(seed * 7919 + 13)
    g = PlanGen(rng)
    n = 120 if tier == "quick" else 4000
    texts = []      # (block text, group key for header-invariance, variant label)
    pis = {}
    for i in range(n):
        c = rng.random()
        plan = g.trait_args_plan() if c < 0.25 else (g.inherent() if c < 0.35 else (g.lifetime_keys_plan() if c < 0.5 else g.basic()))
        nb = len(plan.blocks())
        bi = rng.randrange(nb)
        base = copy.deepcopy(plan)
        m = base.blocks()[bi][2]
        form = rng.randrange(8)
        for v in range(4):
            q = copy.deepcopy(base)
            mm = q.blocks()[bi][2]
            if v > 0:
                names = list(rng.choice(NAME_POOLS))
                if rng.random() < 0.6:
                    rng.shuffle(names)
                mm.names = names[: max(mm.nparams, 1)] + [f"Q{j}" for j in range(max(0, mm.nparams - len(names)))]
                rng.shuffle(mm.decl_order)
                if mm.lifetimes and rng.random() < 0.5:
                    mm.lifetimes = list(reversed(mm.lifetimes))
            from ..gen_pat import params_of as _po
            elim = {p_ for p_, v_ in mm.theta.items() if not _po(v_[1])}
            live = [p_ for p_ in range(mm.nparams) if p_ not in elim]
            it = item_text([mm.names[p_] for p_ in live], len(live), rng, form, fixed=[m.names[p_] for p_ in live]) if live else ""
            lts = [re.match(r"'\w+", l_).group(0) for l_ in mm.lifetimes if re.match(r"'\w+", l_)]
            if lts and form % 2 == 0:
                it = (it + " " if it else "") + label_item(lts, rng)
            if it and q.mode == "trait":
                mm.patch = {"add_item": it}
            texts.append((q.block_text(bi), (i, bi), v))
            # the renaming that turns the base presentation (v = 0) into this one, by plan parameter
            pis[texts[-1][0]] = {"ty": [(m.names[p_], mm.names[p_]) for p_ in live if p_ not in mm.const_params and m.names[p_] != mm.names[p_]],
                                 "co": [(m.names[p_], mm.names[p_]) for p_ in live if p_ in mm.const_params and m.names[p_] != mm.names[p_]]}
    import json, os
    cpath = os.path.join(C.VERIF, "corpus", PROP, "blocks.json")
    if os.path.exists(cpath):
        for j, t in enumerate(json.load(open(cpath))):
            texts.insert(0, (t, ("corpus", j), 0))
    hres = C.run_hook(exe, [("canon", [t]) for t, _, _ in texts])
    lean_reqs, idx, dec = [], [], {}
    for i, ((text, grp, v), (st, f)) in enumerate(zip(texts, hres)):
        if st != "ok":
            rep.count("hook:" + st + ":" + (f[0][:40] if f else ""))
            continue
        try:
            raw, can = decode(parse_dbg(f[0])), decode(parse_dbg(f[1]))
        except Exception:
            rep.count("undecodable")
            continue
        dec[i] = (raw, can, f[3] == "true")
        lean_reqs.append("canon " + sexpr(raw))
        idx.append(i)
    lres = C.run_lean(lean_reqs)
    # hypothesis of C13_canon_idem (`canonWF`, executable) evaluated on every block
    wres = C.run_lean(["canonwf " + sexpr(dec[i][0]) for i in idx]) if idx else []
    wf_of = {}
    for i, w in zip(idx, wres):
        wv = parse_sexpr(w)
        if wv and wv[0] == "canonwf":
            wf_of[i] = (wv[1] == "1", wv[2] == "1")
            if len(wv) >= 8:
                # conclusions of C13_canon_is_renaming / C13_canon_all_rewritten_wf / C13_canonWF_alphaOK (hypothesis canonWF) and of
                # C13_canon_is_renaming_reserved (hypothesis renamingShapeOK_cr), evaluated by the executable model on this block
                is_ren, no_old, aok_self, shape, is_ren_res = (x == "1" for x in wv[3:8])
                if wv[1] == "1":
                    for nm, ok in (("C13_canon_is_renaming", is_ren), ("C13_canon_all_rewritten_wf", no_old), ("C13_canonWF_alphaOK", aok_self)):
                        rep.count("theorem-instances-checked:" + nm)
                        if not ok:
                            rep.broken.append("instance of " + nm + " false in the executable model for " + texts[i][0][:300])
                if len(wv) >= 10 and wv[8] == "1":
                    rep.count("theorem-instances-checked:C13_round_trip")
                    if wv[9] != "1":
                        rep.broken.append("instance of C13_round_trip false in the executable model for " + texts[i][0][:300])
                elif len(wv) >= 10:
                    rep.count("theorem-not-applicable:C13_round_trip (roundTripOK_rt fails)")
                if len(wv) >= 13:
                    rep.count("theorem-instances-checked:C13_header_of_canon")
                    if wv[10] != "1":
                        rep.broken.append("instance of C13_header_of_canon false in the executable model for " + texts[i][0][:300])
                    if wv[11] == "1":
                        rep.count("theorem-instances-checked:C13_header_resolved_locally")
                        if wv[12] != "1":
                            rep.broken.append("instance of C13_header_resolved_locally false in the executable model for " + texts[i][0][:300])
                if shape:
                    rep.count("theorem-instances-checked:C13_canon_is_renaming_reserved")
                    if not is_ren_res:
                        rep.broken.append("instance of C13_canon_is_renaming_reserved false in the executable model for " + texts[i][0][:300])
    # instances of C06_renamed_permuted_same_header / C13_alpha_invariance: every renamed / re-declared presentation against its base
    base_of = {}
    for i in idx:
        text, grp, v = texts[i]
        if v == 0 and grp[0] != "corpus":
            base_of[grp] = i
    areqs, aidx = [], []
    for i in idx:
        text, grp, v = texts[i]
        if v > 0 and grp in base_of and text in pis:
            pi = pis[text]
            flat = lambda ps: [x for ab in ps for x in ab]
            pit = ("N", "Pi", [], [("N", "lt", [], []), ("N", "ty", flat(pi["ty"]), []), ("N", "co", flat(pi["co"]), [])])
            areqs.append("alpha " + sexpr(dec[base_of[grp]][0]) + " " + sexpr(dec[i][0]) + " " + sexpr(pit))
            aidx.append(i)
    for i, resp in zip(aidx, C.run_lean(areqs) if areqs else []):
        av = parse_sexpr(resp)
        if not av or av[0] != "alpha":
            rep.count("alpha:bad-response")
            continue
        wf, aok, form, textual, perm, same_hdr, aokh = (x == "1" for x in av[1:8])
        if len(av) >= 10 and av[8] == "1":
            # both presentations satisfy roundTripOK_rt and have the same canonical block: the computed renaming between them maps one to the other
            rep.count("theorem-instances-checked:C13_same_canon_only_if_renaming")
            if av[9] != "1":
                rep.broken.append("instance of C13_same_canon_only_if_renaming false in the executable model: " + texts[i][0][:300])
        if len(av) >= 12 and av[10] == "1":
            rep.count("theorem-instances-checked:C13_same_header_only_if_renaming")
            if av[11] != "1":
                rep.broken.append("instance of C13_same_header_only_if_renaming false in the executable model: " + texts[i][0][:300])
        if not (textual and perm):
            rep.count("alpha:presentation-is-not-the-textual-renaming (lifetime order / reserved spellings)")
            continue
        if wf and (aok or aokh):
            rep.count("theorem-instances-checked:C06_renamed_permuted_same_header")
            if not same_hdr:
                rep.broken.append("instance of C06_renamed_permuted_same_header false in the executable model: " + texts[i][0][:300])
        else:
            rep.count("theorem-not-applicable:canonWF=%d alphaOK=%d" % (wf, aok))
    headers = {}
    for i, resp in zip(idx, lres):
        text, grp, v = texts[i]
        raw, can, idem = dec[i]
        vv = parse_sexpr(resp)
        model = from_sx(vv[1])
        decl_raw, decl_can = generics_names(raw), generics_names(can)
        rep.case(text, bool(decl_raw), sample={"block": text[:400], "declared": decl_raw, "canonical": decl_can} if v else None)
        rep.count("params:%d" % len(decl_raw))
        cj = {"block": text}
        if model != can:
            rep.disagreements.append({**cj, "first_difference": list(tref.first_diff(can, model) or [])[-6:],
                                      "impl_generics": decl_can, "model_index": resp[:0]})
        if i in wf_of:
            wf_ok, m_idem = wf_of[i]
            rep.count("canonWF=%d" % wf_ok)
            if wf_ok and not m_idem:
                rep.broken.append("instance of C13_canon_idem false in the executable model for " + text[:300])
            if wf_ok and not idem:
                # the theorem says the model is idempotent here; the real code is not: the correspondence must have failed too
                rep.disagreements.append({**cj, "what": "canonWF holds (C13_canon_idem applies) but the real canonicalisation is not idempotent"})
        # ---------------- oracle
        fail = None
        dead_collision = False
        ren = {"lt": {}, "ty": {}, "co": {}}
        for (k1, a), (k2, b) in zip(decl_raw, decl_can):
            ren[k1][a] = b
        _TYPE_NAMES = set(ren["ty"].values())
        news = [b for _, b in decl_can if b.startswith(PARAM_PREFIX) and (_, ) ]
        renamed = [b for (k1, a), (_, b) in zip(decl_raw, decl_can) if a != b or a.startswith(PARAM_PREFIX)]
        per_kind = {}
        for (k1, a), (_, b) in zip(decl_raw, decl_can):
            per_kind.setdefault(k1, []).append(b)
        # injective: distinct parameters of one kind keep distinct names; indexed ones use _ŠČ0.._ŠČ(k-1) exactly once overall
        # a declared parameter that occurs nowhere else in the block is never indexed and keeps the user's spelling
        # (occurrences inside macro invocations do not count: they are opaque tokens to syn, the indexer never sees them — F-D28)
        text_nm = re.sub(r"\b\w+!\s*[\(\[].*?[\)\]]", " ", text)
        dead = {a for (k1, a) in decl_raw if len(re.findall(r"(?<![A-Za-z0-9_\u0100-\uffff])" + re.escape(a) + r"(?![A-Za-z0-9_\u0100-\uffff])", text_nm)) <= 1}
        for k1, lst in per_kind.items():
            if len(set(lst)) != len(lst):
                fail = {"clause": "distinct parameters must receive distinct names", "names": lst}
                dup = {b for b in lst if lst.count(b) > 1}
                if all(any(a in dead and a == b for (k0, a), (_, b2) in zip(decl_raw, decl_can) if k0 == k1 and b2 == b) for b in dup) \
                        and any(f_["id"] == "F-C13-dead-parameter-reserved-name" for f_ in C.findings_for(PROP)):
                    rep.known("F-C13-dead-parameter-reserved-name")
                    fail = None
                    dead_collision = True
        # type and const parameters share one name space (an identifier; a lifetime's name carries its apostrophe): a type and a const parameter
        # with one canonical name are two parameters with the same name (E0403) — seeded change C13h
        tyco = [(a, b) for (k1, a), (_, b) in zip(decl_raw, decl_can) if k1 in ("ty", "co")]
        names_tyco = [b for _, b in tyco]
        if not fail and not dead_collision and len(set(names_tyco)) != len(names_tyco):
            dup = {b for b in names_tyco if names_tyco.count(b) > 1}
            if not all(any(a in dead and a == b for a, b2 in tyco if b2 == b) for b in dup):
                fail = {"clause": "distinct parameters must receive distinct names (a type and a const parameter share one name space)", "names": names_tyco}
        # occurrences: the canonical block is the raw block under the renaming read off the generics list
        if not fail and not dead_collision:
            want = norm_paths(independent_rename(renameless_generics(raw, decl_can), ren), PARAM_PREFIX)
            got = norm_paths(can, PARAM_PREFIX)
            if want != got:
                fail = {"clause": "the canonical block is not the original block under the (capture-free, simultaneous) renaming of its generics list",
                        "first_difference": list(tref.first_diff(want, got) or [])[-6:], "renaming": ren}
        if not fail and not idem:
            fail = {"clause": "canonicalising twice changes the block"}
        if not fail and not dead_collision:
            # occurrences inside macro invocations: token streams that syn does not parse; the resolver never looks into them
            occ = macro_param_occurrences(raw, [a for (k1, a), (_, b) in zip(decl_raw, decl_can) if k1 != "lt" and a != b], [])
            still = macro_param_occurrences(can, occ, []) if occ else []
            if still:
                rep.count("macro-body-occurrence")
                if any(f_["id"] == "F-D28" for f_ in C.findings_for(PROP)):
                    rep.known("F-D28")
                else:
                    fail = {"clause": "a parameter occurrence inside a macro invocation of an item body is not rewritten (the generics are)",
                            "parameters": sorted(set(still))}
        if fail and fail["clause"].startswith("the canonical block is not") and qself_capture(raw, ren) and any(f_["id"] == "F-C13-qualified-path-trait-capture" for f_ in C.findings_for(PROP)):
            rep.known("F-C13-qualified-path-trait-capture")
            fail = None
        if fail:
            rep.oracle_failures.append({**cj, **fail})
        # header invariance across renamings / declaration orders of the same block
        # the canonical block up to the order of the declared parameters (trait path, self type, where-clause, items, and the
        # declared parameters with their bounds as a sorted list)
        gen = can[3][3]
        # parameters that occur nowhere are never indexed and keep the user's spelling: not part of the comparison
        decls = sorted(tref.show(p_, 100000) for p_, (_, nm), (_, a) in zip(gen[3][1][3], decl_can, decl_raw) if nm.startswith(PARAM_PREFIX) and a not in dead)
        hdr = (can[3][4], can[3][5], gen[3][3], can[3][6], tref.N("Decls", decls))
        headers.setdefault(grp, []).append((v, hdr, text, qself_capture(raw, ren),
                                            bool(macro_param_occurrences(raw, [a for (k1, a) in decl_raw if k1 != "lt"], []))))
    for grp, lst in headers.items():
        ref = lst[0]
        for v, hdr, text, cap, mac in lst[1:]:
            rep.count("header-variants-compared")
            if hdr != ref[1] and (mac or ref[4]) and any(f_["id"] == "F-D28" for f_ in C.findings_for(PROP)):
                # the bodies differ only inside macro invocations (F-D28: never rewritten, so the user's spelling stays)
                if tuple(blank_macros(x) for x in hdr) == tuple(blank_macros(x) for x in ref[1]):
                    rep.known("F-D28")
                    continue
            if hdr != ref[1] and (cap or ref[3]) and any(f_["id"] == "F-C13-qualified-path-trait-capture" for f_ in C.findings_for(PROP)):
                rep.known("F-C13-qualified-path-trait-capture")
                continue
            if hdr != ref[1]:
                rep.oracle_failures.append({"clause": "blocks equal up to renaming and declaration order must receive identical canonical headers (and bodies)",
                                            "block_a": ref[2], "block_b": text,
                                            "first_difference": list(tref.first_diff(tref.N("H", [], list(ref[1])), tref.N("H", [], list(hdr))) or [])[-5:]})
                break
    return rep.finish()


def blank_macros(t):
    if t[0] != "N":
        return t
    _, k, atoms, kids = t
    if k == "Eq" and "Macro{" in tref.show(t, 1000000):
        return ("N", "Eq", ["<macro>"], [])
    return ("N", k, atoms, [blank_macros(x) for x in kids])


def qself_capture(t, ren):
    """a qualified path `<X as Tr>::item` whose trait `Tr` is spelled like a type (or const) parameter"""
    if t[0] != "N":
        return False
    _, k, atoms, kids = t
    if k in ("Type::Path", "Expr::Path") and kids[-2][1] == "Some":
        segs = kids[-1][3][1][3]
        if segs and segs[0][3][0][2][0] in set(ren["ty"]) | (set(ren["co"]) if k == "Expr::Path" else set()):
            return True
    return any(qself_capture(x, ren) for x in kids)


def renameless_generics(raw, decl_can):
    """the raw item with its *declared* parameter identifiers already replaced (they are not occurrences found by the
    occurrence renamer: TypeParam.ident / ConstParam.ident are plain identifiers, LifetimeParam.lifetime is a Lifetime)"""
    item = raw
    k = list(item[3])
    g = k[3]
    ps = []
    for p, (_, newname) in zip(g[3][1][3], decl_can):
        kind = p[1]
        inner = p[3][0]
        ik = list(inner[3])
        if kind == "GenericParam::Lifetime":
            # left to the occurrence renamer (a Lifetime node)
            pass
        else:
            ik[1] = ("N", "Ident", [newname], [])
        ps.append(("N", kind, [], [("N", inner[1], [], ik)]))
    g2 = ("N", "Generics", [], [g[3][0], ("N", "List", [], ps), g[3][2], g[3][3]])
    k[3] = g2
    return ("N", item[1], item[2], k)
