"""C17 — inherent mode fidelity (DESIGN.md §7 C17)."""

import random
import re

from .. import common as C
from ..gen_inv import PlanGen
from .. import progcheck as PC
from .dispatch_common import plan_summary
from . import shape

PROP = "C17"


def in_module_program(plan, accesses):
    """world, type and invocation inside `mod inner`; `accesses` = [(probe idx, item kind, item name)] read from outside"""
    pre = plan.prelude().replace("#![allow(warnings)]\n", "")
    pre = pre.replace("macro_rules!", "#[macro_export] macro_rules!")
    body = "#![allow(warnings)]\nmod inner {\n" + pre + "\ndisjoint_impls::disjoint_impls! { " + plan.invocation_text() + " }\n}\n"
    # names used in probe types live in `inner`
    lines = [body, "use inner::*;", "fn main() {"]
    for pi, kind, name in accesses:
        ty = plan.probes[pi][0]
        if kind == "const":
            lines.append(f'  println!("{pi} {name} {{}}", <{ty}>::{name});')
        elif kind == "fn":
            lines.append(f'  println!("{pi} {name} {{}}", <{ty}>::{name}());')
        elif kind == "ufn":
            lines.append(f'  println!("{pi} {name} {{}}", unsafe {{ <{ty}>::{name}() }});')
        elif kind == "pfn":
            n = plan.notes.get("pfn_arity", 1)
            lines.append(f'  println!("{pi} {name} {{}}", <{ty}>::{name}({", ".join(["None"] * n)}));')
    lines.append("}")
    return "\n".join(lines)


def run(tier, seed, replay=None):
    rep = C.Report(PROP, tier, seed)
    rep.rule = ("inherent invocations over a local generic type with 1-2 type parameters, optional lifetime and const parameter, 1-2 "
                "families (different const arguments), items with visibility private / pub(crate) / pub, declaration orders shuffled; "
                "observed: item values through `<Type<Args>>::ITEM` at the crate root (table vs shadow program), from outside the defining "
                "module (pub and pub(crate) readable, private -> E0624), and absence for types matching no block (E0599)")
    proof = C.proof_obligations(PROP)
    rep.proof = proof
    rep.broken += proof["failures"]
    try:
        so = C.build_macro()
        exe = C.build_hook()
    except C.BuildError as e:
        rep.broken.append(str(e)[:2000])
        return rep.finish()
    rng = random.Random(seed * 7919 + 17)
    g = PlanGen(rng)
    n = 40 if tier == "quick" else 700
    plans = [g.inherent() for _ in range(n)]
    for p_ in plans:
        if rng.random() < 0.3:
            p_.items.append(("cfgoff", "OFF", False))     # an item configured out in every block, with attributes (seeded change C17i)
        if rng.random() < 0.3:
            p_.items.append(("gfn", "mkarr", False))      # generic method, const parameter declared before the type parameter (seeded change C17h)
        if rng.random() < 0.25:
            p_.header_qual = "self::"      # `impl<..> self::Wr<..>`: the helper trait is named by the last segment alone (D45)
    evs = PC.evaluate(so, plans)
    extra_progs, extra_meta = [], []
    ok_plans = []
    for ev in evs:
        plan = ev.plan
        if not ev.shadow_ok:
            rep.count("control-rejected")
            continue
        if ev.overlap_probes():
            rep.count("overlapping")
            continue
        rep.case(plan.invocation_text() + repr(plan.probes), True, sample=plan_summary(plan))
        rep.count("families:%d" % len(plan.families))
        if not ev.macro_ok:
            rep.oracle_failures.append({"clause": "the inherent invocation must compile (its blocks are accepted as plain impls of shadow traits)",
                                        "first_error": ev.first_error(), "invocation": plan.invocation_text(), "macro_program": plan.macro_program()})
            continue
        ok_plans.append(plan)
        # 1. items of the selected block, read through the type
        for pi, (ty, _) in enumerate(plan.probes):
            app = ev.applicable(pi)
            row = ev.mt.get(pi, [])
            if len(app) == 1:
                bi = app[0]
                printed = [it for it in plan.items if it[0] in ("const", "fn", "ufn", "pfn")]
                for j, (kind, name, _) in enumerate(printed):
                    want = f"b{bi}.{name}"
                    got = row[1 + j] if 1 + j < len(row) else "?"
                    rep.count("item-checked")
                    if got != want:
                        rep.oracle_failures.append({"clause": "inherent item is the selected block's", "probe": ty, "item": name, "expected": want,
                                                    "got": got, "invocation": plan.invocation_text(), "macro_program": plan.macro_program()})
        # 2. visibility from outside the defining module; 3. absence for non-matching types
        pos = [pi for pi in range(len(plan.probes)) if len(ev.applicable(pi)) == 1]
        neg = [pi for pi in range(len(plan.probes)) if not ev.applicable(pi)]
        blocks = plan.blocks()
        readable, hidden = [], []
        for pi in pos[:3]:
            bi = ev.applicable(pi)[0]
            m = blocks[bi][2]
            for kind, name, _ in plan.items:
                if kind not in ("const", "fn", "ufn", "pfn"):
                    continue
                vis = m.vis.get(name, "")
                (readable if vis.startswith("pub") else hidden).append((pi, kind, name, bi))
        if readable:
            extra_progs.append(("vis-ok", in_module_program(plan, [(a, b, c) for a, b, c, _ in readable])))
            extra_meta.append(("readable", plan, readable))
        for h in hidden[:2]:
            extra_progs.append(("vis-private", in_module_program(plan, [h[:3]])))
            extra_meta.append(("hidden", plan, [h]))
        for pi in neg[:1]:
            extra_progs.append(("absent", in_module_program(plan, [(pi, "const", "NAME")])))
            extra_meta.append(("absent", plan, [(pi, "const", "NAME", None)]))
    res = C.run_programs(so, extra_progs)
    for (kind, plan, acc), r, (_, prog) in zip(extra_meta, res, extra_progs):
        rep.count("outside:" + kind)
        codes = PC.error_codes(r)
        if kind == "readable":
            if r["rc"] != 0 or not r.get("ran"):
                rep.oracle_failures.append({"clause": "pub / pub(crate) items must be reachable from outside the defining module",
                                            "errors": PC.error_lines(r)[:3], "program": prog, "invocation": plan.invocation_text()})
                continue
            got = {}
            for line in r["stdout"].splitlines():
                p_ = line.split()
                if len(p_) == 3:
                    got[(int(p_[0]), p_[1])] = p_[2]
            for pi, k, name, bi in acc:
                if got.get((pi, name)) != f"b{bi}.{name}":
                    rep.oracle_failures.append({"clause": "item read from outside is not the selected block's", "expected": f"b{bi}.{name}",
                                                "got": got.get((pi, name)), "program": prog, "invocation": plan.invocation_text()})
        elif kind == "hidden":
            if r["rc"] == 0 or not ({"E0624", "E0603", "E0616"} & set(codes)):
                rep.oracle_failures.append({"clause": "a private item must not be reachable from outside the defining module (expected E0624)",
                                            "rc": r["rc"], "errors": PC.error_lines(r)[:3], "program": prog, "invocation": plan.invocation_text()})
        else:
            if r["rc"] == 0 or "E0599" not in codes:
                rep.oracle_failures.append({"clause": "a type matching no block must have no such item (expected E0599)",
                                            "rc": r["rc"], "errors": PC.error_lines(r)[:3], "program": prog, "invocation": plan.invocation_text()})
    shape.validate(rep, exe, ok_plans, PROP)
    # families that differ only in a lifetime argument (a parameter vs a concrete lifetime) must stay separate families: function-level
    # correspondence of the grouping on hand-shaped inherent invocations (not compiled: the item names are shared)
    from . import groupcorr
    from .c11 import directed_invocations
    groupcorr.compare(rep, exe, [x for x in directed_invocations(rng) if not x[0].startswith("pub trait")], label="lifetime-instantiation")
    # the Lean model of the three generators (Expand.lean) against the real helper trait / helper impls / main impl
    from . import expandcorr
    expandcorr.compare(rep, exe, ok_plans)
    return rep.finish()
