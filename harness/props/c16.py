"""C16 — trait-argument fidelity (DESIGN.md §7 C16)."""

import random
import re

from .. import common as C
from ..gen_inv import PlanGen
from ..gen_pat import params_of
from .. import progcheck as PC
from .dispatch_common import plan_summary, judge_tables
from . import shape

PROP = "C16"


def d17_shape(plan):
    """a block passes some trait arguments but omits a trailing defaulted one"""
    ngen = len(plan.trait_generics)
    nlt = sum(1 for g in plan.trait_generics if g[0] == "lt")
    if any(0 < len(f.targs) < ngen for f in plan.families):
        return True
    # … or omits every argument while the trait's where-clause still mentions a defaulted parameter (`trait Kita<P0 = u8> where P0: Clone`)
    omitted = lambda f: [g[1] for g in plan.trait_generics[len(f.targs):] if g[0] == "ty"]
    if any(re.search(r"\b" + re.escape(p) + r"\b", plan.trait_where or "") for f in plan.families if len(f.targs) < ngen for p in omitted(f)):
        return True
    # … or an ITEM of the trait mentions the omitted parameter (`tpfn`: in its signature, `pdfn`: in its default body; both name the trait's
    # first type parameter): C16_omitted_default_counterexample is exactly this shape
    tp0 = next((g[1] for g in plan.trait_generics if g[0] == "ty"), None)
    mentions = tp0 is not None and any(k in ("tpfn", "pdfn") for k, _, _ in plan.items)
    return mentions and any(tp0 in omitted(f) for f in plan.families if len(f.targs) < ngen)


def d17_captured(plan, codes):
    """D17 leaves the omitted parameter's NAME in the generated code; when the program has a local type of that name (the generator declares
    `P<i>`-named local types on purpose, seeded change C16f) the stray name resolves to that type and rustc reports a type mismatch / an
    unsatisfied bound instead of E0425 — the same mechanism, another diagnostic"""
    omitted = {g[1] for f in plan.families for g in plan.trait_generics[len(f.targs):] if g[0] == "ty"}
    return bool(omitted & set(plan.locals)) and bool(set(codes) & {"E0053", "E0277", "E0308", "E0599"})


def d18_shape(plan):
    """a bounded trait type parameter is instantiated with a type *built from* block parameters"""
    tys = [g for g in plan.trait_generics if g[0] != "lt"]
    nlt = sum(1 for g in plan.trait_generics if g[0] == "lt")
    for f in plan.families:
        for g, a in zip(tys, f.targs[nlt:]):
            if g[0] == "ty" and g[2] and a[0] not in ("tp", "lt_", "cst_") and params_of(a):
                return True
    return False


def run(tier, seed, replay=None):
    rep = C.Report(PROP, tier, seed)
    rep.rule = ("traits with 0-2 lifetimes (outlives), 1-2 type parameters (bounds, a defaulted last parameter), 0-1 const parameter; "
                "1-3 families instantiating them with parameters (also ones that occur nowhere else), concrete types, tuples of parameters, "
                "literals; probes with matching and non-matching argument lists; items include a function whose signature mentions the "
                "trait's lifetime; judged against the shadow program (tables) + must compile when the shadow program does")
    proof = C.proof_obligations(PROP)
    rep.proof = proof
    rep.broken += proof["failures"]
    try:
        so = C.build_macro()
        exe = C.build_hook()
    except C.BuildError as e:
        rep.broken.append(str(e)[:2000])
        return rep.finish()
    rng = random.Random(seed * 7919 + 16)
    g = PlanGen(rng)
    n = 70 if tier == "quick" else 1500
    plans = [g.trait_args_plan() for _ in range(n)] + [g.diagonal_trait_args_plan() for _ in range(max(4, n // 8))] + [g.default_vs_explicit_plan() for _ in range(max(3, n // 15))]
    evs = PC.evaluate(so, plans)
    known = {f["id"] for f in C.findings_for(PROP)}
    ok_plans = []
    for ev in evs:
        plan = ev.plan
        if not ev.shadow_ok:
            rep.count("control-rejected")
            continue
        if ev.overlap_probes():
            rep.count("overlapping")
            continue
        rep.case(plan.invocation_text() + repr(plan.probes), True, sample=plan_summary(plan))
        rep.count("families:%d" % len(plan.families))
        for gk in plan.trait_generics:
            rep.count("trait-param:" + gk[0] + (":bounded" if gk[0] == "ty" and gk[2] else "") + (":default" if gk[0] == "ty" and gk[3] else ""))
        if not ev.macro_ok:
            codes = ev.macro_error_codes()
            if ("E0425" in codes or d17_captured(plan, codes)) and d17_shape(plan) and "F-D17" in known:
                rep.known("F-D17")
                continue
            if "E0277" in codes and d18_shape(plan) and "F-D18" in known:
                rep.known("F-D18")
                continue
            rep.oracle_failures.append({"clause": "blocks for this instantiation are accepted by rustc as plain impls (shadow program) but the expansion is not",
                                        "first_error": ev.first_error(), "invocation": plan.invocation_text(),
                                        "macro_program": plan.macro_program(), "shadow_program": plan.shadow_program()})
            continue
        fails = judge_tables(PROP, rep, ev, {"coverage", "items"})
        for f in fails[:2]:
            rep.oracle_failures.append({**f, "invocation": plan.invocation_text(), "macro_program": plan.macro_program(),
                                        "shadow_program": plan.shadow_program()})
        ok_plans.append(plan)
    shape.validate(rep, exe, ok_plans, PROP)
    # the Lean model of the three generators (Expand.lean) against the real helper trait / helper impls / main impl
    from . import expandcorr
    expandcorr.compare(rep, exe, ok_plans)
    return rep.finish()
