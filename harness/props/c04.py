"""C04 — overlap is never silently resolved (DESIGN.md §7 C04)."""

import random

from .. import common as C
from ..gen_inv import PlanGen
from .. import progcheck as PC
from .dispatch_common import plan_summary, d4_blocks


PROP = "C04"


def signature(plan, ev):
    """known-finding signature of a compiling overlap, computed from the case (not from the model)"""
    blocks = plan.blocks()
    for pi in ev.overlap_probes():
        app = ev.applicable(pi)
        for i in app:
            for j in app:
                if i >= j:
                    continue
                ti, tj = plan.block_text(i), plan.block_text(j)
                if ti == tj:
                    return "F-D12"
                # D4: the nested block bounds a parameter that lies strictly inside the value of a general-header parameter
                if {i, j} & d4_blocks(plan):
                    return "F-D4"
    return None


def run(tier, seed, replay=None):
    rep = C.Report(PROP, tier, seed)
    rep.rule = ("plans with two blocks that have a common instance by construction (equal rows, wildcard vs concrete, payload that "
                "generalises another, nested headers with equal bounds / bounds on the inner parameter / another key, textual "
                "duplicates), a world with the witness; control = shadow program: rustc itself certifies that one probe satisfies two "
                "blocks; judged: the macro program must not compile; distinct = distinct invocations; non-trivial = control shows an overlap")
    proof = C.proof_obligations(PROP)
    rep.proof = proof
    rep.broken += proof["failures"]
    try:
        so = C.build_macro()
    except C.BuildError as e:
        rep.broken.append(str(e)[:2000])
        return rep.finish()
    rng = random.Random(seed * 7919 + 4)
    g = PlanGen(rng)
    n = 80 if tier == "quick" else 2000
    plans = []
    for _ in range(n):
        p, mode = g.overlap()
        plans.append(p)
    # function level: the macro's own overlap test (`is_overlapping`, every ordered pair of rows) must agree with its Lean model in
    # BOTH block orders — a later row that generalises an earlier one is the only witness of an asymmetric pair loop, and rustc's
    # coherence check hides it in trait mode (seeded change C04e)
    try:
        import copy as _copy
        from . import groupcorr
        exe = C.build_hook()
        both = []
        for p_ in plans[: (40 if tier == "quick" else 600)]:
            both.append(p_)
            q_ = _copy.deepcopy(p_)
            q_.block_order = list(reversed(range(len(q_.blocks()))))
            both.append(q_)
        for mode_ in ["general", "wild"] * (3 if tier == "quick" else 40):
            p_, _m = g.overlap(mode=mode_)
            q_ = _copy.deepcopy(p_)
            q_.block_order = list(reversed(range(len(q_.blocks()))))
            both += [p_, q_]
        groupcorr.compare(rep, exe, [(p_.invocation_text(), [p_.block_text(bi) for bi in p_.order()]) for p_ in both])
    except C.BuildError as e:
        rep.broken.append(str(e)[:2000])
    evs = PC.evaluate(so, plans)
    for ev in evs:
        plan = ev.plan
        mode = plan.notes.get("overlap_mode")
        if not ev.shadow_ok:
            rep.count("control-rejected")
            continue
        ov = ev.overlap_probes()
        if not ov:
            rep.count("control-shows-no-overlap")
            rep.case(plan.invocation_text(), False)
            continue
        rep.case(plan.invocation_text(), True, sample={**plan_summary(plan), "mode": mode,
                                                       "macro": "compiles" if ev.macro["rc"] == 0 else PC.classify_reject(ev)[:80]})
        rep.count("mode:" + str(mode))
        if ev.macro["rc"] != 0:
            rep.count("rejected:" + PC.classify_reject(ev)[:40])
            continue
        sig = signature(plan, ev)
        if sig and sig in {f["id"] for f in C.findings_for(PROP)}:
            rep.known(sig)
            continue
        pi = ov[0]
        rep.oracle_failures.append({"clause": "a type satisfies two blocks but the invocation compiles", "mode": mode,
                                    "witness": plan.probes[pi][0], "blocks": ev.applicable(pi), "selected": ev.mt.get(pi),
                                    "invocation": plan.invocation_text(), "macro_program": plan.macro_program(),
                                    "control_program": plan.shadow_program()})
    return rep.finish()
