"""Correspondence of the Lean model of the grouping front end (`parseGroups`: canonicalisation, bound extraction,
make_sets, backtracking search, candidate filter, reduce) with the real `ImplGroups::parse`, through the hook."""

from .. import common as C
from ..syn_dbg import parse_dbg, decode, sexpr, parse_sexpr, from_sx
from .. import tref
from .shape import GenDump


def abg_of_hook(abg):
    """decoded `AssocBoundsGroup` -> ([(bounded, trait, [row dict-as-list])], [unsized])"""
    m, uns = abg[3][0], abg[3][1]
    bounds = []
    for e in (m[3] if m[1] == "Map" else []):
        key, rows = e[3]
        bounded, trait = key[3][0][3][0], key[3][1][3][0]
        rr = []
        for r in rows[3]:
            rr.append([(x[3][0][2][0], x[3][1]) for x in (r[3] if r[1] == "Map" else [])])
        bounds.append((bounded, trait, rr))
    unsized = []
    if uns[1] == "Set":
        unsized = [u[3][0] for u in uns[3]]
    return bounds, unsized


def groups_of_model(v):
    out = []
    for g in v[1]:
        gid = from_sx(g[0])
        items = [from_sx(x) for x in g[1]]
        bounds = []
        for e in g[2][0]:
            rows = [[(x[0][1], from_sx(x[1])) for x in r] for r in e[2]]
            bounds.append((from_sx(e[0]), from_sx(e[1]), rows))
        unsized = [from_sx(x) for x in g[2][1]]
        out.append((gid, items, bounds, unsized))
    return out


def compare(rep, exe, invocations, label="grouping"):
    """invocations: [(text of whole invocation, [block texts])]; appends to rep.disagreements; returns list of verdicts
    ('ok' | 'unable' | 'panic:…' | None) as the implementation reported them"""
    reqs = []
    for inv, blocks in invocations:
        reqs.append(("gen", [inv]))
        for b in blocks:
            reqs.append(("dump", ["impl", b]))
    res = C.run_hook(exe, reqs, tag="hookgc")
    lean, idx, impl_groups, verdicts = [], [], [], []
    k = 0
    for i, (inv, blocks) in enumerate(invocations):
        st, f = res[k]
        raws = res[k + 1 : k + 1 + len(blocks)]
        k += 1 + len(blocks)
        if any(r[0] != "ok" for r in raws):
            verdicts.append(None)
            rep.count(label + ":unparsable")
            continue
        try:
            trees = [decode(parse_dbg(r[1][0])) for r in raws]
        except Exception:
            verdicts.append(None)
            rep.count(label + ":undecodable")
            continue
        if st == "ok":
            try:
                d = GenDump(f)
            except Exception:
                verdicts.append(None)
                rep.count(label + ":undecodable")
                continue
            verdicts.append("ok")
            impl_groups.append(d)
        else:
            msg = f[0] if f else ""
            if msg.startswith("Unable to form impl group"):
                verdicts.append("unable")
            elif "proc-macro-error2" in msg:
                verdicts.append("abort")
            else:
                verdicts.append("panic:" + msg[:60])
            impl_groups.append(None)
        lean.append("parse " + " ".join(sexpr(t) for t in trees))
        idx.append(i)
    lres = C.run_lean(lean) if lean else []
    for j, (i, resp) in enumerate(zip(idx, lres)):
        inv, blocks = invocations[i]
        v = parse_sexpr(resp)
        impl_v = verdicts[i]
        d = impl_groups[j]
        rep.count(label + ":" + str(impl_v).split(":")[0])
        # hypotheses of C05_flat_order_free_exec evaluated on this input (last two entries of every `parse` answer)
        fd_ = fs_ = None
        try:
            if v[0] == "ok":
                # ok-answer: [..., acyclicB, traceCovers, noNesting, flatWF, per-family e2e flags, flatInputOK]
                nn_, fw_ = v[4] == "1", v[5] == "1"
                for fl in v[6]:
                    g_ok, h_ok, m_ok, t_ok = (x == "1" for x in fl)
                    if nn_ and g_ok:
                        rep.count("theorem-instances-checked:C02_end_to_end_flat_memberOK")
                        if not m_ok:
                            rep.broken.append("instance of C02_end_to_end_flat_memberOK false in the executable model: " + inv[:400])
                        if h_ok:
                            rep.count("theorem-instances-checked:C02_end_to_end_flat_hypotheses")
                            if not t_ok:
                                rep.broken.append("instance of C02_end_to_end_flat_hypotheses false in the executable model: " + inv[:400])
                    else:
                        rep.count("theorem-not-applicable:C02_end_to_end_flat (nested or flatGroupOK fails)")
                if nn_ and v[7] == "1":
                    rep.count("theorem-instances-checked:C02_end_to_end_flat_memberOK_input")
                    if not all(fl[2] == "1" for fl in v[6]):
                        rep.broken.append("instance of C02_end_to_end_flat_memberOK_input false in the executable model: " + inv[:400])
                flat = (v[0], nn_, fw_)
                # C11_partition: headersWF (shape of the individual headers) => every block placed exactly once (traceCovers)
                if len(v) > 11:
                    if v[8] == "1":
                        rep.count("theorem-instances-checked:C11_partition (headersWF)")
                        if v[3] != "1" or v[2] != "1":
                            rep.broken.append("instance of C11_acyclic_of_headersWF / C11_traceCovers_of_headersWF false in the executable model: " + inv[:400])
                    else:
                        rep.count("theorem-not-applicable:C11_partition (headersWF fails)")
                    # C02_end_to_end_memberOK / _thetaCovers (nested invocations), per family
                    for fl, nl in zip(v[6], v[9]):
                        if nl[0] == "1":
                            rep.count("theorem-instances-checked:C02_end_to_end_memberOK")
                            if fl[2] != "1":
                                rep.broken.append("instance of C02_end_to_end_memberOK false in the executable model: " + inv[:400])
                        else:
                            rep.count("theorem-not-applicable:C02_end_to_end_memberOK (nestedGroupOK fails)")
                        if nl[1] == "1":
                            rep.count("theorem-instances-checked:C02_end_to_end_thetaCovers")
                            if fl[3] != "1":
                                rep.broken.append("instance of C02_end_to_end_thetaCovers false in the executable model: " + inv[:400])
                    # C04_end_to_end_flat / _nested: executable hypotheses (the conclusion quantifies over worlds and queries: every accepted
                    # input on which they hold is covered by the theorem — two blocks with a common instance make the expansion incoherent)
                    for fl, nl in zip(v[6], v[9]):
                        if len(nl) > 2:
                            if nn_ and fl[0] == "1" and fl[1] == "1" and nl[2] == "1":
                                rep.count("theorem-hypotheses-hold:C04_end_to_end_flat")
                            elif v[2] == "1" and nl[0] == "1" and nl[1] == "1" and nl[2] == "1":
                                rep.count("theorem-hypotheses-hold:C04_end_to_end_nested")
                            else:
                                rep.count("theorem-not-applicable:C04_end_to_end (group checks / keysOverHeaderB fail)")
                    fd_, fs_ = v[10] == "1", v[11] == "1"
            else:
                flat = (v[0], v[2] == "1", v[3] == "1")
                fd_, fs_ = (v[4] == "1", v[5] == "1") if len(v) > 5 else (None, None)
            # C03_flat_accepts_exec / C03_flat_acceptance_exact: for un-nested flatWF inputs, accepted <=> every bucket separated;
            # distinguished (pairwise non-generalising bindings of a shared associated type) => accepted
            if flat[1] and flat[2] and fd_ is not None:
                rep.count("theorem-instances-checked:C03_flat_acceptance_exact")
                if (v[0] == "ok") != fs_:
                    rep.broken.append("instance of C03_flat_acceptance_exact false in the executable model: " + inv[:400])
                if fd_:
                    rep.count("theorem-instances-checked:C03_flat_accepts_exec")
                    if v[0] != "ok":
                        rep.broken.append("instance of C03_flat_accepts_exec false in the executable model: " + inv[:400])
            if not hasattr(rep, "flat_info"):
                rep.flat_info = {}
            rep.flat_info[inv] = flat
            rep.count(label + ":flatOrderPre=" + str(int(flat[1] and flat[2])))
        except Exception:
            pass
        cj = {"what": "grouping: model vs ImplGroups::parse", "invocation": inv[:3000]}
        if impl_v == "abort":
            # validation aborted after the grouping was formed: the grouping itself is not observable; the model must at least form one
            if v[0] != "ok":
                rep.disagreements.append({**cj, "impl": "grouping formed (validation aborted)", "model": v[0]})
            continue
        if impl_v == "unable":
            if v[0] != "unable":
                rep.disagreements.append({**cj, "impl": "Unable to form impl group", "model": v[0]})
            continue
        if impl_v.startswith("panic"):
            if v[0] != "panic":
                rep.disagreements.append({**cj, "impl": impl_v, "model": v[0]})
            continue
        if v[0] != "ok":
            rep.disagreements.append({**cj, "impl": "ok", "model": v[0] + (":" + str(v[1])[:80] if len(v) > 1 else "")})
            continue
        if len(v) > 3:
            # hypothesis of C11_partition_acyclic (header relation acyclic) / conclusion of C11_traceCovers_of_acyclic on this input
            rep.count(label + ":acyclicB=" + str(v[2]))
            rep.count(label + ":traceCovers=" + str(v[3]))
            if v[2] == "1" and v[3] != "1":
                rep.disagreements.append({**cj, "what": "C11_traceCovers_of_acyclic contradicted by evaluation (model bug)"})
        mg = groups_of_model(v)
        if len(mg) != len(d.groups):
            rep.disagreements.append({**cj, "impl": f"{len(d.groups)} families", "model": f"{len(mg)} families"})
            continue
        for fi, (g, (gid, items, bounds, unsized)) in enumerate(zip(d.groups, mg)):
            hb, hu = abg_of_hook(g["abg"])
            problem = None
            if g["gid"] != gid:
                problem = "family header"
            elif g["items"] != items:
                problem = "members (order or content)"
            elif [(b, t) for b, t, _ in hb] != [(b, t) for b, t, _ in bounds]:
                problem = "keys (order or content)"
            elif [r for _, _, r in hb] != [r for _, _, r in bounds]:
                problem = "rows"
            elif sorted(map(repr, hu)) != sorted(map(repr, unsized)):
                problem = "unsized parameters"
            if problem:
                rep.disagreements.append({**cj, "family": fi, "differs_in": problem,
                                          "impl_keys": [tref.show(b, 60) + " : " + tref.show(t, 80) for b, t, _ in hb],
                                          "model_keys": [tref.show(b, 60) + " : " + tref.show(t, 80) for b, t, _ in bounds]})
                break
    return verdicts
