"""C07 — deterministic expansion (DESIGN.md §7 C07)."""

import os
import random
import re

from .. import common as C
from .. import facts
from ..gen_inv import PlanGen
from .dispatch_common import plan_summary

PROP = "C07"


def gen_plans(g, rng, n):
    plans = []
    while len(plans) < n:
        c = rng.random()
        if c < 0.08:
            p = g.single_member_multi_key_plan()
        elif c < 0.15:
            p = g.inherent()
        elif c < 0.3:
            p = g.trait_args_plan()
        elif c < 0.4:
            p = g.unsized_plan(d7=False)
        else:
            p = g.basic()
        plans.append(p)
    return plans


def big_plan(g, rng):
    """many families/blocks/keys/parameters: any hashed iteration order would be unstable with probability close to 1"""
    p = g.basic(nfam=3, max_members=4)
    return p


def run(tier, seed, replay=None):
    rep = C.Report(PROP, tier, seed)
    rep.rule = ("invocations spanning every generator (basic, trait arguments, inherent, ?Sized); each expanded by k separate rustc "
                "processes (-Zunpretty=expanded) started with different environments, and by k separate processes of the hook driver "
                "(token strings of every generated item); observable = byte-equality of all outputs; distinct = distinct invocations")
    fx = facts.generate()
    rep.extra["facts"] = {"container_kinds": fx["kinds"], "container_mentions": fx["containers"], "ambient_reads": fx["ambient"][:10]}
    proof = C.proof_obligations(PROP)
    rep.proof = proof
    rep.broken += proof["failures"]
    try:
        so_n = C.build_macro("nightly")
        exe = C.build_hook()
    except C.BuildError as e:
        rep.broken.append(str(e)[:2000])
        return rep.finish()
    rng = random.Random(seed * 7919 + 7)
    g = PlanGen(rng)
    n, k = (14, 4) if tier == "quick" else (200, 12)
    if rep.broken:
        # a proof obligation over the regenerated facts is broken: look for an input on which two processes differ
        n, k = n * 2, max(k, 8)
    plans = gen_plans(g, rng, n)
    plans += [g.single_member_multi_key_plan() for _ in range(2 if tier == "quick" else 30)]
    if rep.broken:
        plans += [big_plan(g, rng) for _ in range(10)]
    # (i) separate rustc processes, different environments
    progs, owner = [], []
    for pi, p in enumerate(plans):
        src = p.macro_program()
        for j in range(k):
            # the same tokens at another place in the file (leading white space of varying length: the expansion text does not contain it);
            # byte offsets / line numbers of the spans differ in value and in number of digits (seeded change C07h sorted by `{span:?}`)
            pad = [0, 613, 1291, 9803, 97, 100003, 5, 99041][j % 8]
            if j % 8 in (1, 3):
                # … aimed: a power of ten falls between the first two impl blocks of the invocation
                inv_at = src.find("disjoint_impls::disjoint_impls!")
                offs = [m_.start() for m_ in re.finditer(r"\b(?:unsafe )?impl\b", src[inv_at:])][:2] if inv_at >= 0 else []
                if len(offs) == 2:
                    boundary = 10000 if j % 8 == 1 else 100000
                    pad = max(1, boundary - 1 - (inv_at + offs[1]))
            progs.append((f"p{pi}", (" " * pad + "\n" if pad else "") + src))
            owner.append((pi, j))

    def env_fn(idx):
        pi, j = owner[idx]
        e = {"RUST_BACKTRACE": str(j % 2), "VERIF_NOISE_%d" % j: "x" * (j * 37 % 101), "LANG": ["C", "en_US.UTF-8", "C.UTF-8"][j % 3],
             "TZ": ["UTC", "Asia/Tokyo", "America/New_York"][j % 3], "COLUMNS": str(40 + j)}
        if j % 2:
            e["MALLOC_PERTURB_"] = str(j)
        return e

    res = C.run_programs(so_n, progs, toolchain="nightly", mode="expand", env_fn=env_fn)
    outs = {}
    for (pi, j), r in zip(owner, res):
        outs.setdefault(pi, []).append((r["rc"], r["stdout"]))
    # (ii) separate processes of the hook driver
    reqs = [("gen", [p.invocation_text()]) for p in plans]
    hook_runs = [C.run_hook(exe, reqs, tag=f"hookd{j}") for j in range(k)]
    for pi, p in enumerate(plans):
        rep.case(p.invocation_text(), True, sample=plan_summary(p))
        rep.count("mode:" + p.mode)
        runs = outs[pi]
        if len(set(runs)) != 1:
            a = runs[0]
            b = next(x for x in runs if x != a)
            rep.oracle_failures.append({"clause": "two rustc processes expanded the same invocation differently",
                                        "invocation": p.invocation_text(), "program": p.macro_program(),
                                        "expansion_a": a[1][-3000:], "expansion_b": b[1][-3000:]})
            continue
        hk = [(hr[pi][0], tuple(hr[pi][1])) for hr in hook_runs]
        if len(set(hk)) != 1:
            rep.oracle_failures.append({"clause": "two processes of the in-crate driver generated different items for the same invocation",
                                        "invocation": p.invocation_text()})
        rep.count("expansion:" + ("ok" if runs[0][0] == 0 else "rejected"))
    rep.extra["processes_per_invocation"] = {"rustc": k, "hook": k}
    return rep.finish()
