"""Translation validation of the implementation's real grouping and expansion (hook `gen`) against the
hypotheses of the refinement theorems (Lemmas/Refine.lean): `memberOK`, `ThetaCovers`, `KeysOverHeader`,
`SizedCompat` are evaluated by the Lean driver on the real grouping; `ExpandOK` (the expansion has the
shape `genSel`/`helperApplies` assume) is checked structurally here on the decoded items."""

from .. import common as C
from ..syn_dbg import parse_dbg, decode, sexpr, parse_sexpr, from_sx
from .. import tref


class GenDump:
    """decoded output of the hook's `gen` request"""

    def __init__(self, fields):
        self.has_trait = fields[0] == "true"
        self.groups = []
        i = 1
        while i < len(fields) and fields[i] == "group":
            gid = decode(parse_dbg(fields[i + 1]))
            n = int(fields[i + 2])
            items = [decode(parse_dbg(x)) for x in fields[i + 3 : i + 3 + n]]
            j = i + 3 + n
            abg = decode(parse_dbg(fields[j]))
            idents = decode(parse_dbg(fields[j + 1]))
            payloads = decode(parse_dbg(fields[j + 2]))
            self.groups.append({"gid": gid, "items": items, "abg": abg, "idents": idents, "payloads": payloads})
            i = j + 3
        self.families = []
        if i < len(fields) and fields[i] == "gen":
            self.trait_tokens = fields[i + 1]
            i += 2
            while i < len(fields) and fields[i] == "family":
                helper = decode(parse_dbg(fields[i + 1]))
                helper_toks = fields[i + 2]
                main = decode(parse_dbg(fields[i + 3]))
                main_toks = fields[i + 4]
                nh = int(fields[i + 5])
                hs = []
                for k in range(nh):
                    hs.append((decode(parse_dbg(fields[i + 6 + 2 * k])), fields[i + 7 + 2 * k]))
                self.families.append({"helper": helper, "helper_toks": helper_toks, "main": main, "main_toks": main_toks, "helpers": hs})
                i += 6 + 2 * nh


def impl_parts(item):
    """ItemImpl tree -> dict"""
    k = item[3]
    return {"attrs": k[0], "defaultness": k[1], "unsafety": k[2], "generics": k[3], "trait": k[4], "self_ty": k[5], "items": k[6]}


def trait_path_of(item):
    tr = impl_parts(item)["trait"]
    if tr[1] != "Some":
        return None
    return tr[3][0][3][1]


def last_seg(path):
    return path[3][1][3][-1]


def seg_args(seg):
    a = seg[3][1]
    if a[1] == "PathArguments::AngleBracketed":
        return a[3][1][3]
    return []


def projection_parts(arg):
    """GenericArgument::Type[Type::Path[Some[QSelf[ty, pos, as]], Path[.., segs]]] -> (ty, trait segments, assoc) or None"""
    if arg[0] != "N" or arg[1] != "GenericArgument::Type":
        return None
    t = arg[3][0]
    if t[0] != "N" or t[1] != "Type::Path" or t[3][0][1] != "Some":
        return None
    qself = t[3][0][3][0]
    segs = t[3][1][3][1][3]
    return (qself[3][0], segs[:-1], segs[-1][3][0][2][0])


def norm_tr_segs(segs):
    """segments of a trait path with bindings removed and `Tr<>` identified with `Tr`"""
    out = []
    for s in segs:
        ident = s[3][0][2][0]
        args = [a for a in seg_args(s) if a[1] != "GenericArgument::AssocType"]
        out.append((ident, repr(args)))
    return out


def has_eparam(t):
    if t[0] == "E":
        return True
    if t[0] != "N":
        return False
    return any(has_eparam(x) for x in t[3])


def unwrap(t):
    if t[0] != "N":
        return t
    _, k, atoms, kids = t
    if k in ("Type::Paren", "Type::Group") and kids:
        return unwrap(kids[-1])
    return ("N", k, atoms, [unwrap(x) for x in kids])


def unwrap_header(item):
    """an ItemImpl with the wrappers of its trait path and self type removed"""
    if item[0] != "N" or item[1] != "ItemImpl" or len(item[3]) < 7:
        return item
    k = list(item[3])
    k[4], k[5] = unwrap(k[4]), unwrap(k[5])
    return ("N", item[1], item[2], k)


def validate(rep, exe, plans, prop, judge=True, expand=True, excuse=None):
    """returns per plan a dict with the abstract grouping (for C11/C05) or None"""
    if not plans:
        return []
    res = C.run_hook(exe, [("gen", [p.invocation_text()]) for p in plans], tag="hookg")
    lean_reqs, where = [], []
    dumps = []
    for pi, (plan, (st, f)) in enumerate(zip(plans, res)):
        if st != "ok":
            dumps.append(None)
            rep.count("shape:hook-" + st)
            continue
        try:
            d = GenDump(f)
        except Exception as e:
            dumps.append(None)
            rep.count("shape:undecodable")
            continue
        dumps.append(d)
        for fi, (g, fam) in enumerate(zip(d.groups, d.families)):
            # headers are compared up to type parentheses / invisible groups: `(X)` and `X` are the same Rust type
            # (different impl-group ids that generalise each other; rustc's reading of parentheses is part of the trusted base)
            req = "family " + " ".join([sexpr(unwrap(g["gid"])), sexpr(g["idents"]), sexpr(g["payloads"]), sexpr(fam["main"])] + [sexpr(unwrap_header(x)) for x in g["items"]])
            lean_reqs.append(req)
            where.append((pi, fi))
    lres = C.run_lean(lean_reqs) if lean_reqs else []
    # ExpandOK evaluated by the Lean checker (ExpandOK.lean `expandOKCore`, the subject of C01_expandOK_of_expand) on the real trees
    xreqs = []
    if expand:
        for (pi, fi) in where:
            d = dumps[pi]
            g, fam = d.groups[fi], d.families[fi]
            xreqs.append("expandok " + " ".join([sexpr(g["gid"]), sexpr(g["idents"]), sexpr(g["payloads"]), sexpr(fam["main"])]
                                                 + [sexpr(h) for h, _ in fam["helpers"]] + ["--"] + [sexpr(x) for x in g["items"]]))
    xres = C.run_lean(xreqs) if xreqs else [None] * len(where)
    # inherent mode: the full-strength checker `expandOKInhCore_inh` (subject of C17_expandOK_of_expand_inherent) on the REAL helper trait,
    # helper impls and main impl — `expandOKCore` only looks at generics/self type/safety there
    ireqs, iwhere = [], []
    if expand:
        for (pi, fi) in where:
            d = dumps[pi]
            g, fam = d.groups[fi], d.families[fi]
            if g["gid"][3][0][1] == "None" and fam["main"][1] == "Some" and fam["helper"][1] == "Some":
                ireqs.append("expandokinh " + " ".join([sexpr(g["gid"]), sexpr(g["idents"]), sexpr(g["payloads"]), sexpr(fam["main"]), sexpr(fam["helper"][3][0])]
                                                       + [sexpr(h) for h, _ in fam["helpers"]] + ["--"] + [sexpr(x) for x in g["items"]]))
                iwhere.append((pi, fi))
    ires = dict(zip(iwhere, C.run_lean(ireqs))) if ireqs else {}
    for (pi, fi), resp, xresp in zip(where, lres, xres):
        plan, d = plans[pi], dumps[pi]
        g, fam = d.groups[fi], d.families[fi]
        v = parse_sexpr(resp)
        if v[0] != "family":
            rep.disagreements.append({"what": "family request rejected by the model", "resp": resp[:200]})
            continue
        keys_over_header = v[1] == "1"
        nkeys = int(v[2])
        rep.count("shape:families")
        problems = []
        if has_eparam(g["gid"]):
            rep.count("shape:families-with-const-parameter-header")
        if not keys_over_header:
            problems.append("KeysOverHeader fails")
        thetas = []
        for mi, mv in enumerate(v[3]):
            member_ok, theta_covers, sized_compat = mv[0] == "1", mv[1] == "1", mv[2] == "1"
            theta = {}
            for ent in mv[6]:
                val = ent[1]
                theta[ent[0][1]] = ("id",) if val[0] == "id" else (val[0], from_sx(val[1]))
            thetas.append(theta)
            rep.count("shape:members")
            if not member_ok:
                problems.append(f"member {mi}: memberOK fails (header instance {mv[3]}, row length {mv[4]}, key clauses {' '.join(mv[5])})")
            if not theta_covers:
                problems.append(f"member {mi}: ThetaCovers fails")
            if not sized_compat:
                rep.count("shape:sized-compat-fails (C15's subject)")
        # ExpandOK: structural comparison of the generated items with the abstract program of Sem.lean
        if expand:
            py_problems = expand_ok(d, g, fam, thetas, nkeys, fi)
            problems += py_problems
            xv = parse_sexpr(xresp) if xresp else None
            if xv and xv[0] == "expandok":
                rep.count("shape:expandOK(lean)=" + str(xv[1]))
                # the Lean checker is the one the theorem is about; the Python one gives the messages: they must agree
                if (xv[1] == "1") != (not py_problems):
                    rep.disagreements.append({"what": "ExpandOK: Lean checker and Python checker disagree (harness defect)", "lean": str(xv)[:300],
                                              "python": py_problems[:4], "invocation": plan.invocation_text()[:3000], "family": fi})
            else:
                rep.disagreements.append({"what": "expandok request rejected by the model", "resp": str(xresp)[:200]})
            if (pi, fi) in ires:
                iv = parse_sexpr(ires[(pi, fi)])
                if iv and iv[0] == "expandokinh" and iv[1] in ("0", "1"):
                    rep.count("shape:expandOKInh(lean)=" + iv[1])
                    if iv[1] == "0":
                        problems.append("inherent mode: the real helper trait / helper impls / main impl are not the abstract program (expandOKInhCore_inh rejects)")
                else:
                    rep.disagreements.append({"what": "expandokinh request rejected by the model", "resp": str(ires[(pi, fi)])[:200]})
        if problems and judge and excuse is not None:
            fid = excuse(plan, problems)
            if fid:
                rep.known(fid)
                problems = []
        if problems and judge:
            rep.disagreements.append({"what": "the implementation's grouping/expansion violates a hypothesis of the refinement theorem",
                                      "problems": problems[:6], "invocation": plan.invocation_text()[:3000], "family": fi})
    return dumps


def expand_ok(d, g, fam, thetas, nkeys, fi):
    problems = []
    members = g["items"]
    helpers = fam["helpers"]
    if len(helpers) != len(members):
        return [f"{len(helpers)} helper impls for {len(members)} members"]
    keys = []
    for kt in g["idents"][3]:
        bounded = kt[3][0][3][0]
        trp = kt[3][1][3][0]
        keys.append((bounded, norm_tr_segs(trp[3][1][3]), kt[3][2][2][0]))
    rows = [[(x[3][0] if x[1] == "Some" else None) for x in r[3]] for r in g["payloads"][3]]
    gid_trait = g["gid"][3][0]
    inherent = gid_trait[1] == "None"
    for mi, (m, (h, htoks)) in enumerate(zip(members, helpers)):
        mp, hp = impl_parts(m), impl_parts(h)
        for part in ("generics", "self_ty", "unsafety") + (() if inherent else ("items",)):
            if mp[part] != hp[part]:
                problems.append(f"helper impl {mi}: {part} differs from the member block")
        hpath = trait_path_of(h)
        if hpath is None:
            problems.append(f"helper impl {mi}: no trait path")
            continue
        hargs = seg_args(last_seg(hpath))
        lead = hargs[:nkeys]
        if inherent:
            continue
        mpath = trait_path_of(m)
        margs = seg_args(last_seg(mpath))
        if hargs[nkeys:] != margs:
            problems.append(f"helper impl {mi}: trailing trait arguments differ from the member's trait arguments")
        theta = thetas[mi] if mi < len(thetas) else {}
        for ki, (arg, key) in enumerate(zip(lead, keys)):
            payload = rows[mi][ki] if mi < len(rows) and ki < len(rows[mi]) else None
            if payload is not None:
                if arg != tref.N("GenericArgument::Type", [], [payload]) and arg != tref.N("GenericArgument::Const", [], [payload]):
                    problems.append(f"helper impl {mi}: argument {ki} is not the member's payload")
            else:
                pp = projection_parts(arg)
                want_ty = tref.inst(theta, key[0])
                if pp is None or pp[0] != want_ty or norm_tr_segs(pp[1]) != [(a, tref_inst_repr(theta, b)) for a, b in key[1]] or pp[2] != key[2]:
                    problems.append(f"helper impl {mi}: wildcard argument {ki} is not the projection of the key through the member's substitution")
        if len(lead) != nkeys:
            problems.append(f"helper impl {mi}: {len(lead)} leading arguments for {nkeys} keys")
    # main impl
    main = fam["main"]
    if main[1] != "Some":
        problems.append("no main impl")
        return problems
    mp = impl_parts(main[3][0])
    if not inherent:
        mpath = trait_path_of(main[3][0])
        if tref.N("Some", [], [mpath]) != gid_trait:
            problems.append("main impl: trait path differs from the family's")
    if mp["self_ty"] != g["gid"][3][1] and not inherent:
        problems.append("main impl: self type differs from the family's")
    preds = []
    wc = mp["generics"][3][3]
    if wc[1] == "Some":
        preds = wc[3][0][3][0][3]
    self_pred = None
    have = set()
    for p in preds:
        if p[1] != "WherePredicate::Type":
            continue
        pt = p[3][0]
        bounded, bounds = pt[3][1], pt[3][2][3]
        for b in bounds:
            if b[1] != "TypeParamBound::Trait":
                continue
            path = b[3][0][3][3]
            if is_self_ty(bounded):
                self_pred = path
            else:
                have.add((repr(bounded), repr(norm_tr_segs(path[3][1][3]))))
    for ki, key in enumerate(keys):
        if (repr(key[0]), repr(key[1])) not in have:
            problems.append(f"main impl: no predicate `bounded: trait` for key {ki}")
    if self_pred is None:
        problems.append("main impl: no `Self: helper<…>` predicate")
    else:
        sargs = [a for a in seg_args(last_seg(self_pred)) if a[1] != "GenericArgument::Lifetime"]
        for ki, key in enumerate(keys):
            pp = projection_parts(sargs[ki]) if ki < len(sargs) else None
            if pp is None or pp[0] != key[0] or norm_tr_segs(pp[1]) != key[1] or pp[2] != key[2]:
                problems.append(f"main impl: helper argument {ki} is not the projection of key {ki}")
    return problems


def is_self_ty(t):
    try:
        return t[1] == "Type::Path" and t[3][1][3][1][3][0][3][0][2] == ["Self"] and len(t[3][1][3][1][3]) == 1
    except Exception:
        return False


def tref_inst_repr(theta, args_repr):
    # trait arguments of keys rarely contain parameters; when they do the comparison is made on the raw repr
    return args_repr
