"""C05 — block order independence (DESIGN.md §7 C05)."""

import random

from .. import common as C
from ..gen_inv import PlanGen
from .. import progcheck as PC
from .dispatch_common import plan_summary, d4_blocks
from . import variants as V
from . import groupcorr

PROP = "C05"


def run(tier, seed, replay=None):
    rep = C.Report(PROP, tier, seed)
    rep.rule = ("base plans (accepted ones with equal / nested / unrelated headers, and rejected ones: overlapping pairs) x all n! "
                "orders of their blocks (n <= 4; sampled beyond, always including the reversed order); observable = (compiles?, "
                "dispatch table over all probes); distinct = distinct (invocation text); non-trivial = at least 2 blocks")
    proof = C.proof_obligations(PROP)
    rep.proof = proof
    rep.broken += proof["failures"]
    try:
        so = C.build_macro()
    except C.BuildError as e:
        rep.broken.append(str(e)[:2000])
        return rep.finish()
    rng = random.Random(seed * 7919 + 5)
    g = PlanGen(rng)
    nbase, limit = (20, 24) if tier == "quick" else (300, 60)
    bases = []
    while len(bases) < nbase:
        c = rng.random()
        if c < 0.2:
            p, _ = g.overlap()
        elif c < 0.45:
            p = g.lattice()
        elif c < 0.6:
            p = g.unsized_plan()
        elif c < 0.7:
            p = g.shifted_nested_plan()
        elif c < 0.8:
            p = g.wildcard_prefix_plan()
        elif c < 0.88:
            p = g.assoc_subsets_plan()
        else:
            p = g.basic(nfam=rng.choice([1, 1, 2]), max_members=rng.choice([2, 3, 3]))
        if 2 <= len(p.blocks()) <= 6:
            bases.append(p)
    bases += [g.assoc_subsets_plan() for _ in range(2 if tier == "quick" else 30)]
    # sibling sub-headers with families of their own + a doubly nested block that joins the later sibling (seeded change C05g)
    bases += [g.sibling_groups_plan() for _ in range(2 if tier == "quick" else 20)]
    # directional overlaps (one block's row strictly generalises another's: generic payload vs concrete, wildcard vs binding):
    # `is_overlapping` must see them whichever block comes first — every run, both orders
    for mode_ in ["general", "wild"] * (2 if tier == "quick" else 20):
        for _ in range(20):
            p, _m = g.overlap(mode=mode_)
            if 2 <= len(p.blocks()) <= 5:
                bases.append(p)
                break
    allv, owner = [], []
    for bi, b in enumerate(bases):
        for label, q in V.permutations_of(b, rng, limit):
            allv.append(q)
            owner.append((bi, label))
    # function level: for every order the model of the grouping search must agree with the real search
    try:
        exe = C.build_hook()
        sample = allv if tier == "quick" and len(allv) <= 160 else allv[:: max(1, len(allv) // (160 if tier == "quick" else 3000))]
        groupcorr.compare(rep, exe, [(p.invocation_text(), [p.block_text(bi) for bi in p.order()]) for p in sample])
    except C.BuildError as e:
        rep.broken.append(str(e)[:2000])
    # instances of C05_flat_order_free_exec: when the executable hypotheses (no nested headers, flatWF) hold for one order, the
    # MODEL must give every order the same kind of answer and the hypotheses must hold for every order
    info = getattr(rep, "flat_info", {})
    by_b = {}
    for q, (bi, label) in zip(allv, owner):
        fi_ = info.get(q.invocation_text())
        if fi_ is not None:
            by_b.setdefault(bi, []).append((label, fi_))
    for bi, lst in by_b.items():
        if any(nn and fw for _, (_, nn, fw) in lst):
            rep.count("theorem-instances-checked:C05_flat_order_free_exec")
            kinds = {k for _, (k, _, _) in lst}
            if len(kinds) != 1 or not all(nn and fw for _, (_, nn, fw) in lst):
                rep.broken.append("instance of C05_flat_order_free_exec false in the executable model: " + bases[bi].invocation_text()[:400])
        else:
            rep.count("theorem-not-applicable:nested-or-not-flatWF")
    evs = PC.evaluate(so, allv, need_shadow=False)
    by_base = {}
    for ev, (bi, label) in zip(evs, owner):
        by_base.setdefault(bi, []).append((label, ev))
    for bi, lst in by_base.items():
        ref_label, ref = lst[0]
        ref_obs = V.observable(ref)
        rep.count("base:" + ref_obs[0])
        rep.count("blocks:%d" % len(bases[bi].blocks()))
        for label, ev in lst:
            rep.case(ev.plan.invocation_text(), len(ev.plan.blocks()) >= 2,
                     sample={**plan_summary(ev.plan), "order": list(label[1]), "observable": V.observable(ev)[0]} if label[1][0] != 0 else None)
            obs = V.observable(ev)
            if obs != ref_obs and d4_blocks(bases[bi]) and "F-D4" in {f_["id"] for f_ in C.findings_for(PROP)}:
                # D4: a nested block bounding its inner parameter is folded into whichever general family is tried first
                rep.known("F-D4")
                break
            if obs != ref_obs:
                rep.oracle_failures.append({"clause": "permuting the blocks changed " + ("whether the invocation compiles" if obs[0] != ref_obs[0] else "the dispatch table"),
                                            "order_a": list(ref_label[1]), "order_b": list(label[1]),
                                            "observable_a": repr(ref_obs)[:600], "observable_b": repr(obs)[:600],
                                            "first_error_b": ev.first_error(), "first_error_a": ref.first_error(),
                                            "program_a": ref.plan.macro_program(), "program_b": ev.plan.macro_program()})
                break
    return rep.finish()
