"""Presentation variants of a plan (C05: block order; C06: names, declaration order, bound placement) and the
comparison of their observable behaviour (verdict + dispatch table)."""

import copy
import itertools

from .. import progcheck as PC

ADVERSARIAL_NAMES = [
    ["_ŠČ1", "_ŠČ0", "_ŠČ3", "_ŠČ2", "_ŠČ5", "_ŠČ4"],
    ["G", "H", "NAME", "Out", "tag", "Self_"],
    ["Kita_", "Dispatch", "Group", "Wr_", "Item", "Target"],
    ["T", "U", "V", "X", "Y", "Z"],
    ["Z", "Y", "X", "V", "U", "T"],
    ["a", "b", "c", "d", "e", "f"],
]


def observable(ev):
    """what C05/C06 compare: does it compile, and the table"""
    if not ev.macro_ok:
        return ("rejected",)
    return ("ok", tuple(sorted((pi, tuple(row)) for pi, row in ev.mt.items())))


def permutations_of(plan, rng, limit):
    n = len(plan.blocks())
    perms = list(itertools.permutations(range(n)))
    if len(perms) > limit:
        ident = tuple(range(n))
        rev = tuple(reversed(range(n)))
        rest = [p for p in perms if p not in (ident, rev)]
        rng.shuffle(rest)
        perms = [ident, rev] + rest[: limit - 2]
    out = []
    for p in perms:
        q = copy.deepcopy(plan)
        q.block_order = list(p)
        out.append((("order", p), q))
    return out


def rename_variant(plan, rng, pool=None):
    q = copy.deepcopy(plan)
    for _, _, m in q.blocks():
        names = list(pool or rng.choice(ADVERSARIAL_NAMES))
        if rng.random() < 0.5:
            rng.shuffle(names)
        m.names = names[: max(m.nparams, 1)] + [f"P{i}" for i in range(max(0, m.nparams - len(names)))]
    return q


def declorder_variant(plan, rng):
    q = copy.deepcopy(plan)
    for _, _, m in q.blocks():
        rng.shuffle(m.decl_order)
        if m.lifetimes and rng.random() < 0.5:
            m.lifetimes = list(reversed(m.lifetimes))
    return q


def placement_variant(plan, rng):
    q = copy.deepcopy(plan)
    for fi, mi, m in q.blocks():
        nk = len(q.families[fi].keys)
        m.inline = {ki: rng.random() < 0.5 for ki in range(nk)}
        if getattr(m, "redundant", None):
            m.redundant = {ki: (rng.random() < 0.5, rng.random() < 0.5) for ki in m.redundant}
        if m.unsized:
            m.unsized_where = rng.random() < 0.5
    return q
