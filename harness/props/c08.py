"""C08 — scope hygiene and trait fidelity (DESIGN.md §7 C08)."""

import copy
import random
import re

from .. import common as C
from ..gen_inv import PlanGen
from .. import progcheck as PC
from ..syn_dbg import parse_dbg, decode
from .. import tref
from .dispatch_common import plan_summary

PROP = "C08"


def module_program(plan, extra_after=""):
    """the invocation alone inside `mod probe` (everything else at the crate root), so that the items it adds to the
    surrounding scope are exactly the items of `mod probe` minus the `use`"""
    inv = "disjoint_impls::disjoint_impls! { " + plan.invocation_text() + " }"
    return plan.prelude() + "\npub mod probe { use super::*; " + inv + " }\n" + extra_after + "\nfn main() {}\n"


def items_of_module(file_tree, name):
    """decoded `File` -> list of decoded items of `mod <name>`"""
    for it in file_tree[3][-1][3]:
        if it[0] == "N" and it[1] == "Item::Mod":
            ident = [k for k in it[3] if k[0] == "N" and k[1] == "Ident"]
            if ident and ident[0][2] == [name]:
                content = [k for k in it[3] if k[0] == "N" and k[1] == "Some" and k[3] and k[3][0][1] == "Tuple"]
                if content:
                    return content[0][3][0][3][0][3]
    return None


def item_kind_name(it):
    kind = it[1]
    ident = [k for k in it[3] if k[0] == "N" and k[1] == "Ident"]
    return (kind, ident[0][2][0] if ident else "")


def strip_ign(t):
    return t


def decorate(plan, rng):
    """attributes, supertraits, where-clauses on the trait: they must survive verbatim"""
    q = copy.deepcopy(plan)
    if rng.random() < 0.5:
        q.trait_supers = ": Sized" if rng.random() < 0.5 else ": 'static"
    if rng.random() < 0.4:
        q.trait_vis = rng.choice(["#[allow(dead_code)] pub ", "#[doc = \" doc\"] pub ", "pub(crate) ", ""])
    if rng.random() < 0.3:
        q.trait_where = " where Self: Sized"
    if rng.random() < 0.4:
        # inner attributes of the trait body are part of `ItemTrait::attrs` too (seeded change C08f)
        q.trait_inner = rng.choice(['#![allow(non_snake_case)] ', '#![doc = " inner doc"] ', '#![allow(dead_code)] #![doc = " two"] '])
    if rng.random() < 0.25:
        # the blocks name the invocation's trait through a qualified path: the helpers still live in the anonymous constant (D46)
        q.header_qual = "self::"
    if rng.random() < 0.4:
        # methods whose argument patterns are not plain identifiers (the generated delegations rename such arguments; the user's trait must
        # keep them — and its default bodies keep using the names the patterns bind; seeded change C08g)
        q.trait_extra_items = rng.choice([
            " fn pat0(_: u8, (lo, hi): (u8, u8)) -> u8 { lo + hi }",
            " fn pat1(mut acc: u8, _: u8, ref r: u8) -> u8 { acc += *r; acc }",
            " fn pat2(&self, (a, _): (u8, u8), [x, y]: [u8; 2], w @ 0..=9: u8) -> u8 { a + x + y + w }",
            " fn pat3(_: u8, _arg0: u8) -> u8 { _arg0 } fn pat4(mut _x: u8) {}",
        ])
    return q


def helper_names(plan):
    if plan.mode == "trait":
        return [f"_{plan.trait_name}{i}" for i in range(len(plan.families))]
    return [f"_Wr{i}" for i in range(len(plan.families))]


def run(tier, seed, replay=None):
    rep = C.Report(PROP, tier, seed)
    rep.rule = ("accepted invocations (trait mode with decorated traits: attributes, doc comments, supertraits, where-clauses, visibilities; "
                "inherent mode) expanded by rustc -Zunpretty=expanded inside `mod probe`; observed: items of the module, the trait item vs the "
                "user's trait tokens, helper names referenced from outside, several invocations side by side (one module, sibling modules with "
                "equal trait names, inherent families with equal helper indices), third-party impls using trait defaults")
    proof = C.proof_obligations(PROP)
    rep.proof = proof
    rep.broken += proof["failures"]
    try:
        so = C.build_macro()
        so_n = C.build_macro("nightly")
        exe = C.build_hook()
    except C.BuildError as e:
        rep.broken.append(str(e)[:2000])
        return rep.finish()
    rng = random.Random(seed * 7919 + 8)
    g = PlanGen(rng)
    n = 24 if tier == "quick" else 400
    plans = []
    while len(plans) < n:
        p = g.inherent() if rng.random() < 0.25 else decorate(g.basic(nfam=rng.choice([1, 2]), nested=False, wildcard=False), rng)
        plans.append(p)
    # keep the accepted ones
    acc = C.run_programs(so, [("a", module_program(p)) for p in plans], mode="check")
    plans = [p for p, r in zip(plans, acc) if r["rc"] == 0]
    rep.count("accepted", len(plans))
    # 1. expansion: items added to the surrounding scope + trait fidelity
    exp = C.run_programs(so_n, [("e", module_program(p)) for p in plans], toolchain="nightly", mode="expand")
    dumps = C.run_hook(exe, [("dump", ["file", C_oneline(r["stdout"])]) for r in exp], tag="hooke")
    tdump = C.run_hook(exe, [("dump", ["trait", p.trait_text().replace("\n", " ")]) if p.mode == "trait" else ("dump", ["type", "u8"]) for p in plans], tag="hookt")
    for plan, r, (st, f), (st2, f2) in zip(plans, exp, dumps, tdump):
        cj = {"invocation": plan.invocation_text(), "program": module_program(plan)}
        rep.case(plan.invocation_text(), True, sample={**plan_summary(plan), "helpers": helper_names(plan)})
        if r["rc"] != 0 or st != "ok":
            rep.oracle_failures.append({**cj, "clause": "expansion could not be obtained / re-parsed", "detail": (r["stderr"] or (f[0] if f else ""))[:300]})
            continue
        items = items_of_module(decode(parse_dbg(f[0])), "probe")
        if items is None:
            rep.oracle_failures.append({**cj, "clause": "module `probe` not found in the expansion"})
            continue
        kinds = [item_kind_name(it) for it in items]
        added = [kn for kn in kinds if kn[0] != "Item::Use"]
        want = ([("Item::Trait", plan.trait_name)] if plan.mode == "trait" else []) + [("Item::Const", "_")]
        rep.count("mode:" + plan.mode)
        if added != want:
            rep.oracle_failures.append({**cj, "clause": "the invocation must add exactly the user's trait (nothing in inherent mode) and one anonymous constant",
                                        "added_items": added, "expected": want})
            continue
        if plan.mode == "trait":
            got = [it for it in items if it[1] == "Item::Trait"][0]
            user = decode(parse_dbg(f2[0])) if st2 == "ok" else None
            # Item::Trait { .. } vs ItemTrait { .. }: same fields
            if user is None or got[3] != user[3]:
                rep.oracle_failures.append({**cj, "clause": "the emitted trait is not the user's trait token for token",
                                            "first_difference": list(tref.first_diff(tref.N("T", [], got[3]), tref.N("T", [], user[3] if user else [])) or [])[-5:]})
        # every helper lives inside the anonymous constant
        cst = [it for it in items if it[1] == "Item::Const"][0]
        inner = tref.show(cst, 100000)
        for h in helper_names(plan):
            if f"Ident[{h}]" not in inner:
                rep.oracle_failures.append({**cj, "clause": "helper trait not found inside the anonymous constant", "helper": h})
    # 2. helpers cannot be named from outside
    leak = []
    for plan in plans:
        for h in helper_names(plan)[:1]:
            leak.append((plan, h, module_program(plan, f"fn leak<T: probe::{h}<u8>>() {{}}")))
            leak.append((plan, h, module_program(plan, f"use probe::{h};")))
    res = C.run_programs(so, [("l", p) for _, _, p in leak], mode="check")
    for (plan, h, prog), r in zip(leak, res):
        rep.count("leak-probes")
        codes = set(PC.error_codes(r))
        if r["rc"] == 0 or not (codes & {"E0405", "E0412", "E0432", "E0433", "E0425", "E0603"}):
            rep.oracle_failures.append({"clause": "a helper must not be nameable from outside the anonymous constant", "helper": h,
                                        "rc": r["rc"], "errors": PC.error_lines(r)[:3], "program": prog, "invocation": plan.invocation_text()})
    # 3. several invocations side by side
    side = []
    tplans = [p for p in plans if p.mode == "trait"]
    iplans = [p for p in plans if p.mode == "inherent"]
    for a, b in zip(tplans[::2], tplans[1::2]):
        inv_a = "disjoint_impls::disjoint_impls! { " + a.invocation_text() + " }"
        b2 = copy.deepcopy(b)
        b2.trait_name = "Kara"
        inv_b = "disjoint_impls::disjoint_impls! { " + b2.invocation_text() + " }"
        pre = merged_prelude(a, b)
        if pre is None:
            continue
        side.append(("one module, two traits (equal helper indices)", pre + f"\n{inv_a}\n{inv_b}\nfn main() {{}}\n"))
        inv_b_same = "disjoint_impls::disjoint_impls! { " + b.invocation_text() + " }"
        side.append(("sibling modules, equal trait names", pre + f"\npub mod ma {{ use super::*; {inv_a} }}\npub mod mb {{ use super::*; {inv_b_same} }}\nfn main() {{}}\n"))
        side.append(("same invocation twice in sibling modules", pre + f"\npub mod ma {{ use super::*; {inv_a} }}\npub mod mb {{ use super::*; {inv_a} }}\nfn main() {{}}\n"))
    for a in iplans:
        if len(a.families) >= 2:
            # the two families of one inherent invocation, split into two invocations: both helpers are called `_Wr0`
            parts = []
            bi = 0
            for f in a.families:
                parts.append(" ".join(a.block_text(bi + j) for j in range(len(f.members))))
                bi += len(f.members)
            side.append(("inherent families split into two invocations (equal helper names)",
                         a.prelude() + "\n" + "\n".join("disjoint_impls::disjoint_impls! { " + t + " }" for t in parts) + "\nfn main() {}\n"))
    res = C.run_programs(so, [("s", p) for _, p in side], mode="check")
    for (what, prog), r in zip(side, res):
        rep.count("side-by-side:" + what)
        if r["rc"] != 0:
            rep.oracle_failures.append({"clause": "invocations side by side must not collide", "situation": what, "errors": PC.error_lines(r)[:3], "program": prog})
    # 4. the trait definition survives: a third-party impl written outside relies on a default
    third = []
    for p in tplans:
        dflt = [(k, nme) for k, nme, d in p.items if d and k in ("fn", "const")]
        if not dflt or p.trait_generics:
            continue
        req = []
        for k, nme, d in p.items:
            if d:
                continue
            if k == "const":
                req.append(f"const {nme}: &'static str = \"third\";")
            elif k == "fn":
                req.append(f"fn {nme}() -> &'static str {{ \"third\" }}")
            elif k == "type":
                req.append(f"type {nme} = u8;")
        k, nme = dflt[0]
        use = f"<Third as {p.trait_name}>::{nme}" + ("()" if k == "fn" else "")
        uns = "unsafe " if p.trait_unsafe else ""
        body = p.prelude() + "\ndisjoint_impls::disjoint_impls! { " + p.invocation_text() + " }\npub struct Third;\n" + \
            f"{uns}impl {p.trait_name} for Third {{ {' '.join(req)} }}\nfn main() {{ println!(\"{{}}\", {use}); }}\n"
        third.append((p, nme, body))
    res = C.run_programs(so, [("t", b) for _, _, b in third])
    for (p, nme, body), r in zip(third, res):
        rep.count("third-party-default")
        if r["rc"] != 0 or r.get("stdout", "").strip() != f"dflt.{nme}":
            # a third-party impl may legitimately overlap with a blanket family; only judge when it compiles or fails for another reason than E0119
            if "E0119" in PC.error_codes(r):
                rep.count("third-party-overlaps-blanket")
                continue
            rep.oracle_failures.append({"clause": "trait defaults must survive for impls written outside the invocation", "item": nme,
                                        "stdout": r.get("stdout", "")[:100], "errors": PC.error_lines(r)[:3], "program": body})
    # 4b. an invocation consisting of the trait definition alone still adds exactly that trait
    alone = []
    for p in tplans[:8]:
        q = copy.deepcopy(p)
        q.families = []
        q.probes = []
        req = []
        for k, nme, d in q.items:
            if d:
                continue
            if k == "const":
                req.append(f"const {nme}: &'static str = \"third\";")
            elif k == "fn":
                req.append(f"fn {nme}() -> &'static str {{ \"third\" }}")
            elif k == "type":
                req.append(f"type {nme} = u8;")
        if q.trait_generics:
            continue
        uns = "unsafe " if q.trait_unsafe else ""
        body = q.prelude() + "\ndisjoint_impls::disjoint_impls! { " + q.trait_text() + " }\npub struct Third;\n" + \
            f"{uns}impl {q.trait_name} for Third {{ {' '.join(req)} }}\nfn main() {{}}\n"
        alone.append(body)
    res = C.run_programs(so, [("o", b) for b in alone], mode="check")
    for body, r in zip(alone, res):
        rep.count("trait-only-invocation")
        if r["rc"] != 0:
            rep.oracle_failures.append({"clause": "an invocation that only defines the trait must still add that trait to the scope",
                                        "errors": PC.error_lines(r)[:3], "program": body})
    # 4c. ONE inherent invocation with families for equally named types of sibling modules (`ma::Len<T>`, `mb::Len<T>`; legal since the helper is
    # named by the last path segment, /repo ccb06e8): the helper names must still differ (family index), seeded change C08h
    same = []
    for na, nb in [("ma::Len", "mb::Len"), ("ma::Len", "ma::inner::Len"), ("self::ma::Len", "crate::mb::Len")]:
        blocks = []
        for ty, tag in ((na, "a"), (nb, "b")):
            for grp in ("GA", "GB"):
                blocks.append(f"impl<T: Disp<G = {grp}>> {ty}<T> {{ pub const NAME: &'static str = \"{tag}.{grp}\"; pub fn name(&self) -> &'static str {{ Self::NAME }} }}")
        if rng.random() < 0.5:
            blocks = blocks[2:] + blocks[:2]
        prog = ("#![allow(warnings)]\npub trait Disp { type G; } pub enum GA {} pub enum GB {}\nimpl Disp for u8 { type G = GA; } impl Disp for u16 { type G = GB; }\n"
                "pub mod ma { pub struct Len<T>(pub T); pub mod inner { pub struct Len<T>(pub T); } } pub mod mb { pub struct Len<T>(pub T); }\n"
                "disjoint_impls::disjoint_impls! { " + " ".join(blocks) + " }\n"
                f"fn main() {{ println!(\"{{}} {{}} {{}} {{}}\", <{na.replace('self::', '')}<u8>>::NAME, {na.replace('self::', '')}(1u16).name(), <{nb.replace('crate::', '')}<u8>>::NAME, {nb.replace('crate::', '')}(1u16).name()); }}\n")
        same.append((na, nb, prog))
    res = C.run_programs(so, [("q", b) for _, _, b in same])
    for (na, nb, prog), r in zip(same, res):
        rep.count("equally-named-types-one-invocation")
        rep.case(("equally named types", na, nb), True)
        if r["rc"] != 0 or r.get("stdout", "").strip() != "a.GA a.GB b.GA b.GB":
            rep.oracle_failures.append({"clause": "families for equally named types of different modules in one inherent invocation must not collide",
                                        "types": [na, nb], "stdout": r.get("stdout", "")[:100], "errors": PC.error_lines(r)[:3], "program": prog})
    # 5. user items named like a helper (D11)
    d11 = []
    for p in tplans[:6]:
        q = copy.deepcopy(p)
        q.dtraits = copy.deepcopy(p.dtraits)
        q.dtraits[0].name = f"_{p.trait_name}0"
        d11.append((q, q.macro_program()))
    res = C.run_programs(so, [("d", b) for _, b in d11], mode="check")
    known = {f["id"] for f in C.findings_for(PROP)}
    for (q, prog), r in zip(d11, res):
        rep.count("user-item-named-like-helper")
        if r["rc"] != 0:
            if "F-D11" in known:
                rep.known("F-D11")
            else:
                rep.oracle_failures.append({"clause": "a user item named like a helper must not collide", "errors": PC.error_lines(r)[:3], "program": prog})
    return rep.finish()


def C_oneline(s):
    return s.replace("\t", " ").replace("\n", " ").replace("\r", " ")


def merged_prelude(a, b):
    """one prelude for two plans: only when their worlds are compatible (same dispatch traits)"""
    if [d.decl() for d in a.dtraits] != [d.decl() for d in b.dtraits]:
        return None
    m = copy.deepcopy(a)
    nb = max(len(a.blocks()), len(b.blocks()))
    m.locals = sorted(set(a.locals) | set(b.locals))
    seen = set()
    m.world = []
    for w in a.world + b.world:
        key = (w[0], tuple(w[1]), w[2])
        if key not in seen:
            seen.add(key)
            m.world.append(w)
    m.plain = sorted(set(a.plain) | set(b.plain))
    pre = m.prelude()
    for i in range(len(a.blocks()), nb):
        pre += f"\npub struct Tag{i};"
    return pre
