"""C03 — acceptance: documented-fragment disjoint inputs expand to code that compiles (DESIGN.md §7 C03)."""

import random

from .. import common as C
from ..gen_inv import PlanGen, parse_table
from .. import progcheck as PC
from .dispatch_common import plan_summary
from .c16 import d17_shape, d17_captured, d18_shape
from .c15 import relaxed_non_key_params

PROP = "C03"


def features(plan):
    fs = set()
    fs.add("families:%d" % len(plan.families))
    for f in plan.families:
        if len(f.keys) > 1:
            fs.add("several-keys")
        if len({k.dt for k in f.keys}) > 1:
            fs.add("several-dispatch-traits")
        if any(k.bounded[0] != "tp" for k in f.keys):
            fs.add("key-on-constructed-type")
        if f.targs:
            fs.add("trait-arguments")
        for m in f.members:
            if m.theta:
                fs.add("nested-header")
            if any(r is None for r in m.row):
                fs.add("wildcard")
            if any(r is not None and r[0] != "leaf" for r in m.row):
                fs.add("generic-payload")
            if m.unsized:
                fs.add("?Sized")
            if m.extra:
                fs.add("non-dispatch-bounds")
            if any(not v for v in m.inline.values()):
                fs.add("where-clause-bounds")
            if any(v for v in m.inline.values()):
                fs.add("inline-bounds")
    if plan.trait_unsafe:
        fs.add("unsafe-trait")
    for g in plan.trait_generics:
        fs.add("trait-" + g[0] + "-param")
        if g[0] == "ty" and g[3]:
            fs.add("trait-param-default")
        if g[0] == "ty" and g[2]:
            fs.add("trait-param-bound")
    if any(d for _, _, d in plan.items):
        fs.add("trait-default-items")
    return fs


def d3_shape(plan):
    """a nested member (header is a proper instance of the family's) with a wildcard row entry"""
    return any(m.theta and any(r is None for r in m.row) for f in plan.families for m in f.members)


def classify(plan, macro, ref_table, known):
    codes = set(PC.error_codes(macro))
    if macro["rc"] != 0:
        if ("E0425" in codes or d17_captured(plan, codes)) and d17_shape(plan) and "F-D17" in known:
            return "F-D17"
        if "E0203" in codes and any(g[0] == "ty" and "?Sized" in (g[2] or "") for g in plan.trait_generics) and "F-D16" in known:
            return "F-D16"
        if "E0277" in codes and d3_shape(plan) and "F-D3" in known:
            return "F-D3"
        if "E0277" in codes and d18_shape(plan) and "F-D18" in known:
            return "F-D18"
        return None
    if relaxed_non_key_params(plan) and "F-D7" in known:
        return "F-D7"
    if d3_shape(plan) and "F-D3" in known:
        return "F-D3"      # the stray (family-namespace) bound happens to hold: compiles, wrong projection
    return None


def run(tier, seed, replay=None):
    rep = C.Report(PROP, tier, seed)
    rep.rule = ("plans drawn from every generator (several families with equal / nested / unrelated headers, 1-3 keys on parameters or "
                "types built from them, 1-3 dispatch traits, generic payloads, wildcards, inline and where-clause bounds, trait lifetime / "
                "type / const parameters with bounds and defaults, ?Sized, unsafe traits, defaults); reference = the plan encoded by hand-"
                "written-style helper traits (an encoder that shares nothing with the macro); judged: reference compiles => macro program "
                "compiles and prints the same table; distinct = distinct invocations; feature pairs covered are listed in the evidence")
    proof = C.proof_obligations(PROP)
    rep.proof = proof
    rep.broken += proof["failures"]
    try:
        so = C.build_macro()
    except C.BuildError as e:
        rep.broken.append(str(e)[:2000])
        return rep.finish()
    rng = random.Random(seed * 7919 + 3)
    g = PlanGen(rng)
    n = 120 if tier == "quick" else 3000
    plans = []
    while len(plans) < n:
        c = rng.random()
        p = g.trait_args_plan() if c < 0.25 else (g.unsized_plan() if c < 0.37 else (g.shifted_nested_plan() if c < 0.43 else
            (g.single_member_multi_key_plan() if c < 0.47 else (g.wildcard_prefix_plan() if c < 0.52 else
            (g.interleaved_keys_plan() if c < 0.55 else g.basic())))))
        if rng.random() < 0.15:
            p.trait_unsafe = True
        plans.append(p)
    # defaults of trait parameters that the blocks rely on (`trait Kita<P0 = u8>` + `impl<..> Kita for T`): the helper trait, the helper
    # impls and the main impl's helper reference must agree on the argument count (seeded change C03g)
    plans += [g.default_vs_explicit_plan() for _ in range(max(4, n // 25))]
    progs = []
    for p in plans:
        progs.append(("r", p.reference_program()))
        progs.append(("m", p.macro_program()))
    res = C.run_programs(so, progs)
    known = {f["id"] for f in C.findings_for(PROP)}
    pairs = set()
    for i, plan in enumerate(plans):
        r, m = res[2 * i], res[2 * i + 1]
        rok = r["rc"] == 0 and r.get("ran")
        mok = m["rc"] == 0 and m.get("ran")
        fs = sorted(features(plan))
        if not rok:
            rep.count("reference-rejected")
            continue
        rep.case(plan.invocation_text(), True, sample={**plan_summary(plan), "features": fs})
        for f_ in fs:
            rep.count("feature:" + f_)
        for a in fs:
            for b in fs:
                if a < b:
                    pairs.add((a, b))
        cj = {"invocation": plan.invocation_text(), "macro_program": plan.macro_program(), "reference_program": plan.reference_program(), "features": fs}
        if not mok:
            sig = classify(plan, m, None, known)
            if sig:
                rep.known(sig)
                continue
            rep.oracle_failures.append({**cj, "clause": "the hand-written encoding compiles, the macro's expansion does not",
                                        "first_error": next((l for l in m["stderr"].splitlines() if l.startswith("error")), "")[:300]})
            continue
        tr, tm = parse_table(r["stdout"]), parse_table(m["stdout"])
        if tr != tm:
            sig = classify(plan, m, tr, known)
            if sig:
                rep.known(sig)
                continue
            diff = [(pi, tr.get(pi), tm.get(pi)) for pi in sorted(set(tr) | set(tm)) if tr.get(pi) != tm.get(pi)]
            rep.oracle_failures.append({**cj, "clause": "macro program and hand-written encoding dispatch differently", "differences": diff[:5]})
    rep.extra["feature_pairs_covered"] = len(pairs)
    # inherent blocks (documented feature): the hand-written counterpart is one marker trait per block (the shadow program);
    # whenever rustc accepts that and no probe satisfies two blocks, the macro must accept the invocation and its expansion compile
    from .. import progcheck as PC
    iplans = [g.inherent() for _ in range(n // 5)]
    for p_ in iplans:
        if rng.random() < 0.4:
            p_.items.append(("gfn", "mkarr", False))      # generic method, const parameter declared before the type parameter (seeded change C03h)
    for ev in PC.evaluate(so, iplans):
        plan = ev.plan
        if not ev.shadow_ok or ev.overlap_probes():
            rep.count("inherent:control-rejected-or-overlapping")
            continue
        rep.case(plan.invocation_text(), True)
        rep.count("feature:inherent")
        if any(m_.const_params for f_ in plan.families for m_ in f_.members):
            rep.count("feature:inherent-const-parameter")
        if not ev.macro_ok:
            rep.oracle_failures.append({"clause": "inherent blocks that rustc accepts as impls of distinct marker traits are rejected by the macro or its expansion does not compile",
                                        "first_error": ev.first_error(), "invocation": plan.invocation_text(), "macro_program": plan.macro_program(),
                                        "control_program": plan.shadow_program()})
    return rep.finish()
