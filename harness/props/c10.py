"""C10 — bound re-expression over a more general header is exact (DESIGN.md §7 C10)."""

import itertools
import json
import os
import random

from .. import common as C
from ..gen_pat import Gen, pr, subst, params_of
from ..syn_dbg import parse_dbg, decode, sexpr, parse_sexpr, from_sx, kinds_of
from .. import tref
from .c09 import decode_subs

PROP = "C10"


def spec_revsub(sig, t):
    """independent enumerator: every outermost sub-term equal to the value of some parameter is replaced by each
    parameter having that value (a parameter bound to `identity` has itself as value)."""
    byval = {}
    for p, v in sig.items():
        if v == ("id",):
            continue
        byval.setdefault((v[0], repr(v[1])), []).append(p)
    ident = {p for p, v in sig.items() if v == ("id",)}

    def go(t):
        pos = None
        if t[0] == "P" or (t[0] == "N" and t[1].startswith("Type::")):
            pos = "ty"
        elif t[0] == "E" or (t[0] == "N" and t[1].startswith("Expr::")):
            pos = "ex"
        if pos:
            ps = byval.get((pos, repr(t)))
            if ps:
                alts = [("P", p) if pos == "ty" else ("E", p) for p in ps]
                # D13: an identity-bound parameter spelled like this value is an alternative too
                if t[0] in "PE" and t[1] in ident:
                    alts = [t] + alts
                return alts
        if t[0] in "PE":
            return [t]
        _, k, atoms, kids = t
        if k in ("Ign", "IgnL", "Eq"):
            return [t]
        outs = [go(x) for x in kids]
        return [("N", k, atoms, list(c)) for c in itertools.product(*outs)]

    return go(t)


def gen_cases(rng, n, thorough):
    g = Gen(rng, nparams=3, exotic=0.15)
    cases = []
    while len(cases) < n:
        depth = rng.choice([1, 2, 2, 3])
        a = g.ty(depth)
        ps = sorted(set(params_of(a)))
        if not ps:
            continue
        kinds_used = {}
        for pk, i in ps:
            kinds_used.setdefault(i, set()).add(pk)
        # non-injective on purpose: a small pool of values
        pool_ty = [g.value_for("tp", rng.choice([0, 1, 1])) for _ in range(2)]
        pool_ty = [v for v in pool_ty if v[0] == "ty"] or [("ty", ("leaf", "u8"))]
        pool_ex = [("ex", ("lit", "3")), ("ex", ("path", "N")), ("ex", ("eparen", ("bin", "+", ("lit", "1"), ("lit", "2"))))]
        theta = {}
        for i, ks in kinds_used.items():
            if len(ks) > 1 or rng.random() < 0.15:
                continue
            theta[i] = rng.choice(pool_ty) if "tp" in ks else rng.choice(pool_ex)
        b = subst(a, theta)
        # a bound over the family's parameters (so that its image is a bound of the member)
        gb = Gen(rng, nparams=3, exotic=0.1)
        mode = rng.random()
        bounded0 = gb.ty(rng.choice([0, 1, 1, 2]))
        trait0 = ("ctor", rng.choice(["Dispatch", "m::Dispatch", "Tr"]), gb.args(1, True) if rng.random() < 0.6 else None)
        # only parameters of a may occur (others would be member-namespace names)
        dom = {i for _, i in ps}
        def restrict(t):
            m = {}
            for pk, i in set(params_of(t)):
                if i not in dom or (pk == "tp") != ("tp" in kinds_used.get(i, {"tp"})):
                    m[i] = ("ty", ("leaf", "u8")) if pk == "tp" else ("ex", ("lit", "1"))
            return subst(t, m)
        bounded0, trait0 = restrict(bounded0), restrict(trait0)
        if mode < 0.8:
            bounded, trait, cls = subst(bounded0, theta), subst(trait0, theta), "in-image"
        else:
            bounded, trait, cls = bounded0, trait0, "arbitrary"
        cases.append((pr(a), pr(b), pr(bounded), pr(trait), cls))
    return cases


def corpus_cases():
    path = os.path.join(C.VERIF, "corpus", PROP, "cases.json")
    if os.path.exists(path):
        return [tuple(c) for c in json.load(open(path))]
    return []


def run(tier, seed, replay=None):
    rep = C.Report(PROP, tier, seed)
    rep.rule = ("(a, b = a[theta], bound) with theta non-injective / binding const expressions; bound = image under theta of a "
                "(bounded type, trait path) over a's parameters ('in-image') or an arbitrary bound; distinct = distinct source "
                "texts; non-trivial = sigma has a non-identity binding whose value occurs in the bound")
    from .. import matchfacts
    mf = matchfacts.generate()     # MatchFacts.lean: the fields the source's is_superset / substitute mention, regenerated on every run
    rep.extra["match_facts"] = mf
    proof = C.proof_obligations(PROP)
    rep.proof = proof
    rep.broken += proof["failures"]
    try:
        exe = C.build_hook()
    except C.BuildError as e:
        rep.broken.append(str(e)[:2000])
        return rep.finish()
    rng = random.Random(seed * 7919 + 10)
    n = 1500 if tier == "quick" else 40000
    if replay:
        r = json.load(open(replay))
        cases = [tuple(c["case"]) for c in [r] + r.get("smallest_disagreements", []) if "case" in c]
    else:
        cases = corpus_cases() + gen_cases(rng, n, tier == "thorough")
    hres = C.run_hook(exe, [("revsub", list(c[:4])) for c in cases])
    lean_reqs, idx, dec = [], [], {}
    for i, (case, (status, f)) in enumerate(zip(cases, hres)):
        if status != "ok":
            if f and f[0].startswith("verif-parse-error"):
                rep.count("unparsable")
                continue
            dec[i] = ("panic", f[0] if f else "")
            continue
        try:
            ta, tb = decode(parse_dbg(f[0])), decode(parse_dbg(f[1]))
            bounded, trait = decode(parse_dbg(f[2]))[3][0], decode(parse_dbg(f[3]))[3][0]
            subs = decode_subs(f[4])
            res = None
            if subs[0] == "yes":
                k = int(f[5])
                res = [(decode(parse_dbg(f[6 + 2 * j]))[3][0], decode(parse_dbg(f[7 + 2 * j]))[3][0]) for j in range(k)]
        except Exception:
            rep.count("undecodable")
            continue
        dec[i] = ("ok", ta, tb, bounded, trait, subs, res)
        lean_reqs.append(f"revsub {sexpr(ta)} {sexpr(tb)} {sexpr(bounded)} {sexpr(trait)}")
        idx.append(i)
    lres = C.run_lean(lean_reqs)
    for i, resp in zip(idx, lres):
        case = cases[i]
        _, ta, tb, bounded, trait, subs, res = dec[i]
        v = parse_sexpr(resp)
        case_json = {"case": list(case)}
        if subs[0] != "yes":
            rep.count("sigma:none")
            rep.case(case, False)
            if v[0] == "yes":
                rep.disagreements.append({**case_json, "impl": "is_superset = None", "model": "Some"})
            continue
        if v[0] != "yes":
            rep.disagreements.append({**case_json, "impl": "is_superset = Some", "model": v[0]})
            continue
        model = [(from_sx(p[0]), from_sx(p[1])) for p in v[2]]
        if len(v) > 4:
            rep.count("untouched-hypothesis:" + ("holds" if v[3] == "1" else "fails") + ":" + case[4])
            if v[3] == "1" and v[4] != "1":
                rep.broken.append(f"instance of C10_bound_roundtrip false in the executable model: {case}")
            if v[3] != "1" and case[4] == "in-image" and any(val != ("id",) for val in subs[1].values()):
                rep.count("in-image-but-untouched-fails")
        if len(v) > 5:
            # C10_bound_exact / C10_bound_count hold without hypothesis: the model's output is exactly the set the declarative
            # specification `IsReexpr_rx` describes, once each
            rep.count("theorem-instances-checked:C10_bound_exact")
            if v[5] != "1":
                rep.broken.append(f"instance of C10_bound_exact / C10_bound_count false in the executable model: {case}")
        sig = subs[1]
        nontriv = any(val != ("id",) for val in sig.values())
        rep.case(case, nontriv, sample={"a": case[0], "b": case[1], "bounded": case[2], "trait": case[3], "class": case[4],
                                        "results": len(res)})
        rep.count("class:" + case[4])
        rep.count("results:" + (str(len(res)) if len(res) < 5 else "5+"))
        if sorted(map(repr, res)) != sorted(map(repr, model)):
            rep.disagreements.append({**case_json, "impl": [tref.show(a, 80) + " : " + tref.show(b, 80) for a, b in res][:6],
                                      "model": [tref.show(a, 80) + " : " + tref.show(b, 80) for a, b in model][:6]})
        elif list(map(repr, res)) != list(map(repr, model)):
            rep.count("order-differs")
        # ---- oracle (independent of the model)
        fail = None
        if not res:
            fail = {"clause": "never empty"}
        if not fail and all(val == ("id",) for val in sig.values()) and res != [(bounded, trait)]:
            fail = {"clause": "identity substitution must return the bound unchanged"}
        if not fail and len(set(map(repr, res))) != len(res):
            fail = {"clause": "exactly one re-expression per choice (duplicates)"}
        if not fail and case[4] == "in-image":
            for rb, rt in res:
                if tref.inst(sig, rb) != bounded or tref.inst(sig, rt) != trait:
                    fail = {"clause": "substituting back does not give the original bound",
                            "result": tref.show(rb) + " : " + tref.show(rt),
                            "first_difference": list(tref.first_diff(tref.inst(sig, rb), bounded) or tref.first_diff(tref.inst(sig, rt), trait) or [])}
                    break
        if not fail:
            spec = [(x, y) for x in spec_revsub(sig, bounded) for y in spec_revsub(sig, trait)]
            s_spec, s_res = set(map(repr, spec)), set(map(repr, res))
            if s_spec != s_res:
                # D13: alternatives through identity-bound parameters are not offered
                ident = {p for p, val in sig.items() if val == ("id",)}
                sig2 = {p: val for p, val in sig.items()}
                spec_noid = [(x, y) for x in _spec_noid(sig, bounded) for y in _spec_noid(sig, trait)]
                if set(map(repr, spec_noid)) == s_res and ident:
                    rep.known("F-C10-identity-alias")
                else:
                    fail = {"clause": "set of re-expressions differs from the independent enumerator",
                            "missing": len(s_spec - s_res), "extra": len(s_res - s_spec)}
        if fail:
            rep.oracle_failures.append({**case_json, **fail, "impl": [tref.show(a, 80) + " : " + tref.show(b, 80) for a, b in res][:6]})
    # identity stage, on the implementation alone and at the level of the look-up's own equality: a bound re-expressed under the identity
    # substitution (a block joining a family of its own header) must come back EQUAL for `Bounded: Eq` / `TraitBound: Eq`, which is syn's
    # structural equality — trailing punctuation, parentheses, optional tokens included. Compared as raw `{:?}` text (the decoded positional
    # trees drop punctuation); seeded changes C10f (one-element tuple), C10h (trailing comma of longer tuples)
    forms = IDENTITY_FORMS if tier == "quick" else IDENTITY_FORMS * 1
    idc = [(bt, tr) for bt in forms for tr in IDENTITY_TRAITS]
    ires = C.run_hook(exe, [("revsub", [bt, bt, bt, tr]) for bt, tr in idc], tag="hookid")
    for (bt, tr), (status, f) in zip(idc, ires):
        if status != "ok":
            rep.count("identity:hook-" + status)
            if not (f and f[0].startswith("verif-parse-error")):
                rep.oracle_failures.append({"case": [bt, bt, bt, tr], "clause": "panic in is_superset/substitute (identity stage)", "message": (f[0] if f else "")[:300]})
            continue
        rep.case(("identity", bt, tr), True)
        rep.count("identity:cases")
        # f = [a, b, bounded, trait, subs, n, (bounded_i, trait_i)*]
        n_ = int(f[5]) if len(f) > 5 and f[5].isdigit() else -1
        outs = [(f[6 + 2 * k], f[7 + 2 * k]) for k in range(max(n_, 0))]
        if (f[2], f[3]) not in outs:
            rep.oracle_failures.append({"case": [bt, bt, bt, tr], "clause": "under the identity substitution the bound does not come back unchanged (syn's structural equality: "
                                        "the key look-up of a block joining its own family misses)", "results": n_,
                                        "first_result_differs_at": _first_text_diff(f[2] + " : " + f[3], (outs[0][0] + " : " + outs[0][1]) if outs else "")})
    for i, d in dec.items():
        if d[0] == "panic":
            rep.count("impl-panic")
            rep.oracle_failures.append({"case": list(cases[i]), "clause": "panic in is_superset/substitute", "message": d[1][:300]})
    return rep.finish()


IDENTITY_FORMS = ["(_ŠČ0, u8,)", "(_ŠČ0, (u8, _ŠČ1,),)", "(_ŠČ0,)", "((_ŠČ0,), u8)", "(_ŠČ0)", "W2<_ŠČ0, u8,>", "[_ŠČ0; 2]", "[(_ŠČ0, u8,)]", "fn(_ŠČ0, u8,) -> _ŠČ0",
                  "&'static (dyn PlainD<_ŠČ0> + Send)", "Box<dyn Fn(_ŠČ0, u8,) -> u8>", "*const (_ŠČ0, _ŠČ1,)", "<_ŠČ0 as Tr<u8,>>::Out", "Vec<(_ŠČ0, _ŠČ1)>",
                  "(_ŠČ0, _ŠČ1, _ŠČ2,)", "[_ŠČ0; { N }]", "W1<{ 3 }>", "&mut (_ŠČ0)", "Option<fn((_ŠČ0, u8,),)>"]
IDENTITY_TRAITS = ["D0<G = GA>", "D2<(_ŠČ0, u8,), G = GA>", "m::D1<_ŠČ0, (u8,), H = (GA, GB,)>", "D3<{ 8 }, [_ŠČ0; 2], G = GA>"]


def _first_text_diff(a, b):
    i = next((k for k in range(min(len(a), len(b))) if a[k] != b[k]), min(len(a), len(b)))
    return {"at": i, "original": a[max(0, i - 60): i + 60], "result": b[max(0, i - 60): i + 60]}


def _spec_noid(sig, t):
    sig2 = {p: v for p, v in sig.items() if v != ("id",)}
    return spec_revsub(sig2, t)
