"""C14 — malformed invocations are rejected with the specific diagnostic, atomically (DESIGN.md §7 C14)."""

import copy
import random
import re

from .. import common as C
from ..gen_inv import PlanGen
from .. import progcheck as PC
from ..syn_dbg import parse_dbg, decode, sexpr, parse_sexpr
from .dispatch_common import plan_summary

PROP = "C14"

MSG = {
    "other_trait": "Doesn't match trait definition",
    "missing_item": "Missing in one of the impls",
    "extra_item": "Not found in trait definition",
    "unsafe_impl_of_safe_trait": "Doesn't match trait definition",
    "safe_impl_of_unsafe_trait": "Doesn't match trait definition",
    "inherent_block_in_trait_mode": "Expected trait impl, found inherent impl",
    "trait_block_in_inherent_mode": "Expected inherent impl but found trait",
    "inherent_item_sets_differ": "Not found in one of the impls",
    "inherent_visibility_differs": "Visibility doesn't match between impls",
}


def mutations(plan, rng):
    """all single-defect mutations of a well-formed plan: (defect class, site, mutated plan)"""
    out = []
    nb = len(plan.blocks())
    for bi in range(nb):
        def mut(**patch):
            q = copy.deepcopy(plan)
            q.blocks()[bi][2].patch = patch
            return q
        if plan.mode == "trait":
            out.append(("other_trait", bi, mut(trait_name="Other")))
            required = [n for k, n, d in plan.items if not d]
            for name in required:
                out.append(("missing_item", (bi, name), mut(drop_item=name)))
            out.append(("extra_item", bi, mut(add_item="const EXTRA: u8 = 1;")))
            out.append(("extra_item", bi, mut(add_item="fn extra() {}")))
            # an extra item that shares its NAME with a trait item of another KIND (seeded change C14j: one table of declared names for
            # all kinds let `const name` pass as the trait's `fn name`); with a defaulted and with a required namesake
            for k, name, d in plan.items:
                if k in ("cfgdup", "cfgoff"):
                    continue
                if k == "const":
                    alts = [f"fn {name}() {{}}", f"type {name} = u8;"]
                elif k == "type":
                    alts = [f"const {name}: u8 = 1;", f"fn {name}() {{}}"]
                else:
                    alts = [f"const {name}: u8 = 1;", f"type {name} = u8;"]
                taken = {(k2 if k2 in ("const", "type") else "fn") for k2, n2, _ in plan.items if n2 == name}
                for a in alts:
                    kind = a.split()[0]
                    if kind not in taken:
                        out.append(("extra_item", (bi, "namesake", name, kind), mut(add_item=a)))
            if plan.trait_unsafe:
                out.append(("safe_impl_of_unsafe_trait", bi, mut(unsafe=False)))
            else:
                out.append(("unsafe_impl_of_safe_trait", bi, mut(unsafe=True)))
            out.append(("inherent_block_in_trait_mode", bi, mut(inherent=True)))
            out.append(("inherent_block_in_trait_mode", (bi, "no-bounds"), mut(inherent=True, no_bounds=True)))
        else:
            out.append(("trait_block_in_inherent_mode", bi, mut(as_trait="Kita")))
            out.append(("trait_block_in_inherent_mode", (bi, "no-bounds"), mut(as_trait="Kita", no_bounds=True)))
            fi, mi, m = plan.blocks()[bi]
            if len(plan.families[fi].members) > 1:
                for k, name, d in plan.items:
                    out.append(("inherent_item_sets_differ", (bi, name), mut(drop_item=name)))
                out.append(("inherent_item_sets_differ", bi, mut(add_item="const EXTRA: u8 = 1;")))
                for k, name, d in plan.items:
                    if k in ("const", "fn", "method", "ufn", "pfn", "ltfn", "elfn", "afn"):
                        out.append(("inherent_visibility_differs", (bi, name), mut(vis_flip=name)))
    return out


def p_nested(plan):
    return "lattice" in plan.notes


def header_depth(plan, site):
    bi = site[0] if isinstance(site, tuple) else site
    fi, mi, m = plan.blocks()[bi]
    f = plan.families[fi]
    st, _, _ = plan.member_header(f, m)
    return len(repr(st))


def program(plan, with_user_trait):
    lines = [plan.prelude(), "disjoint_impls::disjoint_impls! { " + plan.invocation_text() + " }"]
    if with_user_trait:
        # atomicity: had the macro emitted the trait as well, this definition would clash (E0428)
        lines.append(f"pub trait {plan.trait_name} {{}}")
    lines.append("fn main() {}")
    return "\n".join(lines)


def model_verdict(exe, plans):
    """the Lean model of validate.rs on the syn parse of trait and blocks, families as in the plan"""
    reqs, index = [], []
    for pi, plan in enumerate(plans):
        if plan.mode == "trait":
            reqs.append(("dump", ["trait", plan.trait_text()]))
            index.append((pi, "trait"))
        for bi in range(len(plan.blocks())):
            reqs.append(("dump", ["impl", plan.block_text(bi)]))
            index.append((pi, bi))
    res = C.run_hook(exe, reqs, tag="hookv")
    trees = {}
    for (pi, what), (st, f) in zip(index, res):
        trees[(pi, what)] = decode(parse_dbg(f[0])) if st == "ok" else None
    lean = []
    for pi, plan in enumerate(plans):
        tr = sexpr(trees[(pi, "trait")]) if plan.mode == "trait" and trees.get((pi, "trait")) else "(none)"
        fams = []
        # grouping as the macro does it for these shapes: one family per plan family; a block whose header changed
        # (other trait / inherent / trait-in-inherent) forms its own family after the others
        own = []
        bi = 0
        for f in plan.families:
            items = []
            for m in f.members:
                t = trees.get((pi, bi))
                if t is not None:
                    if m.patch.get("trait_name") or m.patch.get("inherent") or m.patch.get("as_trait"):
                        own.append("(fam " + sexpr(t) + ")")
                    else:
                        items.append(sexpr(t))
                bi += 1
            if items:
                fams.append("(fam " + " ".join(items) + ")")
        lean.append("validate " + tr + " " + " ".join(fams + own))
    out = []
    for resp in C.run_lean(lean):
        v = parse_sexpr(resp)
        out.append(None if v[0] == "ok" else v[1][1])
    return out


def run(tier, seed, replay=None):
    rep = C.Report(PROP, tier, seed)
    rep.rule = ("well-formed invocations (trait mode incl. unsafe traits, inherent mode) x every single-defect mutation (which block, "
                "which item, defect class) + the unmutated originals as negative controls; observable = set of `error` lines of rustc; "
                "distinct = distinct invocation texts; non-trivial = mutated")
    proof = C.proof_obligations(PROP)
    rep.proof = proof
    rep.broken += proof["failures"]
    try:
        so = C.build_macro()
        exe = C.build_hook()
    except C.BuildError as e:
        rep.broken.append(str(e)[:2000])
        return rep.finish()
    rng = random.Random(seed * 7919 + 14)
    g = PlanGen(rng)
    nbase = 8 if tier == "quick" else 150
    bases = []
    while len(bases) < nbase:
        c_ = rng.random()
        if c_ < 0.25:
            p = g.inherent()
        elif c_ < 0.5:
            # nested headers (seeded change C14d: families reached only through `unlock_subset_impl_groups` must be validated too):
            # the defect may sit in a block of a root family or of a family whose header is an instance of another one
            p = g.lattice()
            p.trait_unsafe = rng.random() < 0.3
        else:
            p = g.basic(nfam=rng.choice([1, 2]), nested=False, wildcard=False, generic_payloads=False, max_members=3)
            p.trait_unsafe = rng.random() < 0.3
            if rng.random() < 0.4:
                # items of different kinds may share a name (types live in another namespace than fns and consts)
                names = [n_ for k_, n_, _ in p.items if k_ in ("fn", "const")]
                if names and not any(k_ == "type" for k_, _, _ in p.items):
                    p.items.append(("type", rng.choice(names), False))
        if rng.random() < 0.4:
            # a method whose late-bound lifetime is named in the trait / the first block and elided elsewhere (seeded change C14f:
            # an arity check on fn generics would reject it)
            p.items.append(("elfn", "lbl", False))
        if rng.random() < 0.3:
            # one item written once per `cfg` alternative inside a block, trait and inherent mode (seeded change C14i: "given more than once";
            # defect D56: the first inherent block)
            p.items.append(("cfgdup", "cfgd", False))
        if p.mode == "trait" and rng.random() < 0.35:
            # `-> impl Future` in the trait, `async fn` in some blocks (seeded change C14h: a qualifier comparison would reject it)
            p.items.append(("afn", "fut", False))
        bases.append(p)
    cases = []   # (defect or None, site, plan)
    for b in bases:
        cases.append((None, None, b))
        ms = mutations(b, rng)
        if tier == "quick":
            rng.shuffle(ms)
            if p_nested(b):
                # prefer sites in the most specific headers
                ms.sort(key=lambda x: -header_depth(b, x[1]))
            # directed: blocks of the wrong kind without dispatch bounds come first
            nb_ = [x for x in ms if isinstance(x[1], tuple) and x[1][1] == "no-bounds"]
            ns_ = [x for x in ms if isinstance(x[1], tuple) and len(x[1]) > 1 and x[1][1] == "namesake"]
            ns_.sort(key=lambda x: not any(n_ == x[1][2] and d_ for _, n_, d_ in b.items))   # defaulted namesakes first
            ms = nb_[:2] + ns_[:3] + [x for x in ms if x not in nb_ and x not in ns_][:8]
        cases += ms
    progs = [(f"c{i}", program(p, d is not None and p.mode == "trait")) for i, (d, site, p) in enumerate(cases)]
    res = C.run_programs(so, progs, mode="check")
    model = model_verdict(exe, [p for _, _, p in cases])
    for (defect, site, plan), r, mv in zip(cases, res, model):
        errs = PC.error_lines(r)
        rep.case(plan.invocation_text(), defect is not None,
                 sample={"defect": defect, "site": str(site), "invocation": plan.invocation_text()[:700], "errors": errs[:3]} if defect else None)
        rep.count("defect:" + str(defect))
        cj = {"defect": defect, "site": str(site), "invocation": plan.invocation_text(), "program": program(plan, defect is not None and plan.mode == "trait")}
        if defect is None:
            # negative control: a well-formed invocation never triggers the validator's diagnostics
            macro_diag = [e for e in errs if e.startswith("error: ") and not e.startswith("error: aborting") and not e.startswith("error: could not compile")
                          and "proc macro panicked" not in e]
            if any(e.startswith("error: " + m) for e in errs for m in set(MSG.values())) or macro_diag:
                # any diagnostic of the macro's own (an `error:` line without a rustc error code), known wording or new (seeded change C14i)
                rep.oracle_failures.append({**cj, "clause": "well-formed invocation triggers a validation diagnostic", "errors": errs[:4]})
            elif r["rc"] != 0:
                rep.count("control-rejected-for-another-reason:" + PC.classify_reject(PC.Eval(plan, {**r, "ran": False}, {"rc": 1, "stdout": "", "stderr": ""}))[:50])
            if mv is not None:
                rep.disagreements.append({**cj, "what": "model reports a diagnostic for a well-formed invocation", "model": mv})
            continue
        want = "error: " + MSG[defect]
        if errs != [want]:
            rep.oracle_failures.append({**cj, "clause": "exactly the macro's diagnostic for this defect and nothing else", "expected": [want], "errors": errs[:5]})
        if mv != MSG[defect]:
            rep.disagreements.append({**cj, "what": "model and implementation disagree on the diagnostic", "model": mv, "impl": errs[:3]})
    return rep.finish()
