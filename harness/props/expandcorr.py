"""Correspondence of the Lean model of the generators (Expand.lean: helper impls, helper trait) with the real
`disjoint::generate` / `helper_trait::generate`, through the hook's `gen` dump."""

from .. import common as C
from ..syn_dbg import parse_dbg, decode, sexpr, parse_sexpr, from_sx
from .. import tref
from .shape import GenDump


def compare(rep, exe, plans, label="expand"):
    reqs = []
    for p in plans:
        reqs.append(("gen", [p.invocation_text()]))
        if p.mode == "trait":
            reqs.append(("dump", ["trait", p.trait_text().replace("\n", " ")]))
        for bi in p.order():
            reqs.append(("dump", ["impl", p.block_text(bi)]))
    res = C.run_hook(exe, reqs, tag="hookex")
    lean, metas = [], []
    k = 0
    for p in plans:
        st, f = res[k]
        k += 1
        tr = None
        if p.mode == "trait":
            tr = res[k]
            k += 1
        raws = res[k : k + len(p.blocks())]
        k += len(p.blocks())
        if st != "ok" or any(r[0] != "ok" for r in raws) or (tr is not None and tr[0] != "ok"):
            rep.count(label + ":skipped-" + st)
            continue
        try:
            d = GenDump(f)
            trees = [decode(parse_dbg(r[1][0])) for r in raws]
            ttree = decode(parse_dbg(tr[1][0])) if tr is not None else None
        except Exception:
            rep.count(label + ":undecodable")
            continue
        lean.append("expand " + (sexpr(ttree) if ttree is not None else "(none)") + " " + " ".join(sexpr(t) for t in trees))
        metas.append((p, d))
    lres = C.run_lean(lean) if lean else []
    for (p, d), resp in zip(metas, lres):
        v = parse_sexpr(resp)
        cj = {"what": "expansion: model vs the real generators", "invocation": p.invocation_text()[:3000]}
        if v[0] != "ok" or len(v[1]) != len(d.families):
            rep.disagreements.append({**cj, "model": str(v[0]), "impl_families": len(d.families)})
            continue
        rep.count(label + ":compared")
        for fi, (fam, mv) in enumerate(zip(d.families, v[1])):
            if len(mv) > 4:
                rep.count(label + ":expandWF=" + str(mv[3]))
                rep.count(label + ":wildcardsFixed=" + str(mv[4]))
            if len(mv) > 5 and mv[5]:
                # inherent mode: hypotheses (ExInh.sideConditions) and conclusion of C17_expandOK_of_expand_inherent on the model's expansion
                rep.count(label + ":inherent-sideConditions=" + str(mv[5][0]))
                if mv[5][0] == "1":
                    rep.count("theorem-instances-checked:C17_expandOK_of_expand_inherent")
                    if mv[5][1] != "1":
                        rep.broken.append("instance of C17_expandOK_of_expand_inherent false in the executable model: " + p.invocation_text()[:400])
            if len(mv) > 6 and mv[6]:
                # conclusions of C01_itemsOK_of_expand (needs expandWF) and C12_exact_checkers_hold (no hypothesis) on the model's expansion
                wf_, items_ok, where_ok, rows_ok = (x == "1" for x in mv[6][:4])
                rep.count("theorem-instances-checked:C12_exact_checkers_hold")
                if not (where_ok and rows_ok):
                    rep.broken.append("instance of C12_exact_checkers_hold false in the executable model: " + p.invocation_text()[:400])
                if wf_:
                    rep.count("theorem-instances-checked:C01_itemsOK_of_expand")
                    if not items_ok:
                        rep.broken.append("instance of C01_itemsOK_of_expand false in the executable model: " + p.invocation_text()[:400])
            if len(mv) > 7 and mv[7]:
                # C16_kinds_align_family: helper trait parameters vs every helper impl's printed arguments and the main impl's helper reference
                hyp_, concl_, fresh_ = (x == "1" for x in mv[7][:3])
                rep.count("keyNamesFresh=" + str(int(fresh_)))
                if hyp_:
                    rep.count("theorem-instances-checked:C16_kinds_align_family")
                    if not concl_:
                        rep.broken.append("instance of C16_kinds_align_family false in the executable model: " + p.invocation_text()[:400])
                else:
                    rep.count("theorem-not-applicable:C16_kinds_align_family (familyKindsMatch_ha fails)")
            # helper trait (trait mode)
            if mv[0][0] == "unmodelled":
                rep.count(label + ":helper-trait-unmodelled")
            else:
                want = fam["helper"]
                got = from_sx(mv[0][1]) if mv[0][0] == "some" else None
                w = want[3][0] if want[1] == "Some" else None
                rep.count(label + ":helper-trait-compared")
                if got != w:
                    rep.disagreements.append({**cj, "family": fi, "differs_in": "helper trait",
                                              "first_difference": list(tref.first_diff(w, got) or [])[-6:] if (w and got) else "missing"})
                    break
            if mv[1] and mv[1][0] == "panic":
                rep.disagreements.append({**cj, "family": fi, "differs_in": "helper impls: model panics"})
                break
            got_h = [from_sx(x) for x in mv[1]]
            want_h = [h for h, _ in fam["helpers"]]
            if got_h != want_h:
                fd = None
                for a, b in zip(want_h, got_h):
                    if a != b:
                        fd = list(tref.first_diff(a, b) or [])[-6:]
                        break
                rep.disagreements.append({**cj, "family": fi, "differs_in": "helper impls", "first_difference": fd,
                                          "impl_tokens": [t for _, t in fam["helpers"]][:3]})
                break
            # main impl (trait mode)
            if len(mv) > 2:
                mm = mv[2]
                want = fam["main"]
                w = want[3][0] if want[1] == "Some" else None
                if mm[0] == "unmodelled":
                    rep.count(label + ":main-impl-unmodelled")
                elif mm[0] == "panic":
                    rep.disagreements.append({**cj, "family": fi, "differs_in": "main impl: model panics"})
                    break
                elif mm[0] == "absent":
                    if w is not None:
                        rep.disagreements.append({**cj, "family": fi, "differs_in": "main impl: model generates none"})
                        break
                else:
                    got = from_sx(mm[1])
                    rep.count(label + ":main-impl-compared")
                    if got != w:
                        rep.disagreements.append({**cj, "family": fi, "differs_in": "main impl",
                                                  "first_difference": list(tref.first_diff(w, got) or [])[-7:] if w else "missing",
                                                  "impl_tokens": fam.get("main_toks", "")[:1500]})
                        break
