"""C11 — family formation: partition, instance, shared keys, distinguishable rows (DESIGN.md §7 C11)."""

import copy
import random
import re

from .. import common as C
from ..gen_inv import PlanGen, Plan, add_header_twins
from ..syn_dbg import sexpr, parse_sexpr
from .. import tref
from .dispatch_common import plan_summary
from . import shape
from . import groupcorr
from .dispatch_common import d4_blocks

PROP = "C11"


def block_ids(tree):
    """tags `b<i>.NAME` of string literals inside a decoded item"""
    out = []

    def go(t):
        if t[0] != "N":
            return
        if t[1] == "Atom" and t[2]:
            m = re.match(r'^"b(\d+)\.NAME"$', t[2][0])
            if m:
                out.append(int(m.group(1)))
        for k in t[3]:
            go(k)

    go(tree)
    return out


def family_signature(g):
    """order-insensitive description of one parsed family: members (by block id) with their rows, keyed by key"""
    keys = [tref.show(k, 400) for k in g["idents"][3]]
    rows = [[tref.show(x, 300) for x in r[3]] for r in g["payloads"][3]]
    members = []
    for item, row in zip(g["items"], rows):
        ids = block_ids(item)
        members.append((ids[0] if ids else -1, tuple(sorted(zip(keys, row)))))
    return (tref.show(g["gid"], 400), tuple(sorted(keys)), tuple(sorted(members)))


def sub_plan(plan, fi):
    q = copy.deepcopy(plan)
    # keep global block indices (tags) by renumbering through tag_as
    offset = sum(len(f.members) for f in plan.families[:fi])
    q.families = [q.families[fi]]
    for mi, m in enumerate(q.families[0].members):
        m.tag_as = f"b{offset + mi}"
    q.block_order = None
    return q


def directed_invocations(rng):
    """hand-shaped invocations for the function-level correspondence only (they are not compiled): headers that differ in a LIFETIME
    argument — a parameter in one family, a concrete lifetime in another (seeded change C17f: a canonicalised lifetime parameter
    must not generalise `'static`), in trait and in inherent mode, with equal item sets so that a wrong merge changes the families"""
    out = []
    marks = ["GA", "GB", "GC", "GD"]
    for mode in ("trait", "inherent"):
        for conc in ("'static", "'static", "'b"):
            rng.shuffle(marks)
            item = 'const NAME: &\'static str = "x";'
            if mode == "trait":
                tr = "pub trait Kita<'l> { const NAME: &'static str; }"
                hdr_p = lambda g_: f"impl<'a, T: D0<G = {g_}>> Kita<'a> for W1<T> {{ {item} }}"
                hdr_c = lambda g_: (f"impl<T: D0<G = {g_}>> Kita<{conc}> for W1<T> {{ {item} }}" if conc == "'static"
                                    else f"impl<'b, 'c, T: D0<G = {g_}>> Kita<'b> for W1<(T, &'c u8)> {{ {item} }}")
            else:
                tr = None
                hdr_p = lambda g_: f"impl<'a, T: D0<G = {g_}>> Wr<'a, T> {{ {item} }}"
                hdr_c = lambda g_: (f"impl<T: D0<G = {g_}>> Wr<{conc}, T> {{ {item} }}" if conc == "'static"
                                    else f"impl<'b, T: D0<G = {g_}>> Wr<'b, Vec<T>> {{ {item} }}")
            blocks = [hdr_p(marks[0]), hdr_p(marks[1]), hdr_c(marks[2]), hdr_c(marks[3])]
            if rng.random() < 0.5:
                blocks = blocks[2:] + blocks[:2]
            out.append(((tr + " " if tr else "") + " ".join(blocks), blocks))
    # two DIFFERENT dispatch traits with one final identifier (`D0` and `m::D0`) bounding the same parameter: two keys (seeded change C11f)
    for _ in range(2):
        rng.shuffle(marks)
        item = 'const NAME: &\'static str = "x";'
        blocks = [f"impl<T: D0<G = {marks[0]}> + m::D0<G = {a_}>> Kita for T {{ {item} }}" for a_ in (marks[1], marks[2], marks[3])]
        out.append(("pub trait Kita { const NAME: &'static str; } " + " ".join(blocks), blocks))
    return out


def run(tier, seed, replay=None):
    rep = C.Report(PROP, tier, seed)
    rep.rule = ("accepted invocations mixing equal, nested (a member whose header is an instance of the family's) and unrelated headers, "
                "common / partial / block-specific bounds, wildcards, generic payloads; observed through the hook: the real grouping "
                "(family header, members, keys, rows) and the helper impls of the real expansion; distinct = distinct invocations; "
                "non-trivial = at least 2 blocks")
    proof = C.proof_obligations(PROP)
    rep.proof = proof
    rep.broken += proof["failures"]
    try:
        exe = C.build_hook()
    except C.BuildError as e:
        rep.broken.append(str(e)[:2000])
        return rep.finish()
    rng = random.Random(seed * 7919 + 11)
    g = PlanGen(rng)
    n = 150 if tier == "quick" else 4000
    plans = [g.basic() for _ in range(n - n // 4)] + [g.lattice() for _ in range(n // 4)] + \
        [g.shifted_nested_plan() for _ in range(max(4, n // 25))] + [g.single_member_multi_key_plan() for _ in range(max(2, n // 50))] + \
        [g.wildcard_prefix_plan() for _ in range(max(4, n // 25))] + [g.interleaved_keys_plan() for _ in range(max(2, n // 50))] + \
        [g.assoc_subsets_plan() for _ in range(max(3, n // 40))] + [g.default_vs_explicit_plan() for _ in range(max(2, n // 50))]
    rng.shuffle(plans)
    for p_ in plans:
        if add_header_twins(p_, rng, 0.12):
            rep.count("plan:twin-header (mutually generalising ids)")
    # correspondence of the Lean model of the whole grouping front end with the real ImplGroups::parse
    # (accepted plans, overlapping ones that must be rejected, trait arguments, inherent mode)
    corr = plans[: (60 if tier == "quick" else 1500)] + [g.overlap()[0] for _ in range(15 if tier == "quick" else 400)] + \
        [g.trait_args_plan() for _ in range(8 if tier == "quick" else 200)] + [g.inherent() for _ in range(8 if tier == "quick" else 200)] + [g.unsized_plan() for _ in range(15 if tier == "quick" else 300)]
    groupcorr.compare(rep, exe, [(p.invocation_text(), [p.block_text(bi) for bi in p.order()]) for p in corr] + directed_invocations(rng))
    dumps = shape.validate(rep, exe, plans, PROP, judge=False)
    # 1. memberOK / ThetaCovers / KeysOverHeader / ExpandOK were evaluated by shape.validate (judge=False: collect below)
    lean_reqs, where = [], []
    accepted = []
    for plan, d in zip(plans, dumps):
        if d is None:
            rep.count("rejected-or-panicked (C03's subject)")
            continue
        accepted.append((plan, d))
        for fi, gr in enumerate(d.groups):
            lean_reqs.append("rows " + sexpr(gr["payloads"]))
            where.append((plan, d, fi))
    rows_res = C.run_lean(lean_reqs) if lean_reqs else []
    bad_rows = {}
    for (plan, d, fi), resp in zip(where, rows_res):
        v = parse_sexpr(resp)
        if v[2]:
            bad_rows[(id(plan), fi)] = v[2]
    # re-run the hypothesis checks with judging, attributing failures as oracle failures of C11
    rep2 = C.Report(PROP, tier, seed)
    shape.validate(rep2, exe, [p for p, _ in accepted], PROP, judge=True, expand=False)
    known = {f["id"] for f in C.findings_for(PROP)}
    by_text = {p.invocation_text()[:3000]: p for p, _ in accepted}
    for dis in rep2.disagreements:
        pl = by_text.get(dis.get("invocation"))
        if pl is not None and "F-D4" in known and d4_blocks(pl) and all("memberOK fails" in x for x in dis.get("problems", [])):
            rep.known("F-D4")
            continue
        rep.oracle_failures.append({"clause": "member header is an instance of the family header / every family key is a bound of every member with its own binding",
                                    **dis})
    for plan, d in accepted:
        nb = len(plan.blocks())
        rep.case(plan.invocation_text(), nb >= 2, sample={**plan_summary(plan), "families": [len(gr["items"]) for gr in d.groups]})
        rep.count("blocks:%d" % nb)
        rep.count("families:%d" % len(d.groups))
        cj = {"invocation": plan.invocation_text()}
        # partition: every block in exactly one family, exactly once among the helper impls
        ids = [i for gr in d.groups for item in gr["items"] for i in block_ids(item)[:1]]
        hids = [i for fam in d.families for (h, _) in fam["helpers"] for i in block_ids(h)[:1]]
        if sorted(ids) != list(range(nb)):
            rep.oracle_failures.append({**cj, "clause": "every block is placed in exactly one family", "members": sorted(ids), "blocks": nb})
        if sorted(hids) != list(range(nb)):
            rep.oracle_failures.append({**cj, "clause": "every block appears exactly once in the expansion", "helper_impls": sorted(hids), "blocks": nb})
        for fi, gr in enumerate(d.groups):
            if not gr["idents"][3]:
                rep.oracle_failures.append({**cj, "clause": "a family dispatches on at least one key", "family": fi})
            if (id(plan), fi) in bad_rows:
                rep.oracle_failures.append({**cj, "clause": "no member's row generalises another's", "family": fi, "pairs": bad_rows[(id(plan), fi)]})
    # independence: families with unrelated headers are formed independently
    multi = [(p, d) for p, d in accepted if len(p.families) >= 2 and not p.notes.get("lattice")][: (25 if tier == "quick" else 600)]
    subs, owner = [], []
    for p, d in multi:
        for fi in range(len(p.families)):
            subs.append(sub_plan(p, fi))
            owner.append((p, d))
    sub_d = shape.validate(C.Report(PROP, tier, seed), exe, subs, PROP, judge=False) if subs else []
    by_plan = {}
    for (p, d), sd in zip(owner, sub_d):
        by_plan.setdefault(id(p), (p, d, []))[2].append(sd)
    for p, d, sds in by_plan.values():
        rep.count("independence-checked")
        if any(sd is None for sd in sds):
            rep.oracle_failures.append({"clause": "independence: a family accepted inside the invocation is rejected on its own", "invocation": p.invocation_text()})
            continue
        whole = sorted(family_signature(gr) for gr in d.groups)
        parts = sorted(family_signature(gr) for sd in sds for gr in sd.groups)
        if whole != parts:
            rep.oracle_failures.append({"clause": "independence: grouping of the whole invocation differs from the union of the groupings of its unrelated parts",
                                        "invocation": p.invocation_text(), "whole": repr(whole)[:1500], "parts": repr(parts)[:1500]})
    return rep.finish()
