"""Shared driver for the dispatch-table properties (C01, C02): plans -> macro program + shadow program -> tables -> oracle."""

import json
import os
import random

from .. import common as C
from ..gen_inv import PlanGen
from .. import progcheck as PC
from . import shape


def plan_summary(plan):
    return {"invocation": plan.invocation_text()[:1500], "probes": [p[0] + (" / " + ",".join(p[1]) if p[1] else "") for p in plan.probes][:12],
            "world_impls": len(plan.world)}


def judge_tables(prop, rep, ev, clauses):
    """clauses: subset of {'items', 'coverage'}; returns list of oracle failures for this plan"""
    plan = ev.plan
    fails = []
    for pi, (ty, targs) in enumerate(plan.probes):
        app = ev.applicable(pi)
        row = ev.mt.get(pi)
        if row is None:
            fails.append({"clause": "probe missing from the macro program's output", "probe": ty})
            continue
        implemented = row[0] == "1"
        if "coverage" in clauses:
            rep.count("probe:applies" if app else "probe:none")
            if implemented != bool(app):
                fails.append({"clause": "implemented iff some block applies", "probe": ty, "targs": targs,
                              "implemented": implemented, "applicable_blocks": app})
        if "items" in clauses and len(app) == 1 and implemented:
            bi = app[0]
            for j, (kind, name, has_default) in enumerate(plan.items):
                if kind not in ("const", "fn", "type"):
                    continue
                want = PC.expected_tag(plan, bi, kind, name, has_default)
                got = row[1 + j] if 1 + j < len(row) else "?"
                ok = got.endswith(want) if kind == "type" else got == want
                rep.count("item:default" if want.startswith("dflt") else "item:own")
                if not ok:
                    fails.append({"clause": "item is the one of the single applicable block (default iff not overridden)",
                                  "probe": ty, "item": name, "expected": want, "got": got, "block": bi})
    return fails


def run(prop, tier, seed, replay, clauses, n_quick, n_thorough, rule, gen_kw=None):
    rep = C.Report(prop, tier, seed)
    rep.rule = rule
    proof = C.proof_obligations(prop)
    rep.proof = proof
    rep.broken += proof["failures"]
    try:
        so = C.build_macro()
        exe = C.build_hook()
    except C.BuildError as e:
        rep.broken.append(str(e)[:2000])
        return rep.finish()
    rng = random.Random(seed * 7919 + int(prop[1:]))
    g = PlanGen(rng)
    n = n_quick if tier == "quick" else n_thorough
    plans = [g.basic(**(gen_kw or {})) for _ in range(n)]
    evs = PC.evaluate(so, plans)
    shape_cases = []
    for ev in evs:
        plan = ev.plan
        if not ev.shadow_ok:
            rep.count("plan:shadow-rejected")
            continue
        if ev.overlap_probes():
            rep.count("plan:overlapping (C04's subject)")
            continue
        if not ev.macro_ok:
            rep.count("plan:macro-rejected (C03's subject)")
            rep.count("reject:" + PC.classify_reject(ev)[:60])
            continue
        nontrivial = len(plan.blocks()) >= 2
        rep.case(plan.invocation_text() + repr(plan.probes), nontrivial, sample=plan_summary(plan))
        rep.count("families:%d" % len(plan.families))
        rep.count("blocks:%d" % len(plan.blocks()))
        fails = judge_tables(prop, rep, ev, clauses)
        for f in fails[:2]:
            rep.oracle_failures.append({**f, "invocation": plan.invocation_text(), "macro_program": plan.macro_program(),
                                        "shadow_program": plan.shadow_program()})
        shape_cases.append(plan)
    # translation validation of the real grouping/expansion against the hypotheses of the refinement theorem
    shape.validate(rep, exe, shape_cases, prop)
    return rep.finish()
