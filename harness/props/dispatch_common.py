"""Shared driver for the dispatch-table properties (C01, C02): plans -> macro program + shadow program -> tables -> oracle."""

import json
import os
import random

from .. import common as C
from ..gen_inv import PlanGen
from .. import progcheck as PC
from . import shape, expandcorr
from .. import tref as _tref


def tref_first_diff(a, b):
    return _tref.first_diff(a, b) or []


def plan_summary(plan):
    return {"invocation": plan.invocation_text()[:1500], "probes": [p[0] + (" / " + ",".join(p[1]) if p[1] else "") for p in plan.probes][:12],
            "world_impls": len(plan.world)}


def _match(pat, t, sub):
    """first-order matching of header ASTs (gen_pat tuples): pat's parameters may bind"""
    if pat[0] == "tp":
        if pat[1] in sub:
            return sub[pat[1]] == t
        sub[pat[1]] = t
        return True
    if t[0] == "tp" or pat[0] != t[0]:
        return False
    if pat[0] == "leaf":
        return pat[1] == t[1]
    if pat[0] == "ctor":
        return pat[1] == t[1] and len(pat[2]) == len(t[2]) and all(a[0] == b[0] and _match(a[1], b[1], sub) for a, b in zip(pat[2], t[2]))
    if pat[0] == "tuple":
        return len(pat[1]) == len(t[1]) and all(_match(a, b, sub) for a, b in zip(pat[1], t[1]))
    if pat[0] == "array":
        return _match(pat[1], t[1], sub) and pat[2] == t[2]
    if pat[0] == "ref":
        return pat[1:3] == t[1:3] and _match(pat[3], t[3], sub)
    return pat == t


def d4_blocks(plan):
    """blocks whose header is a proper instance of another block's header (another bucket) and that bound one of their
    *own* parameters directly: such a bound is not in the image of the header substitution (defect D4)"""
    out = set()
    blocks = plan.blocks()
    hdrs = []
    for bi, (fi, mi, m) in enumerate(blocks):
        f = plan.families[fi]
        self_ty, targs, th = plan.member_header(f, m)
        hdrs.append((self_ty, targs))
    for j, (fj, mj, m) in enumerate(blocks):
        f = plan.families[fj]
        th = {i: m.theta.get(i, ("ty", ("tp", i))) for i in range(f.nparams)}
        from ..gen_pat import subst as _subst
        clauses = m.custom_bounds if m.custom_bounds is not None else [(_subst(k.bounded, th),) for k in f.keys]
        own = {c[0][1] for c in clauses if c[0][0] == "tp"}
        if not own:
            continue
        from ..gen_pat import params_of as _params_of
        for i, (hi, ti) in enumerate(hdrs):
            if i == j or hi == hdrs[j][0]:
                continue
            sub = {}
            # the bounded parameter lies strictly inside the value of one of the general header's parameters
            if _match(hi, hdrs[j][0], sub) and any(v[0] != "tp" and (own & {x[1] for x in _params_of(v)}) for v in sub.values()):
                out.add(j)
    return out


def judge_tables(prop, rep, ev, clauses):
    """clauses: subset of {'items', 'coverage'}; returns list of oracle failures for this plan"""
    plan = ev.plan
    fails = []
    for pi, (ty, targs) in enumerate(plan.probes):
        app = ev.applicable(pi)
        row = ev.mt.get(pi)
        if row is None:
            fails.append({"clause": "probe missing from the macro program's output", "probe": ty})
            continue
        implemented = row[0] == "1"
        if "coverage" in clauses:
            rep.count("probe:applies" if app else "probe:none")
            if implemented != bool(app):
                fails.append({"clause": "implemented iff some block applies", "probe": ty, "targs": targs,
                              "implemented": implemented, "applicable_blocks": app})
        if "coverage" in clauses and "items" not in clauses and len(app) == 1 and implemented:
            pass
        if "items" in clauses and len(app) == 1 and implemented:
            bi = app[0]
            for j, (kind, name, has_default) in enumerate(plan.items):
                if kind not in ("const", "fn", "type"):
                    continue
                want = PC.expected_tag(plan, bi, kind, name, has_default)
                got = row[1 + j] if 1 + j < len(row) else "?"
                ok = got.endswith(want) if kind == "type" else got == want
                rep.count("item:default" if want.startswith("dflt") else "item:own")
                if not ok:
                    fails.append({"clause": "item is the one of the single applicable block (default iff not overridden)",
                                  "probe": ty, "item": name, "expected": want, "got": got, "block": bi})
    return fails


def run(prop, tier, seed, replay, clauses, n_quick, n_thorough, rule, gen_kw=None):
    rep = C.Report(prop, tier, seed)
    rep.rule = rule
    proof = C.proof_obligations(prop)
    rep.proof = proof
    rep.broken += proof["failures"]
    try:
        so = C.build_macro()
        exe = C.build_hook()
    except C.BuildError as e:
        rep.broken.append(str(e)[:2000])
        return rep.finish()
    rng = random.Random(seed * 7919 + int(prop[1:]))
    g = PlanGen(rng)
    n = n_quick if tier == "quick" else n_thorough
    plans = [g.basic(**(gen_kw or {})) for _ in range(n)]
    plans += [g.lattice() for _ in range(n // 3)]
    plans += [g.unsized_plan(d7=False) for _ in range(n // 3)]      # ?Sized relaxations, wildcard rows
    plans += [g.shifted_nested_plan() for _ in range(max(3, n // 10))]   # nested members with shifted canonical numbers
    plans += [g.interleaved_keys_plan() for _ in range(max(2, n // 20))]  # key order interleaving the bounded types
    plans += [g.wildcard_prefix_plan() for _ in range(max(2, n // 20))]   # leading members leave a key unbound
    plans += [g.default_vs_explicit_plan() for _ in range(max(2, n // 30))]  # omitted default argument next to an explicit one
    plans += [g.assoc_subsets_plan() for _ in range(max(2, n // 30))]     # members bind different subsets of three associated types
    plans += [g.sibling_groups_plan() for _ in range(max(2, n // 30))]    # sibling sub-headers in families of their own
    # adversarial presentation of a third of the plans: parameters spelled like reserved canonical names in permuted
    # order / like traits, items and associated types; bounds moved to the where-clause; declaration order shuffled
    from . import variants as V
    for i in range(0, len(plans), 3):
        q = V.rename_variant(plans[i], rng, pool=V.ADVERSARIAL_NAMES[0] if rng.random() < 0.6 else None)
        q = V.placement_variant(V.declorder_variant(q, rng), rng)
        plans[i] = q
    for pl in plans:
        if pl.mode == "trait" and rng.random() < 0.12:
            pl.items = list(pl.items) + [("gfn", "mkarr", False)]     # a generic method (const before type parameter) among the delegated items
        if pl.mode == "trait" and rng.random() < 0.12 and not any(k_ == "type" for k_, _, _ in pl.items):
            # an associated type and a defaulted associated const of ONE name (different name spaces; the type declared first): blocks that
            # override the const must be served their own value (seeded change C01i de-duplicated the forwarded items by bare identifier)
            pl.items = [("type", "DC", False), ("const", "DC", True)] + list(pl.items)
            for f_ in pl.families:
                for m_ in f_.members:
                    if m_.overrides is not None and rng.random() < 0.6:
                        m_.overrides = set(m_.overrides) | {"DC"}
        if pl.mode == "trait" and rng.random() < 0.08:
            pl.header_qual = "self::"      # blocks naming the invocation's trait through a qualified path (D46)
    evs = PC.evaluate(so, plans)
    known = {f["id"] for f in C.findings_for(prop)}
    shape_cases = []
    for ev in evs:
        plan = ev.plan
        if not ev.shadow_ok:
            rep.count("plan:shadow-rejected")
            continue
        if ev.overlap_probes():
            rep.count("plan:overlapping (C04's subject)")
            continue
        if not ev.macro_ok:
            rep.count("plan:macro-rejected (C03's subject)")
            rep.count("reject:" + PC.classify_reject(ev)[:60])
            continue
        nontrivial = len(plan.blocks()) >= 2
        rep.case(plan.invocation_text() + repr(plan.probes), nontrivial, sample=plan_summary(plan))
        rep.count("families:%d" % len(plan.families))
        rep.count("blocks:%d" % len(plan.blocks()))
        fails = judge_tables(prop, rep, ev, clauses)
        d4 = d4_blocks(plan)
        if d4 and "F-D4" in known:
            kept = []
            for f in fails:
                blocks = set(f.get("applicable_blocks", [])) | ({f["block"]} if "block" in f else set())
                if blocks & d4:
                    rep.known("F-D4")
                else:
                    kept.append(f)
            fails = kept
        if "F-D7" in known and len(plan.families) == 1 and any(m.unsized for m in plan.families[0].members):
            # D7: an unsized probe of a block that relaxed a parameter no (surviving) key bounds
            from .c15 import relaxed_non_key_params
            nonkey = relaxed_non_key_params(plan)
            kept = []
            for f in fails:
                if f.get("clause", "").startswith("implemented iff") and not f.get("implemented") and \
                        any(mi == a for a in f.get("applicable_blocks", []) for (mi, p_) in nonkey):
                    rep.known("F-D7")
                else:
                    kept.append(f)
            fails = kept
        if "F-D3" in known:
            # D3: the wildcard entry of a NESTED member's row is printed with the family's key instead of the key seen through the member's
            # substitution; when the stray projection happens to be well-formed the program compiles and the member is selected through
            # the wrong projection (its block applies but the type gets no impl, or the items of another member)
            d3 = {bi for bi, (fi_, mi_, m_) in enumerate(plan.blocks()) if m_.theta and any(r_ is None for r_ in m_.row)}
            kept = []
            for f in fails:
                blocks = set(f.get("applicable_blocks", [])) | ({f["block"]} if "block" in f else set())
                if blocks & d3:
                    rep.known("F-D3")
                else:
                    kept.append(f)
            fails = kept
        for f in fails[:2]:
            rep.oracle_failures.append({**f, "invocation": plan.invocation_text(), "macro_program": plan.macro_program(),
                                        "shadow_program": plan.shadow_program()})
        shape_cases.append(plan)
    # translation validation of the real grouping/expansion against the hypotheses of the refinement theorem
    def excuse(plan, problems):
        # D4: a nested block bounding its own parameter is folded into the general family; its bound is then not the
        # family key seen through the header substitution, which is exactly what memberOK reports
        if "F-D4" in known and d4_blocks(plan) and all("memberOK fails" in p_ or "wildcard argument" in p_ for p_ in problems):
            return "F-D4"
        # D3: the wildcard entry of a nested member is printed with the family's key
        nested_wild = any(m.theta and any(r_ is None for r_ in m.row) for f_ in plan.families for m in f_.members)
        if "F-D3" in known and nested_wild and all("wildcard argument" in p_ for p_ in problems):
            return "F-D3"
        return None

    shape.validate(rep, exe, shape_cases, prop, excuse=excuse)
    # the Lean model of the three generators (Expand.lean) against the real helper trait / helper impls / main impl
    expandcorr.compare(rep, exe, shape_cases)
    # … and once more with bodies that mention `Self::<item>` paths (expansion level only: rustc would find them ambiguous between the
    # trait and its helper in trait mode): the helper impls must keep the user's body verbatim (seeded change C01g)
    import copy
    body_cases = []
    for pl in shape_cases[: max(10, len(shape_cases) // 4)]:
        q = copy.deepcopy(pl)
        q.body_paths = True
        body_cases.append(q)
    expandcorr.compare(rep, exe, body_cases, label="expand-bodies")
    # the property-level reading of the same thing, on the real expansion alone: in trait mode every helper impl carries exactly the items
    # of its member block (the block as canonicalised by the resolver: only the generic parameters are respelled)
    for q, d in zip(body_cases, shape.validate(rep, exe, body_cases, prop, judge=False, expand=False)):
        if d is None or q.mode != "trait":
            continue
        for fi, (g_, fam) in enumerate(zip(d.groups, d.families)):
            for mi, (m_, (h_, htoks)) in enumerate(zip(g_["items"], fam["helpers"])):
                rep.count("helper-items-verbatim:compared")
                if shape.impl_parts(m_)["items"] != shape.impl_parts(h_)["items"]:
                    rep.oracle_failures.append({"clause": "a helper impl does not carry the items of its member block verbatim (bodies mentioning `Self::<item>` paths)",
                                                "invocation": q.invocation_text()[:3000], "family": fi, "member": mi, "helper_impl_tokens": htoks[:1500],
                                                "first_difference": list(tref_first_diff(shape.impl_parts(m_)["items"], shape.impl_parts(h_)["items"]))[-6:]})
                    break
    return rep.finish()
