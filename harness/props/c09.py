"""C09 — header generalisation is exact first-order matching (DESIGN.md §7 C09)."""

import json
import os
import random

from .. import common as C
from ..gen_pat import Gen, pr, subst, params_of
from ..syn_dbg import parse_dbg, decode, sexpr, parse_sexpr, from_sx, kinds_of
from .. import tref

PROP = "C09"

LENIENT = {
    "anon-lifetime": "F-C09-anon-lifetime",
    "leading-colon": "F-C09-leading-colon",
    "semicolon": "F-C09-semicolon",
    "turbofish": "F-C09-turbofish",
    "pat-wild": "F-C09-pat-wild",
    "binary-swap": "F-C09-binary-swap",
}


def lenient_eq(x, y, used, parent=None):
    """equality modulo the matcher's documented leniencies; records which were needed"""
    if x == y:
        return True
    if x[0] in "PE" or y[0] in "PE":
        return False
    _, k, atoms, kids = x
    _, k2, atoms2, kids2 = y
    if k == "IgnL" and k2 == "IgnL":
        used.add("leading-colon" if parent == "Path" else "semicolon")
        return True
    if k == "Pat::Wild" or k2 == "Pat::Wild":
        used.add("pat-wild")
        return True
    if k != k2:
        return False
    if k == "Lifetime" and kids and kids2 and ("_" in kids[0][2] or "_" in kids2[0][2]):
        used.add("anon-lifetime")
        return True
    if k == "OptWild" and (kids[0][1] == "None" or kids2[0][1] == "None"):
        used.add("turbofish")
        return True
    if atoms != atoms2 or len(kids) != len(kids2):
        return False
    if k == "Expr::Binary":
        u1 = set()
        if all(lenient_eq(a, b, u1, k) for a, b in zip(kids, kids2)):
            used |= u1
            return True
        u2 = set()
        sw = [kids2[0], kids2[2], kids2[1], kids2[3]]
        if all(lenient_eq(a, b, u2, k) for a, b in zip(kids, sw)):
            used |= u2
            used.add("binary-swap")
            return True
        return False
    return all(lenient_eq(a, b, used, k) for a, b in zip(kids, kids2))


def decode_subs(field):
    """hook Debug of Option<Substitutions> -> ('no',) | ('yes', dict)"""
    t = decode(parse_dbg(field))
    if t[1] == "None":
        return ("no",)
    m = t[3][0][3][0]
    sig = {}
    for e in m[3]:
        key, val = e[3]
        name = key[2][0]
        if val[1] == "Type":
            sig[name] = ("ty", val[3][0])
        elif val[1] == "Expr":
            sig[name] = ("ex", val[3][0])
        else:
            sig[name] = ("id",)
    return ("yes", sig)


def decode_lean_r(resp):
    v = parse_sexpr(resp)
    tag = v[0]
    if tag in ("no", "panic"):
        return (tag,)
    if tag == "yes":
        sig = {}
        for ent in v[2]:
            name = ent[0][1]
            val = ent[1]
            sig[name] = ("id",) if val[0] == "id" else (val[0], from_sx(val[1]))
        sound = v[3] == "1" if len(v) > 3 else None
        hyps = v[4] == "1" if len(v) > 4 else None
        binds = v[5] == "1" if len(v) > 5 else None
        return ("yes", sig, v[1] == "1", sound, hyps, binds)
    raise ValueError(resp)


def gen_cases(rng, n, thorough):
    cases = []
    g = Gen(rng, nparams=3)
    kinds = ["type"] * 6 + ["expr"] * 3 + ["path"] * 1
    while len(cases) < n:
        kind = kinds[rng.randrange(len(kinds))]
        depth = rng.choice([1, 2, 2, 3, 3, 4] if not thorough else [1, 2, 3, 3, 4, 5])
        if kind == "type":
            a = g.ty(depth)
        elif kind == "expr":
            a = g.expr(depth)
        else:
            a = ("ctor", rng.choice(["Tr", "m::Tr", "W3"]), g.args(depth - 1, True))
        ps = sorted(set(params_of(a)))
        mode = rng.random()
        if mode < 0.5:
            # positive pair: b = a[theta]
            theta = {}
            for (pk, i) in ps:
                if i in theta:
                    continue
                if rng.random() < 0.2:
                    continue  # stays itself -> identity
                theta[i] = g.value_for(pk, rng.choice([0, 1, 1, 2]))
            # a parameter used both in type and expr position needs both kinds of value; keep it simple:
            kinds_used = {}
            for (pk, i) in ps:
                kinds_used.setdefault(i, set()).add(pk)
            for i, ks in kinds_used.items():
                if len(ks) > 1:
                    theta.pop(i, None)
                elif i in theta:
                    want = "ty" if "tp" in ks else "ex"
                    if theta[i][0] != want and not (want == "ty" and theta[i][0] == "ex"):
                        theta.pop(i, None)
            b = subst(a, theta)
            cases.append((kind, pr(a), pr(b), "positive"))
        elif mode < 0.62:
            # inconsistent pair: one *occurrence* of a parameter faces something else than the others (which may face the
            # parameter itself): no substitution exists, whatever the order in which the occurrences are visited
            from ..gen_pat import nodes_of, replace_at
            occ = [(p_, n_) for p_, n_ in nodes_of(a) if n_[0] in ("tp", "ep")]
            by = {}
            for p_, n_ in occ:
                by.setdefault((n_[0], n_[1]), []).append(p_)
            multi = [k for k, v in by.items() if len(v) >= 2]
            if not multi:
                # make one: pair the pattern with itself
                a = ("tuple", [a, a]) if kind == "type" else (("etuple", [a, a]) if kind == "expr" else a)
                occ = [(p_, n_) for p_, n_ in nodes_of(a) if n_[0] in ("tp", "ep")]
                by = {}
                for p_, n_ in occ:
                    by.setdefault((n_[0], n_[1]), []).append(p_)
                multi = [k for k, v in by.items() if len(v) >= 2]
                if not multi:
                    continue
            (pk, i) = rng.choice(multi)
            theta = {}
            if rng.random() < 0.5:
                theta[i] = g.value_for(pk, rng.choice([0, 1]))      # the other occurrences are bound; else they face themselves
                if (pk == "tp") != (theta[i][0] == "ty"):
                    theta.pop(i)
            b = subst(a, theta)
            path = rng.choice(by[(pk, i)])
            other = g.value_for(pk, rng.choice([0, 1, 1]))
            if (pk == "tp") != (other[0] == "ty"):
                continue
            b = replace_at(b, path, other[1])
            cases.append((kind, pr(a), pr(b), "inconsistent"))
        elif mode < 0.8:
            theta = {i: g.value_for(pk, rng.choice([0, 1, 2])) for (pk, i) in ps if rng.random() < 0.8}
            kinds_used = {}
            for (pk, i) in ps:
                kinds_used.setdefault(i, set()).add(pk)
            for i, ks in kinds_used.items():
                if len(ks) > 1:
                    theta.pop(i, None)
            b = subst(a, theta)
            b2, where = g.corrupt(b)
            if b2 is None:
                continue
            cases.append((kind, pr(a), pr(b2), "corrupt:" + where))
        elif mode < 0.9:
            if kind == "type":
                b = g.ty(depth)
            elif kind == "expr":
                b = g.expr(depth)
            else:
                b = ("ctor", rng.choice(["Tr", "m::Tr", "W3"]), g.args(depth - 1, True))
            cases.append((kind, pr(a), pr(b), "random"))
        else:
            cases.append((kind, pr(a), pr(a), "reflexive"))
    return cases


from ..syn_dbg import PARAM_PREFIX


def battery_cases():
    """every run: each enumerated attribute of a syntactic form flipped against each other value, around a parameter
    (random corruption reaches these only with some probability per run)"""
    P = PARAM_PREFIX + "0"
    out = []
    abis = ["", "extern ", 'extern "C" ', 'extern "system" ', 'extern "C-unwind" ', 'extern "Rust" ', 'extern "sysv64" ',
            "unsafe ", 'unsafe extern "C" ', 'unsafe extern "system" ', 'unsafe extern "C-unwind" ']
    for a in abis:
        for b in abis:
            out.append(("type", f"{a}fn({P}) -> u8", f"{b}fn(i32) -> u8", "battery:fn-abi/unsafety"))
    LP = "'" + PARAM_PREFIX + "1"      # a canonicalised lifetime PARAMETER: it must not generalise any other lifetime (seeded change C17f)
    refs = ["&{}", "&mut {}", "&'a {}", "&'a mut {}", "&'b {}", "&'static {}", "&" + LP + " {}", "&" + LP + " mut {}", "W1<" + LP + ", {}>", "W1<'static, {}>", "W1<'a, {}>",
            "dyn Tr<{}> + " + LP, "*const {}", "*mut {}", "[{}]", "[{}; 2]", "[{}; 3]",
            "({},)", "({}, {})", "({})", "Vec<{}>", "Box<{}>", "m::W1<{}>", "::m::W1<{}>", "W1<{}>", "dyn Tr<{}>", "dyn Tr<{}> + Send",
            "dyn Tr<{}> + 'a", "dyn Tr<{}> + 'b", "dyn for<'x> Tr<{}>", "dyn Send + Tr<{}>", "dyn Tr<{}> + Send + Sync", "fn() -> {}", "fn({})", "fn({}, ...)",
            "fn()", "fn() -> ()", "fn() -> ({}, u8)", "fn() -> ({},)", "fn({}) -> ()", "fn({}) -> ({}, {})", "fn(u8)", "fn(u8) -> (u8, u8)", "fn() -> !",
            "impl Tr<{}>", "impl Tr<{}> + Send", "&dyn Tr<{}>", "Box<dyn Tr<{}> + Send>", "Box<dyn Tr<{}>>", "<{} as Tr>::Out", "<{} as Tr2>::Out",
            "<{} as Tr>::Out2", "Tr<Out = {}>", "[u8; {{ {} }}]",
            # parenthesised generic arguments (`Fn` sugar) as part of a type: inputs, arity, presence and type of the output
            "dyn Fn({})", "dyn Fn({}) -> bool", "dyn Fn({}) -> {}", "dyn Fn({}) -> ()", "dyn FnMut({})", "dyn Fn({}, u8)", "dyn Fn(u8, {})", "dyn Fn()",
            "dyn Fn() -> {}", "Box<dyn Fn({})>", "Box<dyn Fn({}) -> bool>", "Box<dyn Fn({}) -> u8>", "impl Fn({}) -> bool", "impl Fn({})", "&dyn Fn({}) -> {}"]
    # impl-group ids: the trait arguments and the self type share their parameters
    P1 = PARAM_PREFIX + "1"
    gids = [f"Kita<{P}> ## {P}", f"Kita<Marker> ## {P}", f"Kita<{P}> ## Marker", "Kita<Marker> ## Marker", f"Kita<{P1}> ## {P}",
            f"Kita<Vec<{P}>> ## {P}", f"Kita<{P}> ## Vec<{P}>", "Kita<Vec<u8>> ## Vec<u8>", "Kita<Vec<u8>> ## u8", "Kita<u8> ## Vec<u8>",
            f"Kita<{P}, {P1}> ## ({P}, {P1})", f"Kita<{P1}, {P}> ## ({P}, {P1})", "Kita<u8, i32> ## (u8, i32)", "Kita<u8, i32> ## (i32, u8)",
            f"Kita ## {P}", "Kita ## Marker", f"Kita<'a, {P}> ## &'a {P}", "Kita<'b, u8> ## &'a u8", "Kita<'a, u8> ## &'a u8",
            f"Kita<{LP}, {P}> ## &{LP} {P}", f"Kita<'static, {P}> ## &'static {P}", "Kita<'static, u8> ## &'static u8", f"Kita ## W1<{LP}, {P}>", f"Kita ## W1<'static, {P}>"]
    for a in gids:
        for b in gids:
            out.append(("gid", a, b, "battery:gid"))
    # expression forms (const generic arguments, array lengths and item bodies are expressions): every syn::Expr / Pat / Stmt node
    # kind the matcher has an arm for, each with its flags and names flipped against the others
    exprs = ["{}", "({})", "&{}", "&mut {}", "-{}", "!{}", "*{}", "{} + 1", "{} - 1", "{} * 2", "{} as u8", "{} as u16", "[{}, 1]", "[{}; 2]",
             "[{}; 3]", "({}, 1)", "({},)", "f({})", "g({})", "f({}, 1)", "x.f({})", "x.g({})", "x.f::<u8>({})", "x.f::<u16>({})", "{}.a", "{}.b", "{}.0",
             "{}[0]", "{}[1]", "{}..", "..{}", "0..{}", "0..={}", "{}?", "{}.await", "|x| {}", "move |x| {}", "|x: u8| {}", "|x, y| {}", "|y| {}",
             "|x| -> u8 {{ {} }}", "async {{ {} }}", "async move {{ {} }}", "unsafe {{ {} }}", "const {{ {} }}", "{{ {} }}", "{{ {}; 1 }}", "{{ let x = {}; x }}",
             "{{ let ref x = {}; x }}", "{{ let mut x = {}; x }}", "{{ let x: u8 = {}; x }}", "{{ let x: u16 = {}; x }}", "{{ let (x, y) = {}; x }}",
             "{{ let [x, y] = {}; x }}", "{{ let [x, ..] = {}; x }}", "{{ let &x = {}; x }}", "{{ let &mut x = {}; x }}", "{{ let x @ 1 = {}; x }}",
             "{{ let x = {} else {{ loop {{}} }}; x }}", "{{ let y = {}; y }}", "if {} {{ 1 }} else {{ 2 }}", "if {} {{ 1 }}", "if {} {{ 2 }}",
             "match {} {{ 1 => 2, _ => 3 }}", "match {} {{ 1 | 2 => 2, _ => 3 }}", "match {} {{ x if x > 1 => 2, _ => 3 }}", "match {} {{ x => 2, _ => 3 }}",
             "match {} {{ 1..=2 => 2, _ => 3 }}", "match {} {{ 1..2 => 2, _ => 3 }}", "loop {{ break {}; }}", "'a: loop {{ break 'a {}; }}", "'b: loop {{ break 'b {}; }}",
             "loop {{ if {} {{ continue; }} }}", "'a: loop {{ if {} {{ continue 'a; }} }}", "while {} {{ }}", "'a: while {} {{ }}", "for x in {} {{ }}", "for y in {} {{ }}",
             "return {}", "S {{ a: {} }}", "S {{ a: {}, ..d }}", "S {{ b: {} }}", "m::S {{ a: {} }}", "S {{ a: {}, b: 1 }}", "<T as Tr>::f({})", "T::f({})", "T::g({})",
             "{} = 1", "{} += 1", "{} -= 1", "{} == 1", "{} < 1", "{} && true", "{} || true", "{} << 1", "m!({})", "{} as fn(u8) -> u8", "{}::<u8>()", "{}::<u16>()",
             # literals that differ in spelling, radix or suffix only (a suffix decides the VALUE of `0u8.count_zeros()`; seeded change C09i compared digits)
             "{} + 16", "{} + 0x10", "{} + 1_6", "{} + 16usize", "{} + 16u8", "f({}, 0u8.count_zeros())", "f({}, 0u64.count_zeros())", "{} + 1.0", "{} + 1.0f32",
             "f({}, 'a')", "f({}, b'a')", "f({}, \"s\")", "f({}, b\"s\")", "f({}, true)", "f({}, false)"]
    for a in exprs:
        for b in exprs:
            out.append(("expr", a.format(*([P] * a.count("{}"))), b.format(*(["7"] * b.count("{}"))), "battery:expr-form"))
    tys = [r for r in refs if "Tr<Out" not in r and "{{" not in r]
    for a in tys:
        for b in tys:
            out.append(("type", a.format(*([P] * a.count("{}"))), b.format(*(["i32"] * b.count("{}"))), "battery:type-form"))
    return out


def corpus_cases():
    path = os.path.join(C.VERIF, "corpus", PROP, "cases.json")
    if os.path.exists(path):
        return [tuple(c) for c in json.load(open(path))]
    return []


def run(tier, seed, replay=None):
    rep = C.Report(PROP, tier, seed)
    rep.rule = ("pairs (a, b) of type / expression / trait-path patterns parsed by syn: b = a[theta] (positive), single-point "
                "corruptions of such b, unrelated random pairs, reflexive pairs; distinct = distinct (kind, a, b) source texts; "
                "non-trivial = a contains a parameter or a and b differ")
    from .. import matchfacts
    mf = matchfacts.generate()     # MatchFacts.lean: the fields the source's is_superset / substitute mention, regenerated on every run
    rep.extra["match_facts"] = mf
    proof = C.proof_obligations(PROP)
    rep.proof = proof
    rep.broken += proof["failures"]
    try:
        exe = C.build_hook()
    except C.BuildError as e:
        rep.broken.append(str(e)[:2000])
        return rep.finish()

    rng = random.Random(seed * 7919 + 9)
    n = 2500 if tier == "quick" else 60000
    if replay:
        r = json.load(open(replay))
        cases = [tuple(c["case"]) for c in [r] if "case" in r] + [tuple(d["case"]) for d in r.get("smallest_disagreements", []) if "case" in d]
    else:
        cases = corpus_cases() + battery_cases() + gen_cases(rng, n, tier == "thorough")

    reqs = []
    for kind, a, b, _ in cases:
        if kind == "gid":
            # impl-group ids: `TraitPath ## SelfType`
            (at, as_), (bt, bs_) = a.split(" ## "), b.split(" ## ")
            reqs.append(("sup", ["gid", at, as_, bt, bs_]))
        else:
            reqs.append(("sup", [kind, a, b]))
    hres = C.run_hook(exe, reqs)

    lean_reqs, idx = [], []
    decoded = {}
    for i, ((kind, a, b, tag), (status, fields)) in enumerate(zip(cases, hres)):
        if status == "panic" and fields and fields[0].startswith("verif-parse-error"):
            rep.count("unparsable")
            continue
        if status == "crash":
            rep.count("hook-crash")
            continue
        if status == "panic":
            # a and b are not dumped on panic; ask for them separately below
            decoded[i] = ("panic", None, None, fields[0] if fields else "")
            continue
        try:
            ta, tb = decode(parse_dbg(fields[0])), decode(parse_dbg(fields[1]))
            res = decode_subs(fields[2])
        except Exception as e:  # outside the model's schema
            rep.count("undecodable")
            continue
        decoded[i] = (res, ta, tb, "")
        lean_reqs.append(f"supchk {sexpr(ta)} {sexpr(tb)}")
        idx.append(i)
    # panics: dump the two sides to be able to ask the model
    pan = [i for i, d in decoded.items() if d[0] == "panic"]
    if pan:
        dreq = []
        for i in [i_ for i_ in pan if cases[i_][0] == "gid"]:
            del decoded[i]
            rep.count("gid-panic-not-redumped")
        pan = [i_ for i_ in pan if cases[i_][0] != "gid"]
        for i in pan:
            kind, a, b, _ = cases[i]
            k = "path" if kind == "path" else kind
            dreq += [("dump", [k, a]), ("dump", [k, b])]
        dres = C.run_hook(exe, dreq, tag="hookp")
        for j, i in enumerate(pan):
            ra, rb = dres[2 * j], dres[2 * j + 1]
            if ra[0] != "ok" or rb[0] != "ok":
                del decoded[i]
                rep.count("unparsable")
                continue
            ta, tb = decode(parse_dbg(ra[1][0])), decode(parse_dbg(rb[1][0]))
            decoded[i] = (("panic",), ta, tb, decoded[i][3])
            lean_reqs.append(f"supchk {sexpr(ta)} {sexpr(tb)}")
            idx.append(i)
    lres = C.run_lean(lean_reqs)

    for i, resp in zip(idx, lres):
        kind, a, b, tag = cases[i]
        impl, ta, tb, msg = decoded[i]
        model = decode_lean_r(resp)
        nontrivial = bool(tref.params(ta)) or ta != tb
        rep.case((kind, a, b), nontrivial, sample={"kind": kind, "a": a, "b": b, "class": tag, "impl": impl[0], "model": model[0]})
        rep.count("class:" + tag.split(":")[0])
        rep.count("impl:" + impl[0])
        for k in kinds_of(ta):
            rep.count("kind:" + k)
        case_json = {"case": [kind, a, b, tag]}
        # --- correspondence: model vs implementation
        agree = impl[0] == model[0] and (impl[0] != "yes" or impl[1] == model[1])
        if not agree:
            rep.disagreements.append({**case_json, "impl": _show(impl), "model": _show(model), "panic_msg": msg})
        if model[0] == "yes":
            rep.count("model-lossy" if model[2] else "model-exact")
            if model[4] is False:
                rep.count("theorem-hypotheses-fail")
                rep.broken.append(f"decoded trees violate the well-formedness hypotheses (wf/ignFaces/noConstParam) of the C09 theorems: {kind} {a} / {b}")
            elif not model[2] and (model[3] is False or model[5] is False):
                rep.broken.append(f"instance of C09_sound_wf / C09_binds_all_wf false in the executable model for {kind} {a} / {b}")
            else:
                rep.count("theorem-instances-checked")
        # --- oracle on the implementation's own answer
        ea, eb = tref.erase(ta), tref.erase(tb)
        info = {}
        ref = tref.ref_match(ea, eb, {}, False, info)
        if impl[0] == "yes":
            sig = impl[1]
            inst = tref.erase(tref.inst(sig, ta))
            fail = None
            if inst != eb:
                used = set()
                if lenient_eq(inst, eb, used) and used:
                    for u in used:
                        rep.known(LENIENT[u])
                else:
                    fail = {"clause": "sound: a[sigma] differs from b", "first_difference": list(tref.first_diff(inst, eb) or [])}
            missing = [p for p in set(tref.params(ta)) if p not in sig]
            if not fail and missing:
                fail = {"clause": "consistent: parameter of a not bound", "missing": missing}
            for p, v in sig.items():
                if v != ("id",) and v[1] in (("P", p), ("E", p)) and not fail:
                    fail = {"clause": "identity: parameter matched against itself reported as a binding", "param": p}
            if fail:
                rep.oracle_failures.append({**case_json, **fail, "impl": _show(impl), "model": _show(model)})
        elif impl[0] == "no":
            if ref is not None and not info.get("qself_bind"):
                rep.oracle_failures.append({**case_json, "clause": "complete: a substitution exists (no parameter beneath a projection) but none was found",
                                            "reference_substitution": {k: (v[0], tref.show(v[1]) if len(v) > 1 else "") for k, v in ref.items()},
                                            "impl": "None", "model": _show(model)})
        # corrupted pairs: nothing extra to do — a corruption at a guard position makes `ref` fail, and soundness
        # above already rejects any substitution the implementation may still report.
        if tag.startswith("corrupt") and ref is None:
            rep.count("corrupt-unmatchable")
        if ref is not None:
            rep.count("matchable")
    return rep.finish()


def _show(r):
    if r[0] != "yes":
        return r[0]
    return {k: (v[0] + ":" + tref.show(v[1], 120) if len(v) > 1 else "identity") for k, v in r[1].items()}
