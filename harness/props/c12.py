"""C12 — dispatch-key identity ignores associated-type bindings and nothing else (DESIGN.md §7 C12)."""

import json
import os
import random

from .. import common as C
from ..syn_dbg import parse_dbg, decode, sexpr, parse_sexpr, from_sx
from .. import tref

PROP = "C12"

ARGS = ["'a", "'static", "u8", "Vec<u8>", "_ŠČ0", "(_ŠČ0, u8)", "3", "{ N + 1 }", "[u8; 2]", "&'a str", "m::X"]
BINDS = ["A = X", "B = Y", "A = Vec<_ŠČ0>", "Group = GroupA", "A = (u8, _ŠČ1)"]
LEADS = ["", "", "", "m::", "a::b::", "::m::", "m::<u8>::"]
IDENTS = ["Tr", "Tr", "Dispatch"]


# parenthesized arguments (`Fn(A) -> B`): no bindings to ignore, compared and hashed as printed (since /repo 94aac73). Every form has an output type
# or an input list that is no entry of ARGS: `Tr<(u8)>` and `Tr(u8)` print the same argument tokens and therefore feed the real hasher identically
# although the keys differ — harmless for the Hash contract (C12_hash_agrees is unconditional), but the model's feed is a list of TREES and tells the
# two apart (C12_hash_iff_counterexample, DESIGN §10): the pool avoids that one coincidence
PAREN_FORMS = ["(u8) -> u8", "(u8) -> u16", "() -> u8", "(u8, u16)", "(&'a str) -> Vec<u8>", "(_ŠČ0) -> _ŠČ0", "(u8) -> (u8)"]


def make_path(rng, base=None):
    if base is not None and base[0] == "paren":
        return base[1], base
    if base is None and rng.random() < 0.12:
        p_ = rng.choice(["", "", "ops::", "::core::ops::"]) + rng.choice(["Fn", "Fn", "FnOnce", "Tr"]) + rng.choice(PAREN_FORMS)
        return p_, ("paren", p_)
    if base is None:
        lead = rng.choice(LEADS)
        ident = rng.choice(IDENTS)
        n = rng.choice([0, 0, 1, 1, 2, 3])
        args = [rng.choice(ARGS) for _ in range(n)]
        base = (lead, ident, args)
    lead, ident, args = base
    nb = rng.choice([0, 0, 1, 2])
    binds = rng.sample(BINDS, nb)
    # no two bindings of the same name
    seen, bs = set(), []
    for b in binds:
        nm = b.split(" ")[0]
        if nm not in seen:
            seen.add(nm)
            bs.append(b)
    items = list(args)
    # interleave bindings at random positions (syn accepts any order)
    for b in bs:
        items.insert(rng.randrange(len(items) + 1), b)
    if not items:
        form = rng.choice(["", "", "<>"])
    else:
        form = "<" + ", ".join(items) + ">"
    if form and rng.random() < 0.1:
        form = "::" + form
    return lead + ident + form, base


def py_key(path_t):
    """independent key: (leading segments, identifier, non-binding arguments) of a decoded Path"""
    segs = path_t[3][1][3]
    last = segs[-1]
    ident = last[3][0][2][0]
    args = last[3][1]
    if args[1] == "PathArguments::None":
        na = []
    elif args[1] == "PathArguments::AngleBracketed":
        na = [a for a in args[3][1][3] if a[1] != "GenericArgument::AssocType"]
    else:
        # `Fn(A) -> B`: no bindings to ignore, the whole argument list (inputs and output) is part of the key
        return (repr(segs[:-1]), ident, "paren:" + repr(args))
    return (repr(segs[:-1]), ident, repr(na))


def has_assoc(path_t):
    last = path_t[3][1][3][-1]
    args = last[3][1]
    return args[1] == "PathArguments::AngleBracketed" and any(a[1] == "GenericArgument::AssocType" for a in args[3][1][3])


def _strip_bindings(path_t):
    """independent reading of "the user's bound with exactly the bindings removed"; `Tr<>` and `Tr` identified"""
    _, k, atoms, kids = path_t
    lead, segs = kids[0], kids[1][3]
    out = []
    for i, sg in enumerate(segs):
        ident, args = sg[3]
        if args[1] == "PathArguments::AngleBracketed":
            keep = [a for a in args[3][1][3] if a[1] not in ("GenericArgument::AssocType", "GenericArgument::AssocConst", "GenericArgument::Constraint")]
            args = tref.N("PathArguments::AngleBracketed", [], [tref.N("Ign"), tref.N("List", [], keep)]) if keep else tref.N("PathArguments::None")
        out.append(tref.N("PathSegment", [], [ident, args]))
    return tref.N("Path", [], [lead, tref.N("List", [], out)])


def _all_paths(t, acc):
    """every trait-bound path and every projection `<X as Path>::..` in a tree"""
    if t[0] != "N":
        return
    if t[1] == "TraitBound" and len(t[3]) == 4:
        acc.append(("bound", t[3][3]))
    if t[1] in ("Type::Path", "Expr::Path") and t[3][-2][1] == "Some":
        q = t[3][-2][3][0]
        pos = int(q[3][1][2][0]) if q[3][1][2] else 0
        path = t[3][-1]
        segs = path[3][1][3]
        if q[3][2][1] == "Some" and pos:
            acc.append(("projection", tref.N("Path", [], [path[3][0], tref.N("List", [], segs[:pos])])))
    for x in t[3]:
        _all_paths(x, acc)


BOUNDED_FORMS = ["(T)", "Option<(T)>", "&'static (dyn PlainD<T> + Send)", "Box<(dyn PlainD<T> + Sync)>", "*const (dyn PlainD<T> + Send)",
                 "[T; 2]", "(T, u8)", "(T,)", "fn(T) -> u8", "Vec<T>", "&'static mut (T)", "W1<(T, (u8))>"]


def _all_bounded(t, base, acc):
    """(where, type) for every where-predicate `X: …base…` and every projection `<X as …base…>::A` in a tree"""
    if t[0] != "N":
        return
    if t[1] == "WherePredicate::Type":
        pt = t[3][0]
        bounded, bounds = pt[3][1], pt[3][2][3]
        for b in bounds:
            if b[1] == "TypeParamBound::Trait" and b[3][0][3][3][3][1][3][-1][3][0] == base:
                acc.append(("where-clause", bounded))
    if t[1] in ("Type::Path", "Expr::Path") and t[3][-2][1] == "Some":
        q = t[3][-2][3][0]
        pos = int(q[3][1][2][0]) if q[3][1][2] else 0
        segs = t[3][-1][3][1][3]
        if q[3][2][1] == "Some" and pos and segs[pos - 1][3][0] == base:
            acc.append(("projection", q[3][0]))
    for x in t[3]:
        _all_bounded(x, base, acc)


def emission_stage(rep, exe, rng, n):
    """end to end: the bound the REAL expansion carries in the main impl's where-clause and in every projection is the
    user's bound with exactly the bindings removed — also for the second and later members of a family, whose bounds went
    through reverse substitution (Path::substitute) before they became the family's keys"""
    traits = ["::core::ops::Deref", "core::ops::Deref", "::core::iter::IntoIterator", "m::D0", "D0", "self::D0", "crate::m::D0", "::dep::sub::Tr",
              "::core::ops::Add<u8>", "m::D2<'static, i32>", "::dep::Tr<u8, 2>",
              # raw identifiers are part of the user's spelling (`r#gen` is a keyword of edition 2024 without the prefix; seeded change C12i)
              "r#gen::D0", "m::r#type::D2<'static, i32>", "r#D0"]
    assocs = {"Deref": "Target", "IntoIterator": "Item", "Add<u8>": "Output"}
    invs = []
    for _ in range(n):
        tr = rng.choice(traits)
        last = tr.split("::")[-1]
        assoc = assocs.get(last, "G")
        base = last.split("<")[0]
        targs = last[len(base) + 1:-1] if "<" in last else ""
        prefix = tr[: len(tr) - len(last)]
        nm = rng.choice([2, 2, 3])
        shape = rng.choice(["T", "T", "Vec<T>", "(T, U)"])
        blocks = []
        # the bounded half of the key: mostly the bare parameter, sometimes a type built from it — with parentheses that are part of the
        # type's spelling (`&'static (dyn PlainD<T> + Send)` does not even parse without them; seeded change C12g)
        bt = "T" if rng.random() < 0.6 else rng.choice(BOUNDED_FORMS)
        for i in range(nm):
            bind = f"{assoc} = G{i}"
            args = ", ".join([a for a in [targs] if a] + [bind])
            b = f"{prefix}{base}<{args}>"
            hdr = shape if (i == 0 or rng.random() < 0.6 or shape != "T") else shape
            gen = "T, U" if shape == "(T, U)" else "T"
            # a later member with a nested header: its bound is re-expressed over the family's header
            if i > 0 and shape == "T" and rng.random() < 0.35:
                blocks.append(f"impl<V> Kita for Vec<V> where Vec<V>: {b} {{ const NAME: &'static str = \"b{i}\"; }}")
                continue
            if bt == "T" and rng.random() < 0.5:
                blocks.append(f"impl<{gen.replace('T', 'T: ' + b, 1)}> Kita for {hdr} {{ const NAME: &'static str = \"b{i}\"; }}")
            else:
                blocks.append(f"impl<{gen}> Kita for {hdr} where {bt}: {b} {{ const NAME: &'static str = \"b{i}\"; }}")
        if bt != "T":
            # no nested members here: the bounded type is compared in the family's own numbering (`T` is `_ŠČ0` in every header shape used)
            blocks = [b_ for b_ in blocks if " for Vec<V> " not in b_]
        invs.append((tr, "pub trait Kita { const NAME: &'static str; } " + " ".join(blocks), blocks, bt))
    from .shape import GenDump
    res = C.run_hook(exe, [("gen", [inv]) for _, inv, _, _ in invs], tag="hooke")
    dres = C.run_hook(exe, [("dump", ["path", tr]) for tr, _, _, _ in invs], tag="hooked")
    import re as _re
    bres = C.run_hook(exe, [("dump", ["type", _re.sub(r"\bT\b", "_ŠČ0", bt)]) for _, _, _, bt in invs], tag="hookeb")
    for (tr, inv, blocks, bt), (st, f), (dst, df), (bst, bf) in zip(invs, res, dres, bres):
        if st != "ok" or dst != "ok":
            rep.count("emission:hook-" + st)
            continue
        try:
            d = GenDump(f)
            want = _strip_bindings(decode(parse_dbg(df[0])))
        except Exception:
            rep.count("emission:undecodable")
            continue
        rep.case(("emission", inv), True)
        rep.count("emission:invocations")
        base = want[3][1][3][-1][3][0]
        for fi, fam in enumerate(d.families):
            if fam["main"][1] != "Some":
                continue
            acc = []
            _all_paths(fam["main"][3][0], acc)
            for h, _ in fam["helpers"]:
                # projections in helper impls' trait arguments (wildcards); the user's own bounds in them are the user's text
                tp = h[3][4]
                _all_paths(tp, acc)
            seen = 0
            for where, pth in acc:
                if pth[3][1][3][-1][3][0] != base:
                    continue
                seen += 1
                got = _strip_bindings(pth)
                rep.count("emission:" + where)
                if got != want:
                    rep.oracle_failures.append({"clause": "the bound emitted in the generated " + where + " is not the user's bound with exactly the bindings removed",
                                                "user_bound": tr, "first_difference": list(tref.first_diff(want, got) or [])[-5:],
                                                "invocation": inv, "main_impl": fam["main_toks"][:800]})
                    break
            if not seen:
                rep.oracle_failures.append({"clause": "the main impl carries no bound of the dispatch trait", "user_bound": tr, "invocation": inv,
                                            "main_impl": fam["main_toks"][:800]})
            # the BOUNDED half of the key: every predicate `X: <dispatch trait>` of the main impl and every projection `<X as <dispatch trait>>::A`
            # names the user's bounded type exactly (parentheses included), in the family's numbering
            if bst == "ok":
                want_b = decode(parse_dbg(bf[0]))
                accb = []
                _all_bounded(fam["main"][3][0], base, accb)
                rep.count("emission:bounded-form:" + ("param" if bt == "T" else "composite"))
                for where, got_b in accb:
                    rep.count("emission:bounded-" + where)
                    if got_b != want_b:
                        rep.oracle_failures.append({"clause": "the bounded type emitted in the generated " + where + " is not the user's bounded type",
                                                    "user_bounded": bt, "user_bound": tr, "first_difference": list(tref.first_diff(want_b, got_b) or [])[-5:],
                                                    "invocation": inv, "main_impl": fam["main_toks"][:800]})
                        break
                if not accb:
                    rep.oracle_failures.append({"clause": "the main impl carries no predicate or projection of the dispatch key", "user_bounded": bt,
                                                "invocation": inv, "main_impl": fam["main_toks"][:800]})


def run(tier, seed, replay=None):
    rep = C.Report(PROP, tier, seed)
    rep.rule = ("all ordered pairs of a pool of trait paths (variants of a few bases: leading segments, optional leading `::`, "
                "0-3 lifetime/type/const arguments, 0-2 bindings interleaved anywhere, `Tr` / `Tr<>` / turbofish); distinct = distinct "
                "(p, q) texts; non-trivial = p and q differ textually")
    proof = C.proof_obligations(PROP)
    rep.proof = proof
    rep.broken += proof["failures"]
    try:
        exe = C.build_hook()
    except C.BuildError as e:
        rep.broken.append(str(e)[:2000])
        return rep.finish()
    rng = random.Random(seed * 7919 + 12)
    emission_stage(rep, exe, random.Random(seed * 7919 + 1212), 60 if tier == "quick" else 1500)
    nbases, nvar = (8, 6) if tier == "quick" else (40, 8)
    pool = []
    corpus = os.path.join(C.VERIF, "corpus", PROP, "paths.json")
    if os.path.exists(corpus):
        pool += json.load(open(corpus))
    for _ in range(nbases):
        p, base = make_path(rng)
        pool.append(p)
        for _ in range(nvar - 1):
            pool.append(make_path(rng, base)[0])
    pool = list(dict.fromkeys(pool))
    pairs = [(p, q) for p in pool for q in pool]
    if tier == "thorough" and len(pairs) > 60000:
        pairs = rng.sample(pairs, 60000)
    hres = C.run_hook(exe, [("tb", [p, q]) for p, q in pairs])
    # second round: re-parse what to_tokens printed
    toks = {}
    for (p, q), (st, f) in zip(pairs, hres):
        if st == "ok":
            toks[p] = f[7]
            toks[q] = f[8]
    tk = sorted(set(toks.values()))
    pres = C.run_hook(exe, [("dump", ["path", t]) for t in tk], tag="hookt")
    reparsed = {}
    for t, (st, f) in zip(tk, pres):
        reparsed[t] = decode(parse_dbg(f[0])) if st == "ok" else None

    lean_reqs, idx, dec = [], [], {}
    for i, ((p, q), (st, f)) in enumerate(zip(pairs, hres)):
        if st != "ok":
            if f and f[0].startswith("verif-parse-error"):
                rep.count("unparsable")
            else:
                dec[i] = ("panic", f[0] if f else "")
            continue
        tp, tq = decode(parse_dbg(f[0]))[3][0], decode(parse_dbg(f[1]))[3][0]
        dec[i] = ("ok", tp, tq, f[2] == "true", f[3] == "true", f[4], f[5], f[6], f[7], f[8])
        lean_reqs.append(f"tb {sexpr(tp)} {sexpr(tq)}")
        idx.append(i)
    lres = C.run_lean(lean_reqs)
    eqm = {}
    for i, resp in zip(idx, lres):
        p, q = pairs[i]
        _, tp, tq, eq_pq, eq_qp, cmp_, feedp, feedq, tokp, tokq = dec[i]
        v = parse_sexpr(resp)
        m_eq, m_eq2, m_key, m_feed = v[1] == "t", v[2] == "t", v[3] == "1", v[4] == "1"
        m_tokp = from_sx(v[5])
        eqm[(p, q)] = eq_pq
        rep.case((p, q), p != q, sample={"p": p, "q": q, "eq": eq_pq, "feed_equal": feedp == feedq, "tokens_p": tokp})
        rep.count("eq" if eq_pq else "ne")
        cj = {"case": [p, q]}
        if v[1] == "panic" or m_eq != eq_pq or m_eq2 != eq_qp or m_feed != (feedp == feedq):
            rep.disagreements.append({**cj, "impl": {"eq": eq_pq, "eq_rev": eq_qp, "feed_equal": feedp == feedq},
                                      "model": {"eq": v[1], "eq_rev": v[2], "feed_equal": m_feed}})
        rp = reparsed.get(tokp)
        if rp is None or rp != m_tokp:
            rep.disagreements.append({**cj, "what": "to_tokens", "impl_tokens": tokp,
                                      "impl_reparsed": tref.show(rp) if rp else "does not parse as a path", "model": tref.show(m_tokp)})
        # ---- oracle
        fail = None
        kp, kq = py_key(tp), py_key(tq)
        if eq_pq != (kp == kq):
            fail = {"clause": "equal exactly when same leading segments, identifier and lifetime/type/const arguments",
                    "impl_eq": eq_pq, "keys_equal": kp == kq}
        elif eq_pq != eq_qp:
            fail = {"clause": "symmetry"}
        elif eq_pq and feedp != feedq:
            fail = {"clause": "equal bounds must feed the hasher identically", "feed_p": feedp, "feed_q": feedq}
        elif p == q and not eq_pq:
            fail = {"clause": "reflexivity"}
        elif rp is None:
            fail = {"clause": "printed bound does not parse as a path", "tokens": tokp}
        elif py_key(rp) != kp or has_assoc(rp) or rp[3][0] != tp[3][0]:
            fail = {"clause": "printed bound is not the user's bound with exactly the bindings removed", "tokens": tokp}
        if fail:
            rep.oracle_failures.append({**cj, **fail})
    # transitivity over the pool
    ps = [p for p in pool if (p, p) in eqm]
    ntr = 0
    for a in ps:
        for b in ps:
            if not eqm.get((a, b)):
                continue
            for c in ps:
                if eqm.get((b, c)) and (a, c) in eqm:
                    ntr += 1
                    if not eqm[(a, c)]:
                        rep.oracle_failures.append({"case": [a, b, c], "clause": "transitivity"})
    rep.extra["transitivity_triples_checked"] = ntr
    for i, d in dec.items():
        if d[0] == "panic":
            rep.oracle_failures.append({"case": list(pairs[i]), "clause": "panic", "message": d[1][:300]})
    # de-duplicate oracle failures by clause + first path (one replay per distinct failing path is enough)
    seen, uniq = set(), []
    for f in rep.oracle_failures:
        key = (f["clause"], (f.get("case") or [f.get("user_bound")])[0])
        if key not in seen:
            seen.add(key)
            uniq.append(f)
    rep.oracle_failures = uniq
    return rep.finish()
