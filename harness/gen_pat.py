"""Grammar-driven generator of type / path / expression patterns (DESIGN.md §4.3) as a tiny AST that
prints Rust source text; substitution and single-point corruption happen on the AST, the text is what
both the implementation (through syn) and the model (through syn's Debug dump) see."""

P = "_ŠČ"

LEAVES = ["i32", "u8", "String", "bool", "str", "()", "GroupA", "m::Leaf"]
CTORS1 = ["Vec", "Option", "Box", "W1"]
CTORS2 = ["Result", "W2"]
LIFETIMES = ["'a", "'b", "'static"]
BINOPS = ["+", "-", "*", "/", "%", "<<", "&", "|", "^", "==", "<", "&&", "||"]
UNOPS = ["-", "!", "*"]


# ---------------------------------------------------------------- AST (tuples; first element = tag)
# types:  ('tp', i) ('leaf', s) ('ctor', name, [args]) ('tuple', [tys]) ('array', ty, expr) ('slice', ty)
#         ('ref', lt|None, mut, ty) ('ptr', mut, ty) ('fn', unsafe, abi|None, [tys], ret|None) ('dyn', [bounds])
#         ('never',) ('infer',) ('paren', ty) ('qpath', ty, trait, name) ('impl', [bounds])
# args:   ('aty', ty) ('alt', lt) ('aconst', expr) ('aassoc', name, ty) ('aassocc', name, expr)
# bounds: ('btrait', path_name, [args]) ('blt', lt)
# exprs:  ('ep', i) ('lit', s) ('path', s) ('bin', op, l, r) ('un', op, e) ('eparen', e) ('call', f, [es])
#         ('mcall', recv, name, [targs]|None, [es]) ('cast', e, ty) ('index', e, e) ('field', e, name)
#         ('etuple', [es]) ('earray', [es]) ('repeat', e, e) ('eref', mut, e) ('block', [stmts]) ('if', c, [stmts], [stmts]|None)
#         ('range', e|None, op, e|None) ('match', e, [(pat, e)]) ('closure', [pats], e) ('struct', name, [(f, e)])
# stmts:  ('let', pat, e) ('semi', e) ('tail', e)
# pats:   ('pid', name) ('pwild',) ('ptuple', [pats]) ('plit', s) ('por', [pats]) ('pslice', [pats]) ('pref', mut, pat)
#         ('pparen', pat) ('ptype', pat, ty) ('prest',)


def pr(t):
    k = t[0]
    if k == "tp":
        return f"{P}{t[1]}"
    if k == "leaf":
        return t[1]
    if k == "ctor":
        return t[1] + ("<" + ", ".join(pr(a) for a in t[2]) + ">" if t[2] is not None else "")
    if k == "tuple":
        if len(t[1]) == 1:
            return "(" + pr(t[1][0]) + ",)"
        return "(" + ", ".join(pr(x) for x in t[1]) + ")"
    if k == "array":
        return f"[{pr(t[1])}; {pr(t[2])}]"
    if k == "slice":
        return f"[{pr(t[1])}]"
    if k == "ref":
        return "&" + (t[1] + " " if t[1] else "") + ("mut " if t[2] else "") + pr(t[3])
    if k == "ptr":
        return "*" + ("mut " if t[1] else "const ") + pr(t[2])
    if k == "fn":
        s = ("unsafe " if t[1] else "") + (f"extern {t[2]} " if t[2] is not None else "")
        s = s.replace("extern  ", "extern ")
        s += "fn(" + ", ".join(pr(x) for x in t[3]) + ")"
        if t[4] is not None:
            s += " -> " + pr(t[4])
        return s
    if k == "dyn":
        return "dyn " + " + ".join(pr(b) for b in t[1])
    if k == "impl":
        return "impl " + " + ".join(pr(b) for b in t[1])
    if k == "never":
        return "!"
    if k == "infer":
        return "_"
    if k == "paren":
        return "(" + pr(t[1]) + ")"
    if k == "qpath":
        return f"<{pr(t[1])} as {t[2]}>::{t[3]}"
    if k == "lt_":
        return t[1]
    if k == "cst_":
        return pr(t[1])
    if k == "aty":
        return pr(t[1])
    if k == "alt":
        return t[1]
    if k == "aconst":
        e = t[1]
        if e[0] in ("lit", "block"):
            return pr(e)
        if e[0] == "un" and e[1] == "-" and e[2][0] == "lit":
            return pr(e)
        return "{ " + pr(e) + " }"
    if k == "aassoc":
        return f"{t[1]} = {pr(t[2])}"
    if k == "aassocc":
        return f"{t[1]} = " + pr(("aconst", t[2]))
    if k == "btrait":
        return t[1] + ("<" + ", ".join(pr(a) for a in t[2]) + ">" if t[2] is not None else "")
    if k == "blt":
        return t[1]
    # exprs
    if k == "ep":
        return f"{P}{t[1]}"
    if k in ("lit", "path"):
        return t[1]
    if k == "bin":
        return f"{pr(t[2])} {t[1]} {pr(t[3])}"
    if k == "un":
        return f"{t[1]}{pr(t[2])}"
    if k == "eparen":
        return "(" + pr(t[1]) + ")"
    if k == "call":
        return pr(t[1]) + "(" + ", ".join(pr(x) for x in t[2]) + ")"
    if k == "mcall":
        tf = "::<" + ", ".join(pr(a) for a in t[3]) + ">" if t[3] is not None else ""
        return f"{pr(t[1])}.{t[2]}{tf}(" + ", ".join(pr(x) for x in t[4]) + ")"
    if k == "cast":
        return f"{pr(t[1])} as {pr(t[2])}"
    if k == "index":
        return f"{pr(t[1])}[{pr(t[2])}]"
    if k == "field":
        return f"{pr(t[1])}.{t[2]}"
    if k == "etuple":
        if len(t[1]) == 1:
            return "(" + pr(t[1][0]) + ",)"
        return "(" + ", ".join(pr(x) for x in t[1]) + ")"
    if k == "earray":
        return "[" + ", ".join(pr(x) for x in t[1]) + "]"
    if k == "repeat":
        return f"[{pr(t[1])}; {pr(t[2])}]"
    if k == "eref":
        return "&" + ("mut " if t[1] else "") + pr(t[2])
    if k == "block":
        return "{ " + " ".join(pr(s) for s in t[1]) + " }"
    if k == "if":
        s = f"if {pr(t[1])} {{ " + " ".join(pr(x) for x in t[2]) + " }"
        if t[3] is not None:
            s += " else { " + " ".join(pr(x) for x in t[3]) + " }"
        return s
    if k == "range":
        return (pr(t[1]) if t[1] else "") + t[2] + (pr(t[3]) if t[3] else "")
    if k == "match":
        return f"match {pr(t[1])} {{ " + " ".join(f"{pr(p)} => {pr(e)}," for p, e in t[2]) + " }"
    if k == "closure":
        return "|" + ", ".join(pr(p) for p in t[1]) + "| " + pr(t[2])
    if k == "struct":
        return t[1] + " { " + ", ".join(f"{f}: {pr(e)}" for f, e in t[2]) + " }"
    if k == "let":
        return f"let {pr(t[1])} = {pr(t[2])};"
    if k == "semi":
        return pr(t[1]) + ";"
    if k == "tail":
        return pr(t[1])
    if k == "pid":
        return t[1]
    if k == "pwild":
        return "_"
    if k == "ptuple":
        if len(t[1]) == 1:
            return "(" + pr(t[1][0]) + ",)"
        return "(" + ", ".join(pr(x) for x in t[1]) + ")"
    if k == "plit":
        return t[1]
    if k == "por":
        return " | ".join(pr(x) for x in t[1])
    if k == "pslice":
        return "[" + ", ".join(pr(x) for x in t[1]) + "]"
    if k == "pref":
        return "&" + ("mut " if t[1] else "") + pr(t[2])
    if k == "pparen":
        return "(" + pr(t[1]) + ")"
    if k == "ptype":
        return f"{pr(t[1])}: {pr(t[2])}"
    if k == "prest":
        return ".."
    raise ValueError(t)


def is_node(x):
    return isinstance(x, tuple) and x and isinstance(x[0], str)


def subst(t, sig):
    """sig: dict i -> ('ty', type) | ('ex', expr); parameters not in sig stay."""
    if not is_node(t):
        if isinstance(t, list):
            return [subst(x, sig) for x in t]
        if isinstance(t, tuple):
            return tuple(subst(x, sig) for x in t)
        return t
    if t[0] == "tp" and t[1] in sig and sig[t[1]][0] == "ty":
        return sig[t[1]][1]
    if t[0] == "ep" and t[1] in sig and sig[t[1]][0] == "ex":
        return sig[t[1]][1]
    if t[0] == "aty" and t[1][0] == "tp" and t[1][1] in sig and sig[t[1][1]][0] == "ex":
        return ("aconst", sig[t[1][1]][1])
    return tuple([t[0]] + [subst(x, sig) for x in t[1:]])


def params_of(t, acc=None):
    acc = acc if acc is not None else []
    if is_node(t):
        if t[0] in ("tp", "ep"):
            acc.append((t[0], t[1]))
        for x in t[1:]:
            params_of(x, acc)
    elif isinstance(t, (list, tuple)):
        for x in t:
            params_of(x, acc)
    return acc


def nodes_of(t, path=(), acc=None):
    """all (path, node) pairs; path = tuple of child indices"""
    acc = acc if acc is not None else []
    if is_node(t):
        acc.append((path, t))
        for i, x in enumerate(t[1:], 1):
            nodes_of(x, path + (i,), acc)
    elif isinstance(t, (list, tuple)):
        for i, x in enumerate(t):
            nodes_of(x, path + (i,), acc)
    return acc


def replace_at(t, path, new):
    if not path:
        return new
    i = path[0]
    if isinstance(t, list):
        return t[:i] + [replace_at(t[i], path[1:], new)] + t[i + 1 :]
    lst = list(t)
    lst[i] = replace_at(t[i], path[1:], new)
    return tuple(lst)


class Gen:
    def __init__(self, rng, nparams=3, allow_params=True, exotic=0.25):
        self.r = rng
        self.np = nparams
        self.allow_params = allow_params
        self.exotic = exotic

    def pick(self, xs):
        return xs[self.r.randrange(len(xs))]

    # ---- types
    def ty(self, d, params=True):
        r = self.r
        if d <= 0 or r.random() < 0.25:
            if params and self.allow_params and r.random() < 0.5:
                return ("tp", r.randrange(self.np))
            return ("leaf", self.pick(LEAVES))
        c = r.random()
        if c < 0.22:
            return ("ctor", self.pick(CTORS1), [("aty", self.ty(d - 1, params))])
        if c < 0.32:
            return ("ctor", self.pick(CTORS2), [("aty", self.ty(d - 1, params)), ("aty", self.ty(d - 1, params))])
        if c < 0.47:
            n = self.pick([0, 1, 2, 2, 3])
            return ("tuple", [self.ty(d - 1, params) for _ in range(n)])
        if c < 0.55:
            return ("array", self.ty(d - 1, params), self.expr(min(d - 1, 2), params, lenpos=True))
        if c < 0.60:
            return ("slice", self.ty(d - 1, params))
        if c < 0.70:
            return ("ref", self.pick([None, None, "'a", "'b", "'_", "'static"]), r.random() < 0.4, self.ty(d - 1, params))
        if c < 0.75:
            return ("ptr", r.random() < 0.5, self.ty(d - 1, params))
        if c < 0.82:
            return ("ctor", self.pick(["W3", "m::W3"]), self.args(d - 1, params))
        if r.random() > self.exotic * 4:
            return ("ctor", self.pick(CTORS1), [("aty", self.ty(d - 1, params))])
        c = r.random()
        if c < 0.25:
            n = self.pick([0, 1, 2])
            return ("fn", r.random() < 0.2, self.pick([None, None, '"C"', "", '"system"', '"C-unwind"']),
                    [self.ty(d - 1, params) for _ in range(n)], self.ty(d - 1, params) if r.random() < 0.6 else None)
        if c < 0.45:
            return ("ctor", "Box", [("aty", ("dyn", self.bounds(d - 1, params)))])
        if c < 0.55:
            return self.pick([("never",), ("infer",)])
        if c < 0.70:
            return ("paren", self.ty(d - 1, params))
        if c < 0.90:
            return ("qpath", self.ty(d - 1, params), self.pick(["Tr", "Deref", "m::Tr"]), self.pick(["Target", "Out"]))
        return ("ref", None, False, ("dyn", self.bounds(d - 1, params)))

    def bounds(self, d, params):
        bs = [("btrait", self.pick(["Tr", "Obj", "m::Obj"]), self.args(d, params) if self.r.random() < 0.7 else None)]
        if self.r.random() < 0.3:
            bs.append(("blt", self.pick(LIFETIMES)))
        if self.r.random() < 0.2:
            bs.append(("btrait", "Send", None))
        if len(bs) > 1 and self.r.random() < 0.35:
            # the bounds of a trait object come in any order (`dyn Send + Tr<T>`, `dyn 'a + Tr<T>`): the trait whose arguments mention a
            # parameter need not be written first (seeded change C10i substituted only into the first trait bound)
            self.r.shuffle(bs)
            if bs[0][0] == "blt":          # a leading lifetime bound does not parse: `dyn 'a + Tr`
                bs.append(bs.pop(0))
        return bs

    def args(self, d, params):
        r = self.r
        n = self.pick([1, 2, 2, 3])
        out = []
        for _ in range(n):
            c = r.random()
            if c < 0.5:
                out.append(("aty", self.ty(d, params)))
            elif c < 0.65:
                out.append(("alt", self.pick(LIFETIMES + ["'_"])))
            elif c < 0.85:
                out.append(("aconst", self.expr(min(d, 2), params, lenpos=True)))
            else:
                out.append(("aassoc", self.pick(["Out", "Item"]), self.ty(d, params)))
        # syn requires lifetimes first? no: rustc does, syn does not. Keep bindings last to stay close to real code.
        out.sort(key=lambda a: {"alt": 0, "aty": 1, "aconst": 1, "aassoc": 2, "aassocc": 2}[a[0]])
        return out

    # ---- expressions
    def expr(self, d, params=True, lenpos=False, atomic=False):
        r = self.r
        if d <= 0 or r.random() < 0.3:
            c = r.random()
            if params and self.allow_params and c < 0.35:
                return ("ep", r.randrange(self.np))
            if c < 0.7:
                return ("lit", self.pick(["0", "1", "2", "3", "7usize", "true", '"s"', "'c'"]))
            return ("path", self.pick(["N", "M", "m::C", "usize::MAX"]))
        c = r.random()
        if atomic and c < 0.5:
            c = 0.5 + c
        if c < 0.25:
            return ("bin", self.pick(BINOPS), self.expr(d - 1, params, atomic=True), self.expr(d - 1, params, atomic=True))
        if c < 0.32:
            return ("un", self.pick(UNOPS), self.expr(d - 1, params, atomic=True))
        if c < 0.42:
            return ("eparen", self.expr(d - 1, params))
        if c < 0.52:
            return ("call", ("path", self.pick(["f", "m::g"])), [self.expr(d - 1, params) for _ in range(self.pick([0, 1, 2]))])
        if c < 0.60:
            tf = None if r.random() < 0.5 else [("aty", self.ty(1, params))]
            return ("mcall", self.expr(d - 1, params, atomic=True), self.pick(["len", "get"]), tf,
                    [self.expr(d - 1, params) for _ in range(self.pick([0, 1]))])
        if c < 0.66:
            return ("block", self.stmts(d - 1, params))
        if r.random() > self.exotic * 3:
            return ("lit", self.pick(["1", "2", "3"]))
        c = r.random()
        if c < 0.10:
            return ("eparen", ("cast", self.expr(d - 1, params, atomic=True), self.ty(1, params)))
        if c < 0.20:
            return ("index", self.expr(d - 1, params, atomic=True), self.expr(d - 1, params))
        if c < 0.28:
            return ("field", self.expr(d - 1, params, atomic=True), self.pick(["x", "0"]))
        if c < 0.38:
            return ("etuple", [self.expr(d - 1, params) for _ in range(self.pick([0, 1, 2, 3]))])
        if c < 0.46:
            return ("earray", [self.expr(d - 1, params) for _ in range(self.pick([0, 1, 2]))])
        if c < 0.52:
            return ("repeat", self.expr(d - 1, params), self.expr(d - 1, params))
        if c < 0.60:
            return ("eparen", ("eref", r.random() < 0.4, self.expr(d - 1, params, atomic=True)))
        if c < 0.70:
            return ("if", self.expr(d - 1, params, atomic=True), self.stmts(d - 1, params), self.stmts(d - 1, params) if r.random() < 0.6 else None)
        if c < 0.76:
            return ("eparen", ("range", self.expr(d - 1, params, atomic=True) if r.random() < 0.7 else None, self.pick(["..", "..="]),
                               self.expr(d - 1, params, atomic=True)))
        if c < 0.86:
            return ("match", self.expr(d - 1, params, atomic=True),
                    [(self.pat(d - 1), self.expr(d - 1, params)) for _ in range(self.pick([1, 2]))])
        if c < 0.93:
            return ("eparen", ("closure", [self.pat(d - 1) for _ in range(self.pick([0, 1, 2]))], self.expr(d - 1, params, atomic=True)))
        return ("eparen", ("struct", self.pick(["S", "m::S"]), [(self.pick(["x", "y"]), self.expr(d - 1, params))]))

    def stmts(self, d, params):
        r = self.r
        out = []
        for _ in range(self.pick([0, 0, 1])):
            if r.random() < 0.6:
                out.append(("let", self.pat(d), self.expr(d, params)))
            else:
                out.append(("semi", self.expr(d, params)))
        if r.random() < 0.85:
            out.append(("tail", self.expr(d, params)))
        else:
            out.append(("semi", self.expr(d, params)))
        return out

    def pat(self, d):
        r = self.r
        c = r.random()
        if d <= 0 or c < 0.4:
            return self.pick([("pid", "x"), ("pid", "y"), ("pwild",), ("plit", "1"), ("plit", "2")])
        if c < 0.6:
            return ("ptuple", [self.pat(d - 1) for _ in range(self.pick([0, 1, 2, 3]))])
        if c < 0.7:
            return ("pparen", ("por", [self.pat(d - 1) for _ in range(self.pick([2, 3]))]))
        if c < 0.8:
            return ("pslice", [self.pat(d - 1) for _ in range(self.pick([0, 1, 2, 3]))])
        if c < 0.9:
            return ("pref", r.random() < 0.4, self.pat(d - 1))
        return ("pparen", self.pat(d - 1))

    # ---- values for substitutions
    def value_for(self, kind, d, member_params=True):
        old = self.allow_params
        self.allow_params = member_params
        try:
            if kind == "tp":
                c = self.r.random()
                if c < 0.15:
                    return ("ty", ("tp", self.r.randrange(self.np)))
                if c < 0.25:
                    return ("ex", self.expr(0, params=False, lenpos=True) if self.r.random() < 0.7 else ("lit", "3"))
                return ("ty", self.ty(d))
            c = self.r.random()
            if c < 0.2:
                return ("ex", ("ep", self.r.randrange(self.np)))
            e = self.expr(d, atomic=True)
            if e[0] in ("bin", "un", "cast", "range", "closure", "eref", "struct"):
                e = ("eparen", e)
            return ("ex", e)
        finally:
            self.allow_params = old

    # ---- single point corruption of a non-parameter position
    def corrupt(self, t):
        """returns a tree differing from t at exactly one guard position, or None"""
        r = self.r
        cands = [(p, n) for p, n in nodes_of(t)]
        r.shuffle(cands)
        for path, n in cands:
            k = n[0]
            new = None
            if k == "ref":
                c = r.random()
                if c < 0.5:
                    new = ("ref", n[1], not n[2], n[3])
                else:
                    if n[1] == "'_":
                        new = ("ref", n[1], not n[2], n[3])
                    else:
                        new = ("ref", self.pick([x for x in [None, "'a", "'b", "'static"] if x != n[1]]), n[2], n[3])
            elif k == "ptr":
                new = ("ptr", not n[1], n[2])
            elif k == "leaf":
                new = ("leaf", self.pick([x for x in LEAVES if x != n[1]]))
            elif k == "ctor":
                if r.random() < 0.5:
                    new = ("ctor", n[1] + "X", n[2])
                elif n[2]:
                    new = ("ctor", n[1], n[2] + [("aty", ("leaf", "u8"))])
            elif k == "tuple":
                new = ("tuple", n[1] + [("leaf", "u8")])
            elif k == "lit":
                new = ("lit", self.pick([x for x in ["0", "1", "2", "3", "9"] if x != n[1]]))
            elif k == "path":
                new = ("path", n[1] + "Z")
            elif k == "bin":
                new = ("bin", self.pick([o for o in BINOPS if o != n[1]]), n[2], n[3])
            elif k == "un":
                new = ("un", self.pick([o for o in UNOPS if o != n[1]]), n[2])
            elif k == "alt":
                if n[1] != "'_":
                    new = ("alt", self.pick([x for x in LIFETIMES if x != n[1]]))
            elif k == "aassoc":
                new = ("aassoc", n[1] + "X", n[2])
            elif k == "fn":
                c = r.random()
                if c < 0.35:
                    # another ABI: none (Rust ABI) vs `extern`/`extern "C"` vs `extern "system"`
                    norm = lambda a: None if a is None else ('"C"' if a in ("", '"C"') else a)
                    new = ("fn", n[1], self.pick([a for a in [None, '"C"', "", '"system"', '"C-unwind"', '"Rust"'] if norm(a) != norm(n[2])]), n[3], n[4])
                elif c < 0.55:
                    new = ("fn", not n[1], n[2], n[3], n[4])
                elif c < 0.7:
                    new = ("fn", n[1], n[2], n[3] + [("leaf", "u8")], n[4])
                else:
                    new = ("fn", n[1], n[2], n[3], None if n[4] is not None else ("leaf", "u8"))
            elif k == "qpath":
                new = ("qpath", n[1], n[2], n[3] + "X")
            elif k == "btrait":
                new = ("btrait", n[1] + "X", n[2])
            elif k == "mcall":
                new = ("mcall", n[1], n[2] + "x", n[3], n[4])
            elif k == "call":
                new = ("call", n[1], n[2] + [("lit", "1")])
            elif k == "field":
                new = ("field", n[1], n[2] + "x" if not n[2].isdigit() else "1" if n[2] == "0" else "0")
            elif k == "etuple":
                new = ("etuple", n[1] + [("lit", "1")])
            elif k == "eref":
                new = ("eref", not n[1], n[2])
            elif k == "array":
                if n[2][0] == "lit":
                    new = ("array", n[1], ("lit", "9"))
            if new is not None and new != n:
                return replace_at(t, path, new), k
        return None, None
