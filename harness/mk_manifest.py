import json, subprocess
props=[json.loads(l) for l in open('/verif/properties.jsonl')]
built = json.load(open('/verif/harness/built.json'))
checks=[]; na=[]
for p in props:
    pid=p['id']
    if pid in built:
        b=built[pid]
        checks.append({
          "property_id": pid,
          "quick_cmd": f"./check {pid} --tier quick",
          "thorough_cmd": f"./check {pid} --tier thorough",
          "evidence_file": f"/verif/evidence/{pid}.json",
          "replay_cmd_template": f"./check {pid} --replay {{path}}",
          "engine": "lean4-model+correspondence",
          "level_claimed": {"category": b.get("category","proof"), "text": b["text"], "design_ref": b.get("design_ref","DESIGN.md §7 "+pid)},
          "level_note": b["note"],
          "technique": b["technique"],
        })
    else:
        na.append({"property_id": pid, "reason": "check not built yet in this round (planned: DESIGN.md §7 "+pid+"); not a claim that the technique cannot apply"})
hook_commits = subprocess.run(['git','-C','/repo','log','--format=%h %s'],capture_output=True,text=True).stdout.splitlines()
m={
 "version": 1,
 "setup_cmd": "cd /verif/lean && lake build DisjointImpls driver",
 "hooks": {
   "guard": "--cfg disjoint_impls_verif (RUSTFLAGS), module src/verif_driver.rs compiled only under cfg(all(test, disjoint_impls_verif))",
   "enable": "RUSTFLAGS='--cfg disjoint_impls_verif' cargo test --offline --lib --no-run (CARGO_TARGET_DIR=/verif/.work/target-hook); the checks run the resulting unit-test binary with DISJOINT_IMPLS_VERIF_IN/OUT",
   "baseline_off_cmd": "cd /repo && cargo test --workspace --no-fail-fast --offline",
   "source_commits": [c.split()[0] for c in hook_commits if 'verif hook' in c],
   "add_only": True
 },
 "engines": [
   {"name": "lean4-model+correspondence", "path": "/verif/lean, /verif/harness, /verif/check",
    "serves_properties": sorted(built.keys()),
    "kind_free_text": "hand-written executable Lean 4 model of the macro + theorems (lake build, #print axioms audit) + differential correspondence against /repo's working tree (cfg-guarded in-crate driver for private functions, rustc for whole programs) + per-case oracles independent of the model"}
 ],
 "checks": checks,
 "not_applicable": na,
 "notes": "See DESIGN.md. Fixes of genuine defects are unguarded `fix:` commits in /repo: " + "; ".join(c for c in hook_commits if c.split(' ',1)[1].startswith('fix:'))
}
json.dump(m, open('/verif/MANIFEST.json','w'), indent=1, ensure_ascii=False)
print(len(checks), 'checks;', len(na), 'n/a')
