"""Generic parser for Rust `{:?}` output of syn ASTs (feature `extra-traits`) and decoder into the
positional model tree `T` used by the Lean model (DESIGN.md section 3.4).

Parsed debug value (`Dbg`):
    ('node', name, [(field, Dbg), ...])      Name { f: v, ... }
    ('tup',  name, [Dbg, ...])               Name(v, ...)   /  (v, ...) with name ''
    ('list', [Dbg, ...])                     [v, ...]
    ('map',  [(Dbg, Dbg), ...])              {k: v, ...}
    ('atom', text)                           bare path / number / string / char literal

Model tree (`T`):
    ('P', name)                              type-position parameter   (`_ŠČ…` as a lone Type::Path)
    ('E', name)                              expr-position parameter   (`_ŠČ…` as a lone Expr::Path)
    ('N', kind, [atom, ...], [T, ...])       everything else, positional
"""

import re

PARAM_PREFIX = "_ŠČ"

# syn token type names (Debug of a token prints just its name). Bare occurrences carry no information.
TOKENS = set("""
Abstract As Async Auto Await Become Box Break Const Continue Crate Default Do Dyn Else Enum Extern Final Fn For If
Impl In Let Loop Macro Match Mod Move Mut Override Priv Pub Raw Ref Return SelfType SelfValue Static Struct Super
Trait Try Type Typeof Union Unsafe Unsized Use Virtual Where While Yield
And AndAnd AndEq At Caret CaretEq Colon Comma Dollar Dot DotDot DotDotDot DotDotEq Eq EqEq FatArrow Ge Gt LArrow
Le Lt Minus MinusEq Ne Not Or OrEq OrOr PathSep Percent PercentEq Plus PlusEq Pound Question RArrow Semi Shl ShlEq
Shr ShrEq Slash SlashEq Star StarEq Tilde Underscore Brace Bracket Paren Group Span
""".split())


class DbgParseError(Exception):
    pass


_ident_re = re.compile(r"[A-Za-z_\u0080-￿][A-Za-z0-9_\u0080-￿]*(::[A-Za-z_\u0080-￿][A-Za-z0-9_\u0080-￿]*)*")
_raw_ident_re = re.compile(r"r#[A-Za-z_][A-Za-z0-9_]*")
_num_re = re.compile(r"-?[0-9][0-9A-Za-z_\.]*")


class _P:
    def __init__(self, s):
        self.s = s
        self.i = 0

    def ws(self):
        s, i = self.s, self.i
        while i < len(s) and s[i] == " ":
            i += 1
        self.i = i

    def peek(self):
        self.ws()
        return self.s[self.i] if self.i < len(self.s) else ""

    def expect(self, c):
        self.ws()
        if not self.s.startswith(c, self.i):
            raise DbgParseError(f"expected {c!r} at {self.i}: {self.s[self.i:self.i+40]!r}")
        self.i += len(c)

    def string(self, quote):
        # returns the raw literal text including quotes
        s, i = self.s, self.i
        assert s[i] == quote
        j = i + 1
        while j < len(s):
            if s[j] == "\\":
                j += 2
                continue
            if s[j] == quote:
                break
            j += 1
        else:
            raise DbgParseError("unterminated literal")
        self.i = j + 1
        return s[i : j + 1]

    def value(self):
        c = self.peek()
        s = self.s
        if c == "[":
            self.i += 1
            return ("list", self.seq("]"))
        if c == "(":
            self.i += 1
            return ("tup", "", self.seq(")"))
        if c == "{":
            self.i += 1
            entries = []
            while True:
                if self.peek() == "}":
                    self.i += 1
                    break
                k = self.value()
                if self.peek() == ":":
                    self.i += 1
                    v = self.value()
                    entries.append((k, v))
                else:
                    entries.append((k, None))   # a set
                if self.peek() == ",":
                    self.i += 1
            if entries and all(v is None for _, v in entries):
                return ("tup", "Set", [k for k, _ in entries])
            return ("map", entries)
        if c == '"':
            return ("atom", self.string('"'))
        if c == "'":
            return ("atom", self.string("'"))
        if c == "b" and self.i + 1 < len(s) and s[self.i + 1] in "\"'":
            self.i += 1
            return ("atom", "b" + self.string(s[self.i]))
        m = _num_re.match(s, self.i)
        if m:
            self.i = m.end()
            return ("atom", m.group(0))
        m = _raw_ident_re.match(s, self.i) or _ident_re.match(s, self.i)
        if not m:
            raise DbgParseError(f"unexpected {s[self.i:self.i+40]!r} at {self.i}")
        name = m.group(0)
        self.i = m.end()
        # suffix literal forms like 1u8 are handled by _num_re; here: struct / tuple / bare
        c = self.peek()
        if c == "{":
            self.i += 1
            fields = []
            while True:
                if self.peek() == "}":
                    self.i += 1
                    break
                m = _ident_re.match(s, self.i) or _num_re.match(s, self.i)
                if not m:
                    raise DbgParseError(f"field name expected at {self.i}: {s[self.i:self.i+40]!r}")
                fname = m.group(0)
                self.i = m.end()
                self.expect(":")
                fields.append((fname, self.value()))
                if self.peek() == ",":
                    self.i += 1
            return ("node", name, fields)
        if c == "(":
            self.i += 1
            if name == "Ident":
                # Ident(x): raw identifier text up to the closing paren
                j = s.index(")", self.i)
                txt = s[self.i : j].strip()
                self.i = j + 1
                return ("tup", "Ident", [("atom", txt)])
            return ("tup", name, self.seq(")"))
        if c == "[" and name == "TokenStream":
            self.i += 1
            return ("tup", "TokenStream", [("list", self.seq("]"))])
        return ("atom", name)

    def seq(self, close):
        out = []
        while True:
            if self.peek() == close:
                self.i += 1
                return out
            out.append(self.value())
            if self.peek() == ",":
                self.i += 1


def parse_dbg(text):
    p = _P(text.strip())
    v = p.value()
    p.ws()
    if p.i != len(p.s):
        raise DbgParseError(f"trailing input at {p.i}: {p.s[p.i:p.i+40]!r}")
    return v


# ---------------------------------------------------------------------------------------------
# Schema: the only per-node knowledge.  Everything not mentioned follows the generic rule
# "bare tokens and spans are dropped, every other field is a positional child".
#   IGN[kind]   = fields that `Superset` never looks at (attrs, presentational tokens, ...)
#   EQ[kind]    = fields the code compares with `==` as a whole (kept as one opaque leaf)
#   ORDER[kind] = field order in which the code's `is_superset` visits/merges (default: declaration order)
# ---------------------------------------------------------------------------------------------
IGN = {
    "PathArguments::AngleBracketed": {"colon2_token"},
    "AngleBracketedGenericArguments": {"colon2_token"},
    "Arm": {"comma"},
    "FieldValue": {"colon_token"},
    "StmtMacro": {"semi_token"},
    "TraitBound": {"paren_token"},
    "Type::TraitObject": {"dyn_token"},
    "Local": {},
}
# ignored by the matcher although not presentation (a finding of C09) / optional child where a missing side matches anything
IGN_LOSSY = {("Path", "leading_colon")}
OPT_WILD = {("Expr::MethodCall", "turbofish")}
EQ = {
    "Type::BareFn": {"variadic"},
    "BareFnArg": {"name"},
    "Type::Macro": {"mac"},
    "Expr::Macro": {"mac"},
    "Pat::Macro": {"mac"},
    "StmtMacro": {"mac"},
}
ORDER = {
    "Expr::Binary": ["op", "left", "right", "attrs"],
    "Type::BareFn": ["unsafety", "variadic", "abi", "lifetimes", "inputs", "output"],
    "Expr::Closure": ["constness", "movability", "asyncness", "capture", "attrs", "lifetimes", "inputs", "output", "body"],
    "Expr::MethodCall": ["method", "attrs", "receiver", "turbofish", "args"],
    "Expr::Struct": ["dot2_token", "attrs", "qself", "path", "fields", "rest"],
}


def canon_text(d):
    """Canonical text of a Dbg value with bare tokens/spans removed (for EQ leaves)."""
    k = d[0]
    if k == "atom":
        return d[1]
    if k == "list":
        return "[" + ",".join(canon_text(x) for x in d[1] if not _is_token(x)) + "]"
    if k == "tup":
        return d[1] + "(" + ",".join(canon_text(x) for x in d[2] if not _is_token(x)) + ")"
    if k == "node":
        return d[1] + "{" + ",".join(f"{f}:{canon_text(v)}" for f, v in d[2] if not _is_token(v)) + "}"
    if k == "map":
        return "{" + ",".join(canon_text(a) + ":" + canon_text(b) for a, b in d[1]) + "}"
    raise ValueError(k)


def _is_token(d):
    return d[0] == "atom" and d[1] in TOKENS


def N(kind, atoms=(), kids=()):
    return ("N", kind, list(atoms), list(kids))


def _param_of(path_t):
    """If `path_t` (decoded `Path`) is a single argument-free `_ŠČ…` segment return the identifier."""
    if path_t[0] != "N" or path_t[1] != "Path":
        return None
    lead = path_t[3][0]
    if lead != N("IgnL", [], [N("None")]):
        return None   # syn::Path::get_ident requires leading_colon.is_none()
    segs = path_t[3][1]
    if segs[0] != "N" or segs[1] != "List" or len(segs[3]) != 1:
        return None
    seg = segs[3][0]
    ident, args = seg[3][0], seg[3][1]
    if args[1] != "PathArguments::None":
        return None
    name = ident[2][0]
    return name if name.startswith(PARAM_PREFIX) else None


def decode(d):
    """Dbg -> T"""
    k = d[0]
    if k == "atom":
        t = d[1]
        if "::" in t or t in ("None", "true", "false", "Equal", "Less", "Greater"):
            return N(t)
        return N("Atom", [t])
    if k == "list":
        return N("List", [], [decode(x) for x in d[1] if not _is_token(x)])
    if k == "map":
        return N("Map", [], [N("Entry", [], [decode(a), decode(b)]) for a, b in d[1]])
    if k == "tup":
        name, vals = d[1], d[2]
        if name == "Ident":
            return N("Ident", [vals[0][1]])
        if name == "Some" and len(vals) == 1 and _is_token(vals[0]):
            return N("Some", [vals[0][1]])
        kids = [decode(x) for x in vals if not _is_token(x)]
        if name == "Stmt::Expr" and len(kids) == 2:
            kids[1] = N("IgnL", [], [kids[1]])
        return N(name or "Tuple", [], kids)
    if k == "node":
        name, fields = d[1], d[2]
        ign = IGN.get(name, ())
        eq = EQ.get(name, ())
        order = ORDER.get(name)
        if order:
            pos = {f: i for i, f in enumerate(order)}
            fields = sorted(fields, key=lambda fv: pos.get(fv[0], len(pos)))
        kids = []
        for f, v in fields:
            if _is_token(v):
                continue
            if f == "attrs" or f in ign:
                kids.append(N("Ign", [], [decode(v)]))
            elif (name, f) in IGN_LOSSY:
                kids.append(N("IgnL", [], [decode(v)]))
            elif (name, f) in OPT_WILD:
                kids.append(N("OptWild", [], [decode(v)]))
            elif f in eq:
                kids.append(N("Eq", [canon_text(v)]))
            elif name == "Type::BareFn" and f == "abi":
                kids.append(_decode_abi(v))
            else:
                kids.append(decode(v))
        if name == "TypeParamBound::Lifetime":
            # syn prints this variant flattened; restore the `Lifetime` node every other position has
            return N(name, [], [N("Lifetime", [], kids)])
        t = N(name, [], kids)
        if name == "Type::Path":
            qself, path = kids[0], kids[1]
            p = _param_of(path)
            if p is not None and qself[1] == "None":
                return ("P", p)
        if name == "Expr::Path":
            attrs, qself, path = kids[0], kids[1], kids[2]
            p = _param_of(path)
            if p is not None and qself[1] == "None" and attrs == N("Ign", [], [N("List")]):
                return ("E", p)
        return t
    raise ValueError(k)


def _decode_abi(v):
    # Option<Abi { extern_token, name: Option<LitStr> }>; the code treats `extern` as `extern "C"`.
    if v == ("atom", "None"):
        return N("Abi", ["-"], [N("Ign", [], [decode(v)])])
    abi = v[2][0]
    name = dict(abi[2])["name"]
    if name == ("atom", "None"):
        norm = '"C"'
    else:
        norm = canon_text(name)
        m = re.search(r'"[^"]*"', norm)
        norm = m.group(0) if m else norm
    return N("Abi", [norm], [N("Ign", [], [decode(v)])])


# ---------------------------------------------------------------------------------------------
# S-expressions for the Lean driver
# ---------------------------------------------------------------------------------------------
def _q(s):
    return '"' + s.replace("\\", "\\\\").replace('"', '\\"') + '"'


def sexpr(t):
    if t[0] == "P":
        return f"(P {_q(t[1])})"
    if t[0] == "E":
        return f"(E {_q(t[1])})"
    _, kind, atoms, kids = t
    return "(N " + _q(kind) + " (" + " ".join(_q(a) for a in atoms) + ") (" + " ".join(sexpr(x) for x in kids) + "))"


def parse_sexpr(s):
    """inverse of the Lean driver's printer: returns nested python lists / strings"""
    i = 0
    n = len(s)

    def val():
        nonlocal i
        while i < n and s[i] == " ":
            i += 1
        if s[i] == "(":
            i += 1
            out = []
            while True:
                while i < n and s[i] == " ":
                    i += 1
                if s[i] == ")":
                    i += 1
                    return out
                out.append(val())
        if s[i] == '"':
            j = i + 1
            buf = []
            while s[j] != '"':
                if s[j] == "\\":
                    j += 1
                buf.append(s[j])
                j += 1
            i = j + 1
            return ("s", "".join(buf))
        j = i
        while j < n and s[j] not in " ()":
            j += 1
        tok = s[i:j]
        i = j
        return tok

    v = val()
    return v


def from_sx(v):
    """nested sexpr (as returned by parse_sexpr) -> T"""
    tag = v[0]
    if tag == "P":
        return ("P", v[1][1])
    if tag == "E":
        return ("E", v[1][1])
    if tag == "N":
        return ("N", v[1][1], [a[1] for a in v[2]], [from_sx(x) for x in v[3]])
    raise ValueError(v)


def tree_size(t):
    if t[0] in "PE":
        return 1
    return 1 + sum(tree_size(k) for k in t[3])


def kinds_of(t, acc=None):
    acc = acc if acc is not None else {}
    if t[0] in "PE":
        acc[t[0]] = acc.get(t[0], 0) + 1
        return acc
    acc[t[1]] = acc.get(t[1], 0) + 1
    for k in t[3]:
        kinds_of(k, acc)
    return acc
