import DisjointImpls.Tree
import DisjointImpls.Match
import DisjointImpls.RevSub
import DisjointImpls.Key
import DisjointImpls.Sexpr
