import DisjointImpls.Tree
import DisjointImpls.Match
import DisjointImpls.RevSub
import DisjointImpls.Key
import DisjointImpls.Sexpr
import DisjointImpls.Sem
import DisjointImpls.Bounds
import DisjointImpls.Lemmas.Refine
