/-
  Line-protocol driver for the executable model (DESIGN.md §3.3).
  One request per line:  <id> <cmd> <sexpr>...      one response per line:  <id> <sexpr>
-/
import DisjointImpls.Sexpr
import DisjointImpls.Match
import DisjointImpls.RevSub
import DisjointImpls.Key
import DisjointImpls.Bounds
import DisjointImpls.Validate
import DisjointImpls.Canon
import DisjointImpls.CanonWF
import DisjointImpls.Group
import DisjointImpls.Expand
import DisjointImpls.ExpandOK
import DisjointImpls.Lemmas.ExpandLemmas
import DisjointImpls.Lemmas.MatchSound
import DisjointImpls.Lemmas.RevSubLemmas
import DisjointImpls.Lemmas.GroupLemmas
import DisjointImpls.Lemmas.FlatOrder
import DisjointImpls.Props.C11
import DisjointImpls.Lemmas.EndToEnd
import DisjointImpls.CanonAlphaDefs
import DisjointImpls.Lemmas.CanonIsRenamingDefs
import DisjointImpls.Lemmas.CanonRoundTripDefs
import DisjointImpls.Lemmas.CanonHeaderConverseDefs
import DisjointImpls.Lemmas.EndToEndNested
import DisjointImpls.Lemmas.Acyclic
import DisjointImpls.Lemmas.FlatAccept
import DisjointImpls.Lemmas.ExpandInherent
import DisjointImpls.Props.C17
import DisjointImpls.Lemmas.ExpandItems
import DisjointImpls.Lemmas.ExpandEmit
import DisjointImpls.Lemmas.RevSubExact
import DisjointImpls.Lemmas.OverlapEndToEnd
import DisjointImpls.Lemmas.HelperAlign
open DI

def rToSx : R → Sx
  | .no => .list [.sym "no"]
  | .panic => .list [.sym "panic"]
  | .yes σ l => .list [.sym "yes", .sym (if l then "1" else "0"), Subst.toSx σ]

def b3ToSx : B3 → Sx
  | .t => .sym "t" | .f => .sym "f" | .panic => .sym "panic"

def boolSx (b : Bool) : Sx := .sym (if b then "1" else "0")

def handleValidate (args : List Sx) : Sx :=
  match args with
  | tr :: fams =>
      let trait_ := T.ofSx tr
      let families := fams.map (fun f => match f with
        | .list (.sym "fam" :: items) => items.filterMap T.ofSx
        | _ => [])
      match validateAll trait_ families with
      | .ok () => .list [.sym "ok"]
      | .error d => .list [.sym "error", .str d.message]
  | _ => .list [.sym "bad-args"]

def optSx (o : Option T) : Sx := match o with | some t => .list [.sym "some", t.toSx] | none => .list [.sym "none"]

def handleExpand (args : List Sx) : Sx :=
  match args with
  | tr :: items =>
      let trait_ := T.ofSx tr
      match parseGroups (items.filterMap T.ofSx) with
      | .ok groups =>
          .list [.sym "ok", .list ((List.zip (List.range groups.length) groups).map (fun ig =>
            let idx := ig.1
            let g := ig.2
            let nkeys := g.2.1.idents.length
            let firstItem := match g.2.2 with | b :: _ => b.item | [] => .node "?" [] []
            let htSx : Sx := match trait_ with
              | some t => optSx (helperTraitOfTrait t idx nkeys)
              | none => (match helperTraitOfInherent firstItem idx nkeys with
                  | .ok t => .list [.sym "some", t.toSx]
                  | .panic => .list [.sym "panic"]
                  | .unmodelled => .list [.sym "unmodelled"])
            let mi : Sx := match trait_ with
              | some t => (match mainImplOfTrait t idx g with
                  | .ok m => .list [.sym "ok", m.toSx]
                  | .panic => .list [.sym "panic"]
                  | .unmodelled => .list [.sym "unmodelled"])
              | none => (match mainImplInherent idx g with
                  | .ok (some m) => .list [.sym "ok", m.toSx]
                  | .ok none => .list [.sym "absent"]
                  | .panic => .list [.sym "panic"]
                  | .unmodelled => .list [.sym "unmodelled"])
            .list [htSx,
              (match helperImpls idx g with
               | some hs => .list (hs.map T.toSx)
               | none => .list [.sym "panic"]), mi,
              -- hypotheses of C01_expandOK_of_expand evaluated on this family of the model's grouping
              boolSx (expandWF g), boolSx (wildcardsFixed g),
              -- inherent mode: hypotheses (ExInh.sideConditions) and conclusion of C17_expandOK_of_expand_inherent on the model's expansion
              (match trait_ with
               | some _ => .list []
               | none => (match helperTraitOfInherent firstItem idx nkeys, helperImpls idx g, mainImplInherent idx g with
                   | .ok tr, some hs, .ok (some m) => .list [boolSx (ExInh.sideConditions g), boolSx (expandOKInh_inh g (thetasOf g) tr hs m)]
                   | _, _, _ => .list [boolSx (ExInh.sideConditions g), .sym "none"])),
              -- conclusions of C01_itemsOK_of_expand (trait mode) and C12_exact_checkers_hold (both modes) on the model's expansion
              (match trait_ with
               | some t => (match helperTraitOfTrait t idx nkeys, helperImpls idx g, mainImplOfTrait t idx g with
                   | some ht, some hs, .ok m => .list [boolSx (expandWF g), boolSx (itemsOK_it t idx g ht hs m),
                       boolSx (mainWhereExact_em trait_ idx g m), boolSx (helperRowsExact_em g hs)]
                   | _, _, _ => .list [])
               | none => (match helperImpls idx g, mainImplInherent idx g with
                   | some hs, .ok (some m) => .list [boolSx false, boolSx true, boolSx (mainWhereExact_em none idx g m), boolSx (helperRowsExact_em g hs)]
                   | _, _ => .list [])),
              -- hypotheses (genericsShaped_it, familyKindsMatch_ha) and conclusion of C16_kinds_align_family on the model's expansion, and the exact
              -- freshness condition keyNamesFresh_ha of C16_helper_generics_shape (trait mode)
              (match trait_ with
               | some t => (match helperTraitOfTrait t idx nkeys, helperImpls idx g, mainImplOfTrait t idx g with
                   | some ht, some hs, .ok m =>
                       let hp := traitParams_inh ht
                       let implsOK := hs.all (fun h => match XOK.traitPathOf h with
                         | some p => kindsMatch_ha hp (printedArgs_inh (XOK.segArgs (XOK.lastSeg p)))
                         | none => false)
                       let refOK := match mainHref_inh m with
                         | some href => kindsMatch_ha hp (XOK.segArgs (XOK.lastSeg href))
                         | none => false
                       .list [boolSx (genericsShaped_it (XOK.kid t 6) && familyKindsMatch_ha t g), boolSx (implsOK && refOK),
                              boolSx (keyNamesFresh_ha (traitParamsOf_it t) nkeys)]
                   | _, _, _ => .list [])
               | none => .list [])]))]
      | .unableToForm _ => .list [.sym "unable"]
      | .panic _ => .list [.sym "panic"]
  | _ => .list [.sym "bad-args"]

/-- type parentheses / invisible groups removed everywhere (harness: `shape.unwrap`) -/
partial def unwrapT : T → T
  | .node k as ks =>
      if (k == "Type::Paren" || k == "Type::Group") && !ks.isEmpty then unwrapT (ks.getLast?.getD (.node "?" [] []))
      else .node k as (ks.map unwrapT)
  | t => t

/-- an `ItemImpl` with the wrappers of its trait path and self type removed (harness: `shape.unwrap_header`) -/
def unwrapHeader : T → T
  | .node "ItemImpl" as [a, d, u, g, tr, s, items] => .node "ItemImpl" as [a, d, u, g, unwrapT tr, unwrapT s, items]
  | t => t

/-- `expandok <gid> <idents> <payloads> <main> <helper_1> … <helper_n> -- <item_1> … <item_n>`:
    `ExpandOK` (ExpandOK.lean) evaluated on real trees. `idents` = `List [Tuple [Bounded [b], TraitBound [p], Ident [a]] …]`,
    `payloads` = `List [List [Some [p] | None …] …]`, `main` = `Some [item]` or `None` (as for `family`); the members'
    substitutions are computed as for `family`: `sup (unwrap gid) (header of the unwrapped item)`.
    Response: `(expandok <all> <same-length> (<helper_1> … <helper_n>) <main>)`, every entry `0`/`1`. -/
def handleExpandOK (args : List Sx) : Sx :=
  let (pre, post) := args.span (fun a => match a with | .sym "--" => false | _ => true)
  match pre.filterMap T.ofSx, (post.drop 1).filterMap T.ofSx with
  | gid :: identsT :: rowsT :: mainT :: helpers, items =>
      let idents : List (BKey × String) := match identsT with
        | .node "List" [] xs => xs.filterMap (fun x => match x with
            | .node "Tuple" [] [.node "Bounded" [] [b], .node "TraitBound" [] [p], .node "Ident" [a] []] => some ((b, p), a)
            | _ => none)
        | _ => []
      let rows : List (List (Option T)) := match rowsT with
        | .node "List" [] xs => xs.map decodeRow
        | _ => []
      let thetas : List Subst := items.map (fun it => match sup (unwrapT gid) (mkHdr (unwrapHeader it)) with
        | .yes σ _ => σ
        | _ => [])
      let keys := XOK.keysOf idents
      let inherent := XOK.kind (XOK.kid gid 0) == "None"
      let lenOK := helpers.length == items.length
      let perHelper := (List.range (min helpers.length items.length)).map (fun i =>
        XOK.checkHelper inherent keys (items.getD i XOK.dummy) (helpers.getD i XOK.dummy) (rows.getD i []) (thetas.getD i []))
      match mainT with
      | .node "Some" [] [m] =>
          let mainOK := XOK.checkMain inherent gid keys m
          .list [.sym "expandok", boolSx (expandOKCore gid idents rows items thetas helpers m), boolSx lenOK,
            .list (perHelper.map boolSx), boolSx mainOK]
      | _ => .list [.sym "expandok", boolSx false, boolSx lenOK, .list (perHelper.map boolSx), .sym "no-main"]
  | _, _ => .list [.sym "bad-args"]

/-- `expandokinh <gid> <idents> <payloads> <main> <helper trait> <helper_1> … <helper_n> -- <item_1> … <item_n>`: the full-strength
    inherent-mode checker `expandOKInhCore_inh` (Lemmas/ExpandInherent.lean, the subject of `C17_expandOK_of_expand_inherent`) on real trees -/
def handleExpandOKInh (args : List Sx) : Sx :=
  let (pre, post) := args.span (fun a => match a with | .sym "--" => false | _ => true)
  match pre.filterMap T.ofSx, (post.drop 1).filterMap T.ofSx with
  | gid :: identsT :: rowsT :: mainT :: tr :: helpers, items =>
      let idents : List (BKey × String) := match identsT with
        | .node "List" [] xs => xs.filterMap (fun x => match x with
            | .node "Tuple" [] [.node "Bounded" [] [b], .node "TraitBound" [] [p], .node "Ident" [a] []] => some ((b, p), a)
            | _ => none)
        | _ => []
      let rows : List (List (Option T)) := match rowsT with
        | .node "List" [] xs => xs.map decodeRow
        | _ => []
      let thetas : List Subst := items.map (fun it => match sup (unwrapT gid) (mkHdr (unwrapHeader it)) with
        | .yes σ _ => σ
        | _ => [])
      match mainT with
      | .node "Some" [] [m] => .list [.sym "expandokinh", boolSx (expandOKInhCore_inh gid idents rows items thetas tr helpers m)]
      | _ => .list [.sym "expandokinh", .sym "no-main"]
  | _, _ => .list [.sym "bad-args"]

def handle (cmd : String) (args : List Sx) : Sx :=
  if cmd == "validate" then handleValidate args else
  if cmd == "expandok" then handleExpandOK args else
  if cmd == "expandokinh" then handleExpandOKInh args else
  if cmd == "expand" then handleExpand args else
  match cmd, args.filterMap T.ofSx with
  | "sup", [a, b] => rToSx (sup a b)
  | "supchk", [a, b] =>
      -- model result + the soundness statement evaluated on it
      match sup a b with
      | .yes σ l => .list [.sym "yes", boolSx l, Subst.toSx σ, boolSx (erase (inst σ a) == erase b),
          -- hypotheses of C09_sound_wf / C09_binds_all_wf / C09_identity_wf evaluated on this case
          boolSx (wf a && wf b && ignFaces a (stripTop b) && noConstParam b),
          boolSx ((params a).all (fun n => (lookup σ n).isSome))]
      | r => rToSx r
  | "inst", _ =>
      match args with
      | [s, a] => match Subst.ofSx s, T.ofSx a with
          | some σ, some a => .list [.sym "ok", (inst σ a).toSx, (erase (inst σ a)).toSx]
          | _, _ => .list [.sym "bad-args"]
      | _ => .list [.sym "bad-args"]
  | "erase", [a] => (erase a).toSx
  | "revsub", [a, b, bounded, tr] =>
      match sup a b with
      | .yes σ _ =>
          let res := substituteBound σ bounded tr
          -- hypotheses and conclusion of C10_bound_roundtrip / C10_nodup evaluated on this case
          let hyp := untouched σ bounded && untouched σ tr
          let concl := res.all (fun (x, y) => inst σ x == bounded && inst σ y == tr)
          -- C10_bound_exact / C10_bound_count (no hypothesis): every output is a re-expression by the independent executable
          -- specification `isReexpr_rx`, and there are exactly `reexprCount` of them
          let exact := res.all (fun (x, y) => isReexpr_rx σ bounded x && isReexpr_rx σ tr y) &&
            res.length == reexprCount_rx σ bounded * reexprCount_rx σ tr
          .list [.sym "yes", Subst.toSx σ,
            .list (res.map (fun (x, y) => .list [x.toSx, y.toSx])), boolSx hyp, boolSx concl, boolSx exact]
      | r => rToSx r
  | "tb", [p, q] =>
      .list [.sym "tb", b3ToSx (tbEq p q), b3ToSx (tbEq q p),
        boolSx (decide (keyOf p = keyOf q)), boolSx (decide (hashFeed p = hashFeed q)),
        (tbTokens p).toSx, (tbTokens q).toSx]
  | "canon", [item] =>
      let s := indexImpl item
      let pr := fun (m : List (String × Nat)) => Sx.list (m.map (fun (x, i) => .list [.str x, .sym (toString i)]))
      .list [.sym "canon", (canon item).toSx, pr s.ixLt, pr s.ixTy, pr s.ixCo, boolSx (canon (canon item) == canon item)]
  | "canonwf", [item] =>
      -- the hypothesis of `C13_canon_idem` (CanonWF.lean) and the conclusion, both evaluated on the item
      -- … and the conclusions of C13_canon_is_renaming / C13_canon_all_rewritten_wf / C13_canonWF_alphaOK (hypothesis canonWF) and
      -- of C13_canon_is_renaming_reserved (hypothesis renamingShapeOK_cr)
      let r := (indexImpl item).renaming
      .list [.sym "canonwf", boolSx (canonWF item), boolSx (canon (canon item) == canon item),
             boolSx (canon item == qselfFormOf_cr r.tyNames_cr (alphaRenameC_cr r item)),
             boolSx (noOld_cr r (canon item)), boolSx (alphaOK r item),
             boolSx (renamingShapeOK_cr item), boolSx (canon item == qselfForm_cr (alphaRenameC_cr r item)),
             -- hypothesis and conclusion of C13_round_trip
             boolSx (roundTripOK_rt item), boolSx (alphaRenameC_cr r.inv_rt (unqself_rt r (canon item)) == item),
             -- C13_header_of_canon (unconditional) and C13_header_resolved_locally (canonWF, hdrFirst_hc, ixVis of the header)
             boolSx (groupIdOf (canon item) == rsT r (groupIdOf item)),
             boolSx (canonWF item && hdrFirst_hc item && ixVis (mkHdr item)),
             boolSx (groupIdOf (canon item) == rsT (hdrRenaming_hc item) (groupIdOf item))]
  | "alpha", [base, variant, pi] =>
      -- hypotheses and conclusion of C06_renamed_permuted_same_header for a block and a renamed / re-declared presentation of it:
      -- pi = Pi[lt[a b …], ty[a b …], co[a b …]] (old name, new name, …)
      let pairs := fun (xs : List String) =>
        let rec go : List String → List (String × String)
          | a :: b :: r => (a, b) :: go r
          | _ => []
        go xs
      let π : Renaming := match pi with
        | .node "Pi" [] [.node "lt" l [], .node "ty" t [], .node "co" c []] => ⟨pairs l, pairs t, pairs c⟩
        | _ => ⟨[], [], []⟩
      let renamed := alphaRename π base
      let ps' := implParams variant
      let textual := setParams ps' renamed == variant
      let perm := decide (ps'.Perm (implParams renamed))
      .list [.sym "alpha", boolSx (canonWF base), boolSx (alphaOK π base), boolSx (formOK π), boolSx textual, boolSx perm,
             boolSx (groupIdOf (mkBlk variant).item == groupIdOf (mkBlk base).item),
             boolSx (alphaOKh π base && hdrVis base),
             -- hypotheses and conclusion of C13_same_canon_only_if_renaming for the pair (base, variant)
             boolSx (roundTripOK_rt base && roundTripOK_rt variant && canon base == canon variant),
             boolSx (alphaRenameC_cr (renamingBetween_rt base variant) base == variant),
             -- hypotheses and conclusion of C13_same_header_only_if_renaming / C06_same_bucket_only_if_headers_alpha_equivalent
             boolSx (hdrConverseOK_hc base && hdrConverseOK_hc variant && groupIdOf (mkBlk base).item == groupIdOf (mkBlk variant).item),
             boolSx (acT_cr (hdrRenamingBetween_hc base variant) (groupIdOf base) == groupIdOf variant)]
  | "hwfdbg", items =>
      let ids := (mkBuckets (items.map mkBlk)).map (·.1)
      .list (ids.map (fun g => .list [boolSx (okT_tr g), boolSx (presInj_tr g),
        .list (((subs_tr g).map (fun u => (erase u, stripTop u))).filterMap (fun p =>
          if ((subs_tr g).map (fun u => (erase u, stripTop u))).any (fun q => p.1 == q.1 && p.2 != q.2) then some p.2.toSx else none))]))
  | "bounds", [item] =>
      let g := (implGenerics item).getD (.node "?" [] [])
      .list ((findBounds g).map (fun b => .list [b.bounded.toSx, b.tr.toSx,
        .list (b.binds.map (fun (n, t) => .list [.str n, t.toSx])), boolSx b.maybe]))
  | "parse", items =>
      let abgSx := fun (g : ABG) => Sx.list [
        .list (g.bounds.map (fun e => .list [e.1.1.toSx, e.1.2.toSx,
          .list (e.2.map (fun r => .list (r.map (fun (x, p) => .list [.str x, p.toSx]))))])),
        .list (g.unsized.map T.toSx)]
      match parseGroups items with
      | .ok groups => .list [.sym "ok", .list (groups.map (fun e =>
          .list [e.1.toSx, .list (e.2.2.map (fun b => b.item.toSx)), abgSx e.2.1,
            .list (e.2.1.idents.map (fun kx => .list [kx.1.1.toSx, kx.1.2.toSx, .str kx.2])),
            .list (e.2.1.payloads.map (fun row => .list (row.map (fun o => match o with | some p => .list [.sym "some", p.toSx] | none => .list [.sym "none"]))))])),
          -- hypothesis of C11_partition_acyclic evaluated on this input, and the conclusion of C11_partition_of_trace
          boolSx (acyclicB items), boolSx (traceCovers items),
          -- hypotheses of C05_flat_order_free_exec (acceptance and families do not depend on the block order)
          boolSx (noNesting items), boolSx (flatWF items),
          -- hypotheses and conclusion of C02_end_to_end_flat_hypotheses, per family: flatGroupOK, hdrCoversB, memberOK of every
          -- member, thetaCoversB of every member (familyOfGroup = mkFamily of the wire encoding: C02_familyOfGroup_is_mkFamily)
          .list (groups.map (fun e =>
            let F := familyOfGroup [] e
            .list [boolSx (flatGroupOK e), boolSx (hdrCoversB F), boolSx (F.members.all (fun m => memberOK F m)),
                   boolSx (F.members.all (fun m => thetaCoversB F m))])),
          boolSx (flatInputOK items),
          -- hypothesis of C11_partition / C11_acyclic_of_headersWF (shape of the individual headers)
          boolSx (headersWF items),
          -- hypotheses of C02_end_to_end_memberOK / _thetaCovers for nested invocations, per family
          .list (groups.map (fun e => .list [boolSx (nestedGroupOK (parseEnv items) e), boolSx (nestedCoversB (familyOfGroup [] e)),
            -- … and the extra executable hypothesis of C04_end_to_end_flat / _nested
            boolSx (keysOverHeaderB (familyOfGroup [] e))])),
          -- hypotheses of C03_flat_accepts_exec / C03_flat_acceptance_exact
          boolSx (flatDistinguished items), boolSx (flatSeparated items)]
      | .unableToForm id => .list [.sym "unable", id.toSx, boolSx (noNesting items), boolSx (flatWF items),
          boolSx (flatDistinguished items), boolSx (flatSeparated items)]
      | .panic e => .list [.sym "panic", .str (match e with | .unwrapNone => "unwrap-none" | .fuel => "fuel"),
          boolSx (noNesting items), boolSx (flatWF items), boolSx (flatDistinguished items), boolSx (flatSeparated items)]
  | "rows", [rows] =>
      -- does some member's row generalise another's (code: `is_overlapping`, lib.rs:342-368)? list of offending ordered pairs
      let rs := match rows with
        | .node "List" [] xs => xs.map decodeRow
        | _ => []
      let idx := List.range rs.length
      let bad := idx.flatMap (fun i => idx.filterMap (fun j =>
        if i == j then none else
        match rs[i]?, rs[j]? with
        | some a, some b =>
            if a.length == b.length && (List.zip a b).all (fun p => match p.1, p.2 with
              | some e1, some e2 => (match sup e1 e2 with | .yes _ _ => true | _ => false)
              | none, _ => true
              | _, _ => false) then some (Sx.list [.sym (toString i), .sym (toString j)]) else none
        | _, _ => none))
      .list [.sym "rows", .sym (toString rs.length), .list bad]
  | "family", gid :: keys :: rows :: mainImpl :: members =>
      let F := mkFamily gid keys rows mainImpl members
      .list [.sym "family", boolSx (keysOverHeaderB F), .sym (toString F.keys.length),
        .list (F.members.map (fun m => .list [boolSx (memberOK F m), boolSx (thetaCoversB F m), boolSx (sizedCompatB F m),
          boolSx (inst m.θ F.hdr == m.blk.hdr), boolSx (m.row.length == F.keys.length),
          .list ((List.zip F.keys m.row).map (fun kr => boolSx (clauseFor m kr.1 kr.2))),
          Subst.toSx m.θ])),
        .list (F.sizedParams.map Sx.str)]
  | _, _ => .list [.sym "bad-request", .str cmd]

partial def loop (h : IO.FS.Stream) (out : IO.FS.Stream) : IO Unit := do
  let line ← h.getLine
  if line.isEmpty then return ()
  let cs := (line.toList.reverse.dropWhile (fun c => c == '\n' || c == '\r')).reverse
  let id := String.ofList (cs.takeWhile (· != ' '))
  let cs := (cs.dropWhile (· != ' ')).drop 1
  let cmd := String.ofList (cs.takeWhile (· != ' '))
  let rest := String.ofList ((cs.dropWhile (· != ' ')).drop 1)
  if !id.isEmpty then
    out.putStrLn (id ++ " " ++ (handle cmd (Sx.parseAll rest)).toString)
  loop h out

def main : IO Unit := do
  let out ← IO.getStdout
  loop (← IO.getStdin) out
  out.flush
