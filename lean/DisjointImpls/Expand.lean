/-
  Model of the three code generators on positional trees:
  `disjoint::generate` (helper impls, disjoint.rs), `helper_trait::generate` (helper_trait.rs) and
  `main_trait::generate` (main_trait.rs), given a formed family (group id, members, bounds group).
  `none` = the generator panics / aborts (`unreachable!()`, a `parse_quote!` that cannot parse).
-/
import DisjointImpls.Group
namespace DI

/-! ### small tree constructors (shapes as `syn` parses the corresponding tokens) -/

def tIdent (x : String) : T := .node "Ident" [x] []
def tNone : T := .node "None" [] []
def tSome (t : T) : T := .node "Some" [] [t]
def tList (xs : List T) : T := .node "List" [] xs
def noArgs : T := .node "PathArguments::None" [] []
def ignAttrs : T := .node "Ign" [] [tList []]
def ignNone : T := .node "Ign" [] [tNone]
def noLead : T := .node "IgnL" [] [tNone]
def seg (x : String) (args : T := noArgs) : T := .node "PathSegment" [] [tIdent x, args]
def angle (args : List T) : T := .node "PathArguments::AngleBracketed" [] [ignNone, tList args]
def pathNode (lead : T) (segs : List T) : T := .node "Path" [] [lead, tList segs]
def gaType (t : T) : T := .node "GenericArgument::Type" [] [t]
def tyPath (qself : T) (path : T) : T := .node "Type::Path" [] [qself, path]
def selfTy : T := tyPath tNone (pathNode noLead [seg "Self"])

/-- `format_ident!("_{}{}", ident, idx)` (helper_trait.rs:140-142) -/
def genIdentStr (name : String) (idx : Nat) : String := "_" ++ name ++ toString idx

def pathLead : T → T
  | .node "Path" [] [lc, _] => lc
  | _ => noLead

/-- `<#param as #trait_bound>::#assoc` parsed as a type: the projection of a key (disjoint.rs:45-48, main_trait.rs:192-194).
    `trait_bound` is printed by `TraitBound::to_tokens`, i.e. with its bindings removed (`Key.tbTokens`). -/
def projection (bounded tr : T) (assoc : String) : T :=
  let p := tbTokens tr
  let segs := pathSegments p
  tyPath (tSome (.node "QSelf" [] [bounded, .node "Atom" [toString segs.length] [], .node "Some" ["As"] []]))
    (pathNode (pathLead p) (segs ++ [seg assoc]))

/-- a printed payload / projection re-parsed as a generic argument -/
def asGenericArg (t : T) : T := gaType t

def lastSegOf (p : T) : Option T := (pathSegments p).reverse.head?
def initSegsOf (p : T) : List T := (pathSegments p).reverse.tail.reverse

def segArgList : T → Option (List T)            -- `none`: parenthesized
  | .node "PathSegment" [] [_, .node "PathArguments::None" [] []] => some []
  | .node "PathSegment" [] [_, .node "PathArguments::AngleBracketed" [] [_, .node "List" [] args]] => some args
  | _ => none

def isAngle : T → Bool
  | .node "PathSegment" [] [_, .node "PathArguments::AngleBracketed" _ _] => true
  | _ => false

def isLifetimeArg : T → Bool
  | .node "GenericArgument::Lifetime" _ _ => true
  | _ => false

/-! ### helper impls (disjoint.rs) -/

def setVisInherited : T → T
  | .node "ImplItem::Const" [] (a :: _ :: rest) => .node "ImplItem::Const" [] (a :: .node "Visibility::Inherited" [] [] :: rest)
  | .node "ImplItem::Type" [] (a :: _ :: rest) => .node "ImplItem::Type" [] (a :: .node "Visibility::Inherited" [] [] :: rest)
  | .node "ImplItem::Fn" [] (a :: _ :: rest) => .node "ImplItem::Fn" [] (a :: .node "Visibility::Inherited" [] [] :: rest)
  | t => t

def lifetimeParamIdents (generics : T) : List String :=
  (genericsParams generics).filterMap (fun p => match p with
    | .node "GenericParam::Lifetime" _ _ => paramIdent p
    | _ => none)
def otherParamIdents (generics : T) : List String :=
  (genericsParams generics).filterMap (fun p => match p with
    | .node "GenericParam::Lifetime" _ _ => none
    | _ => paramIdent p)

def sortStr (xs : List String) : List String :=
  xs.foldr (fun x acc => let rec ins : List String → List String
    | [] => [x]
    | y :: ys => if y < x then y :: ins ys else x :: y :: ys
  ins acc) []

def lifetimeArg (x : String) : T := .node "GenericArgument::Lifetime" [] [.node "Lifetime" [] [tIdent x]]

/-- `gen_inherent_self_ty_args` (lib.rs:961-983): `<sorted lifetimes, sorted parameters>`; `none` unless the self
    type is a path whose last segment has angle-bracketed arguments -/
def inherentSelfTy (selfTy generics : T) : Option T :=
  match selfTy with
  | .node "Type::Path" [] [q, p] =>
      (match lastSegOf p with
       | some l => if isAngle l then
            let args := (sortStr (lifetimeParamIdents generics)).map lifetimeArg ++
                        (sortStr (otherParamIdents generics)).map (fun x => gaType (mkTypeIdent x))
            (match l with
             | .node "PathSegment" [] [id, _] => some (tyPath q (pathNode (pathLead p) (initSegsOf p ++ [.node "PathSegment" [] [id, angle args]])))
             | _ => none)
          else none
       | none => none)
  | _ => none

/-- the path type re-parsed as a trait path (`parse_quote!(#self_ty)` as `syn::Path`) -/
def typeAsPath : T → Option T
  | .node "Type::Path" [] [.node "None" [] [], p] => some p
  | _ => none

def rowArgs (idents : List (BKey × String)) (row : List (Option T)) : List T :=
  (List.zip idents row).map (fun ir => match ir.2 with
    | some p => asGenericArg p
    | none => asGenericArg (projection ir.1.1.1 ir.1.1.2 ir.1.2))

def setImplTrait (item : T) (tr : T) : T :=
  match item with
  | .node "ItemImpl" [] [a, d, u, g, _, s, items] => .node "ItemImpl" [] [a, d, u, g, tSome (.node "Tuple" [] [tNone, tr]), s, items]
  | t => t

def mapImplItems (f : T → T) : T → T
  | .node "ItemImpl" [] [a, d, u, g, tr, s, .node "List" [] items] => .node "ItemImpl" [] [a, d, u, g, tr, s, tList (items.map f)]
  | t => t

/-- one helper impl (disjoint.rs:53-80): the member with its trait path replaced by the helper trait (the LAST segment of the
    member's trait path renamed, leading segments and a leading `::` dropped: the helper trait lives next to the helper impls)
    and the member's row prepended to the trait arguments -/
def helperImpl (idx : Nat) (inherentPath : Option T) (idents : List (BKey × String)) (row : List (Option T)) (member : T) : Option T :=
  let member' := match inherentPath with
    | some p => mapImplItems setVisInherited (setImplTrait member p)
    | none => member
  match implTraitPath member' with
  | none => none
  | some p =>
      match lastSegOf p with
      | some (.node "PathSegment" [] [.node "Ident" [x] [], args]) =>
          let row' := rowArgs idents row
          let newArgs : Option T := match args with
            | .node "PathArguments::None" [] [] => some (angle row')
            | .node "PathArguments::AngleBracketed" [] [c2, .node "List" [] old] => some (.node "PathArguments::AngleBracketed" [] [c2, tList (row' ++ old)])
            | _ => none
          (match newArgs with
           | some na => some (setImplTrait member' (pathNode noLead [.node "PathSegment" [] [tIdent (genIdentStr x idx), na]]))
           | none => none)
      | _ => none

/-- `disjoint::generate` -/
def helperImpls (idx : Nat) (g : T × ABG × List Blk) : Option (List T) :=
  let members := g.2.2.map (·.item)
  match members with
  | [] => some []
  | first :: _ =>
      let inherent : Option (Option T) :=
        if (implTraitPath first).isNone then
          match implSelfTy first, implGenerics first with
          | some s, some gen => (match inherentSelfTy s gen with
              | some st => (match typeAsPath st with | some p => some (some p) | none => none)
              | none => none)
          | _, _ => none
        else some none
      match inherent with
      | none => none
      | some ip =>
          let idents := g.2.1.idents
          let rows := g.2.1.payloads
          let res := (List.zip members rows).map (fun mr => helperImpl idx ip idents mr.2 mr.1)
          if res.all Option.isSome then some (res.filterMap id) else none

/-! ### helper trait (helper_trait.rs) -/

def maybeSizedBound : T :=
  .node "TypeParamBound::Trait" [] [.node "TraitBound" [] [ignNone, .node "TraitBoundModifier::Maybe" [] [], tNone, pathNode noLead [seg "Sized"]]]

/-- `#param: ?Sized` re-parsed as a generic parameter -/
def keyParam (x : String) : T :=
  .node "GenericParam::Type" [] [.node "TypeParam" [] [ignAttrs, tIdent x, .node "Some" ["Colon"] [], tList [maybeSizedBound], tNone, tNone]]

def isLifetimeParam : T → Bool
  | .node "GenericParam::Lifetime" _ _ => true
  | _ => false

/-- `combine_generic_args` (helper_trait.rs:73-92): lifetimes first, then the key parameters, then the rest -/
def helperGenerics (generics : T) (nkeys : Nat) : T :=
  match generics with
  | .node "Generics" [] [lt, .node "List" [] ps, gt, wc] =>
      let start := ps.length
      let keys := (List.range nkeys).map (fun i => keyParam (genIndexedIdent (start + i)))
      let all := ps.filter isLifetimeParam ++ keys ++ ps.filter (fun p => !isLifetimeParam p)
      -- only `params` is assigned (helper_trait.rs:49-54): the `<`/`>` tokens stay as the user's trait had them
      .node "Generics" [] [lt, tList all, gt, wc]
  | t => t

/-- `helper_trait::generate`, trait mode: the user's trait made `pub`, renamed, with the key parameters added -/
def helperTraitOfTrait (trait_ : T) (idx nkeys : Nat) : Option T :=
  match trait_ with
  | .node "ItemTrait" [] [a, _, u, au, r, .node "Ident" [x] [], g, c, sup, items] =>
      some (.node "ItemTrait" [] [a, .node "Visibility::Public" [] [], u, au, r, tIdent (genIdentStr x idx), helperGenerics g nkeys, c, sup, items])
  | _ => none

end DI

namespace DI

/-! ### main impl (main_trait.rs) -/

/-- trait parameters ↦ the header's arguments (main_trait.rs:355-382) -/
structure ArgMap where
  lt : List (String × T)      -- ↦ `Lifetime` node
  ty : List (String × T)      -- ↦ type
  co : List (String × T)      -- ↦ expression
  deriving Repr

def alookup (m : List (String × T)) (x : String) : Option T :=
  match m with
  | [] => none
  | (a, b) :: r => if a = x then some b else alookup r x

def someLead : T := .node "IgnL" [] [.node "Some" ["PathSep"] []]

/-- the type re-parsed as an expression path (`parse_quote!(#new_ty)` into `ExprPath`, param.rs:381) -/
def typeAsExprPath : T → Option T
  | .tparam n => some (.eparam n)
  | .node "Type::Path" [] [q, p] => some (.node "Expr::Path" [] [ignAttrs, q, p])
  | _ => none

/-- the replacement of a const parameter as a single operand (param.rs:342-352) -/
def exprOperand : T → T
  | .eparam n => .eparam n
  | .node "Expr::Path" as ks => .node "Expr::Path" as ks
  | .node "Expr::Lit" as ks => .node "Expr::Lit" as ks
  | .node "Expr::Block" as ks => .node "Expr::Block" as ks
  | .node "Expr::Paren" as ks => .node "Expr::Paren" as ks
  | t => .node "Expr::Paren" [] [ignAttrs, t]

def sbTypePath (m : ArgMap) (as : List String) (qself path : T) : Option T :=
  match firstSegIdent path with
  | some x =>
      (match alookup m.ty x with
       | some r =>
          if (restSegments path).isEmpty then some r
          else some (.node "Type::Path" as [tSome (.node "QSelf" [] [r, .node "Atom" ["0"] [], tNone]), pathNode someLead (restSegments path)])
       | none => some (.node "Type::Path" as [qself, path]))
  | none => some (.node "Type::Path" as [qself, path])

def sbExprPath (m : ArgMap) (as : List String) (att qself path : T) : Option T :=
  match firstSegIdent path with
  | some x =>
      (match alookup m.ty x with
       | some r =>
          let newTy := if (restSegments path).isEmpty then r
            else .node "Type::Path" [] [tSome (.node "QSelf" [] [r, .node "Atom" ["0"] [], tNone]), pathNode someLead (restSegments path)]
          typeAsExprPath newTy
       | none =>
          (match alookup m.co x with
           | some r =>
              (match path with
               | .node "Path" [] [lc, .node "List" [] [.node "PathSegment" [] [_, .node "PathArguments::None" [] []]]] =>
                  if qself == tNone && lc == noLead then some (exprOperand r) else some (.node "Expr::Path" as [att, qself, path])
               | _ => some (.node "Expr::Path" as [att, qself, path]))
           | none => some (.node "Expr::Path" as [att, qself, path])))
  | none => some (.node "Expr::Path" as [att, qself, path])

mutual
/-- `NonPredicateParamResolver` with arbitrary replacements (used on the trait definition) -/
def sbT (m : ArgMap) : T → Option T
  | .tparam n => (match alookup m.ty n with | some r => some r | none => some (.tparam n))
  | .eparam n =>
      (match alookup m.ty n with
       | some r => typeAsExprPath r
       | none => match alookup m.co n with
          | some r => some (exprOperand r)
          | none => some (.eparam n))
  | .node "Ign" as ks => some (.node "Ign" as ks)
  | .node "Eq" as ks => some (.node "Eq" as ks)
  | .node "Lifetime" as [.node "Ident" [x] []] =>
      (match alookup m.lt x with | some r => some r | none => some (.node "Lifetime" as [.node "Ident" [x] []]))
  | .node "Type::Path" as [qself, path] =>
      (match sbT m qself, sbT m path with
       | some q, some p => sbTypePath m as q p
       | _, _ => none)
  | .node "Expr::Path" as [att, qself, path] =>
      (match sbT m qself, sbT m path with
       | some q, some p => sbExprPath m as att q p
       | _, _ => none)
  | .node k as ks => (sbL m ks).map (.node k as)
def sbL (m : ArgMap) : List T → Option (List T)
  | [] => some []
  | t :: ts => match sbT m t, sbL m ts with
      | some a, some b => some (a :: b)
      | _, _ => none
end

def isParamTypeArg : T → Bool
  | .tparam _ => true
  | _ => false

/-- zip the trait's parameters with the header's arguments (main_trait.rs:363-382); kind mismatch = `unreachable!()` -/
def zipTraitArgs : List T → List T → Option ArgMap
  | [], _ => some ⟨[], [], []⟩
  | _, [] => some ⟨[], [], []⟩
  | p :: ps, a :: as =>
      match zipTraitArgs ps as with
      | none => none
      | some m =>
        match p, a with
        | .node "GenericParam::Lifetime" _ _, .node "GenericArgument::Lifetime" [] [l] =>
            (match paramIdent p with | some x => some { m with lt := (x, l) :: m.lt } | none => none)
        | .node "GenericParam::Type" _ _, .node "GenericArgument::Type" [] [t] =>
            (match paramIdent p with | some x => some { m with ty := (x, t) :: m.ty } | none => none)
        | .node "GenericParam::Const" _ _, .node "GenericArgument::Const" [] [e] =>
            (match paramIdent p with | some x => some { m with co := (x, e) :: m.co } | none => none)
        | _, _ => none

def whereType (bounded : T) (bounds : List T) : T :=
  .node "WherePredicate::Type" [] [.node "PredicateType" [] [tNone, bounded, tList bounds]]

def traitBoundOf (p : T) : T :=
  .node "TypeParamBound::Trait" [] [.node "TraitBound" [] [ignNone, .node "TraitBoundModifier::None" [] [], tNone, p]]

/-- `#ty: #bounds` for the trait's own parameters (main_trait.rs:331-353): every lifetime parameter, and every type
    parameter whose argument is a bare canonical parameter -/
def traitParamPredicates (params : List T) (m : ArgMap) : List T :=
  params.filterMap (fun p => match p with
    | .node "GenericParam::Lifetime" [] [.node "LifetimeParam" [] [_, l, _, .node "List" [] bs]] =>
        some (.node "WherePredicate::Lifetime" [] [.node "PredicateLifetime" [] [l, tList bs]])
    | .node "GenericParam::Type" [] [.node "TypeParam" [] [_, .node "Ident" [x] [], _, .node "List" [] bs, _, _]] =>
        (match alookup m.ty x with
         | some t => if isParamTypeArg t then some (whereType (mkTypeIdent x) bs) else none
         | none => some (whereType (mkTypeIdent x) bs))
    | _ => none)

/-- the helper-trait reference of the main impl (main_trait.rs:184-226): lifetimes of the header first, then the
    projections of the keys, then the remaining header arguments -/
def helperRef (helperIdent : String) (idents : List (BKey × String)) (headerArgs : List T) : T :=
  let projs := idents.map (fun kx => gaType (projection kx.1.1 kx.1.2 kx.2))
  pathNode noLead [seg helperIdent (angle (headerArgs.filter isLifetimeArg ++ projs ++ headerArgs.filter (fun a => !isLifetimeArg a)))]

def dedupKeys (ks : List T) : List T := ks.foldl (fun acc k => if acc.contains k then acc else acc ++ [k]) []

/-- `gen_assoc_bound_predicates` (main_trait.rs:245-276) -/
def assocBoundPredicates (abg : ABG) (href : T) : List T :=
  let idents := abg.idents
  let params := dedupKeys (idents.map (fun kx => kx.1.1))
  let perParam := params.map (fun b =>
    -- IndexSet<&TraitBound>: distinct by `TraitBound::eq`, first occurrence kept
    let tbs := (idents.filter (fun kx => kx.1.1 == b)).foldl (fun (acc : List T) kx =>
      if acc.any (fun t => tbEq t kx.1.2 == .t) then acc else acc ++ [kx.1.2]) []
    let bounds := (if abg.unsized.contains b then [maybeSizedBound] else []) ++ tbs.map (fun t => traitBoundOf (tbTokens t))
    whereType b bounds)
  perParam ++ [whereType selfTy [traitBoundOf href]]

end DI

namespace DI

def emptyGenerics : T := .node "Generics" [] [tNone, tList [], tNone, tNone]

/-- `#ty_generics` of a trait item re-parsed as the generics of the impl item: identifiers only (a const parameter
    comes back as a type parameter) -/
def tyGenericsParam : T → T
  | .node "GenericParam::Lifetime" [] [.node "LifetimeParam" [] [_, l, _, _]] =>
      .node "GenericParam::Lifetime" [] [.node "LifetimeParam" [] [ignAttrs, l, tNone, tList []]]
  | .node "GenericParam::Type" [] [.node "TypeParam" [] (_ :: id :: _)] =>
      .node "GenericParam::Type" [] [.node "TypeParam" [] [ignAttrs, id, tNone, tList [], tNone, tNone]]
  | .node "GenericParam::Const" [] [.node "ConstParam" [] (_ :: id :: _)] =>
      .node "GenericParam::Type" [] [.node "TypeParam" [] [ignAttrs, id, tNone, tList [], tNone, tNone]]
  | t => t

def itemGenerics : T → T
  | .node "Generics" [] [lt, .node "List" [] ps, gt, wc] =>
      -- an empty where-clause prints nothing and comes back as `None`
      let wc' := match wc with
        | .node "Some" [] [.node "WhereClause" [] [.node "List" [] []]] => tNone
        | w => w
      if ps.isEmpty then .node "Generics" [] [tNone, tList [], tNone, wc'] else .node "Generics" [] [lt, tList (ps.map tyGenericsParam), gt, wc']
  | t => t

/-- `<Self as #helper>::#ident` -/
def selfAsHelperPath (href : T) (ident : T) : T × T :=
  (tSome (.node "QSelf" [] [selfTy, .node "Atom" [toString (pathSegments href).length] [], .node "Some" ["As"] []]),
   pathNode (pathLead href) (pathSegments href ++ [.node "PathSegment" [] [ident, noArgs]]))

def identExpr (x : String) : T :=
  if x.startsWith PARAM_PREFIX then .eparam x else .node "Expr::Path" [] [ignAttrs, tNone, pathNode noLead [seg x]]

/-- a parameter pattern printed and re-parsed as a call argument; `none`: not modelled (`mut x`, `_`, `&x`, …) -/
def patAsExpr : T → Option T
  | .node "Pat::Ident" [] [_, .node "None" [] [], .node "None" [] [], .node "Ident" [x] [], .node "None" [] []] => some (identExpr x)
  | _ => none

def fnArgAsExpr : T → Option T
  -- a by-value `mut self` receiver: its `mut` is dropped in generated signatures since /repo 19cb482 — unmodelled, like other patterns
  | .node "FnArg::Receiver" [] [.node "Receiver" [] [_, .node "None" [] [], .node "Some" ["Mut"] [], _, _]] => none
  | .node "FnArg::Receiver" _ _ => some (identExpr "self")
  | .node "FnArg::Typed" [] [.node "PatType" [] [_, pat, _]] => patAsExpr pat
  | _ => none

def allSome {α : Type} : List (Option α) → Option (List α)
  | [] => some []
  | none :: _ => none
  | some a :: r => (allSome r).map (a :: ·)

inductive Gen (α : Type) where
  | ok (a : α)
  | panic            -- the generator panics / aborts
  | unmodelled       -- outside the modelled fragment
  deriving Repr

/-- a trait item as the dummy impl item (main_trait.rs:135-173), its value already delegating to the helper trait
    (main_trait.rs:278-316) when `href` is given; with `none` the value is a placeholder (what the indexer sees) -/
def implItemOfTraitItem (href : Option T) : T → Gen T
  | .node "TraitItem::Const" [] [_, id, g, ty, _] =>
      let e := match href with
        | some h => let (q, p) := selfAsHelperPath h id; .node "Expr::Path" [] [ignAttrs, q, p]
        | none => .node "Dummy" [] []
      .ok (.node "ImplItem::Const" [] [ignAttrs, .node "Visibility::Inherited" [] [], tNone, id, itemGenerics g, ty, e])
  | .node "TraitItem::Type" [] [_, id, g, _, _, _] =>
      let t := match href with
        | some h => let (q, p) := selfAsHelperPath h id; tyPath q p
        | none => .node "Dummy" [] []
      .ok (.node "ImplItem::Type" [] [ignAttrs, .node "Visibility::Inherited" [] [], tNone, id, itemGenerics g, t])
  | .node "TraitItem::Fn" [] [_, .node "Signature" [] [c, a, u, abi, id, g, .node "List" [] inputs, variadic, out], _, _] =>
      let sig := .node "Signature" [] [c, a, u, abi, id, g, tList inputs, variadic, out]
      match href with
      | none => .ok (.node "ImplItem::Fn" [] [ignAttrs, .node "Visibility::Inherited" [] [], tNone, sig, .node "Dummy" [] []])
      | some h =>
        if variadic != tNone || a != tNone then .unmodelled else     -- variadic; `async fn` (delegated with `.await` since /repo 81f363f)
        match allSome (inputs.map fnArgAsExpr) with
        | none => .unmodelled
        | some args =>
            let (q, p) := selfAsHelperPath h id
            let call := .node "Expr::Call" [] [ignAttrs, .node "Expr::Path" [] [ignAttrs, q, p], tList args]
            .ok (.node "ImplItem::Fn" [] [ignAttrs, .node "Visibility::Inherited" [] [], tNone, sig,
              .node "Block" [] [tList [.node "Stmt::Expr" [] [call, noLead]]]])
  | _ => .panic       -- `abort!(item, "Not supported")`

def genAll {α : Type} : List (Gen α) → Gen (List α)
  | [] => .ok []
  | .panic :: _ => .panic
  | .unmodelled :: r => (match genAll r with | .panic => .panic | _ => .unmodelled)
  | .ok a :: r => (match genAll r with | .ok l => .ok (a :: l) | .panic => .panic | .unmodelled => .unmodelled)

def wherePreds : T → List T
  | .node "Some" [] [.node "WhereClause" [] [.node "List" [] ps]] => ps
  | _ => []

def mkWhere (ps : List T) : T := tSome (.node "WhereClause" [] [tList ps])

def lastSegArgsNode (p : T) : Option T :=
  match lastSegOf p with
  | some (.node "PathSegment" [] [_, a]) => some a
  | _ => none

/-- `resolve_main_trait_params` (main_trait.rs:355-420) on the parts of the trait the main impl is built from:
    (generics of the impl before its parameters are recomputed, substituted trait items) -/
def resolveMainTrait (trait_ : T) (tp : T) : Option (T × List T) :=
  match trait_ with
  | .node "ItemTrait" [] [_, _, _, _, _, _, .node "Generics" [] [lt, .node "List" [] params, gt, wc], _, _, .node "List" [] items] =>
      (match lastSegArgsNode tp with
       | some (.node "PathArguments::None" [] []) =>
           -- nothing is resolved; `impl #impl_generics`: `<..>` is printed iff there are parameters
           some (.node "Generics" [] [if params.isEmpty then tNone else lt, tList params, if params.isEmpty then tNone else gt,
                  (if (wherePreds wc).isEmpty then tNone else wc)], items)
       | some (.node "PathArguments::AngleBracketed" [] [_, .node "List" [] args]) =>
           (match zipTraitArgs params args with
            | none => none
            | some m =>
                let preds := wherePreds wc ++ traitParamPredicates params m
                (match sbL m preds, sbL m items with
                 | some preds', some items' =>
                     some (.node "Generics" [] [tNone, tList [], tNone, if preds'.isEmpty then tNone else mkWhere preds'], items')
                 | _, _ => none))
       | _ => none)
  | _ => none

def newLifetimeParam (x : String) : T :=
  .node "GenericParam::Lifetime" [] [.node "LifetimeParam" [] [ignAttrs, .node "Lifetime" [] [tIdent x], tNone, tList []]]
def newTypeParam (x : String) : T :=
  .node "GenericParam::Type" [] [.node "TypeParam" [] [ignAttrs, tIdent x, tNone, tList [], tNone, tNone]]
/-- `const #ident: #ty` with the type the example impl declares (main_trait.rs:96-101) -/
def newConstParam (exampleGenerics : T) (x : String) : Option T :=
  match paramNode exampleGenerics x with
  | some (.node "GenericParam::Const" [] [.node "ConstParam" [] [_, _, ty, _, _]]) =>
      some (.node "GenericParam::Const" [] [.node "ConstParam" [] [ignAttrs, tIdent x, ty, tNone, tNone]])
  | _ => none

/-- `main_trait::generate`, trait mode -/
def mainImplOfTrait (trait_ : T) (idx : Nat) (g : T × ABG × List Blk) : Gen T :=
  match g.2.2 with
  | [] => .panic
  | first :: _ =>
    let exampleItem := first.item
    match implTraitPath exampleItem, implSelfTy exampleItem, implGenerics exampleItem, trait_ with
    | some tp, some st, some eg, .node "ItemTrait" [] (_ :: _ :: unsafety :: _) =>
      (match resolveMainTrait trait_ tp, lastSegOf tp with
       | some (.node "Generics" [] [lt, _, gt, wc], items), some (.node "PathSegment" [] [.node "Ident" [tname] [], targs]) =>
          let hargs := match targs with
            | .node "PathArguments::AngleBracketed" [] [_, .node "List" [] as] => as
            | _ => []
          let href := helperRef (genIdentStr tname idx) g.2.1.idents hargs
          let preds := wherePreds wc ++ assocBoundPredicates g.2.1 href
          (match genAll (items.map (implItemOfTraitItem none)), genAll (items.map (implItemOfTraitItem (some href))) with
           | .ok dummies, .ok finals =>
              let traitRef := tSome (.node "Tuple" [] [tNone, tp])
              let dummy := .node "ItemImpl" [] [ignAttrs, tNone, unsafety, emptyGenerics, traitRef, st, tList dummies]
              let s0 : IxState := ⟨kindNames eg "GenericParam::Lifetime", kindNames eg "GenericParam::Type",
                                   kindNames eg "GenericParam::Const", [], [], [], 0⟩
              let s := ixL (ixT s0 dummy) preds
              (match allSome (s.ixCo.map (fun xi => newConstParam eg xi.1)) with
               | none => .panic
               | some cps =>
                  let params := s.ixLt.map (fun xi => newLifetimeParam xi.1) ++ s.ixTy.map (fun xi => newTypeParam xi.1) ++ cps
                  .ok (.node "ItemImpl" [] [ignAttrs, tNone, unsafety, .node "Generics" [] [lt, tList params, gt, mkWhere preds],
                        traitRef, st, tList finals]))
           | .panic, _ => .panic
           | _, .panic => .panic
           | _, _ => .unmodelled)
       | _, _ => .panic)
    | _, _, _, _ => .panic

end DI

namespace DI

/-! ### inherent mode: helper trait (helper_trait.rs:16-47) and main impl (main_trait.rs:110-115) -/

/-- a declared parameter as `impl_generics` prints it after `remove_param_bounds`: no bounds, no default -/
def bareParam : T → T
  | .node "GenericParam::Lifetime" [] [.node "LifetimeParam" [] [_, l, _, _]] =>
      .node "GenericParam::Lifetime" [] [.node "LifetimeParam" [] [ignAttrs, l, tNone, tList []]]
  | .node "GenericParam::Type" [] [.node "TypeParam" [] (_ :: id :: _)] =>
      .node "GenericParam::Type" [] [.node "TypeParam" [] [ignAttrs, id, tNone, tList [], tNone, tNone]]
  | .node "GenericParam::Const" [] [.node "ConstParam" [] [_, id, ty, _, _]] =>
      .node "GenericParam::Const" [] [.node "ConstParam" [] [ignAttrs, id, ty, tNone, tNone]]
  | t => t

def insertParamSorted (p : T) : List T → List T
  | [] => [p]
  | q :: qs =>
      -- key: (!is_lifetime, ident); stable
      let kp := (!isLifetimeParam p, (paramIdent p).getD "")
      let kq := (!isLifetimeParam q, (paramIdent q).getD "")
      if (kq.1 < kp.1) || (kq.1 == kp.1 && kq.2 ≤ kp.2) then q :: insertParamSorted p qs else p :: q :: qs

def sortParams (ps : List T) : List T := ps.foldr insertParamSorted []

/-- `gen_inherent_impl_items` (helper_trait.rs): the prototype of an item of the first block; since /repo 2b7edb4 the
    attributes of the item are copied onto the prototype (`#(#attrs)*`) -/
def traitItemOfImplItem : T → Gen T
  | .node "ImplItem::Const" [] [a, _, _, id, g, ty, _] =>
      if g == emptyGenerics then .ok (.node "TraitItem::Const" [] [a, id, emptyGenerics, ty, tNone]) else .unmodelled
  | .node "ImplItem::Type" [] [a, _, _, id, g, _] =>
      .ok (.node "TraitItem::Type" [] [a, id, itemGenerics g, tNone, tList [], tNone])
  | .node "ImplItem::Fn" [] [a, _, _, sig, _] =>
      .ok (.node "TraitItem::Fn" [] [a, sig, tNone, .node "Some" ["Semi"] []])
  | _ => .panic

/-- the self type's last-segment identifier when it can be re-parsed as a trait name (`trait #self_ty …`) -/
def selfTraitIdent : T → Option String
  | .node "Type::Path" [] [.node "None" [] [], p] =>
      (match lastSegOf p with
       | some (.node "PathSegment" [] [.node "Ident" [x] [], _]) => some x
       | _ => none)
  | _ => none

def helperTraitOfInherent (exampleItem : T) (idx nkeys : Nat) : Gen T :=
  match exampleItem with
  | .node "ItemImpl" [] [_, _, unsafety, .node "Generics" [] [_, .node "List" [] ps, _, _], _, st, .node "List" [] items] =>
      (match selfTraitIdent st, genAll (items.map traitItemOfImplItem) with
       | some x, .ok its =>
          let sorted := sortParams (ps.map bareParam)
          let start := sorted.length
          let keys := (List.range nkeys).map (fun i => keyParam (genIndexedIdent (start + i)))
          let all := sorted.filter isLifetimeParam ++ keys ++ sorted.filter (fun p => !isLifetimeParam p)
          let (lt, gt) := if ps.isEmpty then (tNone, tNone) else (.node "Some" ["Lt"] [], .node "Some" ["Gt"] [])
          .ok (.node "ItemTrait" [] [ignAttrs, .node "Visibility::Public" [] [], unsafety, tNone, tNone, tIdent (genIdentStr x idx),
                .node "Generics" [] [lt, tList all, gt, tNone], tNone, tList [], tList its])
       | none, _ => .panic
       | _, .panic => .panic
       | _, _ => .unmodelled)
  | _ => .panic

/-- `ImplItemResolver` on a real impl item (inherent mode keeps attributes, visibility and signatures) -/
def delegateImplItem (href : T) : T → Gen T
  | .node "ImplItem::Const" [] [a, v, d, id, g, ty, _] =>
      let (q, p) := selfAsHelperPath href id
      .ok (.node "ImplItem::Const" [] [a, v, d, id, g, ty, .node "Expr::Path" [] [ignAttrs, q, p]])
  | .node "ImplItem::Type" [] [a, v, d, id, g, _] =>
      let (q, p) := selfAsHelperPath href id
      .ok (.node "ImplItem::Type" [] [a, v, d, id, g, tyPath q p])
  | .node "ImplItem::Fn" [] [a, v, d, .node "Signature" [] [c, as_, u, abi, id, g, .node "List" [] inputs, variadic, out], _] =>
      if variadic != tNone || as_ != tNone then .unmodelled else     -- variadic; `async fn` (delegated with `.await` since /repo 81f363f)
      match allSome (inputs.map fnArgAsExpr) with
      | none => .unmodelled
      | some args =>
          let (q, p) := selfAsHelperPath href id
          let call := .node "Expr::Call" [] [ignAttrs, .node "Expr::Path" [] [ignAttrs, q, p], tList args]
          .ok (.node "ImplItem::Fn" [] [a, v, d, .node "Signature" [] [c, as_, u, abi, id, g, tList inputs, variadic, out],
            .node "Block" [] [tList [.node "Stmt::Expr" [] [call, noLead]]]])
  | t => .ok t

def lastSegIdentOf (p : T) : Option String :=
  match lastSegOf p with
  | some (.node "PathSegment" [] [.node "Ident" [x] [], _]) => some x
  | _ => none

/-- `main_trait::generate`, inherent mode; `ok none` = no main impl is generated (self type is not a path) -/
def mainImplInherent (idx : Nat) (g : T × ABG × List Blk) : Gen (Option T) :=
  match g.2.2 with
  | [] => .ok none
  | first :: _ =>
    match first.item with
    | .node "ItemImpl" [] [a, d, u, .node "Generics" [] [lt, .node "List" [] ps, gt, _], tr, st, .node "List" [] items] =>
      let eg := .node "Generics" [] [lt, tList ps, gt, tNone]
      (match st with
       | .node "Type::Path" [] [_, sp] =>
          (match lastSegIdentOf sp, inherentSelfTy st eg with
           | some x, some (.node "Type::Path" [] [_, argPath]) =>
              let hargs := match lastSegOf argPath with
                | some l => (segArgList l).getD []
                | none => []
              let href := helperRef (genIdentStr x idx) g.2.1.idents hargs
              let preds := assocBoundPredicates g.2.1 href
              let dummy := .node "ItemImpl" [] [a, d, u, emptyGenerics, tr, st, tList items]
              let s0 : IxState := ⟨kindNames eg "GenericParam::Lifetime", kindNames eg "GenericParam::Type",
                                   kindNames eg "GenericParam::Const", [], [], [], 0⟩
              let s := ixL (ixT s0 dummy) preds
              (match allSome (s.ixCo.map (fun xi => newConstParam eg xi.1)), genAll (items.map (delegateImplItem href)) with
               | some cps, .ok finals =>
                  let params := s.ixLt.map (fun xi => newLifetimeParam xi.1) ++ s.ixTy.map (fun xi => newTypeParam xi.1) ++ cps
                  .ok (some (.node "ItemImpl" [] [a, d, u, .node "Generics" [] [lt, tList params, gt, mkWhere preds], tr, st, tList finals]))
               | none, _ => .panic
               | _, .panic => .panic
               | _, _ => .unmodelled)
           | some _, _ => .panic          -- `unreachable!()` in gen_helper_trait_bound / no angle-bracketed arguments
           | none, _ => .ok none)
       | _ => .ok none)
    | _ => .panic

end DI
