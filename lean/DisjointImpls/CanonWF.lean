/-
  Executable well-formedness condition for the idempotence of parameter canonicalisation (C13):
  `canonWF item` is evaluated on the impl item *before* canonicalisation. Model-side file: definitions only,
  core only. The theorem `canon (canon item) = canon item` under `canonWF item` is `C13_canon_idem`
  (`Props/C13.lean`, proofs in `Lemmas/CanonIdem.lean`).

  The conditions, each with the reason it is there (every one of them is needed, see the counterexamples in
  `Props/C13.lean`):
  * `declsOK`        the generic parameter list has the shape the decoder produces and every declared parameter has
                     one of the three shapes `paramIdent` reads;
  * names distinct   the declared lifetimes are pairwise distinct, and so are the declared type and const parameters
                     (types and consts share a name space: an expression path is tried as a type parameter first,
                     and `paramNode` looks a type / const declaration up by name);
  * `deadFresh`      a declared parameter that is never indexed (it keeps its spelling) is not spelled like one of the
                     names handed out in its name space (finding D21);
  * `rsOK`           over the whole item: an identifier in parameter position that is not a declared parameter is not
                     spelled like a name handed out (capture); a path whose first segment is renamed is a plain
                     `x` or `x::rest…` (no qualified self, no leading `::`, no arguments on `x` — all of that is dropped
                     by the resolver), and the second segment of such a path is not spelled like a (renamed) declared
                     parameter — it becomes the first segment of `<_ŠČn>::rest…`; an expression path whose first segment
                     is a const parameter is the bare identifier (otherwise it is not rewritten at all while the
                     declaration is).
-/
import DisjointImpls.Canon
namespace DI

/-- the spelling the resolver writes for `x` under the map `m` -/
def rn (m : List (String × String)) (x : String) : String := (rlookup m x).getD x

/-- a renaming together with the declared names, per kind -/
structure CCtx where
  r : Renaming
  dLt : List String
  dTy : List String
  dCo : List String
  deriving Repr

def CCtx.imgLt (c : CCtx) : List String := c.dLt.map (rn c.r.lt)
def CCtx.imgTy (c : CCtx) : List String := c.dTy.map (rn c.r.ty)
def CCtx.imgCo (c : CCtx) : List String := c.dCo.map (rn c.r.co)

/-- a name in lifetime / type / expression position: a declared parameter of that kind, or not spelled like the
    new spelling of one -/
def okLt (c : CCtx) (n : String) : Bool := c.dLt.contains n || !(c.imgLt.contains n)
def okTy (c : CCtx) (n : String) : Bool := c.dTy.contains n || !(c.imgTy.contains n)
def okEx (c : CCtx) (n : String) : Bool :=
  (c.dTy.contains n || c.dCo.contains n) || (!(c.imgTy.contains n) && !(c.imgCo.contains n))

/-- `x` or `x::rest…`: no qualified self, no leading colon, no arguments on the first segment -/
def plainHead (q p : T) : Bool :=
  q == noneNode &&
  (match p with
   | .node "Path" [] [lc, .node "List" [] (.node "PathSegment" [] [.node "Ident" [_] [], args] :: _)] =>
       lc == .node "IgnL" [] [noneNode] && args == .node "PathArguments::None" [] []
   | _ => false)

def headIdent : List T → Option String
  | .node "PathSegment" [] [.node "Ident" [x] [], _] :: _ => some x
  | _ => none

/-- the second segment of the path (the first one of `<_ŠČn>::rest…`) is not one of `imgs` -/
def secondFresh (imgs : List String) (p : T) : Bool :=
  match headIdent (restSegments p) with
  | some y => !(imgs.contains y)
  | none => true

mutual
def rsOK (c : CCtx) : T → Bool
  | .tparam n => okTy c n
  | .eparam n => okEx c n
  | .node "Ign" _ _ => true
  | .node "Eq" _ _ => true
  | .node "Lifetime" _ [.node "Ident" [x] []] => okLt c x
  | .node "Type::Path" _ [q, p] =>
      rsOK c q && rsOK c p &&
      (match firstSegIdent p with
       | some x => okTy c x && ((rlookup c.r.ty x).isNone || (plainHead q p && secondFresh c.imgTy p))
       | none => true)
  | .node "Expr::Path" _ [att, q, p] =>
      rsOK c att && rsOK c q && rsOK c p &&
      (match firstSegIdent p with
       | some x => okEx c x &&
           (if (rlookup c.r.ty x).isSome then plainHead q p && secondFresh (c.imgTy ++ c.imgCo) p
            else if (rlookup c.r.co x).isSome then plainHead q p && (restSegments p).isEmpty
            else true)
       | none => true)
  | .node _ _ ks => rsOKL c ks
def rsOKL (c : CCtx) : List T → Bool
  | [] => true
  | t :: ts => rsOK c t && rsOKL c ts
end

/-- the generic parameter list: decoder shape, every parameter readable by `paramIdent` -/
def declsOK : T → Bool
  | .node "Generics" [] [_, .node "List" [] ps, _, _] => ps.all (fun p => (paramIdent p).isSome)
  | _ => false

def implDeclsOK : T → Bool
  | .node "ItemImpl" [] [_, _, _, g, _, _, _] => declsOK g
  | _ => false

/-- the computed renaming and the declared names of an impl -/
def canonCtx (item : T) : CCtx :=
  let g := (implGenerics item).getD (.node "?" [] [])
  ⟨(indexImpl item).renaming, kindNames g "GenericParam::Lifetime", kindNames g "GenericParam::Type",
   kindNames g "GenericParam::Const"⟩

def Renaming.range (r : Renaming) : List String := (r.lt ++ r.ty ++ r.co).map Prod.snd

/-- no declared parameter that stays unindexed is spelled like a name handed out in its name space (lifetimes on one
    side, types and consts on the other) -/
def deadFresh (item : T) : Bool :=
  let s := indexImpl item
  s.unLt.all (fun n => !((s.renaming.lt.map Prod.snd).contains n)) &&
  (s.unTy ++ s.unCo).all (fun n => !(((s.renaming.ty ++ s.renaming.co).map Prod.snd).contains n))

/-- the declared lifetimes are distinct, and so are the declared type and const parameters (one name space) -/
def namesDistinct (c : CCtx) : Bool := decide c.dLt.Nodup && decide (c.dTy ++ c.dCo).Nodup

def canonWF (item : T) : Bool :=
  implDeclsOK item && namesDistinct (canonCtx item) && deadFresh item && rsOK (canonCtx item) item

end DI
