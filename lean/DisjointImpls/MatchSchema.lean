/-
  The matcher's and the reverse substitution's field schema, as the model assumes it (hand-written, model side; the Python
  decoder `harness/syn_dbg.py` implements the same tables: `IGN`, `IGN_LOSSY`, `EQ`). For every syn struct that has an
  `impl Superset` / `impl Substitute`: which of its non-punctuation fields the implementation does NOT look at / does NOT
  rewrite. `Props/C09.lean: C09_every_field_examined` and `Props/C10.lean: C10_every_field_rewritten` state that the tables
  below are exactly what the current source does (`MatchFacts.lean`, regenerated from /repo/src/superset*.rs and the pinned
  syn sources on every run).

  Reading of the entries: `colon2_token`, `comma`, `colon_token`, `eq_token`, `dyn_token`, `leading_vert`, `paren_token`,
  `apostrophe` are presentation (or implied by a data field); `Path.leading_colon` and `StmtMacro.semi_token` are the lenient
  arms listed as findings (F-C09-leading-colon, F-C09-semicolon); `Macro` is compared as a whole with `==` by its users;
  `Constraint`, `PatStruct`, `PatTupleStruct` are `unimplemented!()` (model: `panicsOnSameKind`); `LifetimeParam.bounds` is
  not part of a header. On the rewriting side attributes, operators, member/method names, literal-like fields, flags and
  identifiers are kept verbatim (`..self.clone()`): they contain no type or const expression.
-/
import DisjointImpls.MatchFacts
namespace DI.MatchSchema

/-- (struct, field): non-punctuation fields `is_superset` never mentions -/
def supersetIgnored : List (String × String) :=
  [("AngleBracketedGenericArguments", "colon2_token"), ("Arm", "comma"), ("ConstParam", "eq_token"), ("Constraint", "ident"),
   ("Constraint", "generics"), ("Constraint", "bounds"), ("FieldValue", "colon_token"), ("Lifetime", "apostrophe"),
   ("LifetimeParam", "colon_token"), ("LifetimeParam", "bounds"), ("Macro", "path"), ("Macro", "delimiter"),
   ("Macro", "tokens"), ("PatOr", "leading_vert"), ("PatStruct", "attrs"), ("PatStruct", "qself"),
   ("PatStruct", "path"), ("PatStruct", "fields"), ("PatStruct", "rest"), ("PatTupleStruct", "attrs"),
   ("PatTupleStruct", "qself"), ("PatTupleStruct", "path"), ("PatTupleStruct", "elems"), ("Path", "leading_colon"),
   ("StmtMacro", "semi_token"), ("TraitBound", "paren_token"), ("TypeParam", "colon_token"), ("TypeParam", "eq_token"),
   ("TypeTraitObject", "dyn_token")]

/-- (struct, field): non-punctuation fields `substitute` never mentions or rebuilds -/
def substituteVerbatim : List (String × String) :=
  [("AngleBracketedGenericArguments", "colon2_token"), ("Arm", "attrs"), ("Arm", "comma"), ("BareFnArg", "attrs"),
   ("BareFnArg", "name"), ("ConstParam", "attrs"), ("ConstParam", "ident"), ("ConstParam", "eq_token"),
   ("Constraint", "ident"), ("Constraint", "generics"), ("Constraint", "bounds"), ("ExprArray", "attrs"),
   ("ExprAssign", "attrs"), ("ExprAsync", "attrs"), ("ExprAsync", "capture"), ("ExprAwait", "attrs"),
   ("ExprBinary", "attrs"), ("ExprBinary", "op"), ("ExprBlock", "attrs"), ("ExprBreak", "attrs"),
   ("ExprCall", "attrs"), ("ExprCast", "attrs"), ("ExprClosure", "attrs"), ("ExprClosure", "constness"),
   ("ExprClosure", "movability"), ("ExprClosure", "asyncness"), ("ExprClosure", "capture"), ("ExprConst", "attrs"),
   ("ExprContinue", "attrs"), ("ExprField", "attrs"), ("ExprField", "member"), ("ExprForLoop", "attrs"),
   ("ExprGroup", "attrs"), ("ExprIf", "attrs"), ("ExprIndex", "attrs"), ("ExprInfer", "attrs"),
   ("ExprLet", "attrs"), ("ExprLit", "attrs"), ("ExprLoop", "attrs"), ("ExprMacro", "attrs"),
   ("ExprMatch", "attrs"), ("ExprMethodCall", "attrs"), ("ExprMethodCall", "method"), ("ExprParen", "attrs"),
   ("ExprPath", "attrs"), ("ExprRange", "attrs"), ("ExprRange", "limits"), ("ExprReference", "attrs"),
   ("ExprReference", "mutability"), ("ExprRepeat", "attrs"), ("ExprReturn", "attrs"), ("ExprStruct", "attrs"),
   ("ExprStruct", "dot2_token"), ("ExprTry", "attrs"), ("ExprTryBlock", "attrs"), ("ExprTuple", "attrs"),
   ("ExprUnary", "attrs"), ("ExprUnary", "op"), ("ExprUnsafe", "attrs"), ("ExprWhile", "attrs"),
   ("ExprYield", "attrs"), ("FieldValue", "attrs"), ("FieldValue", "member"), ("FieldValue", "colon_token"),
   ("Lifetime", "apostrophe"), ("Lifetime", "ident"), ("LifetimeParam", "attrs"), ("LifetimeParam", "colon_token"),
   ("LifetimeParam", "bounds"), ("Local", "attrs"), ("Macro", "path"), ("Macro", "delimiter"),
   ("Macro", "tokens"), ("PatIdent", "attrs"), ("PatIdent", "by_ref"), ("PatIdent", "mutability"),
   ("PatIdent", "ident"), ("PatOr", "attrs"), ("PatOr", "leading_vert"), ("PatParen", "attrs"),
   ("PatReference", "attrs"), ("PatReference", "mutability"), ("PatRest", "attrs"), ("PatSlice", "attrs"),
   ("PatStruct", "attrs"), ("PatStruct", "qself"), ("PatStruct", "path"), ("PatStruct", "fields"),
   ("PatStruct", "rest"), ("PatTuple", "attrs"), ("PatTupleStruct", "attrs"), ("PatTupleStruct", "qself"),
   ("PatTupleStruct", "path"), ("PatTupleStruct", "elems"), ("PatType", "attrs"), ("PatWild", "attrs"),
   ("QSelf", "position"), ("QSelf", "as_token"), ("StmtMacro", "attrs"), ("StmtMacro", "semi_token"),
   ("TraitBound", "paren_token"), ("TraitBound", "modifier"), ("TypeBareFn", "unsafety"), ("TypeBareFn", "abi"),
   ("TypeBareFn", "variadic"), ("TypeParam", "attrs"), ("TypeParam", "ident"), ("TypeParam", "colon_token"),
   ("TypeParam", "eq_token"), ("TypePtr", "const_token"), ("TypePtr", "mutability"), ("TypeReference", "mutability"),
   ("TypeTraitObject", "dyn_token")]

/-- the types that have an `impl Superset` / `impl Substitute` (sorted) -/
def supersetImpls : List String :=
  ["AngleBracketedGenericArguments", "Arm", "AssocConst", "AssocType", "BareFnArg", "Block", "BoundLifetimes", "ConstParam", "Constraint", "Expr", "ExprArray", "ExprAssign", "ExprAsync", "ExprAwait", "ExprBinary", "ExprBlock", "ExprBreak", "ExprCall", "ExprCast", "ExprClosure", "ExprConst", "ExprContinue", "ExprField", "ExprForLoop", "ExprGroup", "ExprIf", "ExprIndex", "ExprInfer", "ExprLet", "ExprLit", "ExprLoop", "ExprMacro", "ExprMatch", "ExprMethodCall", "ExprParen", "ExprPath", "ExprRange", "ExprReference", "ExprRepeat", "ExprReturn", "ExprStruct", "ExprTry", "ExprTryBlock", "ExprTuple", "ExprUnary", "ExprUnsafe", "ExprWhile", "ExprYield", "FieldValue", "GenericParam", "ImplGroupId", "Label", "Lifetime", "LifetimeParam", "Lit", "LitStr", "Local", "LocalInit", "Macro", "Option", "Pat", "PatIdent", "PatOr", "PatParen", "PatReference", "PatRest", "PatSlice", "PatStruct", "PatTuple", "PatTupleStruct", "PatType", "PatWild", "Path", "QSelf", "ReturnType", "Stmt", "StmtMacro", "TraitBound", "Type", "TypeArray", "TypeBareFn", "TypeGroup", "TypeImplTrait", "TypeInfer", "TypeMacro", "TypeNever", "TypeParam", "TypeParamBound", "TypeParen", "TypePath", "TypePtr", "TypeReference", "TypeSlice", "TypeTraitObject", "TypeTuple", "Vec"]
def substituteImpls : List String :=
  ["AngleBracketedGenericArguments", "Arm", "AssocConst", "AssocType", "BareFnArg", "Block", "BoundLifetimes", "ConstParam", "Constraint", "Expr", "ExprArray", "ExprAssign", "ExprAsync", "ExprAwait", "ExprBinary", "ExprBlock", "ExprBreak", "ExprCall", "ExprCast", "ExprClosure", "ExprConst", "ExprContinue", "ExprField", "ExprForLoop", "ExprGroup", "ExprIf", "ExprIndex", "ExprInfer", "ExprLet", "ExprLit", "ExprLoop", "ExprMacro", "ExprMatch", "ExprMethodCall", "ExprParen", "ExprPath", "ExprRange", "ExprReference", "ExprRepeat", "ExprReturn", "ExprStruct", "ExprTry", "ExprTryBlock", "ExprTuple", "ExprUnary", "ExprUnsafe", "ExprWhile", "ExprYield", "FieldValue", "GenericParam", "ImplGroupId", "Label", "Lifetime", "LifetimeParam", "Lit", "LitStr", "Local", "LocalInit", "Macro", "Option", "Pat", "PatIdent", "PatOr", "PatParen", "PatReference", "PatRest", "PatSlice", "PatStruct", "PatTuple", "PatTupleStruct", "PatType", "PatWild", "Path", "QSelf", "ReturnType", "Stmt", "StmtMacro", "TraitBound", "Type", "TypeArray", "TypeBareFn", "TypeGroup", "TypeImplTrait", "TypeInfer", "TypeMacro", "TypeNever", "TypeParam", "TypeParamBound", "TypeParen", "TypePath", "TypePtr", "TypeReference", "TypeSlice", "TypeTraitObject", "TypeTuple", "Vec"]

def lookupS (m : List (String × List String)) (ty : String) : Option (List String) :=
  match m with
  | [] => none
  | (k, v) :: r => if k == ty then some v else lookupS r ty

/-- the non-punctuation fields of the structs in `MatchFacts.structFields` that `mentions` does not list -/
def unexamined (mentions : List (String × List String)) : List (String × String) :=
  MatchFacts.structFields.flatMap (fun tf =>
    match lookupS mentions tf.1 with
    | some ms => tf.2.filterMap (fun nk => if nk.2 != "token" && !ms.contains nk.1 then some (tf.1, nk.1) else none)
    | none => [])

end DI.MatchSchema
