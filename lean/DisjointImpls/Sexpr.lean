/-
  S-expression reader/printer for the driver's line protocol (not part of the model; trusted glue).
-/
import DisjointImpls.Tree
namespace DI

inductive Sx where
  | str (s : String)
  | sym (s : String)
  | list (xs : List Sx)
  deriving Repr, Inhabited

namespace Sx

partial def parseAux (cs : Array Char) (i : Nat) : Option (Sx × Nat) :=
  let rec skip (i : Nat) : Nat := if i < cs.size && cs[i]! == ' ' then skip (i + 1) else i
  let i := skip i
  if i >= cs.size then none
  else
    let c := cs[i]!
    if c == '(' then
      let rec items (i : Nat) (acc : Array Sx) : Option (Sx × Nat) :=
        let i := skip i
        if i >= cs.size then none
        else if cs[i]! == ')' then some (.list acc.toList, i + 1)
        else match parseAux cs i with
          | none => none
          | some (x, j) => items j (acc.push x)
      items (i + 1) #[]
    else if c == '"' then
      let rec str (i : Nat) (acc : String) : Option (Sx × Nat) :=
        if i >= cs.size then none
        else
          let c := cs[i]!
          if c == '\\' then
            if i + 1 < cs.size then str (i + 2) (acc.push cs[i+1]!) else none
          else if c == '"' then some (.str acc, i + 1)
          else str (i + 1) (acc.push c)
      str (i + 1) ""
    else
      let rec sym (i : Nat) (acc : String) : (Sx × Nat) :=
        if i < cs.size && cs[i]! != ' ' && cs[i]! != '(' && cs[i]! != ')' then sym (i + 1) (acc.push cs[i]!)
        else (.sym acc, i)
      some (sym i "")

/-- parse all top-level S-expressions of a line -/
partial def parseAll (s : String) : List Sx :=
  let cs := s.toList.toArray
  let rec go (i : Nat) (acc : Array Sx) : List Sx :=
    match parseAux cs i with
    | none => acc.toList
    | some (x, j) => go j (acc.push x)
  go 0 #[]

def quote (s : String) : String :=
  "\"" ++ (s.replace "\\" "\\\\").replace "\"" "\\\"" ++ "\""

partial def toString : Sx → String
  | .str s => quote s
  | .sym s => s
  | .list xs => "(" ++ " ".intercalate (xs.map toString) ++ ")"

end Sx

partial def T.ofSx : Sx → Option T
  | .list [.sym "P", .str n] => some (.tparam n)
  | .list [.sym "E", .str n] => some (.eparam n)
  | .list [.sym "N", .str k, .list as, .list ks] =>
      let atoms := as.filterMap (fun | .str s => some s | _ => none)
      let kids := ks.filterMap T.ofSx
      if atoms.length == as.length && kids.length == ks.length then some (.node k atoms kids) else none
  | _ => none

partial def T.toSx : T → Sx
  | .tparam n => .list [.sym "P", .str n]
  | .eparam n => .list [.sym "E", .str n]
  | .node k as ks => .list [.sym "N", .str k, .list (as.map Sx.str), .list (ks.map T.toSx)]

def Val.toSx : Val → Sx
  | .ty t => .list [.sym "ty", t.toSx]
  | .ex t => .list [.sym "ex", t.toSx]
  | .identity => .list [.sym "id"]

def Val.ofSx : Sx → Option Val
  | .list [.sym "ty", t] => (T.ofSx t).map Val.ty
  | .list [.sym "ex", t] => (T.ofSx t).map Val.ex
  | .list [.sym "id"] => some .identity
  | _ => none

def Subst.toSx (σ : Subst) : Sx := .list (σ.map (fun (n, v) => .list [.str n, v.toSx]))

def Subst.ofSx : Sx → Option Subst
  | .list xs =>
      let ys := xs.filterMap (fun
        | .list [.str n, v] => (Val.ofSx v).map (fun v => (n, v))
        | _ => none)
      if ys.length == xs.length then some ys else none
  | _ => none

end DI
