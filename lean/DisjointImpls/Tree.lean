/-
  Positional model tree `T` (DESIGN.md §3.4, §5.1).

  A `syn` AST, as printed by its `Debug` impl and decoded by `harness/syn_dbg.py`, is a tree of
  nodes `node kind atoms kids`; a type-position / expression-position occurrence of a reserved
  parameter identifier (`_ŠČ…`, a lone `Type::Path` / `Expr::Path`) is `tparam` / `eparam`.
  Core-only file (no Mathlib): it is linked into the `driver` executable.
-/
namespace DI

inductive T where
  | tparam (n : String)
  | eparam (n : String)
  | node (k : String) (atoms : List String) (kids : List T)
  deriving Repr, Inhabited

mutual
def T.beq : T → T → Bool
  | .tparam n, .tparam m => n == m
  | .eparam n, .eparam m => n == m
  | .node k as ks, .node k' as' ks' => k == k' && as == as' && T.beqL ks ks'
  | _, _ => false
def T.beqL : List T → List T → Bool
  | [], [] => true
  | a :: as, b :: bs => T.beq a b && T.beqL as bs
  | _, _ => false
end

mutual
theorem T.beq_eq : ∀ (a b : T), T.beq a b = true → a = b
  | .tparam n, .tparam m, h => by simp [T.beq] at h; simp [h]
  | .eparam n, .eparam m, h => by simp [T.beq] at h; simp [h]
  | .node k as ks, .node k' as' ks', h => by
      simp [T.beq] at h
      obtain ⟨⟨h1, h2⟩, h3⟩ := h
      have := T.beqL_eq ks ks' h3
      simp [*]
  | .tparam _, .eparam _, h => by simp [T.beq] at h
  | .tparam _, .node _ _ _, h => by simp [T.beq] at h
  | .eparam _, .tparam _, h => by simp [T.beq] at h
  | .eparam _, .node _ _ _, h => by simp [T.beq] at h
  | .node _ _ _, .tparam _, h => by simp [T.beq] at h
  | .node _ _ _, .eparam _, h => by simp [T.beq] at h
theorem T.beqL_eq : ∀ (a b : List T), T.beqL a b = true → a = b
  | [], [], _ => rfl
  | a :: as, b :: bs, h => by
      simp [T.beqL] at h
      have h1 := T.beq_eq a b h.1
      have h2 := T.beqL_eq as bs h.2
      simp [*]
  | [], _ :: _, h => by simp [T.beqL] at h
  | _ :: _, [], h => by simp [T.beqL] at h
end

mutual
theorem T.beq_refl : ∀ (a : T), T.beq a a = true
  | .tparam n => by simp [T.beq]
  | .eparam n => by simp [T.beq]
  | .node k as ks => by simp [T.beq, T.beqL_refl ks]
theorem T.beqL_refl : ∀ (a : List T), T.beqL a a = true
  | [] => rfl
  | a :: as => by simp [T.beqL, T.beq_refl a, T.beqL_refl as]
end

instance : BEq T := ⟨T.beq⟩
instance : LawfulBEq T where
  eq_of_beq h := T.beq_eq _ _ h
  rfl := T.beq_refl _
instance : DecidableEq T := fun a b =>
  if h : a == b then isTrue (eq_of_beq h) else isFalse (fun e => h (e ▸ beq_self_eq_true a))

/-- Value of a substitution entry (code: `SubstitutionValue`). -/
inductive Val where
  | ty (t : T)
  | ex (t : T)
  | identity
  deriving Repr, DecidableEq, Inhabited

/-- Insertion-ordered finite map from parameter identifiers to values (code: `Substitutions`, an `IndexMap`). -/
abbrev Subst := List (String × Val)

def lookup : Subst → String → Option Val
  | [], _ => none
  | (m, v) :: r, n => if m = n then some v else lookup r n

/-- code: `Substitutions::merge` (superset.rs:77-93): left-biased union, fails on unequal values for one key. -/
def merge (σ : Subst) : Subst → Option Subst
  | [] => some σ
  | (n, v) :: rest =>
    match lookup σ n with
    | some v' => if v = v' then merge σ rest else none
    | none => merge (σ ++ [(n, v)]) rest

/-- code: `Substitutions::is_eq` (superset.rs:96-98) -/
def allIdentity (σ : Subst) : Bool := σ.all (fun p => p.2 == Val.identity)

/-! ### Kinds with special treatment -/

/-- Transparent wrappers: `Type::Group`, `Type::Paren` (ty.rs:10-18), `Expr::Group` (expr.rs:23-24),
    `Pat::Paren` (pat.rs:14-15). The wrapped node is the last child. -/
def isWrapper (k : String) : Bool :=
  k == "Type::Group" || k == "Type::Paren" || k == "Expr::Group" || k == "Pat::Paren"

/-- last child of a wrapper node -/
def lastKid : List T → Option T
  | [] => none
  | [e] => some e
  | _ :: es => lastKid es

mutual
/-- removes transparent wrappers at the root -/
def stripTop : T → T
  | .tparam n => .tparam n
  | .eparam n => .eparam n
  | .node k as ks => if isWrapper k then stripLast ks (.node k as ks) else .node k as ks
def stripLast : List T → T → T
  | [], dflt => dflt
  | [e], _ => stripTop e
  | _ :: es, dflt => stripLast es dflt
end

/-! ### Capture-free first-order instantiation (specification side; nothing in the code computes it) -/

mutual
def inst (σ : Subst) : T → T
  | .tparam n => match lookup σ n with
      | some (.ty t) => t
      | _ => .tparam n
  | .eparam n => match lookup σ n with
      | some (.ex t) => t
      | _ => .eparam n
  | .node k as ks =>
      match k, as, ks with
      | "GenericArgument::Type", [], [.tparam n] =>
          -- a type parameter in generic-argument position may stand for a const argument (path.rs:173-179)
          match lookup σ n with
          | some (.ex e) => .node "GenericArgument::Const" [] [e]
          | some (.ty t) => .node "GenericArgument::Type" [] [t]
          | _ => .node "GenericArgument::Type" [] [.tparam n]
      | _, _, _ => .node k as (instL σ ks)
def instL (σ : Subst) : List T → List T
  | [] => []
  | t :: ts => inst σ t :: instL σ ts
end

/-! ### Equality modulo presentation (`≈` of DESIGN §5.1)

`erase` removes what the matcher treats as presentation: the contents of `Ign` children
(attributes, turbofish `::`, the optional `dyn`, the raw spelling of an ABI) and transparent wrappers. -/
mutual
def erase : T → T
  | .tparam n => .tparam n
  | .eparam n => .eparam n
  | .node k as ks =>
      if k == "Ign" then .node "Ign" [] []
      else if isWrapper k then eraseLast ks
      else .node k as (eraseL ks)
def eraseLast : List T → T
  | [] => .node "Ign" [] []
  | [e] => erase e
  | _ :: es => eraseLast es
def eraseL : List T → List T
  | [] => []
  | t :: ts => erase t :: eraseL ts
end

/-! ### Parameters of a tree (occurrences the matcher can see: not inside ignored children) -/
def isIgnored (k : String) : Bool := k == "Ign" || k == "IgnL"

mutual
def params : T → List String
  | .tparam n => [n]
  | .eparam n => [n]
  | .node k _ ks => if isIgnored k then [] else paramsL ks
def paramsL : List T → List String
  | [] => []
  | t :: ts => params t ++ paramsL ts
end

mutual
def T.size : T → Nat
  | .tparam _ => 1
  | .eparam _ => 1
  | .node _ _ ks => 1 + T.sizeL ks
def T.sizeL : List T → Nat
  | [] => 0
  | t :: ts => T.size t + T.sizeL ts
end

end DI
