/-
  Model of parameter canonicalisation (`param.rs`: `resolve_non_predicate_params`,
  `NonPredicateParamIndexer`, `NonPredicateParamResolver`) on the positional tree of an `ItemImpl`.

  Indexing: parameters are numbered at their first occurrence in (trait path, self type, items) —
  `visit_item_impl` with `visit_generics` switched off — then repeatedly through the inline bounds of the
  already numbered type/const parameters (in index order) and the whole where-clause, until nothing changes.
  Renaming: the generic parameter list is renamed in place, then one simultaneous bottom-up rewrite of
  lifetimes, type paths and expression paths (multi-segment paths become `<_ŠČn>::rest`).
-/
import DisjointImpls.Bounds
namespace DI

structure IxState where
  unLt : List String
  unTy : List String
  unCo : List String
  ixLt : List (String × Nat)
  ixTy : List (String × Nat)
  ixCo : List (String × Nat)
  next : Nat
  deriving Repr, DecidableEq

def IxState.unindexed (s : IxState) : Nat := s.unLt.length + s.unTy.length + s.unCo.length

/-- `visit_lifetime_ident` (param.rs:241-249) -/
def ltIdent (s : IxState) (x : String) : IxState :=
  if s.unLt.contains x then { s with unLt := s.unLt.erase x, ixLt := s.ixLt ++ [(x, s.next)], next := s.next + 1 } else s

/-- `visit_type_param_ident` (param.rs:251-261); the Bool says whether it was a type parameter -/
def tyIdent (s : IxState) (x : String) : IxState × Bool :=
  if s.unTy.contains x then ({ s with unTy := s.unTy.erase x, ixTy := s.ixTy ++ [(x, s.next)], next := s.next + 1 }, true)
  else (s, false)

/-- `visit_const_param_ident` (param.rs:263-273) -/
def coIdent (s : IxState) (x : String) : IxState :=
  if s.unCo.contains x then { s with unCo := s.unCo.erase x, ixCo := s.ixCo ++ [(x, s.next)], next := s.next + 1 } else s

/-- expression path: type parameter first, then const parameter (param.rs:298-314) -/
def exIdent (s : IxState) (x : String) : IxState :=
  let (s1, hit) := tyIdent s x
  if hit then s1 else coIdent s1 x

def firstSegIdent : T → Option String
  | .node "Path" [] [_, .node "List" [] (.node "PathSegment" [] [.node "Ident" [x] [], _] :: _)] => some x
  | _ => none

mutual
/-- the indexer as a pre-order traversal (syn's `Visit` order = field order) -/
def ixT (s : IxState) : T → IxState
  | .tparam n => (tyIdent s n).1
  | .eparam n => exIdent s n
  | .node "Generics" _ _ => s
  | .node "Ign" _ _ => s
  | .node "Eq" _ _ => s
  | .node "Lifetime" _ [.node "Ident" [x] []] => ltIdent s x
  | .node "Type::Path" _ [qself, path] =>
      let s1 := ixT s qself
      let s2 := match firstSegIdent path with
        | some x => (tyIdent s1 x).1
        | none => s1
      ixT s2 path
  | .node "Expr::Path" _ [_, qself, path] =>
      let s1 := ixT s qself
      let s2 := match firstSegIdent path with
        | some x => exIdent s1 x
        | none => s1
      ixT s2 path
  | .node _ _ ks => ixL s ks
def ixL (s : IxState) : List T → IxState
  | [] => s
  | t :: ts => ixL (ixT s t) ts
end

/-- the declaration of an indexed type / const parameter: the code keeps one table per kind (param.rs:40-48, 205-222),
    a lifetime parameter of the same spelling (`'a` next to `a`) is never looked at -/
def paramNode (generics : T) (x : String) : Option T :=
  (genericsParams generics).find? (fun p => (match p with
    | .node "GenericParam::Lifetime" _ _ => false
    | _ => true) && paramIdent p == some x)

def insertByIdx (x : Nat × T) : List (Nat × T) → List (Nat × T)
  | [] => [x]
  | y :: ys => if y.1 < x.1 then y :: insertByIdx x ys else x :: y :: ys

/-- one round of `visit_indexed_params` (param.rs:197-239) -/
def ixRound (s : IxState) (generics : T) : IxState :=
  let nodes := (s.ixTy ++ s.ixCo).filterMap (fun (x, i) => (paramNode generics x).map (fun p => (i, p)))
  let sorted := nodes.foldr insertByIdx []
  let s1 := sorted.foldl (fun acc ip => match ip.2 with
    | .node _ [] [inner] => (match inner with
        | .node _ [] kids => ixL acc kids
        | _ => acc)
    | _ => acc) s
  match generics with
  | .node "Generics" [] [_, _, _, .node "Some" [] [wc]] => ixT s1 wc
  | _ => s1

/-- the loop of param.rs:59-85 -/
def ixLoop : Nat → Nat → IxState → T → IxState
  | 0, _, s, _ => s
  | fuel + 1, prev, s, generics =>
      let curr := s.unindexed
      if prev > 0 && prev != curr then
        ixLoop fuel curr (ixRound s generics) generics
      else s

def kindNames (generics : T) (kind : String) : List String :=
  (genericsParams generics).filterMap (fun p => match p with
    | .node k [] _ => if k == kind then paramIdent p else none
    | _ => none)

/-- `resolve_non_predicate_params`, indexing part -/
def indexImpl (item : T) : IxState :=
  let generics := (implGenerics item).getD (.node "?" [] [])
  let s0 : IxState := ⟨kindNames generics "GenericParam::Lifetime", kindNames generics "GenericParam::Type",
                       kindNames generics "GenericParam::Const", [], [], [], 0⟩
  let s1 := ixT s0 item
  -- first iteration always runs (prev = usize::MAX); modelled by prev := unindexed + 1
  ixLoop (s1.unindexed + 2) (s1.unindexed + 1) s1 generics

def genIndexedIdent (i : Nat) : String := PARAM_PREFIX ++ toString i

structure Renaming where
  lt : List (String × String)
  ty : List (String × String)
  co : List (String × String)
  deriving Repr, DecidableEq

def IxState.renaming (s : IxState) : Renaming :=
  ⟨s.ixLt.map (fun (x, i) => (x, genIndexedIdent i)), s.ixTy.map (fun (x, i) => (x, genIndexedIdent i)),
   s.ixCo.map (fun (x, i) => (x, genIndexedIdent i))⟩

def rlookup (m : List (String × String)) (x : String) : Option String :=
  match m with
  | [] => none
  | (a, b) :: r => if a = x then some b else rlookup r x

/-- in-place renaming of the declared type and const parameters (param.rs:100-118); declared lifetimes are
    `Lifetime` nodes and are renamed by the resolver like every other lifetime -/
def renameDecl (r : Renaming) : T → T
  | .node "GenericParam::Type" [] [.node "TypeParam" [] (a :: .node "Ident" [x] [] :: rest)] =>
      .node "GenericParam::Type" [] [.node "TypeParam" [] (a :: .node "Ident" [(rlookup r.ty x).getD x] [] :: rest)]
  | .node "GenericParam::Const" [] [.node "ConstParam" [] (a :: .node "Ident" [x] [] :: rest)] =>
      .node "GenericParam::Const" [] [.node "ConstParam" [] (a :: .node "Ident" [(rlookup r.co x).getD x] [] :: rest)]
  | t => t

def renameGenerics (r : Renaming) : T → T
  | .node "Generics" [] [lt, .node "List" [] ps, gt, wc] => .node "Generics" [] [lt, .node "List" [] (ps.map (renameDecl r)), gt, wc]
  | t => t

def renameImplDecls (r : Renaming) : T → T
  | .node "ItemImpl" [] [a, d, u, g, tr, s, items] => .node "ItemImpl" [] [a, d, u, renameGenerics r g, tr, s, items]
  | t => t

def restSegments : T → List T
  | .node "Path" [] [_, .node "List" [] (_ :: rest)] => rest
  | _ => []

def noneNode : T := .node "None" [] []
def someColon : T := .node "IgnL" [] [.node "Some" ["PathSep"] []]

/-- `<_ŠČn>::rest` as printed by `parse_quote!(<#replacement> #(::#segments)*)` (param.rs:336) -/
def qselfPath (new : String) (rest : List T) : T × T :=
  (.node "Some" [] [.node "QSelf" [] [.tparam new, .node "Atom" ["0"] [], noneNode]],
   .node "Path" [] [someColon, .node "List" [] rest])

def mkSegment (x : String) : T := .node "PathSegment" [] [.node "Ident" [x] [], .node "PathArguments::None" [] []]

/-- what the resolver does to a type path after its children have been rewritten (param.rs:330-343, 361-372) -/
def rsTypePath (r : Renaming) (as : List String) (qself path : T) : T :=
  match firstSegIdent path with
  | some x =>
      (match rlookup r.ty x with
       | some m =>
          if (restSegments path).isEmpty then .tparam m
          else let (q, p) := qselfPath m (restSegments path); .node "Type::Path" as [q, p]
       | none => .node "Type::Path" as [qself, path])
  | none => .node "Type::Path" as [qself, path]

/-- … and to an expression path (param.rs:345-351, 374-388) -/
def rsExprPath (r : Renaming) (as : List String) (att qself path : T) : T :=
  match firstSegIdent path with
  | some x =>
      (match rlookup r.ty x with
       | some m =>
          if (restSegments path).isEmpty then .eparam m
          else let (q, p) := qselfPath m (restSegments path); .node "Expr::Path" as [.node "Ign" [] [.node "List" [] []], q, p]
       | none =>
          (match rlookup r.co x with
           | some m =>
              -- only a bare identifier (`Path::get_ident`, no qualified self) names the const parameter; the node is
              -- replaced by the replacement expression, its attributes are dropped (param.rs:342-352, 383-387)
              (match path with
               | .node "Path" [] [lc, .node "List" [] [.node "PathSegment" [] [_, .node "PathArguments::None" [] []]]] =>
                  if qself == noneNode && lc == .node "IgnL" [] [noneNode]
                  then .eparam m
                  else .node "Expr::Path" as [att, qself, path]
               | _ => .node "Expr::Path" as [att, qself, path])
           | none => .node "Expr::Path" as [att, qself, path]))
  | none => .node "Expr::Path" as [att, qself, path]

mutual
/-- `NonPredicateParamResolver` (param.rs:354-389): children first, then the node itself -/
def rsT (r : Renaming) : T → T
  | .tparam n => (match rlookup r.ty n with | some m => .tparam m | none => .tparam n)
  | .eparam n =>
      (match rlookup r.ty n with
       | some m => .eparam m
       | none => match rlookup r.co n with | some m => .eparam m | none => .eparam n)
  | .node "Ign" as ks => .node "Ign" as ks
  | .node "Eq" as ks => .node "Eq" as ks
  | .node "Lifetime" as [.node "Ident" [x] []] => .node "Lifetime" as [.node "Ident" [(rlookup r.lt x).getD x] []]
  | .node "Type::Path" as [qself, path] => rsTypePath r as (rsT r qself) (rsT r path)
  | .node "Expr::Path" as [att, qself, path] => rsExprPath r as (rsT r att) (rsT r qself) (rsT r path)
  | .node k as ks => .node k as (rsL r ks)
def rsL (r : Renaming) : List T → List T
  | [] => []
  | t :: ts => rsT r t :: rsL r ts
end

/-- `resolve_non_predicate_params` -/
def canon (item : T) : T :=
  let r := (indexImpl item).renaming
  rsT r (renameImplDecls r item)

end DI
