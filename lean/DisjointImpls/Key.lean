/-
  Model of the dispatch-key identity: `TraitBound: PartialEq / Hash / ToTokens` (lib.rs:95-272).

  A trait path is the tree `Path [IgnL leading_colon, List segments]`, a segment is
  `PathSegment [Ident, arguments]`, arguments are `PathArguments::None`,
  `PathArguments::AngleBracketed [Ign colon2, List args]` or `PathArguments::Parenthesized …`.
  `Tokenized` equality (comparison of printed tokens) is modelled as equality of trees: both
  sides come out of `syn`'s parser, for which printing is injective (trusted base, DESIGN §10).
-/
import DisjointImpls.Tree
namespace DI

def isAssocType : T → Bool
  | .node "GenericArgument::AssocType" _ _ => true
  | _ => false

def pathSegments : T → List T
  | .node "Path" [] [_, .node "List" [] segs] => segs
  | _ => []

def segIdent : T → Option String
  | .node "PathSegment" [] [.node "Ident" [n] [], _] => some n
  | _ => none

inductive SegArgs where
  | none
  | angle (args : List T)
  | paren (arguments : T)        -- the whole `PathArguments::Parenthesized` node (`Fn(A) -> B`): compared and hashed as printed
  | bad
  deriving Repr, DecidableEq

def segArgs : T → SegArgs
  | .node "PathSegment" [] [_, .node "PathArguments::None" [] []] => .none
  | .node "PathSegment" [] [_, .node "PathArguments::AngleBracketed" [] [_, .node "List" [] args]] => .angle args
  | .node "PathSegment" [] [_, .node "PathArguments::Parenthesized" as ks] => .paren (.node "PathArguments::Parenthesized" as ks)
  | _ => .bad

def nonAssoc (args : List T) : List T := args.filter (fun a => !isAssocType a)

/-- outcome of a comparison; `panic` is kept for trees that are not paths (never produced by `syn`): since /repo 94aac73 the
    parenthesized form no longer hits `unreachable!()` -/
inductive B3 where | t | f | panic
  deriving Repr, DecidableEq

def B3.ofBool (b : Bool) : B3 := if b then .t else .f

/-- `TraitBound::eq` (lib.rs:95-153), line by line -/
def tbEq (p q : T) : B3 :=
  match (pathSegments p).reverse, (pathSegments q).reverse with
  | lp :: ip, lq :: iq =>
      if ip.reverse != iq.reverse then .f
      else if segIdent lp != segIdent lq then .f
      else match segArgs lp, segArgs lq with
        | .none, .none => .t
        | .angle args, .none => B3.ofBool (!(args.any (fun a => !isAssocType a)))
        | .none, .angle args => B3.ofBool (!(args.any (fun a => !isAssocType a)))
        | .angle a1, .angle a2 =>
            let f1 := nonAssoc a1
            let f2 := nonAssoc a2
            if f1.length != f2.length then .f else B3.ofBool (f1 == f2)
        -- `(first_args, second_args) => Tokenized(first_args) == Tokenized(second_args)`: at least one side is parenthesized
        | .paren x, .paren y => B3.ofBool (x == y)
        | .paren _, .none => .f
        | .paren _, .angle _ => .f
        | .none, .paren _ => .f
        | .angle _, .paren _ => .f
        | _, _ => .panic
  | _, _ => .panic

/-- The dispatch key denoted by a trait path (SPECIFICATION, not mirrored code): leading segments, identifier, the
    non-binding arguments of an angle-bracketed list (`[]` for `Tr` and for `Tr(..)`), and — separately, so that a
    parenthesized list is never confused with an angle-bracketed one — the whole parenthesized argument node of
    `Fn(A) -> B` (`none` for `Tr` and `Tr<..>`). -/
structure TraitKey where
  init : List T
  ident : Option String
  args : List T
  paren : Option T
  deriving Repr, DecidableEq

def keyOf (p : T) : Option TraitKey :=
  match (pathSegments p).reverse with
  | l :: i =>
      match segArgs l with
      | .none => some ⟨i.reverse, segIdent l, [], none⟩
      | .angle args => some ⟨i.reverse, segIdent l, nonAssoc args, none⟩
      | .paren x => some ⟨i.reverse, segIdent l, [], some x⟩
      | .bad => none
  | [] => none

/-- what `TraitBound::hash` feeds to the hasher (lib.rs:225-244): one entry per printed piece -/
inductive Feed where
  | seg (t : T)
  | ident (n : Option String)
  | arg (t : T)
  deriving Repr, DecidableEq

def hashFeed (p : T) : Option (List Feed) :=
  match (pathSegments p).reverse with
  | l :: i =>
      let pre := i.reverse.map Feed.seg ++ [Feed.ident (segIdent l)]
      match segArgs l with
      | .none => some pre
      | .angle args => some (pre ++ (nonAssoc args).map Feed.arg)
      | .paren x => some (pre ++ [Feed.arg x])
      | .bad => none
  | [] => none

/-- The bound with exactly its associated-type bindings removed (what generated where-clauses and
    projections must mention). `Tr` stays `Tr`; `Tr<A = X>` becomes `Tr<>`. -/
def stripBindings : T → T
  | .node "Path" [] [lc, .node "List" [] segs] =>
      match segs.reverse with
      | .node "PathSegment" [] [id, .node "PathArguments::AngleBracketed" [] [c2, .node "List" [] args]] :: i =>
          .node "Path" [] [lc, .node "List" [] (i.reverse ++
            [.node "PathSegment" [] [id, .node "PathArguments::AngleBracketed" [] [c2, .node "List" [] (nonAssoc args)]]])]
      | _ => .node "Path" [] [lc, .node "List" [] segs]
  | t => t

/-- `TraitBound::to_tokens` (lib.rs:246-272) re-parsed as a path: the model of what the code prints. -/
def tbTokens (p : T) : T := stripBindings p

end DI
