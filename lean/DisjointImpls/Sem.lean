/-
  Semantics of the user's blocks and of the generated helper-trait program on ground worlds
  (DESIGN.md §6).  Trees at this level are lifetime-erased. Substitutions bind type parameters (`.ty`) and const
  parameters (`.ex`); the substitution a block / the main impl is instantiated with is *well-kinded* for it (`wkB`,
  `wkF`): it binds no expression to a parameter used in type position (a bare `tparam`; the generic-argument
  position `GenericArgument::Type [tparam n]` is ambiguous — a bare const argument is printed like that — and
  accepts both). Every substitution without const bindings (`noEx`) is well-kinded for everything.
-/
import DisjointImpls.Tree
namespace DI

def assoc (bs : List (String × T)) (a : String) : Option T :=
  match bs with
  | [] => none
  | (n, v) :: r => if n = a then some v else assoc r a

/-- A ground world: which (ground) trait reference is implemented by which ground type, and with which
    associated types. A function, hence coherent by construction. `sized` says which ground types are `Sized`. -/
structure World where
  disp : T → T → Option (List (String × T))
  sized : T → Bool

/-- one trait bound of a block: `bounded: tr<…, a = p, …>` (`tr` with the bindings removed) -/
structure Clause where
  bounded : T
  tr : T
  binds : List (String × T)
  deriving Repr, DecidableEq

/-- a user-written block: header (trait arguments and self type as one tree), its trait bounds, and the
    parameters that must be `Sized` (all type parameters not relaxed with `?Sized`) -/
structure Block where
  hdr : T
  clauses : List Clause
  sizedParams : List String
  deriving Repr, DecidableEq

/-- no const bindings -/
def noEx (σ : Subst) : Prop := ∀ n e, lookup σ n ≠ some (.ex e)

/-- `σ` does not bind `n` to an expression -/
def nonEx (σ : Subst) (n : String) : Bool :=
  match lookup σ n with
  | some (.ex _) => false
  | _ => true

mutual
/-- well-kinded for `t`: no parameter that `t` uses in type position (a bare `tparam`, not the ambiguous
    generic-argument position) is bound to an expression -/
def wkT (σ : Subst) : T → Bool
  | .tparam n => nonEx σ n
  | .eparam _ => true
  | .node k as ks =>
      match k, as, ks with
      | "GenericArgument::Type", [], [.tparam _] => true
      | _, _, _ => wkL σ ks
def wkL (σ : Subst) : List T → Bool
  | [] => true
  | t :: ts => wkT σ t && wkL σ ts
end

/-- `ρ` is well-kinded for block `b`: for its header, the bounded types and traits of its bounds, and its
    `Sized` parameters (which are type parameters) -/
def wkB (ρ : Subst) (b : Block) : Bool :=
  wkT ρ b.hdr && b.clauses.all (fun c => wkT ρ c.bounded && wkT ρ c.tr) && b.sizedParams.all (nonEx ρ)

def holds (W : World) (ρ : Subst) (c : Clause) : Prop :=
  ∃ bs, W.disp (inst ρ c.tr) (inst ρ c.bounded) = some bs ∧ ∀ a p, (a, p) ∈ c.binds → assoc bs a = some (inst ρ p)

def sizedOK (W : World) (ρ : Subst) (ps : List String) : Prop :=
  ∀ p ∈ ps, W.sized (inst ρ (.tparam p)) = true

/-- block `b` applies to the ground query `q` (trait arguments + self type) in world `W` -/
def applies (W : World) (b : Block) (q : T) : Prop :=
  ∃ ρ, wkB ρ b = true ∧ inst ρ b.hdr = q ∧ (∀ c ∈ b.clauses, holds W ρ c) ∧ sizedOK W ρ b.sizedParams

/-- a dispatch key of a family: (bounded type, trait, associated type) over the family's parameters -/
structure Key where
  bounded : T
  tr : T
  a : String
  deriving Repr, DecidableEq

structure Member where
  blk : Block
  θ : Subst
  row : List (Option T)
  deriving Repr, DecidableEq

structure Family where
  hdr : T
  keys : List Key
  /-- parameters of the main impl that are not relaxed -/
  sizedParams : List String
  members : List Member
  deriving Repr, DecidableEq

/-- `τ` is well-kinded for the main impl of family `F`: for its header and its keys -/
def wkF (τ : Subst) (F : Family) : Bool :=
  wkT τ F.hdr && F.keys.all (fun k => wkT τ k.bounded && wkT τ k.tr)

/-- the projection `<bounded as tr>::a` of key `k` under `τ` is defined in `W` and equals `g` -/
def projOK (W : World) (τ : Subst) (k : Key) (g : T) : Prop :=
  ∃ bs, W.disp (inst τ k.tr) (inst τ k.bounded) = some bs ∧ assoc bs k.a = some g

/-- key `k` seen from member `m` (through its substitution) -/
def Key.via (k : Key) (θ : Subst) : Key := ⟨inst θ k.bounded, inst θ k.tr, k.a⟩

/-- the helper impl generated for member `m` applies to `q` with helper arguments `gs`: it keeps the
    member's header, bounds and generics; its leading trait arguments are the member's row, a wildcard
    entry being printed as the projection of the key through the member's substitution -/
def helperApplies (W : World) (F : Family) (m : Member) (q : T) (gs : List T) : Prop :=
  ∃ ρ, wkB ρ m.blk = true ∧ inst ρ m.blk.hdr = q ∧ (∀ c ∈ m.blk.clauses, holds W ρ c) ∧ sizedOK W ρ m.blk.sizedParams ∧
    gs.length = F.keys.length ∧
    ∀ i (h : i < F.keys.length) (h1 : i < m.row.length) (h2 : i < gs.length),
      match m.row[i] with
      | some p => inst ρ p = gs[i]
      | none => projOK W ρ ((F.keys[i]).via m.θ) gs[i]

/-- the main impl of family `F` applies to `q` and its `Self: Helper<projections…>` predicate is
    discharged by the helper impl of member `m` -/
def genSel (W : World) (F : Family) (m : Member) (q : T) : Prop :=
  ∃ τ gs, wkF τ F = true ∧ inst τ F.hdr = q ∧ sizedOK W τ F.sizedParams ∧ gs.length = F.keys.length ∧
    (∀ i (h : i < F.keys.length) (h2 : i < gs.length), projOK W τ F.keys[i] gs[i]) ∧
    helperApplies W F m q gs

/-! ### Decidable well-formedness of a family (what C11 establishes and the checks re-validate per case) -/

def clauseFor (m : Member) (k : Key) (r : Option T) : Bool :=
  m.blk.clauses.any (fun c =>
    c.bounded == inst m.θ k.bounded && c.tr == inst m.θ k.tr &&
    (match r with
     | some p => c.binds.contains (k.a, p)
     | none => true))

def memberOK (F : Family) (m : Member) : Bool :=
  inst m.θ F.hdr == m.blk.hdr && m.row.length == F.keys.length &&
  (List.zip F.keys m.row).all (fun kr => clauseFor m kr.1 kr.2)

/-- every binding of a substitution is a type binding (no const-as-type, DESIGN §6) -/
def tyOnly (σ : Subst) : Bool := σ.all (fun p => match p.2 with | .ty _ => true | _ => false)

/-- `t` contains no `GenericArgument::Type [tparam]`-to-const ambiguity and no expression parameters:
    every parameter occurrence is a `tparam` -/
def noEParams : T → Bool
  | .tparam _ => true
  | .eparam _ => false
  | .node _ _ ks => noEParamsL ks
where noEParamsL : List T → Bool
  | [] => true
  | t :: ts => noEParams t && noEParamsL ts


/-- all parameter occurrences (including those `params` skips) -/
def allParams : T → List String
  | .tparam n => [n]
  | .eparam n => [n]
  | .node _ _ ks => allParamsL ks
where allParamsL : List T → List String
  | [] => []
  | t :: ts => allParams t ++ allParamsL ts

/-- composition: first `θ` (family parameters ↦ terms over member parameters), then `ρ`. A family parameter that
    `θ` sends to a member parameter which `ρ` binds to an expression is itself bound to that expression (the bare
    const argument `Wr<N>`: `N` is printed as a type) -/
def comp (θ ρ : Subst) : Subst :=
  θ.map (fun p => match p.2 with
    | .ty (.tparam m) => (p.1, match lookup ρ m with
        | some (.ex e) => .ex e
        | _ => .ty (inst ρ (.tparam m)))
    | .ty t => (p.1, .ty (inst ρ t))
    | .ex e => (p.1, .ex (inst ρ e))
    | .identity => (p.1, match lookup ρ p.1 with | some w => w | none => .identity))

/-! ### Kinds of parameter occurrences (executable side conditions of the refinement) -/

mutual
/-- the member's substitution respects the kinds of the occurrences in `t`: a parameter in type position is not
    bound to an expression, a parameter in expression position is not bound to a type (the generic-argument
    position `GenericArgument::Type [tparam n]` accepts both); no expression parameter as a type argument -/
def kindOK (θ : Subst) : T → Bool
  | .tparam n => nonEx θ n
  | .eparam n => (match lookup θ n with | some (.ty _) => false | _ => true)
  | .node k as ks =>
      match k, as, ks with
      | "GenericArgument::Type", [], [.tparam _] => true
      | "GenericArgument::Type", [], [.eparam _] => false
      | _, _, _ => kindOKL θ ks
def kindOKL (θ : Subst) : List T → Bool
  | [] => true
  | t :: ts => kindOK θ t && kindOKL θ ts
end

mutual
/-- parameters in type position (bare `tparam`) -/
def bareOcc : T → List String
  | .tparam n => [n]
  | .eparam _ => []
  | .node k as ks =>
      match k, as, ks with
      | "GenericArgument::Type", [], [.tparam _] => []
      | _, _, _ => bareOccL ks
def bareOccL : List T → List String
  | [] => []
  | t :: ts => bareOcc t ++ bareOccL ts
end

mutual
/-- parameters in expression position (`eparam`) -/
def exOcc : T → List String
  | .tparam _ => []
  | .eparam n => [n]
  | .node k as ks =>
      match k, as, ks with
      | "GenericArgument::Type", [], [.tparam _] => []
      | _, _, _ => exOccL ks
def exOccL : List T → List String
  | [] => []
  | t :: ts => exOcc t ++ exOccL ts
end

mutual
/-- parameters in the ambiguous generic-argument position -/
def gaOcc : T → List String
  | .tparam _ => []
  | .eparam _ => []
  | .node k as ks =>
      match k, as, ks with
      | "GenericArgument::Type", [], [.tparam n] => [n]
      | _, _, _ => gaOccL ks
def gaOccL : List T → List String
  | [] => []
  | t :: ts => gaOcc t ++ gaOccL ts
end

/-- every parameter occurrence of `u` has a counterpart in `h` that determines its value: a type position one in
    type or generic-argument position, an expression position one in expression or generic-argument position, a
    generic-argument position one in generic-argument or type position -/
def occSub (u h : T) : Bool :=
  (bareOcc u).all (fun n => (bareOcc h).contains n || (gaOcc h).contains n) &&
  (exOcc u).all (fun n => (exOcc h).contains n || (gaOcc h).contains n) &&
  (gaOcc u).all (fun n => (gaOcc h).contains n || (bareOcc h).contains n)

def boundAll (σ : Subst) (t : T) : Bool := (allParams t).all (fun n => (lookup σ n).isSome)

/-- decidable `ThetaCovers` (Lemmas/Refine.lean): the member's substitution binds every parameter of the family's
    header and keys and respects the kinds of their occurrences -/
def thetaCoversB (F : Family) (m : Member) : Bool :=
  kindOK m.θ F.hdr && boundAll m.θ F.hdr &&
  F.keys.all (fun k => kindOK m.θ k.bounded && kindOK m.θ k.tr && boundAll m.θ k.bounded && boundAll m.θ k.tr)

/-- decidable `KeysOverHeader` (Lemmas/Refine.lean): every parameter occurrence of a key has a counterpart in the
    header that determines its value -/
def keysOverHeaderB (F : Family) : Bool :=
  F.keys.all (fun k => occSub k.bounded F.hdr && occSub k.tr F.hdr)

end DI
