/-
  Semantics of the user's blocks and of the generated helper-trait program on ground worlds
  (DESIGN.md §6).  Trees at this level are lifetime-erased; substitutions bind type parameters only.
-/
import DisjointImpls.Tree
namespace DI

def assoc (bs : List (String × T)) (a : String) : Option T :=
  match bs with
  | [] => none
  | (n, v) :: r => if n = a then some v else assoc r a

/-- A ground world: which (ground) trait reference is implemented by which ground type, and with which
    associated types. A function, hence coherent by construction. `sized` says which ground types are `Sized`. -/
structure World where
  disp : T → T → Option (List (String × T))
  sized : T → Bool

/-- one trait bound of a block: `bounded: tr<…, a = p, …>` (`tr` with the bindings removed) -/
structure Clause where
  bounded : T
  tr : T
  binds : List (String × T)
  deriving Repr, DecidableEq

/-- a user-written block: header (trait arguments and self type as one tree), its trait bounds, and the
    parameters that must be `Sized` (all type parameters not relaxed with `?Sized`) -/
structure Block where
  hdr : T
  clauses : List Clause
  sizedParams : List String
  deriving Repr, DecidableEq

/-- no const bindings: substitutions at this level bind type parameters only -/
def noEx (σ : Subst) : Prop := ∀ n e, lookup σ n ≠ some (.ex e)

def holds (W : World) (ρ : Subst) (c : Clause) : Prop :=
  ∃ bs, W.disp (inst ρ c.tr) (inst ρ c.bounded) = some bs ∧ ∀ a p, (a, p) ∈ c.binds → assoc bs a = some (inst ρ p)

def sizedOK (W : World) (ρ : Subst) (ps : List String) : Prop :=
  ∀ p ∈ ps, W.sized (inst ρ (.tparam p)) = true

/-- block `b` applies to the ground query `q` (trait arguments + self type) in world `W` -/
def applies (W : World) (b : Block) (q : T) : Prop :=
  ∃ ρ, noEx ρ ∧ inst ρ b.hdr = q ∧ (∀ c ∈ b.clauses, holds W ρ c) ∧ sizedOK W ρ b.sizedParams

/-- a dispatch key of a family: (bounded type, trait, associated type) over the family's parameters -/
structure Key where
  bounded : T
  tr : T
  a : String
  deriving Repr, DecidableEq

structure Member where
  blk : Block
  θ : Subst
  row : List (Option T)
  deriving Repr, DecidableEq

structure Family where
  hdr : T
  keys : List Key
  /-- parameters of the main impl that are not relaxed -/
  sizedParams : List String
  members : List Member
  deriving Repr, DecidableEq

/-- the projection `<bounded as tr>::a` of key `k` under `τ` is defined in `W` and equals `g` -/
def projOK (W : World) (τ : Subst) (k : Key) (g : T) : Prop :=
  ∃ bs, W.disp (inst τ k.tr) (inst τ k.bounded) = some bs ∧ assoc bs k.a = some g

/-- key `k` seen from member `m` (through its substitution) -/
def Key.via (k : Key) (θ : Subst) : Key := ⟨inst θ k.bounded, inst θ k.tr, k.a⟩

/-- the helper impl generated for member `m` applies to `q` with helper arguments `gs`: it keeps the
    member's header, bounds and generics; its leading trait arguments are the member's row, a wildcard
    entry being printed as the projection of the key through the member's substitution -/
def helperApplies (W : World) (F : Family) (m : Member) (q : T) (gs : List T) : Prop :=
  ∃ ρ, noEx ρ ∧ inst ρ m.blk.hdr = q ∧ (∀ c ∈ m.blk.clauses, holds W ρ c) ∧ sizedOK W ρ m.blk.sizedParams ∧
    gs.length = F.keys.length ∧
    ∀ i (h : i < F.keys.length) (h1 : i < m.row.length) (h2 : i < gs.length),
      match m.row[i] with
      | some p => inst ρ p = gs[i]
      | none => projOK W ρ ((F.keys[i]).via m.θ) gs[i]

/-- the main impl of family `F` applies to `q` and its `Self: Helper<projections…>` predicate is
    discharged by the helper impl of member `m` -/
def genSel (W : World) (F : Family) (m : Member) (q : T) : Prop :=
  ∃ τ gs, noEx τ ∧ inst τ F.hdr = q ∧ sizedOK W τ F.sizedParams ∧ gs.length = F.keys.length ∧
    (∀ i (h : i < F.keys.length) (h2 : i < gs.length), projOK W τ F.keys[i] gs[i]) ∧
    helperApplies W F m q gs

/-! ### Decidable well-formedness of a family (what C11 establishes and the checks re-validate per case) -/

def clauseFor (m : Member) (k : Key) (r : Option T) : Bool :=
  m.blk.clauses.any (fun c =>
    c.bounded == inst m.θ k.bounded && c.tr == inst m.θ k.tr &&
    (match r with
     | some p => c.binds.contains (k.a, p)
     | none => true))

def memberOK (F : Family) (m : Member) : Bool :=
  inst m.θ F.hdr == m.blk.hdr && m.row.length == F.keys.length &&
  (List.zip F.keys m.row).all (fun kr => clauseFor m kr.1 kr.2)

/-- every binding of a substitution is a type binding (no const-as-type, DESIGN §6) -/
def tyOnly (σ : Subst) : Bool := σ.all (fun p => match p.2 with | .ty _ => true | _ => false)

/-- `t` contains no `GenericArgument::Type [tparam]`-to-const ambiguity and no expression parameters:
    every parameter occurrence is a `tparam` -/
def noEParams : T → Bool
  | .tparam _ => true
  | .eparam _ => false
  | .node _ _ ks => noEParamsL ks
where noEParamsL : List T → Bool
  | [] => true
  | t :: ts => noEParams t && noEParamsL ts


/-- all parameter occurrences (including those `params` skips) -/
def allParams : T → List String
  | .tparam n => [n]
  | .eparam n => [n]
  | .node _ _ ks => allParamsL ks
where allParamsL : List T → List String
  | [] => []
  | t :: ts => allParams t ++ allParamsL ts

/-- composition: first `θ` (family parameters ↦ terms over member parameters), then `ρ` -/
def comp (θ ρ : Subst) : Subst :=
  θ.map (fun p => match p.2 with
    | .ty t => (p.1, .ty (inst ρ t))
    | .ex e => (p.1, .ex (inst ρ e))
    | .identity => (p.1, match lookup ρ p.1 with | some w => w | none => .identity))

end DI
