/-
  Model of the grouping front end: `AssocBoundsGroup` (lib.rs:303-475), `make_sets` (lib.rs:1007-1034),
  the backtracking search `find_impl_group_candidates(_rec)` / `unlock_subset_impl_groups` (lib.rs:784-959)
  and `ImplGroups::parse` (lib.rs:712-781), on the positional trees of the impl blocks.
  IndexMaps are association lists in insertion order; the key of a bound is (bounded type, trait path) with the
  trait path compared by `TraitBound::eq` (bindings ignored).
-/
import DisjointImpls.Canon
import DisjointImpls.RevSub
namespace DI

abbrev BKey := T × T                          -- (Bounded, TraitBound)
abbrev Row := List (String × T)               -- IndexMap<Ident, Payload>

def keyEq (a b : BKey) : Bool := a.1 == b.1 && tbEq a.2 b.2 == .t

/-- IndexMap::extend / insert on a row: an existing identifier keeps its position and takes the new payload -/
def Row.insert (r : Row) (x : String) (p : T) : Row :=
  if r.any (fun e => e.1 == x) then r.map (fun e => if e.1 == x then (x, p) else e) else r ++ [(x, p)]

def Row.extend (r : Row) (es : List (String × T)) : Row := es.foldl (fun acc e => Row.insert acc e.1 e.2) r

structure ABG where
  bounds : List (BKey × List Row)
  unsized : List T
  deriving Repr, DecidableEq

/-- a user block after canonicalisation, with what `TraitBoundsVisitor::find` extracted from it -/
structure Blk where
  item : T
  raw : List RawBound
  deriving Repr, DecidableEq

def Blk.unsized (b : Blk) : List T := ((b.raw.filter (·.maybe)).map (·.bounded)).eraseDups

def findKey (bs : List (BKey × α)) (k : BKey) : Option α :=
  match bs with
  | [] => none
  | (k', v) :: rest => if keyEq k' k then some v else findKey rest k

/-- insert into an IndexMap keyed by `BKey`: an existing (equal) key keeps its position and its stored key -/
def insertKey (bs : List (BKey × α)) (k : BKey) (v : α) : List (BKey × α) :=
  if bs.any (fun e => keyEq e.1 k) then bs.map (fun e => if keyEq e.1 k then (e.1, v) else e) else bs ++ [(k, v)]

/-- `AssocBoundsGroup::new` (lib.rs:313-329) -/
def ABG.new (b : Blk) : ABG :=
  let bounds := b.raw.foldl (fun (acc : List (BKey × List Row)) rb =>
    let k : BKey := (rb.bounded, rb.tr)
    match findKey acc k with
    | some (r0 :: rest) => insertKey acc k (Row.extend r0 rb.binds :: rest)
    | some [] => insertKey acc k [Row.extend [] rb.binds]
    | none => acc ++ [(k, [Row.extend [] rb.binds])]) []
  ⟨bounds, b.unsized⟩

/-- `prune_non_assoc` (lib.rs:331-340) -/
def ABG.prune (g : ABG) : ABG := { g with bounds := g.bounds.filter (fun e => e.2.any (fun r => !r.isEmpty)) }

def dedupStr (xs : List String) : List String := xs.foldl (fun acc x => if acc.contains x then acc else acc ++ [x]) []

/-- `idents` (lib.rs:374-390) -/
def ABG.idents (g : ABG) : List (BKey × String) :=
  g.bounds.flatMap (fun e => (dedupStr (e.2.flatMap (fun r => r.map (·.1)))).map (fun x => (e.1, x)))

def rowLookup (r : Row) (x : String) : Option T :=
  match r with
  | [] => none
  | (y, p) :: rest => if y == x then some p else rowLookup rest x

/-- `payloads` (lib.rs:392-420): one row of optional payloads per member -/
def ABG.payloads (g : ABG) : List (List (Option T)) :=
  match g.bounds with
  | [] => []
  | first :: _ =>
      (List.range first.2.length).map (fun idx =>
        g.idents.map (fun kx => match findKey g.bounds kx.1 with
          | some rows => (match rows[idx]? with
              | some r => rowLookup r kx.2
              | none => none)
          | none => none))

def rowGeneralises (a b : List (Option T)) : Bool :=
  a.length == b.length && (List.zip a b).all (fun p => match p.1, p.2 with
    | some e1, some e2 => (match sup e1 e2 with | .yes _ _ => true | _ => false)
    | none, _ => true
    | _, _ => false)

/-- `is_overlapping` (lib.rs:342-368) -/
def ABG.isOverlapping (g : ABG) : Bool :=
  let ps := g.payloads
  let idx := List.range ps.length
  idx.any (fun i => idx.any (fun j => i != j && (match ps[i]?, ps[j]? with
    | some a, some b => rowGeneralises a b
    | _, _ => false)))

def cartesianG {α : Type} : List (List α) → List (List α)
  | [] => [[]]
  | xs :: rest => xs.flatMap (fun x => (cartesianG rest).map (fun tl => x :: tl))

/-- `intersection` (lib.rs:422-474) -/
def ABG.intersection (g : ABG) (other : Blk) (σ : Subst) : List ABG :=
  let unsized := (g.unsized ++ other.unsized).eraseDups
  -- fold the other block's bounds into a map key ↦ row
  let other' : List (BKey × Row) := other.raw.foldl (fun acc rb =>
    let k : BKey := (rb.bounded, rb.tr)
    match findKey acc k with
    | some r => insertKey acc k (Row.extend r rb.binds)
    | none => acc ++ [(k, Row.extend [] rb.binds)]) []
  let perKey : List (List (Option (BKey × List Row))) := other'.map (fun e =>
    (substituteBound σ e.1.1 e.1.2).map (fun sk =>
      match findKey g.bounds sk with
      | some rows => some (sk, rows ++ [e.2])
      | none => none))
  (cartesianG perKey).map (fun combo =>
    let bounds := (combo.filterMap id).foldl (fun (acc : List (BKey × List Row)) e => insertKey acc e.1 e.2) []
    let params := bounds.map (fun e => e.1.1)
    ⟨bounds, unsized.filter (fun p => params.contains p)⟩)

/-! ### the search -/

abbrev Groups := List (T × ABG × List Blk)          -- IndexMap<&ImplGroupId, (AssocBoundsGroup, Vec<&ItemImpl>)>
abbrev Supersets := List (T × Nat)
abbrev Subsets := List (T × List (T × Subst))

def Supersets.get (s : Supersets) (id : T) : Nat := match s.find? (fun e => e.1 == id) with | some e => e.2 | none => 0
def Supersets.dec (s : Supersets) (id : T) : Supersets := s.map (fun e => if e.1 == id then (e.1, e.2 - 1) else e)
def Subsets.get (s : Subsets) (id : T) : List (T × Subst) := match s.find? (fun e => e.1 == id) with | some e => e.2 | none => []

structure Env where
  buckets : List (T × List Blk)
  subsets : Subsets

def Env.impls (e : Env) (id : T) : List Blk := match e.buckets.find? (fun b => b.1 == id) with | some b => b.2 | none => []

def setGroup (gs : Groups) (id : T) (v : ABG × List Blk) : Groups := gs.map (fun e => if e.1 == id then (e.1, v) else e)

inductive SearchErr where | unwrapNone | fuel
  deriving Repr, DecidableEq

mutual
/-- `find_impl_group_candidates_rec` (lib.rs:817-917); returns the candidates and the threaded superset counters -/
def searchRec (env : Env) : Nat → T → List Blk → Supersets → Groups → Except SearchErr (List Groups × Supersets)
  | 0, _, _, _, _ => .error .fuel
  | fuel + 1, currId, [], sup, groups => searchUnlock env fuel currId (env.subsets.get currId) sup [groups]
  | fuel + 1, currId, curr :: other, sup, groups =>
      -- try to join every existing group that generalises (or equals) the current header
      let tryGroups := groups.foldl (fun (st : Except SearchErr (List Groups × Supersets × Bool)) ge =>
        match st with
        | .error e => .error e
        | .ok (acc, newSup, any) =>
          let gid := ge.1
          let subs? : Except SearchErr (Option Subst) :=
            match (env.subsets.get gid).find? (fun e => e.1 == currId) with
            | some e => .ok (some e.2)
            | none => if gid == currId then
                (match DI.sup gid currId with
                 | .yes σ _ => .ok (some σ)
                 | _ => .error .unwrapNone)
              else .ok none
          match subs? with
          | .error e => .error e
          | .ok none => .ok (acc, newSup, any)
          | .ok (some σ) =>
            (ge.2.1.intersection curr σ).foldl (fun (st2 : Except SearchErr (List Groups × Supersets × Bool)) inter =>
              match st2 with
              | .error e => .error e
              | .ok (acc2, newSup2, any2) =>
                match searchRec env fuel currId other sup (setGroup groups gid (inter, ge.2.2 ++ [curr])) with
                | .error e => .error e
                | .ok (res, sup') => if res.isEmpty then .ok (acc2, newSup2, any2) else .ok (acc2 ++ res, sup', true))
              (.ok (acc, newSup, any))) (.ok ([], sup, false))
      match tryGroups with
      | .error e => .error e
      | .ok (acc, newSup, any) =>
        -- a fresh group for this header if it has none yet
        let fresh : Except SearchErr (List Groups × Supersets × Bool) :=
          if groups.any (fun ge => ge.1 == currId) then .ok (acc, newSup, any)
          else match searchRec env fuel currId other sup (groups ++ [(currId, ABG.new curr, [curr])]) with
            | .error e => .error e
            | .ok (res, sup') => if res.isEmpty then .ok (acc, newSup, any) else .ok (acc ++ res, sup', true)
        match fresh with
        | .error e => .error e
        | .ok (acc, newSup, any) => .ok (acc, if any then newSup else sup)
/-- `unlock_subset_impl_groups` (lib.rs:919-959), iterating over the remaining subset ids -/
def searchUnlock (env : Env) : Nat → T → List (T × Subst) → Supersets → List Groups → Except SearchErr (List Groups × Supersets)
  | 0, _, _, _, _ => .error .fuel
  | _ + 1, _, [], sup, acc => .ok (acc, sup)
  | fuel + 1, currId, (subId, _) :: rest, sup, acc =>
      let sup1 := sup.dec subId
      if sup1.get subId == 0 then
        let step := acc.foldl (fun (st : Except SearchErr (List Groups × Supersets)) g =>
          match st with
          | .error e => .error e
          | .ok (out, _) =>
            match searchRec env fuel subId (env.impls subId) sup1 g with
            | .error e => .error e
            | .ok (res, sup') => .ok (out ++ res, sup')) (.ok ([], sup1))
        match step with
        | .error e => .error e
        | .ok (acc', sup') => searchUnlock env fuel currId rest sup' acc'
      else searchUnlock env fuel currId rest sup1 acc
end

/-- `make_sets` (lib.rs:1007-1034) -/
def supYes (a b : T) : Bool :=
  match DI.sup a b with
  | .yes _ _ => true
  | _ => false

/-- ids that generalise each other: only the earlier one counts as the superset of the later one (lib.rs:1022-1031) -/
def makeSets (ids : List T) : Supersets × Subsets :=
  let ix := ids.zipIdx
  let pairs := ix.flatMap (fun g1 => ix.filterMap (fun g2 =>
    if g1.1 == g2.1 then none else match DI.sup g1.1 g2.1 with
      | .yes σ _ => if g1.2 > g2.2 && supYes g2.1 g1.1 then none else some (g1.1, g2.1, σ)
      | _ => none))
  (ids.map (fun id => (id, (pairs.filter (fun p => p.2.1 == id)).length)),
   ids.map (fun id => (id, (pairs.filter (fun p => p.1 == id)).map (fun p => (p.2.1, p.2.2)))))

/-- the candidate filter of `find_impl_group_candidates` (lib.rs:799-814) -/
def filterCandidate (gs : Groups) : Option Groups :=
  let pruned := gs.map (fun e => (e.1, e.2.1.prune, e.2.2))
  if pruned.any (fun e => e.2.1.bounds.isEmpty || e.2.1.isOverlapping) then none else some pruned

/-- the `reduce` of lib.rs:755-763: a candidate with the fewest groups, the later one on ties -/
def chooseCandidate : List Groups → Option Groups
  | [] => none
  | c :: cs => some (cs.foldl (fun acc x => if acc.length >= x.length then x else acc) c)

inductive ParseResult where
  | ok (groups : Groups)
  | unableToForm (id : T)
  | panic (e : SearchErr)
  deriving Repr

def groupIdOf (item : T) : T := mkHdr item

/-- buckets by group id, in insertion order; a textually identical block replaces the earlier one (IndexMap<ItemImpl, _>) -/
def mkBuckets (blocks : List Blk) : List (T × List Blk) :=
  blocks.foldl (fun acc b =>
    let id := groupIdOf b.item
    match acc.find? (fun e => e.1 == id) with
    | some _ => acc.map (fun e => if e.1 == id then
        (e.1, if e.2.any (fun x => x.item == b.item) then e.2.map (fun x => if x.item == b.item then b else x) else e.2 ++ [b]) else e)
    | none => acc ++ [(id, [b])]) []

def mkBlk (rawItem : T) : Blk :=
  let item := canon rawItem
  ⟨item, findBounds ((implGenerics item).getD (.node "?" [] []))⟩

/-- `ImplGroups::parse` without validation: from the raw parse of the blocks to the chosen grouping -/
def parseGroups (rawItems : List T) : ParseResult :=
  let blocks := rawItems.map mkBlk
  let buckets := mkBuckets blocks
  let ids := buckets.map (·.1)
  let (sup0, subs) := makeSets ids
  let env : Env := ⟨buckets, subs⟩
  let roots := (sup0.filter (fun e => e.2 == 0)).map (·.1)
  let fuel := blocks.length + ids.length + 2
  let rec go (roots : List T) (sup : Supersets) (acc : Groups) : ParseResult :=
    match roots with
    | [] => .ok acc
    | r :: rest =>
      match searchRec env (2 * fuel) r (env.impls r) sup [] with
      | .error e => .panic e
      | .ok (cands, sup') =>
        match chooseCandidate (cands.filterMap filterCandidate) with
        | none => .unableToForm r
        | some g => go rest sup' (acc ++ g)
  go roots sup0 []

end DI
