/-
  Model of bound extraction (`TraitBoundsVisitor::find`, lib.rs:486-575) on the positional tree of an
  `ItemImpl`, and the abstraction of a parsed family (group id, keys, rows, member blocks) into the
  semantic structures of `Sem.lean`, on which `memberOK` & co. are evaluated for every generated case.
-/
import DisjointImpls.Match
import DisjointImpls.Key
import DisjointImpls.Sem
namespace DI

/-! ### accessors into `ItemImpl` / `Generics` trees (field order = syn's declaration order, tokens dropped) -/

def implGenerics : T → Option T
  | .node "ItemImpl" [] [_, _, _, g, _, _, _] => some g
  | _ => none
def implTrait : T → Option T          -- `None` node or `Some [Tuple [bang?, Path]]`
  | .node "ItemImpl" [] [_, _, _, _, tr, _, _] => some tr
  | _ => none
def implSelfTy : T → Option T
  | .node "ItemImpl" [] [_, _, _, _, _, s, _] => some s
  | _ => none
def implItems : T → List T
  | .node "ItemImpl" [] [_, _, _, _, _, _, .node "List" [] items] => items
  | _ => []
def implTraitPath : T → Option T
  | .node "ItemImpl" [] [_, _, _, _, .node "Some" [] [.node "Tuple" [] [_, p]], _, _] => some p
  | _ => none

def genericsParams : T → List T
  | .node "Generics" [] [_, .node "List" [] ps, _, _] => ps
  | _ => []
def genericsWhere : T → List T
  | .node "Generics" [] [_, _, _, .node "Some" [] [.node "WhereClause" [] [.node "List" [] ps]]] => ps
  | _ => []

/-- identifier of a generic parameter (code: `get_param_ident`) -/
def paramIdent : T → Option String
  | .node "GenericParam::Type" [] [.node "TypeParam" [] (_ :: .node "Ident" [x] [] :: _)] => some x
  | .node "GenericParam::Const" [] [.node "ConstParam" [] (_ :: .node "Ident" [x] [] :: _)] => some x
  | .node "GenericParam::Lifetime" [] [.node "LifetimeParam" [] (_ :: .node "Lifetime" [] [.node "Ident" [x] []] :: _)] => some x
  | _ => none

def typeParamBounds : T → Option (String × List T)
  | .node "GenericParam::Type" [] [.node "TypeParam" [] [_, .node "Ident" [x] [], _, .node "List" [] bs, _, _]] => some (x, bs)
  | _ => none

/-- `Bounded::from(&Ident)`: the identifier as a type -/
def mkTypeIdent (x : String) : T :=
  if x.startsWith PARAM_PREFIX then .tparam x
  else .node "Type::Path" [] [.node "None" [] [],
    .node "Path" [] [.node "IgnL" [] [.node "None" [] []],
      .node "List" [] [.node "PathSegment" [] [.node "Ident" [x] [], .node "PathArguments::None" [] []]]]]

structure RawBound where
  bounded : T
  tr : T                         -- the trait path as written (with bindings)
  binds : List (String × T)
  maybe : Bool
  deriving Repr, DecidableEq

def lastSegArgs (p : T) : List T :=
  match (pathSegments p).reverse with
  | l :: _ => (match segArgs l with | .angle args => args | _ => [])
  | [] => []

def assocBinds (p : T) : List (String × T) :=
  (lastSegArgs p).filterMap (fun a => match a with
    | .node "GenericArgument::AssocType" [] [.node "AssocType" [] [.node "Ident" [n] [], _, ty]] => some (n, ty)
    | _ => none)

/-- trait bounds of a bound list, in order (lifetime bounds are not trait bounds) -/
def boundsOf (bounded : T) (bs : List T) : List RawBound :=
  bs.filterMap (fun b => match b with
    | .node "TypeParamBound::Trait" [] [.node "TraitBound" [] [_, modifier, _, path]] =>
        some ⟨bounded, path, assocBinds path, modifier != .node "TraitBoundModifier::None" [] []⟩
    | _ => none)

def insertByIdent (x : String × T) : List (String × T) → List (String × T)
  | [] => [x]
  | y :: ys => if y.1 < x.1 then y :: insertByIdent x ys else x :: y :: ys

/-- stable sort by identifier (code: `params.sort_by_key(|(ident, _)| *ident)`, lib.rs:517-518) -/
def sortByIdent (xs : List (String × T)) : List (String × T) :=
  xs.foldr insertByIdent []

/-- `TraitBoundsVisitor::find`: parameters in order of their identifier, then the where-clause -/
def findBounds (generics : T) : List RawBound :=
  let ps := (genericsParams generics).filterMap (fun p => (paramIdent p).map (fun x => (x, p)))
  let sorted := sortByIdent ps
  let fromParams := sorted.flatMap (fun xp => match typeParamBounds xp.2 with
    | some (x, bs) => boundsOf (mkTypeIdent x) bs
    | none => [])
  let fromWhere := (genericsWhere generics).flatMap (fun w => match w with
    | .node "WherePredicate::Type" [] [.node "PredicateType" [] [_, bounded, .node "List" [] bs]] => boundsOf bounded bs
    | _ => [])
  fromParams ++ fromWhere

/-! ### abstraction into `Sem` -/

/-- the dispatch key denoted by a trait path, as a tree: bindings removed, `Tr<>` identified with `Tr`,
    presentation (`::` before `<`) erased -/
def normTr (p : T) : T :=
  match stripBindings p with
  | .node "Path" [] [lc, .node "List" [] segs] =>
      .node "Path" [] [lc, .node "List" [] (segs.map (fun s => match s with
        | .node "PathSegment" [] [id, .node "PathArguments::AngleBracketed" [] [_, .node "List" [] []]] =>
            .node "PathSegment" [] [id, .node "PathArguments::None" [] []]
        | .node "PathSegment" [] [id, .node "PathArguments::AngleBracketed" [] [_, args]] =>
            .node "PathSegment" [] [id, .node "PathArguments::AngleBracketed" [] [.node "Ign" [] [], args]]
        | s => s))]
  | t => t

def isMaybeSizedOn (bounds : List RawBound) (x : String) : Bool :=
  bounds.any (fun b => b.maybe && b.bounded == mkTypeIdent x)

def typeParamNames (generics : T) : List String :=
  (genericsParams generics).filterMap (fun p => (typeParamBounds p).map (·.1))

def mkHdr (item : T) : T :=
  .node "ImplGroupId" [] [
    (match implTraitPath item with | some p => .node "Some" [] [p] | none => .node "None" [] []),
    (implSelfTy item).getD (.node "?" [] [])]

def mkBlock (item : T) : Block :=
  let g := (implGenerics item).getD (.node "?" [] [])
  let raw := findBounds g
  { hdr := mkHdr item
    clauses := (raw.filter (fun b => !b.maybe)).map (fun b => ⟨b.bounded, normTr b.tr, b.binds⟩)
    sizedParams := (typeParamNames g).filter (fun x => !isMaybeSizedOn raw x) }

def decodeKey : T → Option Key
  | .node "Tuple" [] [.node "Bounded" [] [b], .node "TraitBound" [] [p], .node "Ident" [a] []] => some ⟨b, normTr p, a⟩
  | _ => none

def decodeRow : T → List (Option T)
  | .node "List" [] xs => xs.map (fun x => match x with
      | .node "Some" [] [p] => some p
      | _ => none)
  | _ => []

def mkMember (gid : T) (row : T) (item : T) : Member :=
  let blk := mkBlock item
  let θ := match sup gid blk.hdr with
    | .yes σ _ => σ
    | _ => []
  ⟨blk, θ, decodeRow row⟩

def mkFamily (gid keys rows mainImpl : T) (members : List T) : Family :=
  let ks := match keys with
    | .node "List" [] xs => xs.filterMap decodeKey
    | _ => []
  let rs := match rows with
    | .node "List" [] xs => xs
    | _ => []
  let mainBlock := match mainImpl with
    | .node "Some" [] [item] => mkBlock item
    | _ => ⟨.node "?" [] [], [], []⟩
  { hdr := gid, keys := ks, sizedParams := mainBlock.sizedParams,
    members := (List.zip rs members).map (fun rm => mkMember gid rm.1 rm.2) }

/-! ### decidable versions of the side conditions of the refinement (evaluated per case) -/

def noExB (σ : Subst) : Bool := σ.all (fun p => match p.2 with | .ex _ => false | _ => true)

-- `boundAll`, `thetaCoversB`, `keysOverHeaderB`: Sem.lean (their soundness: Lemmas/Refine.lean)

/-- syntactic sufficient condition for `SizedCompat`: every parameter the main impl requires to be `Sized` is
    mapped by θ to a member parameter the member requires to be `Sized`, or to a constructed (hence sized) type -/
def sizedCompatB (F : Family) (m : Member) : Bool :=
  F.sizedParams.all (fun p => match lookup m.θ p with
    | some .identity => m.blk.sizedParams.contains p
    | some (.ty (.tparam p')) => m.blk.sizedParams.contains p'
    | some (.ty (.node k _ _)) => k != "Type::Slice" && k != "Type::TraitObject"
    | _ => false)

end DI
