/-
  Model of `Superset::is_superset` (src/superset.rs, src/superset/{ty,path,generics,expr,pat,stmt}.rs):
  one default rule + the deviations listed in DESIGN.md §5.3.

  `sup a b = .yes σ lossy`: the code returns `Some(σ)`; `lossy = true` iff one of the deliberately
  lenient arms (anonymous lifetime, ignored leading `::`, swapped binary operands, missing turbofish,
  `_` pattern, ignored semicolon) decided something along the way — exactly those results are excluded
  from the soundness theorem (`Props/C09.lean`) and each has a counterexample theorem.
-/
import DisjointImpls.Tree
namespace DI

/-- Result of the matcher: `None`, `Some σ`, or a panic (`unimplemented!()` arms). -/
inductive R where
  | no
  | yes (σ : Subst) (lossy : Bool)
  | panic
  deriving Repr, DecidableEq, Inhabited

/-- kinds whose `is_superset` is `unimplemented!()` (path.rs:340-344, pat.rs:240-249, 316-325) -/
def panicsOnSameKind (k : String) : Bool :=
  k == "Constraint" || k == "Pat::Struct" || k == "Pat::TupleStruct"

/-- `Path` without leading `::` that is one argument-free segment spelled like a parameter
    (code: `matches_param_ident`, i.e. `syn::Path::get_ident` + prefix test) -/
def pathParam (paramPrefix : String) : T → Option String
  | .node "Path" [] [.node "IgnL" [] [.node "None" [] []], .node "List" [] [.node "PathSegment" [] [.node "Ident" [n] [], .node "PathArguments::None" [] []]]] =>
      if n.startsWith paramPrefix then some n else none
  | _ => none

def PARAM_PREFIX : String := "_ŠČ"

def isNoneNode : T → Bool
  | .node "None" [] [] => true
  | _ => false

def lifetimeIdent : T → Option String
  | .node "Lifetime" [] [.node "Ident" [n] []] => some n
  | _ => none

/-- merge the result `r` of a sub-match into the accumulator `acc` -/
def bindMerge (acc : Subst) (fl : Bool) : R → R
  | .no => .no
  | .panic => .panic
  | .yes σ f => match merge acc σ with
      | none => .no
      | some acc' => .yes acc' (fl || f)

mutual
/-- `supS a b`: `a.is_superset(b)` where transparent wrappers have already been removed from the root of `b`. -/
def supS : T → T → R
  | .tparam n, b => if b = .tparam n then .yes [(n, .identity)] false else .yes [(n, .ty b)] false
  | .eparam n, b => if b = .eparam n then .yes [(n, .identity)] false else .yes [(n, .ex b)] false
  | .node k as ks, b =>
      if isWrapper k then supLast ks b
      else if k == "Ign" then .yes [] false
      else if k == "IgnL" then .yes [] (decide (T.node k as ks ≠ b))
      else match b with
        | .tparam _ => .no
        | .eparam _ => .no
        | .node k' as' ks' =>
          -- `_` pattern matches anything (pat.rs:26)
          if k == "Pat::Wild" || k' == "Pat::Wild" then
            (if k == k' then supL ks ks' [] false else .yes [] true)
          -- statements that are items (stmt.rs:9)
          else if k == "Stmt::Item" || k' == "Stmt::Item" then .panic
          else if k != k' then
            -- a type parameter in generic-argument position may bind a const argument (path.rs:173-179)
            match k, as, ks, k', as', ks' with
            | "GenericArgument::Type", [], [.tparam n], "GenericArgument::Const", [], [e] => .yes [(n, .ex e)] false
            | _, _, _, _, _, _ => .no
          else if panicsOnSameKind k then .panic
          -- anonymous lifetime matches anything (superset.rs:220-230)
          else if k == "Lifetime" then
            (match lifetimeIdent (.node k as ks), lifetimeIdent (.node k' as' ks') with
             | some x, some y => if x == "_" || y == "_" then .yes [] (x != y)
                                 else if x == y then .yes [] false else .no
             | _, _ => .no)
          -- the same lone parameter identifier as a `Path` (path.rs:9-13)
          else if k == "Path" &&
              (pathParam PARAM_PREFIX (.node k as ks)).isSome &&
              pathParam PARAM_PREFIX (.node k as ks) == pathParam PARAM_PREFIX (.node k' as' ks') then
            (match pathParam PARAM_PREFIX (.node k as ks) with
             | some n => .yes [(n, .identity)] false
             | none => .no)
          -- qualified self: only an identity match is accepted (path.rs:130-146)
          else if k == "QSelf" then
            (match ks, ks' with
             | ty :: rest, ty' :: rest' =>
                (match supS ty (stripTop ty') with
                 | .no => .no
                 | .panic => .panic
                 | .yes σ l => if rest == rest' && allIdentity σ then .yes σ l else .no)
             | _, _ => .no)
          -- binary expressions: operands may be swapped (expr.rs:359-374); children are [op, left, right, attrs]
          else if k == "Expr::Binary" then
            (match ks, ks' with
             | [op, l, r, att], [op', l', r', att'] =>
                if op != op' then .no else
                (match supS l (stripTop l') with
                 | .panic => .panic
                 | .yes σ1 f1 =>
                    (match bindMerge σ1 f1 (supS r (stripTop r')) with
                     | .yes σ f => bindMerge σ f (supS att (stripTop att'))
                     | other => other)
                 | .no =>
                    (match supS l (stripTop r') with
                     | .no => .no
                     | .panic => .panic
                     | .yes σ1 _ =>
                        (match bindMerge σ1 true (supS r (stripTop l')) with
                         | .yes σ f => bindMerge σ f (supS att (stripTop att'))
                         | other => other)))
             | _, _ => .no)
          -- optional child where a missing side matches anything (turbofish, expr.rs:972-975)
          else if k == "OptWild" then
            (match ks, ks' with
             | [x], [y] =>
                if isNoneNode x || isNoneNode y then .yes [] (decide (x ≠ y))
                else supS x (stripTop y)
             | _, _ => .no)
          -- default rule: same variant, equal atoms, children pairwise, merged left to right
          else if as == as' then supL ks ks' [] false
          else .no
/-- children matched left to right, results merged into the accumulator -/
def supL : List T → List T → Subst → Bool → R
  | [], [], acc, fl => .yes acc fl
  | a :: as, b :: bs, acc, fl =>
      match supS a (stripTop b) with
      | .no => .no
      | .panic => .panic
      | .yes σ f =>
          match merge acc σ with
          | none => .no
          | some acc' => supL as bs acc' (fl || f)
  | _, _, _, _ => .no
/-- a transparent wrapper on the left: continue with its last child -/
def supLast : List T → T → R
  | [], _ => .no
  | [e], b => supS e b
  | _ :: es, b => supLast es b
end

/-- `a.is_superset(b)` -/
def sup (a b : T) : R := supS a (stripTop b)

/-- `ImplGroupId::is_superset` (superset.rs:140-149): trait path (if any) then self type. The group id is
    the node `ImplGroupId [trait?, self_ty]`, which the default rule handles. -/
def supId (a b : T) : R := sup a b

end DI
