/-
  Model of `validate.rs`: per-family validation of the blocks against the trait definition (trait mode)
  or against the first block (inherent mode). Works on the positional trees of `ItemTrait` / `ItemImpl`.
  The first failing check determines the diagnostic, in the code's order.
-/
import DisjointImpls.Bounds
namespace DI

/-- the macro's own diagnostics (message text as in validate.rs) -/
inductive Diag where
  | noMatch              -- "Doesn't match trait definition" (trait ident / unsafety / generics arity of a const)
  | expectedTraitImpl    -- "Expected trait impl, found inherent impl"
  | missing              -- "Missing in one of the impls"
  | notInTrait           -- "Not found in trait definition"
  | expectedInherent     -- "Expected inherent impl but found trait"
  | notInOneImpl         -- "Not found in one of the impls"
  | genericsMismatch     -- "Generics don't match between impls"
  | notSupported         -- "Not supported"
  | visMismatch          -- "Visibility doesn't match between impls" (inherent mode, fix 48b34ff)
  deriving Repr, DecidableEq

def Diag.message : Diag → String
  | .noMatch => "Doesn't match trait definition"
  | .expectedTraitImpl => "Expected trait impl, found inherent impl"
  | .missing => "Missing in one of the impls"
  | .notInTrait => "Not found in trait definition"
  | .expectedInherent => "Expected inherent impl but found trait"
  | .notInOneImpl => "Not found in one of the impls"
  | .genericsMismatch => "Generics don't match between impls"
  | .notSupported => "Not supported"
  | .visMismatch => "Visibility doesn't match between impls"

inductive ItemKind where | const | type | fn | other
  deriving Repr, DecidableEq

/-- what validation looks at in an item: kind, identifier, number of generic parameters, has a default -/
structure ItemSig where
  kind : ItemKind
  ident : String
  arity : Nat
  hasDefault : Bool
  deriving Repr, DecidableEq

def genericsArity : T → Nat
  | .node "Generics" [] [_, .node "List" [] ps, _, _] => ps.length
  | _ => 0

def isSomeNode : T → Bool
  | .node "Some" _ _ => true
  | _ => false

def sigIdent : T → String
  | .node "Signature" [] (_ :: _ :: _ :: _ :: .node "Ident" [x] [] :: _) => x
  | _ => ""

def traitItemSig : T → ItemSig
  | .node "TraitItem::Const" [] [_, .node "Ident" [x] [], g, _, d] => ⟨.const, x, genericsArity g, isSomeNode d⟩
  | .node "TraitItem::Type" [] [_, .node "Ident" [x] [], g, _, _, d] => ⟨.type, x, genericsArity g, isSomeNode d⟩
  | .node "TraitItem::Fn" [] [_, sig, d, _] => ⟨.fn, sigIdent sig, 0, isSomeNode d⟩
  | _ => ⟨.other, "", 0, false⟩

def implItemSig : T → ItemSig
  | .node "ImplItem::Const" [] [_, _, _, .node "Ident" [x] [], g, _, _] => ⟨.const, x, genericsArity g, false⟩
  | .node "ImplItem::Type" [] [_, _, _, .node "Ident" [x] [], g, _] => ⟨.type, x, genericsArity g, false⟩
  | .node "ImplItem::Fn" [] [_, _, _, sig, _] => ⟨.fn, sigIdent sig, 0, false⟩
  | _ => ⟨.other, "", 0, false⟩

def traitIdent : T → String
  | .node "ItemTrait" [] (_ :: _ :: _ :: _ :: _ :: .node "Ident" [x] [] :: _) => x
  | _ => ""
def traitUnsafety : T → T
  | .node "ItemTrait" [] (_ :: _ :: u :: _) => u
  | _ => .node "None" [] []
def traitItems : T → List ItemSig
  | .node "ItemTrait" [] [_, _, _, _, _, _, _, _, _, .node "List" [] items] => items.map traitItemSig
  | _ => []
def implUnsafety : T → T
  | .node "ItemImpl" [] (_ :: _ :: u :: _) => u
  | _ => .node "None" [] []
def implItemSigs (item : T) : List ItemSig := (implItems item).map implItemSig

def lastSegIdent (p : T) : String :=
  match (pathSegments p).reverse with
  | l :: _ => (segIdent l).getD ""
  | [] => ""

/-- removes the first item of that kind and name (IndexMap::swap_remove on the per-kind maps) -/
def removeItem (k : ItemKind) (x : String) : List ItemSig → Option (ItemSig × List ItemSig)
  | [] => none
  | i :: is => if i.kind = k ∧ i.ident = x then some (i, is) else
      match removeItem k x is with
      | some (j, rest) => some (j, i :: rest)
      | none => none

/-- the look-up tables `second_consts` / `second_types` / `second_fns` of `compare_trait_items` and `compare_inherent_items`
    (three `IndexMap`s keyed by identifier, here ONE list keyed by (kind, identifier)), as they are after the
    `second.iter().for_each(… insert …)` loop: `IndexMap::insert` of a key that is already present overwrites the VALUE and
    keeps the POSITION of the first insertion, so an item name that occurs several times in one block (the same item under
    complementary `cfg` attributes) gives ONE entry: at the position of the first occurrence, with the value of the last.
    Written as a structural recursion from the right: the map of `i :: is` is the map of `is` with the entry of `i`'s key
    (if any: it holds the last value) moved to the front, else with `i` put in front.
    `itemMap_eq_foldl_insert` (Lemmas/ValidateLemmas.lean) proves it equal to `second.foldl insertItem []`, the literal
    left-to-right loop of `IndexMap::insert`s (same entries in the same order).
    A list without duplicate (kind, identifier) pairs is its own map (`itemMap_of_nodup`). -/
def itemMap : List ItemSig → List ItemSig
  | [] => []
  | i :: is =>
      match removeItem i.kind i.ident (itemMap is) with
      | some (j, rest) => j :: rest
      | none => i :: itemMap is

/-- the loop of `compare_trait_items` over the trait items, `second` being the look-up table (`itemMap`).
    (`removeItem` keeps the order of the remaining entries where `swap_remove` moves the last entry into the gap: the
    order only decides WHICH left-over entry is reported, never the message.) -/
def compareTraitItemsLoop : List ItemSig → List ItemSig → Except Diag Unit
  | [], second =>
      if second.any (fun i => i.kind = .other) then .error .notSupported
      else if second.isEmpty then .ok () else .error .notInTrait
  | t :: ts, second =>
      if second.any (fun i => i.kind = .other) then .error .notSupported
      else if t.kind = .other then .error .notSupported
      else match removeItem t.kind t.ident second with
        | some (s, rest) =>
            if t.kind = .const ∧ t.arity ≠ s.arity then .error .noMatch else compareTraitItemsLoop ts rest
        | none => if t.hasDefault then compareTraitItemsLoop ts second else .error .missing

/-- `compare_trait_items` (validate.rs:84-140): the items of the block are first entered into the look-up table
    (a repeated name overwrites), then every trait item removes its entry -/
def compareTraitItems (ts second : List ItemSig) : Except Diag Unit :=
  compareTraitItemsLoop ts (itemMap second)

/-- the loop of `compare_inherent_items` over the entries of the FIRST block's table (a slice before /repo 133a44b, a table with one entry
    per name since: `compareInherentItems` passes `itemMap fs`), `second` being the look-up table of the other block -/
def compareInherentItemsLoop : List ItemSig → List ItemSig → Except Diag Unit
  | [], second =>
      if second.any (fun i => i.kind = .other) then .error .notSupported
      else if second.isEmpty then .ok () else .error .notInOneImpl
  | f :: fs, second =>
      if second.any (fun i => i.kind = .other) then .error .notSupported
      else if f.kind = .other then .error .notSupported
      else match removeItem f.kind f.ident second with
        | some (s, rest) =>
            if f.kind = .const ∧ f.arity ≠ s.arity then .error .genericsMismatch else compareInherentItemsLoop fs rest
        | none => .error .notInOneImpl

/-- `compare_inherent_items` (validate.rs:142-194) -/
def compareInherentItems (fs second : List ItemSig) : Except Diag Unit :=
  -- since /repo 133a44b the FIRST block is turned into a table as well (one entry per name; an unsupported item aborts while it is built)
  if fs.any (fun i => i.kind = .other) then .error .notSupported
  else compareInherentItemsLoop (itemMap fs) (itemMap second)

def firstError : List (Except Diag Unit) → Except Diag Unit
  | [] => .ok ()
  | .error d :: _ => .error d
  | .ok () :: rest => firstError rest

/-- `validate_trait_impls` (validate.rs:7-37) for one family -/
def validateTraitImpls (trait_ : T) (impls : List T) : Except Diag Unit :=
  let headers := impls.map (fun item =>
    match implTraitPath item with
    | none => Except.error Diag.expectedTraitImpl
    | some p =>
        if lastSegIdent p ≠ traitIdent trait_ then .error .noMatch
        else if traitUnsafety trait_ ≠ implUnsafety item then .error .noMatch
        else .ok ())
  match firstError headers with
  | .error d => .error d
  | .ok () => firstError (impls.map (fun item => compareTraitItems (traitItems trait_) (implItemSigs item)))

/-- (kind, identifier, visibility) of an impl item -/
def implItemVis : T → Option (ItemKind × String × T)
  | .node "ImplItem::Const" [] [_, v, _, .node "Ident" [x] [], _, _, _] => some (.const, x, v)
  | .node "ImplItem::Type" [] [_, v, _, .node "Ident" [x] [], _, _] => some (.type, x, v)
  | .node "ImplItem::Fn" [] [_, v, _, sig, _] => some (.fn, sigIdent sig, v)
  | _ => none

/-- `compare_inherent_visibility`: an item of the first block and an item of the same kind and name in another block must
    have the same visibility (the generated inherent impl has one visibility per item) -/
def compareInherentVis (first second : List T) : Except Diag Unit :=
  if (first.filterMap implItemVis).any (fun f => (second.filterMap implItemVis).any (fun s =>
      decide (f.1 = s.1) && f.2.1 == s.2.1 && f.2.2 != s.2.2)) then .error .visMismatch else .ok ()

/-- `validate_inherent_impls` for one family: kinds, then the item sets against the first block, then the visibilities -/
def validateInherentImpls (impls : List T) : Except Diag Unit :=
  let headers := impls.map (fun item =>
    match implTraitPath item with
    | some _ => Except.error Diag.expectedInherent
    | none => .ok ())
  match firstError headers with
  | .error d => .error d
  | .ok () =>
      match impls with
      | [] => .ok ()
      | first :: rest =>
          match firstError (rest.map (fun item => compareInherentItems (implItemSigs first) (implItemSigs item))) with
          | .error d => .error d
          | .ok () => firstError (rest.map (fun item => compareInherentVis (implItems first) (implItems item)))

/-- `ImplGroups::new` (lib.rs:985-1001): every family in order -/
def validateAll (trait_ : Option T) (families : List (List T)) : Except Diag Unit :=
  firstError (families.map (fun fam => match trait_ with
    | some t => validateTraitImpls t fam
    | none => validateInherentImpls fam))

end DI
