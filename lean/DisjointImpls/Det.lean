/-
  Determinism model (DESIGN.md §5.9, C07): the only way iteration order can depend on anything but the input
  is through a container whose iteration order is not fixed by its contents' insertion history.
-/
namespace DI

inductive ContainerKind where
  | ordered     -- iteration order = insertion order (IndexMap/IndexSet/Vec) or key order (BTreeMap/BTreeSet)
  | hashed      -- iteration order depends on a per-process hasher seed (std HashMap/HashSet with RandomState)
  deriving Repr, DecidableEq

def kindOf (name : String) : ContainerKind :=
  if ["IndexMap", "IndexSet", "BTreeMap", "BTreeSet", "VecDeque", "Vec"].contains name then .ordered else .hashed

/-- what iterating a container yields: the insertion-ordered contents for ordered kinds, an arbitrary
    seed-dependent rearrangement `perm seed` otherwise -/
def iterate {α : Type} (perm : Nat → List α → List α) (k : ContainerKind) (seed : Nat) (xs : List α) : List α :=
  match k with
  | .ordered => xs
  | .hashed => perm seed xs

/-- a computation that iterates containers of the given kinds, threading its result through a step function -/
def runWith {α β : Type} (perm : Nat → List α → List α) (seed : Nat) (step : β → List α → β) :
    List (ContainerKind × List α) → β → β
  | [], acc => acc
  | (k, xs) :: rest, acc => runWith perm seed step rest (step acc (iterate perm k seed xs))

end DI
