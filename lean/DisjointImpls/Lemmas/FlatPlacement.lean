/-
  Bound placement and bound order do not matter to the grouping search, for invocations without nested headers (C06).

  Moving a trait bound between its inline position and the where-clause, or re-ordering bounds / predicates, permutes
  the list `Blk.raw` that `TraitBoundsVisitor::find` extracts from a block. The search reads that list only through
  the per-key fold `otherFold` (`ABG.new` / `intersection`), which `Lemmas/FlatOrder.lean` turns into the member's own
  row `rowOf b k`. Here:

  * `rowOf_eq_pl`: `rowOf b k` is a left fold over the bounds of the block whose key is `keyEq` to `k`; whether it is
    defined only depends on the SET of bounds; what it binds an associated type to (`cell`) is the LAST binding of that
    associated type among those bounds (`cell_eq_pl`) — a genuine order dependence, removed by the executable side
    condition `noConflictingBindings` (`cell_perm_pl`, `blkSim_of_perm_pl`), which is also necessary
    (`noConflict_necessary_pl`).
  * `BlkSim_pl`: two blocks with the same rows as finite maps and the same `?Sized` set. The candidate filter of a flat
    bucket (`accOK`), the keys, rows and `?Sized` set of its single candidate only depend on the blocks up to
    `BlkSim_pl`, position by position (`accOK_sim_pl`, `pruneB_famSpec_sim_pl`, `famUL_sim_pl`).
  * `goFlat_eq_pl`: the bucket-by-bucket loop in closed form (first bucket that panics or fails the filter, else the
    list of the pruned single candidates), from which acceptance, the kind of rejection and the reported header follow
    for two presentations (`goFlat_placement_verdict_pl`), and the correspondence of the families
    (`goFlat_placement_families_pl`, executable form `famSimB_pl`); on `parseGroups`: `parseGroups_placement_*_pl`.
  * `findBounds_move_pl`, `findBounds_where_perm_pl`: moving inline bounds into the where-clause and re-ordering
    predicates permute what `findBounds` lists; `mkBuckets_placed_pl`: invocations that correspond block by block have
    corresponding buckets; `applies_placed_pl`: the semantic blocks apply to the same queries.
-/
import DisjointImpls.Lemmas.FlatAccept
import DisjointImpls.Lemmas.Refine
namespace DI

/-! ### looking up an associated type in a row that is being extended -/

theorem rowLookup_append_pl : ∀ (r s : Row) (x : String),
    rowLookup (r ++ s) x = match rowLookup r x with | some v => some v | none => rowLookup s x
  | [], s, x => by cases h : rowLookup s x <;> simp [rowLookup, h]
  | (y, p) :: r, s, x => by
      simp only [List.cons_append, rowLookup]
      split
      · rfl
      · exact rowLookup_append_pl r s x

theorem rowLookup_none_of_not_any_pl : ∀ (r : Row) (x : String), r.any (fun e => e.1 == x) = false → rowLookup r x = none
  | [], _, _ => rfl
  | (y, p) :: r, x, h => by
      simp only [List.any_cons, Bool.or_eq_false_iff] at h
      simp only [rowLookup, h.1, Bool.false_eq_true, if_false]
      exact rowLookup_none_of_not_any_pl r x h.2

theorem rowLookup_replace_pl (y : String) (p : T) (x : String) : ∀ (r : Row),
    rowLookup (r.map (fun e => if e.1 == y then (y, p) else e)) x =
      if y == x then (if r.any (fun e => e.1 == y) then some p else none) else rowLookup r x
  | [] => by simp [rowLookup]
  | (z, q) :: r => by
      have ih := rowLookup_replace_pl y p x r
      simp only [List.map_cons, List.any_cons]
      by_cases hyx : (y == x) = true
      · have e2 : y = x := eq_of_beq hyx
        subst e2
        simp only [hyx, if_true] at ih ⊢
        by_cases hzy : (z == y) = true
        · simp only [hzy, if_true, rowLookup, hyx, Bool.true_or]
        · have hzy' := Bool.eq_false_iff.2 hzy
          simp only [hzy', Bool.false_eq_true, if_false, rowLookup, Bool.false_or]
          exact ih
      · have hyx' := Bool.eq_false_iff.2 hyx
        simp only [hyx', Bool.false_eq_true, if_false] at ih ⊢
        by_cases hzy : (z == y) = true
        · have e1 : z = y := eq_of_beq hzy
          subst e1
          simp only [hzy, if_true, rowLookup, hyx', Bool.false_eq_true, if_false]
          exact ih
        · have hzy' := Bool.eq_false_iff.2 hzy
          simp only [hzy', Bool.false_eq_true, if_false, rowLookup]
          rw [ih]

/-- `IndexMap::insert` on a row, seen through lookups -/
theorem rowLookup_insert_pl (r : Row) (y : String) (p : T) (x : String) :
    rowLookup (Row.insert r y p) x = if y == x then some p else rowLookup r x := by
  unfold Row.insert
  by_cases hany : r.any (fun e => e.1 == y) = true
  · rw [if_pos hany, rowLookup_replace_pl, hany]
    simp
  · rw [if_neg hany, rowLookup_append_pl]
    by_cases hyx : (y == x) = true
    · have e2 : y = x := eq_of_beq hyx
      subst e2
      rw [rowLookup_none_of_not_any_pl r y (Bool.eq_false_iff.2 hany)]
      simp [rowLookup]
    · simp only [hyx, Bool.false_eq_true, if_false, rowLookup]
      cases rowLookup r x <;> rfl

/-- the binding of `x` after the bindings `es` have been written over the optional binding `o`: the last one wins -/
def bindFold_pl (x : String) (o : Option T) (es : List (String × T)) : Option T :=
  es.foldl (fun o e => if e.1 == x then some e.2 else o) o

/-- `IndexMap::extend` on a row, seen through lookups -/
theorem rowLookup_extend_pl (x : String) : ∀ (es : List (String × T)) (r : Row),
    rowLookup (Row.extend r es) x = bindFold_pl x (rowLookup r x) es
  | [], r => rfl
  | e :: es, r => by
      unfold Row.extend bindFold_pl
      rw [List.foldl_cons, List.foldl_cons]
      have := rowLookup_extend_pl x es (Row.insert r e.1 e.2)
      unfold Row.extend bindFold_pl at this
      rw [this, rowLookup_insert_pl]

/-- writing bindings over an existing binding: the last new binding of `x` wins, else the old one stays -/
theorem bindFold_or_pl (x : String) : ∀ (es : List (String × T)) (o : Option T),
    bindFold_pl x o es = match bindFold_pl x none es with | some v => some v | none => o
  | [], o => rfl
  | e :: es, o => by
      unfold bindFold_pl
      rw [List.foldl_cons, List.foldl_cons]
      have ih1 := bindFold_or_pl x es (if e.1 == x then some e.2 else o)
      have ih2 := bindFold_or_pl x es (if e.1 == x then some e.2 else none)
      unfold bindFold_pl at ih1 ih2
      rw [ih1, ih2]
      cases List.foldl (fun o e => if e.1 == x then some e.2 else o) none es with
      | some v => rfl
      | none =>
        by_cases hex : (e.1 == x) = true
        · simp only [hex, if_true]
        · simp only [hex, Bool.false_eq_true, if_false]

theorem bindFold_isSome_pl (x : String) : ∀ (es : List (String × T)) (o : Option T),
    (bindFold_pl x o es).isSome = (o.isSome || es.any (fun e => e.1 == x))
  | [], o => by simp [bindFold_pl]
  | e :: es, o => by
      unfold bindFold_pl
      rw [List.foldl_cons]
      have ih := bindFold_isSome_pl x es (if e.1 == x then some e.2 else o)
      unfold bindFold_pl at ih
      rw [ih, List.any_cons]
      by_cases hex : (e.1 == x) = true
      · simp [hex]
      · have hex' := Bool.eq_false_iff.2 hex
        simp only [hex', Bool.false_eq_true, if_false, Bool.false_or]

/-! ### the member's own row, as a fold over the bounds with that key -/

/-- the key under which a bound is stored -/
def RawBound.key (rb : RawBound) : BKey := (rb.bounded, rb.tr)

theorem findKey_append_pl {α : Type} : ∀ (bs cs : List (BKey × α)) (k : BKey),
    findKey (bs ++ cs) k = match findKey bs k with | some v => some v | none => findKey cs k
  | [], cs, k => by cases h : findKey cs k <;> simp [findKey, h]
  | (k', v) :: bs, cs, k => by
      simp only [List.cons_append, findKey]
      split
      · rfl
      · exact findKey_append_pl bs cs k

theorem findKey_replace_pl {α : Type} {k' k : BKey} (v : α) (hk' : WfKey k') (hk : WfKey k) : ∀ (bs : List (BKey × α)),
    (∀ e ∈ bs, WfKey e.1) →
    findKey (bs.map (fun e => if keyEq e.1 k' then (e.1, v) else e)) k =
      if keyEq k' k then (findKey bs k).map (fun _ => v) else findKey bs k
  | [], _ => by simp [findKey]
  | (k0, w) :: bs, hbs => by
      have ih := findKey_replace_pl v hk' hk bs (fun e he => hbs e (List.mem_cons_of_mem _ he))
      have hk0 : WfKey k0 := hbs (k0, w) (by simp)
      simp only [List.map_cons]
      by_cases hkk : keyEq k' k = true
      · have hn : nk k' = nk k := (keyEq_iff hk' hk).1 hkk
        have e1 : keyEq k0 k' = keyEq k0 k := keyEq_congr_right hk0 hk' hk hn
        simp only [hkk, if_true] at ih ⊢
        by_cases h0 : keyEq k0 k = true
        · simp [e1, h0, findKey]
        · simp only [e1, h0, Bool.false_eq_true, if_false, findKey]
          exact ih
      · simp only [hkk, Bool.false_eq_true, if_false] at ih ⊢
        by_cases h0 : keyEq k0 k = true
        · have : keyEq k0 k' = false := by
            cases h1 : keyEq k0 k' with
            | false => rfl
            | true =>
              exfalso
              apply hkk
              rw [keyEq_iff hk' hk, ← (keyEq_iff hk0 hk').1 h1, (keyEq_iff hk0 hk).1 h0]
          simp [this, findKey, h0]
        · by_cases h1 : keyEq k0 k' = true
          · simp only [h1, if_true, findKey, h0, Bool.false_eq_true, if_false]
            exact ih
          · simp only [h1, Bool.false_eq_true, if_false, findKey, h0]
            exact ih

/-- one bound folded into the rows of the block: only the row of its own key changes -/
theorem findKey_otherStep_pl {acc : List (BKey × Row)} (hacc : ∀ e ∈ acc, WfKey e.1) {rb : RawBound}
    (hrb : WfKey rb.key) {k : BKey} (hk : WfKey k) :
    findKey (otherStep acc rb) k =
      if keyEq rb.key k then some (Row.extend ((findKey acc k).getD []) rb.binds) else findKey acc k := by
  unfold otherStep
  change WfKey (rb.bounded, rb.tr) at hrb
  show findKey (match findKey acc (rb.bounded, rb.tr) with
    | some r => insertKey acc (rb.bounded, rb.tr) (Row.extend r rb.binds)
    | none => acc ++ [((rb.bounded, rb.tr), Row.extend [] rb.binds)]) k =
      if keyEq (rb.bounded, rb.tr) k then some (Row.extend ((findKey acc k).getD []) rb.binds) else findKey acc k
  cases hf : findKey acc (rb.bounded, rb.tr) with
  | none =>
    simp only
    rw [findKey_append_pl]
    by_cases hkk : keyEq (rb.bounded, rb.tr) k = true
    · have hn := (keyEq_iff hrb hk).1 hkk
      have : findKey acc k = none := by rw [← findKey_congr hacc hrb hk hn]; exact hf
      simp [this, findKey, hkk]
    · simp only [hkk, Bool.false_eq_true, if_false, findKey]
      cases findKey acc k <;> rfl
  | some r =>
    simp only
    unfold insertKey
    rw [if_pos (findKey_some_any hf), findKey_replace_pl _ hrb hk acc hacc]
    by_cases hkk : keyEq (rb.bounded, rb.tr) k = true
    · have hn := (keyEq_iff hrb hk).1 hkk
      have : findKey acc k = some r := by rw [← findKey_congr hacc hrb hk hn]; exact hf
      simp [this, hkk]
    · simp [hkk]

/-- one step of the fold that computes the row of the key `k` -/
def rowStep_pl (k : BKey) (o : Option Row) (rb : RawBound) : Option Row :=
  if keyEq rb.key k then some (Row.extend (o.getD []) rb.binds) else o

theorem otherStep_wf_pl {acc : List (BKey × Row)} (hacc : ∀ e ∈ acc, WfKey e.1) {rb : RawBound} (hrb : WfKey rb.key) :
    ∀ e ∈ otherStep acc rb, WfKey e.1 := by
  intro e he
  have hm : e.1 ∈ (otherStep acc rb).map (·.1) := List.mem_map.2 ⟨e, he, rfl⟩
  rcases otherStep_keys acc rb with ⟨h, _⟩ | ⟨h, _⟩
  · rw [h] at hm
    obtain ⟨e0, he0, h0⟩ := List.mem_map.1 hm
    rw [← h0]; exact hacc e0 he0
  · rw [h] at hm
    rcases List.mem_append.1 hm with hm | hm
    · obtain ⟨e0, he0, h0⟩ := List.mem_map.1 hm
      rw [← h0]; exact hacc e0 he0
    · simp only [List.mem_singleton] at hm
      rw [hm]; exact hrb

theorem findKey_foldl_otherStep_pl {k : BKey} (hk : WfKey k) : ∀ (raw : List RawBound) (acc : List (BKey × Row)),
    (∀ e ∈ acc, WfKey e.1) → (∀ rb ∈ raw, WfKey rb.key) →
    findKey (raw.foldl otherStep acc) k = raw.foldl (rowStep_pl k) (findKey acc k)
  | [], _, _, _ => rfl
  | rb :: raw, acc, hacc, hraw => by
      rw [List.foldl_cons, List.foldl_cons,
        findKey_foldl_otherStep_pl hk raw _ (otherStep_wf_pl hacc (hraw rb (by simp)))
          (fun x hx => hraw x (List.mem_cons_of_mem _ hx)),
        findKey_otherStep_pl hacc (hraw rb (by simp)) hk]
      rfl

theorem wfBlk_iff_pl {b : Blk} : wfBlk b = true ↔ ∀ rb ∈ b.raw, WfKey rb.key := by
  simp only [wfBlk, List.all_eq_true]
  rfl

/-- **the member's own row for a key**: fold the bindings of the bounds with that key, in written order -/
theorem rowOf_eq_pl {b : Blk} (hb : wfBlk b = true) {k : BKey} (hk : WfKey k) :
    rowOf b k = b.raw.foldl (rowStep_pl k) none := by
  unfold rowOf
  rw [otherFold_eq, findKey_foldl_otherStep_pl hk b.raw [] (fun e he => by cases he) (wfBlk_iff_pl.1 hb)]
  rfl

theorem foldl_rowStep_isSome_pl (k : BKey) : ∀ (raw : List RawBound) (o : Option Row),
    (raw.foldl (rowStep_pl k) o).isSome = (o.isSome || raw.any (fun rb => keyEq rb.key k))
  | [], o => by simp
  | rb :: raw, o => by
      rw [List.foldl_cons, foldl_rowStep_isSome_pl k raw]
      unfold rowStep_pl
      by_cases h : keyEq rb.key k = true
      · simp [h]
      · simp [h]

/-- whether a block has a bound with the key `k` only depends on the set of its bounds -/
theorem rowOf_isSome_pl {b : Blk} (hb : wfBlk b = true) {k : BKey} (hk : WfKey k) :
    (rowOf b k).isSome = b.raw.any (fun rb => keyEq rb.key k) := by
  rw [rowOf_eq_pl hb hk, foldl_rowStep_isSome_pl]
  rfl

/-- one step of the fold that computes what the block binds `x` to under the key `k` -/
def cellStep_pl (k : BKey) (x : String) (o : Option T) (rb : RawBound) : Option T :=
  if keyEq rb.key k then bindFold_pl x o rb.binds else o

theorem foldl_rowStep_lookup_pl (k : BKey) (x : String) : ∀ (raw : List RawBound) (o : Option Row),
    rowLookup ((raw.foldl (rowStep_pl k) o).getD []) x = raw.foldl (cellStep_pl k x) (rowLookup (o.getD []) x)
  | [], _ => rfl
  | rb :: raw, o => by
      rw [List.foldl_cons, List.foldl_cons, foldl_rowStep_lookup_pl k x raw]
      congr 1
      unfold rowStep_pl cellStep_pl
      by_cases h : keyEq rb.key k = true
      · simp only [h, if_true, Option.getD_some]
        exact rowLookup_extend_pl x rb.binds _
      · simp only [h, Bool.false_eq_true, if_false]

/-- **what a block binds an associated type to under a key**: the last binding among its bounds with that key -/
theorem cell_eq_pl {b : Blk} (hb : wfBlk b = true) {k : BKey} (hk : WfKey k) (x : String) :
    cell b (k, x) = b.raw.foldl (cellStep_pl k x) none := by
  unfold cell rowD
  simp only
  rw [rowOf_eq_pl hb hk, foldl_rowStep_lookup_pl]
  rfl

/-- what a single bound binds the associated type `x` to: its last binding of `x` -/
def lastBind_pl (rb : RawBound) (x : String) : Option T := bindFold_pl x none rb.binds

theorem cellStep_eq_pl (k : BKey) (x : String) (o : Option T) (rb : RawBound) :
    cellStep_pl k x o rb = if keyEq rb.key k then (match lastBind_pl rb x with | some v => some v | none => o) else o := by
  unfold cellStep_pl lastBind_pl
  rw [bindFold_or_pl]

/-- if all bounds with the key `k` that bind `x` agree on their (last) binding `p`, their order is immaterial -/
theorem foldl_cellStep_uniform_pl (k : BKey) (x : String) (p : T) : ∀ (raw : List RawBound) (o : Option T),
    (∀ rb ∈ raw, keyEq rb.key k = true → (lastBind_pl rb x).isSome = true → lastBind_pl rb x = some p) →
    raw.foldl (cellStep_pl k x) o =
      if raw.any (fun rb => keyEq rb.key k && (lastBind_pl rb x).isSome) then some p else o
  | [], _, _ => rfl
  | rb :: raw, o, h => by
      rw [List.foldl_cons, foldl_cellStep_uniform_pl k x p raw _ (fun r hr => h r (List.mem_cons_of_mem _ hr))]
      simp only [List.any_cons]
      rw [cellStep_eq_pl]
      by_cases hk : keyEq rb.key k = true
      · simp only [hk, if_true, Bool.true_and]
        cases hl : lastBind_pl rb x with
        | none => simp only [Option.isSome_none, Bool.false_or]
        | some v =>
          have := h rb (by simp) hk (by rw [hl]; rfl)
          rw [hl] at this
          cases this
          simp only [Option.isSome_some, Bool.true_or, if_true]
          split <;> rfl
      · have hk' := Bool.eq_false_iff.2 hk
        simp only [hk', Bool.false_eq_true, if_false, Bool.false_and, Bool.false_or]

/-! ### the side condition and the invariance under permutations of the bounds -/

/-- the bounds of the block with one dispatch key (same bounded type, `TraitBound::eq` trait paths) that bind an
    associated type agree on what they bind it to (for each bound: its last binding of that associated type). It fails
    for `T: D<G = A>` together with `T: D<G = B>`, inline or in the where-clause (rustc rejects such a block, but the
    macro runs first); it holds when a binding is merely repeated. -/
def noConflictingBindings (b : Blk) : Bool :=
  b.raw.all (fun rb => b.raw.all (fun rb' => !keyEq rb.key rb'.key ||
    rb.binds.all (fun e => (lastBind_pl rb' e.1).isNone || lastBind_pl rb e.1 == lastBind_pl rb' e.1)))

theorem noConflict_spec_pl {b : Blk} (h : noConflictingBindings b = true) {rb rb' : RawBound} (hrb : rb ∈ b.raw)
    (hrb' : rb' ∈ b.raw) (hk : keyEq rb.key rb'.key = true) {x : String} (hs : (lastBind_pl rb x).isSome = true)
    (hs' : (lastBind_pl rb' x).isSome = true) : lastBind_pl rb x = lastBind_pl rb' x := by
  simp only [noConflictingBindings, List.all_eq_true, Bool.or_eq_true, Bool.not_eq_true', beq_iff_eq] at h
  unfold lastBind_pl at hs
  rw [bindFold_isSome_pl] at hs
  simp only [Option.isSome_none, Bool.false_or, List.any_eq_true, beq_iff_eq] at hs
  obtain ⟨e, he, hx⟩ := hs
  rcases h rb hrb rb' hrb' with h1 | h1
  · rw [hk] at h1; cases h1
  · rcases h1 e he with h2 | h2
    · rw [hx] at h2
      cases hl : lastBind_pl rb' x with
      | none => rw [hl] at hs'; cases hs'
      | some v => rw [hl] at h2; cases h2
    · rw [hx] at h2; exact h2

theorem wfBlk_perm_pl {b b' : Blk} (hp : b'.raw.Perm b.raw) : wfBlk b' = wfBlk b := by
  unfold wfBlk
  exact hp.all_eq

theorem noConflict_perm_pl {b b' : Blk} (hp : b'.raw.Perm b.raw) : noConflictingBindings b' = noConflictingBindings b := by
  unfold noConflictingBindings
  rw [hp.all_eq]
  congr 1
  funext rb
  rw [hp.all_eq]

/-- what a block binds an associated type to under a key does not depend on the order of its bounds, provided the
    bounds with that key that bind it agree on the binding -/
theorem cell_perm_pl {b b' : Blk} (hp : b'.raw.Perm b.raw) (hb : wfBlk b = true) (hc : noConflictingBindings b = true)
    {k : BKey} (hk : WfKey k) (x : String) : cell b' (k, x) = cell b (k, x) := by
  have hb' : wfBlk b' = true := by rw [wfBlk_perm_pl hp]; exact hb
  rw [cell_eq_pl hb hk, cell_eq_pl hb' hk]
  by_cases hex : ∃ rb ∈ b.raw, keyEq rb.key k = true ∧ (lastBind_pl rb x).isSome = true
  · obtain ⟨rb0, hrb0, hk0, hs0⟩ := hex
    cases hl0 : lastBind_pl rb0 x with
    | none => rw [hl0] at hs0; cases hs0
    | some p =>
      have huni : ∀ rb ∈ b.raw, keyEq rb.key k = true → (lastBind_pl rb x).isSome = true → lastBind_pl rb x = some p := by
        intro rb hrb hkr hs
        have w0 := wfBlk_iff_pl.1 hb rb0 hrb0
        have w1 := wfBlk_iff_pl.1 hb rb hrb
        have hkk : keyEq rb.key rb0.key = true := by
          rw [keyEq_iff w1 w0, (keyEq_iff w1 hk).1 hkr, (keyEq_iff w0 hk).1 hk0]
        rw [noConflict_spec_pl hc hrb hrb0 hkk hs hs0, hl0]
      rw [foldl_cellStep_uniform_pl k x p b.raw none huni,
        foldl_cellStep_uniform_pl k x p b'.raw none (fun rb hrb => huni rb (hp.mem_iff.1 hrb)), hp.any_eq]
  · have huni : ∀ rb ∈ b.raw, keyEq rb.key k = true → (lastBind_pl rb x).isSome = true →
        lastBind_pl rb x = some (T.tparam "") := by
      intro rb hrb hkr hs
      exact absurd ⟨rb, hrb, hkr, hs⟩ hex
    rw [foldl_cellStep_uniform_pl k x _ b.raw none huni,
      foldl_cellStep_uniform_pl k x _ b'.raw none (fun rb hrb => huni rb (hp.mem_iff.1 hrb)), hp.any_eq]

/-- the block with the bound `rb` moved to the end of the list of bounds -/
def moveLast_pl (b : Blk) (rb : RawBound) : Blk := ⟨b.item, b.raw.erase rb ++ [rb]⟩

theorem moveLast_perm_pl {b : Blk} {rb : RawBound} (h : rb ∈ b.raw) : (moveLast_pl b rb).raw.Perm b.raw :=
  (List.perm_append_comm.trans (List.perm_cons_erase h).symm)

theorem cell_moveLast_pl {b : Blk} (hb : wfBlk b = true) {rb : RawBound} (h : rb ∈ b.raw) {k : BKey} (hk : WfKey k)
    (hkk : keyEq rb.key k = true) {x : String} {p : T} (hl : lastBind_pl rb x = some p) :
    cell (moveLast_pl b rb) (k, x) = some p := by
  have hb' : wfBlk (moveLast_pl b rb) = true := by rw [wfBlk_perm_pl (moveLast_perm_pl h)]; exact hb
  rw [cell_eq_pl hb' hk]
  show List.foldl (cellStep_pl k x) none (b.raw.erase rb ++ [rb]) = some p
  rw [List.foldl_append, List.foldl_cons, List.foldl_nil, cellStep_eq_pl, hkk, hl]
  rfl

/-- **the side condition is necessary, block by block**: a block that violates `noConflictingBindings` has a
    presentation with the bounds in another order that binds some associated type differently -/
theorem noConflict_necessary_pl {b : Blk} (hb : wfBlk b = true) (hc : noConflictingBindings b = false) :
    ∃ b', b'.item = b.item ∧ b'.raw.Perm b.raw ∧ ∃ k x, WfKey k ∧ cell b' (k, x) ≠ cell b (k, x) := by
  unfold noConflictingBindings at hc
  rw [List.all_eq_false] at hc
  obtain ⟨rb, hrb, h1⟩ := hc
  rw [Bool.not_eq_true, List.all_eq_false] at h1
  obtain ⟨rb', hrb', h2⟩ := h1
  rw [Bool.not_eq_true, Bool.or_eq_false_iff, List.all_eq_false] at h2
  obtain ⟨h3, e, he, h4⟩ := h2
  rw [Bool.not_eq_true, Bool.or_eq_false_iff] at h4
  have hkk : keyEq rb.key rb'.key = true := by simpa using h3
  have hsome : (lastBind_pl rb' e.1).isNone = false := h4.1
  have hdiff : ¬ lastBind_pl rb e.1 = lastBind_pl rb' e.1 := by simpa using h4.2
  have w := wfBlk_iff_pl.1 hb rb hrb
  have w' := wfBlk_iff_pl.1 hb rb' hrb'
  have hkk' : keyEq rb'.key rb.key = true := by rw [keyEq_iff w' w, (keyEq_iff w w').1 hkk]
  cases hq : lastBind_pl rb' e.1 with
  | none => rw [hq] at hsome; cases hsome
  | some q =>
    cases hp : lastBind_pl rb e.1 with
    | none =>
      exfalso
      have : (lastBind_pl rb e.1).isSome = true := by
        unfold lastBind_pl
        rw [bindFold_isSome_pl]
        simp only [Option.isSome_none, Bool.false_or, List.any_eq_true, beq_iff_eq]
        exact ⟨e, he, rfl⟩
      rw [hp] at this
      cases this
    | some p =>
      have hpq : p ≠ q := by
        intro e1
        apply hdiff
        rw [hp, hq, e1]
      have c1 := cell_moveLast_pl hb hrb w (keyEq_refl w) hp
      have c2 := cell_moveLast_pl hb hrb' w hkk' hq
      by_cases hcell : cell b (rb.key, e.1) = some p
      · refine ⟨moveLast_pl b rb', rfl, moveLast_perm_pl hrb', rb.key, e.1, w, ?_⟩
        rw [c2, hcell]
        intro e2
        exact hpq (Option.some.inj e2).symm
      · refine ⟨moveLast_pl b rb, rfl, moveLast_perm_pl hrb, rb.key, e.1, w, ?_⟩
        rw [c1]
        exact fun e2 => hcell e2.symm

theorem mem_unsized_pl {b : Blk} {p : T} : p ∈ b.unsized ↔ ∃ rb ∈ b.raw, rb.maybe = true ∧ rb.bounded = p := by
  unfold Blk.unsized
  simp only [List.mem_eraseDups, List.mem_map, List.mem_filter]
  constructor
  · rintro ⟨rb, ⟨h1, h2⟩, h3⟩; exact ⟨rb, h1, h2, h3⟩
  · rintro ⟨rb, h1, h2, h3⟩; exact ⟨rb, ⟨h1, h2⟩, h3⟩

/-! ### blocks with the same rows as finite maps -/

/-- the two blocks have a bound for the same keys, bind every associated type to the same payload under every key,
    and relax `Sized` for the same types: all the search reads of a block -/
structure BlkSim_pl (b b' : Blk) : Prop where
  wf : wfBlk b = true
  wf' : wfBlk b' = true
  some : ∀ k, WfKey k → (rowOf b k).isSome = (rowOf b' k).isSome
  cell : ∀ k, WfKey k → ∀ x, cell b (k, x) = cell b' (k, x)
  uns : ∀ p, p ∈ b.unsized ↔ p ∈ b'.unsized

theorem BlkSim_pl.symm {b b' : Blk} (h : BlkSim_pl b b') : BlkSim_pl b' b :=
  ⟨h.wf', h.wf, fun k hk => (h.some k hk).symm, fun k hk x => (h.cell k hk x).symm, fun p => (h.uns p).symm⟩

/-- **a block whose bounds are permuted**: same rows as finite maps, provided no associated type is bound twice to
    different payloads under one key -/
theorem blkSim_of_perm_pl {b b' : Blk} (hp : b'.raw.Perm b.raw) (hb : wfBlk b = true)
    (hc : noConflictingBindings b = true) : BlkSim_pl b b' := by
  have hb' : wfBlk b' = true := by rw [wfBlk_perm_pl hp]; exact hb
  refine ⟨hb, hb', ?_, ?_, ?_⟩
  · intro k hk
    rw [rowOf_isSome_pl hb hk, rowOf_isSome_pl hb' hk, hp.any_eq]
  · intro k hk x
    exact (cell_perm_pl hp hb hc hk x).symm
  · intro p
    rw [mem_unsized_pl, mem_unsized_pl]
    constructor
    · rintro ⟨rb, h1, h2⟩; exact ⟨rb, hp.mem_iff.2 h1, h2⟩
    · rintro ⟨rb, h1, h2⟩; exact ⟨rb, hp.mem_iff.1 h1, h2⟩

theorem forall2_flip_pl {α β : Type} {R : α → β → Prop} {l1 : List α} {l2 : List β} (h : Forall2 R l1 l2) :
    Forall2 (fun b a => R a b) l2 l1 := by
  induction h with
  | nil => exact .nil
  | cons hab _ ih => exact .cons hab ih

theorem forall2_imp_pl {α β : Type} {R S : α → β → Prop} (hRS : ∀ a b, R a b → S a b) {l1 : List α} {l2 : List β}
    (h : Forall2 R l1 l2) : Forall2 S l1 l2 := by
  induction h with
  | nil => exact .nil
  | cons hab _ ih => exact .cons (hRS _ _ hab) ih

theorem forall2_length_pl {α β : Type} {R : α → β → Prop} {l1 : List α} {l2 : List β} (h : Forall2 R l1 l2) :
    l1.length = l2.length := by
  induction h with
  | nil => rfl
  | cons _ _ ih => simp [ih]

/-- two different elements of the left list have different partners -/
theorem forall2_pair_pl {α β : Type} {R : α → β → Prop} {l1 : List α} {l2 : List β} (h : Forall2 R l1 l2)
    (hn2 : l2.Nodup) : ∀ a ∈ l1, ∀ c ∈ l1, a ≠ c → ∃ a' ∈ l2, ∃ c' ∈ l2, a' ≠ c' ∧ R a a' ∧ R c c' := by
  induction h with
  | nil => intro a ha; cases ha
  | @cons x y t1 t2 hxy ht ih =>
    rw [List.nodup_cons] at hn2
    intro a ha c hc hne
    rcases List.mem_cons.1 ha with e1 | ha1
    · rcases List.mem_cons.1 hc with e2 | hc1
      · exact absurd (e1.trans e2.symm) hne
      · obtain ⟨c', hc', hr⟩ := forall₂_left ht c hc1
        exact ⟨y, by simp, c', List.mem_cons_of_mem _ hc', fun e => hn2.1 (e ▸ hc'), e1 ▸ hxy, hr⟩
    · rcases List.mem_cons.1 hc with e2 | hc1
      · obtain ⟨a', ha', hr⟩ := forall₂_left ht a ha1
        exact ⟨a', List.mem_cons_of_mem _ ha', y, by simp, fun e => hn2.1 (e ▸ ha'), hr, e2 ▸ hxy⟩
      · obtain ⟨a', ha', c', hc', hne', h1, h2⟩ := ih hn2.2 a ha1 c hc1 hne
        exact ⟨a', List.mem_cons_of_mem _ ha', c', List.mem_cons_of_mem _ hc', hne', h1, h2⟩

theorem forall2_map_pl {α β γ δ : Type} {R : α → β → Prop} {S : γ → δ → Prop} (f : α → γ) (g : β → δ)
    (hRS : ∀ a b, R a b → S (f a) (g b)) {l1 : List α} {l2 : List β} (h : Forall2 R l1 l2) :
    Forall2 S (l1.map f) (l2.map g) := by
  induction h with
  | nil => exact .nil
  | cons hab _ ih => exact .cons (hRS _ _ hab) ih

/-- bucket `blks'` presents the blocks of bucket `blks`, position by position -/
abbrev BlksSim_pl (blks blks' : List Blk) : Prop := Forall2 BlkSim_pl blks blks'

theorem blksSim_symm_pl {blks blks' : List Blk} (h : BlksSim_pl blks blks') : BlksSim_pl blks' blks :=
  forall2_imp_pl (fun _ _ hs => BlkSim_pl.symm hs) (forall2_flip_pl h)

theorem blksSim_wf_pl {blks blks' : List Blk} (h : BlksSim_pl blks blks') : ∀ b ∈ blks, wfBlk b = true := by
  intro b hb
  obtain ⟨b', _, hs⟩ := forall₂_left h b hb
  exact hs.wf

theorem hasKey_sim_pl {blks blks' : List Blk} (h : BlksSim_pl blks blks') {k : BKey} (hk : WfKey k) :
    hasKey blks k = hasKey blks' k := by
  rw [Bool.eq_iff_iff, hasKey_iff, hasKey_iff]
  constructor
  · intro h1 b' hb'
    obtain ⟨b, hb, hs⟩ := forall₂_right h b' hb'
    rw [← hs.some k hk]; exact h1 b hb
  · intro h1 b hb
    obtain ⟨b', hb', hs⟩ := forall₂_left h b hb
    rw [hs.some k hk]; exact h1 b' hb'

/-- a key of a block is, up to spelling, a key of the block that presents it -/
theorem key_sim_pl {b b' : Blk} (hs : BlkSim_pl b b') {e : BKey × Row} (he : e ∈ otherFold b) :
    ∃ e' ∈ otherFold b', WfKey e.1 ∧ WfKey e'.1 ∧ nk e'.1 = nk e.1 := by
  have hwk : WfKey e.1 := wfBlk_key hs.wf he
  have h1 : (rowOf b' e.1).isSome = true := by rw [← hs.some _ hwk, rowOf_self hs.wf he]; rfl
  unfold rowOf at h1
  cases hf : findKey (otherFold b') e.1 with
  | none => rw [hf] at h1; cases h1
  | some r =>
    obtain ⟨k', hmem, hke⟩ := findKey_some_mem hf
    have hwk' : WfKey k' := wfBlk_key hs.wf' hmem
    exact ⟨(k', r), hmem, hwk, hwk', (keyEq_iff hwk' hwk).1 hke⟩

theorem rowD_names_sim_pl {b b' : Blk} (hs : BlkSim_pl b b') {k : BKey} (hk : WfKey k) (x : String) :
    x ∈ (rowD b k).map (·.1) ↔ x ∈ (rowD b' k).map (·.1) := by
  rw [← cell_isSome_iff_fa b (k, x), ← cell_isSome_iff_fa b' (k, x), hs.cell k hk x]

/-- every column of the family of one presentation is a column of the other, up to the spelling of the key -/
theorem famIdents_sim_pl {blks blks' : List Blk} {l l' : Blk} (h : BlksSim_pl blks blks') (hl : l ∈ blks) (hl' : l' ∈ blks') :
    ∀ kx ∈ famIdents blks l, ∃ kx' ∈ famIdents blks' l', WfKey kx.1 ∧ WfKey kx'.1 ∧ nk kx.1 = nk kx'.1 ∧ kx.2 = kx'.2 := by
  intro kx hkx
  have hw := blksSim_wf_pl h
  have hw' := blksSim_wf_pl (blksSim_symm_pl h)
  obtain ⟨⟨e0, he0, hk⟩, hkey, b, hb, hx⟩ := mem_famIdents.1 hkx
  have hwk : WfKey kx.1 := hk ▸ wfBlk_key (hw l hl) he0
  have hkey' : hasKey blks' kx.1 = true := by rw [← hasKey_sim_pl h hwk]; exact hkey
  obtain ⟨e', he', hwk', hn, hkey'', _⟩ := hasKey_own_key_fa hw' hwk hkey' hl'
  obtain ⟨b', hb', hs⟩ := forall₂_left h b hb
  refine ⟨(e'.1, kx.2), mem_famIdents.2 ⟨⟨e', he', rfl⟩, hkey'', b', hb', ?_⟩, hwk, hwk', hn.symm, rfl⟩
  show kx.2 ∈ (rowD b' e'.1).map (·.1)
  rw [rowD_congr hs.wf' hwk' hwk hn, ← rowD_names_sim_pl hs hwk]
  exact hx

theorem accB_sim_mono_pl {blks blks' : List Blk} {l l' : Blk} (h : BlksSim_pl blks blks') (hl : l ∈ blks) (hl' : l' ∈ blks')
    (hnd : blks.Nodup) (hnd' : blks'.Nodup) :
    accB (famSpec blks l) = true → accB (famSpec blks' l') = true := by
  have hw := blksSim_wf_pl h
  have hw' := blksSim_wf_pl (blksSim_symm_pl h)
  rw [accB_famSpec_iff hw hl hnd, accB_famSpec_iff hw' hl' hnd']
  rintro ⟨hI, hno⟩
  constructor
  · obtain ⟨kx, hkx⟩ := List.exists_mem_of_ne_nil _ hI
    obtain ⟨kx', hkx', _⟩ := famIdents_sim_pl h hl hl' kx hkx
    exact List.ne_nil_of_mem hkx'
  · rintro ⟨b', hb', c', hc', hne, hall⟩
    apply hno
    obtain ⟨b, hb, c, hc, hne0, hsb, hsc⟩ := forall2_pair_pl (blksSim_symm_pl h) hnd b' hb' c' hc' hne
    refine ⟨b, hb, c, hc, hne0, fun kx hkx => ?_⟩
    obtain ⟨kx', hkx', h1, h2, h3, h4⟩ := famIdents_sim_pl h hl hl' kx hkx
    have := hall kx' hkx'
    have e1 : cell b kx = cell b' kx' := by
      rw [← cell_transfer_fa hsb.wf h1 h2 h3 h4]
      exact (hsb.cell kx.1 h1 kx.2).symm
    have e2 : cell c kx = cell c' kx' := by
      rw [← cell_transfer_fa hsc.wf h1 h2 h3 h4]
      exact (hsc.cell kx.1 h1 kx.2).symm
    rw [e1, e2]; exact this

/-- the candidate filter on a bucket does not depend on how the bounds of its blocks are placed and ordered -/
theorem accB_sim_pl {blks blks' : List Blk} {l l' : Blk} (h : BlksSim_pl blks blks') (hl : l ∈ blks) (hl' : l' ∈ blks')
    (hnd : blks.Nodup) (hnd' : blks'.Nodup) :
    accB (famSpec blks l) = accB (famSpec blks' l') := by
  rw [Bool.eq_iff_iff]
  exact ⟨accB_sim_mono_pl h hl hl' hnd hnd', accB_sim_mono_pl (blksSim_symm_pl h) hl' hl hnd' hnd⟩

theorem accOK_sim_pl {blks blks' : List Blk} (h : BlksSim_pl blks blks') (hnd : blks.Nodup) (hnd' : blks'.Nodup) :
    accOK blks = accOK blks' := by
  have hw := blksSim_wf_pl h
  have hw' := blksSim_wf_pl (blksSim_symm_pl h)
  cases h with
  | nil => rfl
  | @cons b1 b1' tl tl' h1 ht =>
    simp only [accOK, famBL]
    rw [famB_spec b1 tl hw, famB_spec b1' tl' hw']
    exact accB_sim_pl (.cons h1 ht) (lastB_mem b1 tl) (lastB_mem b1' tl') hnd hnd'

/-! ### the bucket-by-bucket loop in closed form -/

/-- the family the search forms for a flat bucket that passes the candidate filter -/
def grpOf_pl (bk : T × List Blk) : T × ABG × List Blk := (bk.1, ⟨pruneB (famBL bk.2), famUL bk.2⟩, bk.2)

/-- the loop stops at this bucket: its search panics, or its single candidate fails the filter -/
def bucketBad_pl (bk : T × List Blk) : Bool := bucketPanics bk || !accOK bk.2

/-- what `goFlat` returns, in closed form -/
def flatResult_pl (l : List (T × List Blk)) (acc : Groups) : ParseResult :=
  match l.find? bucketBad_pl with
  | none => .ok (acc ++ l.map grpOf_pl)
  | some bk => if bucketPanics bk then .panic .unwrapNone else .unableToForm bk.1

theorem goFlat_eq_pl : ∀ (l : List (T × List Blk)) (acc : Groups),
    (∀ bk ∈ l, selfWeak bk.1 = true ∧ bk.2 ≠ []) → goFlat l acc = flatResult_pl l acc
  | [], acc, _ => by simp [goFlat, flatResult_pl]
  | (r, blks) :: rest, acc, h => by
      obtain ⟨hself, hne⟩ := h (r, blks) (by simp)
      simp only at hself hne
      cases blks with
      | nil => exact absurd rfl hne
      | cons b1 tl =>
        by_cases hpan : bucketPanics (r, b1 :: tl) = true
        · have h2 : selfYes r = false := by
            simp only [bucketPanics, Bool.and_eq_true, Bool.not_eq_true'] at hpan
            exact hpan.2
          cases tl with
          | nil => simp [bucketPanics] at hpan
          | cons b2 tl2 =>
            rw [goFlat, flatSearch_panics h2]
            simp [flatResult_pl, bucketBad_pl, hpan]
        · have hpan' : bucketPanics (r, b1 :: tl) = false := by simpa using hpan
          have hs : flatSearch r (b1 :: tl) [] = .ok [[(r, ⟨famB b1 tl, famU b1 tl⟩, b1 :: tl)]] := by
            cases tl with
            | nil => exact flatSearch_single r b1
            | cons b2 tl2 =>
              apply flatSearch_root
              rw [selfIdentity_iff, hself]
              simp only [bucketPanics, List.length_cons] at hpan'
              have : (2 ≤ tl2.length + 1 + 1) := by omega
              simpa [this] using hpan'
          rw [goFlat, hs]
          simp only [List.filterMap_cons, List.filterMap_nil, filterCandidate_one]
          by_cases hacc : accB (famB b1 tl) = true
          · simp only [hacc, if_true, chooseCandidate_single]
            rw [goFlat_eq_pl rest _ (fun bk hbk => h bk (List.mem_cons_of_mem _ hbk))]
            have hbad : bucketBad_pl (r, b1 :: tl) = false := by
              simp [bucketBad_pl, hpan', accOK, famBL, hacc]
            unfold flatResult_pl
            rw [List.find?_cons, hbad]
            simp only [List.map_cons, List.append_assoc, List.singleton_append]
            rfl
          · simp only [hacc, Bool.false_eq_true, if_false, chooseCandidate]
            have hbad : bucketBad_pl (r, b1 :: tl) = true := by
              simp [bucketBad_pl, accOK, famBL, hacc]
            unfold flatResult_pl
            rw [List.find?_cons, hbad]
            simp [hpan']

/-- the outcome of the grouping, without the families: accepted, rejected with "Unable to form impl group" for a
    header, or a panic -/
inductive Verdict where
  | accepted
  | unable (id : T)
  | panic (e : SearchErr)
  deriving Repr, DecidableEq

def ParseResult.verdict : ParseResult → Verdict
  | .ok _ => .accepted
  | .unableToForm id => .unable id
  | .panic e => .panic e

/-- the first bucket at which the loop stops: its header and whether it panics -/
def firstBad_pl (l : List (T × List Blk)) : Option (T × Bool) :=
  (l.find? bucketBad_pl).map (fun bk => (bk.1, bucketPanics bk))

theorem flatResult_verdict_pl (l : List (T × List Blk)) (acc : Groups) :
    (flatResult_pl l acc).verdict = match firstBad_pl l with
      | none => .accepted
      | some (id, p) => if p then .panic .unwrapNone else .unable id := by
  unfold flatResult_pl firstBad_pl
  cases l.find? bucketBad_pl with
  | none => rfl
  | some bk =>
    simp only [Option.map_some]
    cases bucketPanics bk <;> rfl

/-! ### two presentations of the buckets -/

/-- bucket by bucket the same header, and block by block the same rows as finite maps -/
abbrev BucketsSim_pl (l l' : List (T × List Blk)) : Prop :=
  Forall2 (fun bk bk' => bk.1 = bk'.1 ∧ BlksSim_pl bk.2 bk'.2) l l'

theorem firstBad_sim_pl {l l' : List (T × List Blk)} (h : BucketsSim_pl l l')
    (hnd : ∀ bk ∈ l, bk.2.Nodup) (hnd' : ∀ bk ∈ l', bk.2.Nodup) : firstBad_pl l = firstBad_pl l' := by
  induction h with
  | nil => rfl
  | @cons bk bk' t t' hb _ ih =>
    have hpan : bucketPanics bk = bucketPanics bk' := by
      unfold bucketPanics
      rw [hb.1, forall2_length_pl hb.2]
    have hacc : accOK bk.2 = accOK bk'.2 := accOK_sim_pl hb.2 (hnd bk (by simp)) (hnd' bk' (by simp))
    have hbad : bucketBad_pl bk = bucketBad_pl bk' := by unfold bucketBad_pl; rw [hpan, hacc]
    have ih' := ih (fun b hb => hnd b (List.mem_cons_of_mem _ hb)) (fun b hb => hnd' b (List.mem_cons_of_mem _ hb))
    unfold firstBad_pl at ih' ⊢
    rw [List.find?_cons, List.find?_cons, ← hbad]
    cases bucketBad_pl bk with
    | true => simp only [Option.map_some, hb.1, hpan]
    | false => exact ih'

/-- acceptance, the kind of rejection and the reported header agree for two presentations of the buckets -/
theorem goFlat_sim_verdict_pl {l l' : List (T × List Blk)} (h : BucketsSim_pl l l')
    (hl : ∀ bk ∈ l, selfWeak bk.1 = true ∧ bk.2 ≠ []) (hnd : ∀ bk ∈ l, bk.2.Nodup) (hnd' : ∀ bk ∈ l', bk.2.Nodup) :
    (goFlat l []).verdict = (goFlat l' []).verdict := by
  have hl' : ∀ bk' ∈ l', selfWeak bk'.1 = true ∧ bk'.2 ≠ [] := by
    intro bk' hbk'
    obtain ⟨bk, hbk, h1, h2⟩ := forall₂_right h bk' hbk'
    refine ⟨h1 ▸ (hl bk hbk).1, ?_⟩
    intro e
    have := forall2_length_pl h2
    rw [e] at this
    exact (hl bk hbk).2 (List.length_eq_zero_iff.1 this)
  rw [goFlat_eq_pl l [] hl, goFlat_eq_pl l' [] hl', flatResult_verdict_pl, flatResult_verdict_pl,
    firstBad_sim_pl h hnd hnd']

theorem goFlat_ok_groups_pl {l : List (T × List Blk)} {g : Groups} (hl : ∀ bk ∈ l, selfWeak bk.1 = true ∧ bk.2 ≠ [])
    (h : goFlat l [] = .ok g) : g = l.map grpOf_pl := by
  rw [goFlat_eq_pl l [] hl] at h
  unfold flatResult_pl at h
  cases hf : l.find? bucketBad_pl with
  | none => rw [hf] at h; simp only [List.nil_append] at h; cases h; rfl
  | some bk =>
    rw [hf] at h
    simp only at h
    split at h <;> cases h

/-! ### the families of two presentations -/

/-- two rows bind every associated type to the same payload (rows compared as finite maps) -/
def RowEq_pl (r r' : Row) : Prop := ∀ a, rowLookup r a = rowLookup r' a

theorem rowEq_nil_pl {r r' : Row} (h : RowEq_pl r r') (hne : r ≠ []) : r' ≠ [] := by
  obtain ⟨xp, hxp⟩ := List.exists_mem_of_ne_nil _ hne
  have h1 : (rowLookup r xp.1).isSome = true := (rowLookup_isSome_iff_fa r xp.1).2 (List.mem_map.2 ⟨xp, hxp, rfl⟩)
  rw [h xp.1] at h1
  intro e
  rw [e] at h1
  cases h1

theorem rows_any_pl {rs rs' : List Row} (h : Forall2 RowEq_pl rs rs') :
    rs.any (fun r => !r.isEmpty) = true → rs'.any (fun r => !r.isEmpty) = true := by
  simp only [List.any_eq_true, Bool.not_eq_true', List.isEmpty_eq_false_iff]
  rintro ⟨r, hr, hne⟩
  obtain ⟨r', hr', he⟩ := forall₂_left h r hr
  exact ⟨r', hr', rowEq_nil_pl he hne⟩

/-- every key of the family of one presentation is, up to spelling, a key of the other, with the same row (as a
    finite map) for every member -/
theorem famSpec_sim_pl {blks blks' : List Blk} {l l' : Blk} (h : BlksSim_pl blks blks') (hl : l ∈ blks) (hl' : l' ∈ blks') :
    ∀ kr ∈ famSpec blks l, ∃ kr' ∈ famSpec blks' l', keyEq kr.1 kr'.1 = true ∧ WfKey kr.1 ∧ WfKey kr'.1 ∧
      Forall2 RowEq_pl kr.2 kr'.2 := by
  intro kr hkr
  have hw := blksSim_wf_pl h
  have hw' := blksSim_wf_pl (blksSim_symm_pl h)
  obtain ⟨e0, he0, hkey, rfl⟩ := mem_famSpec.1 hkr
  have hwk : WfKey e0.1 := wfBlk_key (hw l hl) he0
  have hkey' : hasKey blks' e0.1 = true := by rw [← hasKey_sim_pl h hwk]; exact hkey
  obtain ⟨e', he', hwk', hn, hkey'', _⟩ := hasKey_own_key_fa hw' hwk hkey' hl'
  refine ⟨(e'.1, blks'.map (fun b => rowD b e'.1)), mem_famSpec.2 ⟨e', he', hkey'', rfl⟩,
    (keyEq_iff hwk hwk').2 hn.symm, hwk, hwk', ?_⟩
  apply forall2_map_pl _ _ _ h
  intro b b' hs a
  show rowLookup (rowD b e0.1) a = rowLookup (rowD b' e'.1) a
  rw [rowD_congr hs.wf' hwk' hwk hn]
  exact hs.cell e0.1 hwk a

theorem pruneB_famSpec_sim_pl {blks blks' : List Blk} {l l' : Blk} (h : BlksSim_pl blks blks') (hl : l ∈ blks)
    (hl' : l' ∈ blks') :
    ∀ kr ∈ pruneB (famSpec blks l), ∃ kr' ∈ pruneB (famSpec blks' l'), keyEq kr.1 kr'.1 = true ∧ WfKey kr.1 ∧ WfKey kr'.1 ∧
      Forall2 RowEq_pl kr.2 kr'.2 := by
  intro kr hkr
  obtain ⟨hmem, hany⟩ := List.mem_filter.1 hkr
  obtain ⟨kr', hkr', h1, h2, h3, h4⟩ := famSpec_sim_pl h hl hl' kr hmem
  exact ⟨kr', List.mem_filter.2 ⟨hkr', rows_any_pl h4 hany⟩, h1, h2, h3, h4⟩

/-- the keys of the pruned families of two presentations agree up to spelling and order -/
theorem pruneB_famSpec_keys_sim_pl {blks blks' : List Blk} {l l' : Blk} (h : BlksSim_pl blks blks') (hl : l ∈ blks)
    (hl' : l' ∈ blks') :
    ((pruneB (famSpec blks l)).map (fun e => nk e.1)).Perm ((pruneB (famSpec blks' l')).map (fun e => nk e.1)) := by
  have hw := blksSim_wf_pl h
  have hw' := blksSim_wf_pl (blksSim_symm_pl h)
  apply (List.perm_ext_iff_of_nodup (pruneB_famSpec_nodup (hw l hl)) (pruneB_famSpec_nodup (hw' l' hl'))).2
  intro x
  simp only [List.mem_map]
  constructor
  · rintro ⟨kr, hkr, rfl⟩
    obtain ⟨kr', hkr', hke, h2, h3, _⟩ := pruneB_famSpec_sim_pl h hl hl' kr hkr
    exact ⟨kr', hkr', ((keyEq_iff h2 h3).1 hke).symm⟩
  · rintro ⟨kr', hkr', rfl⟩
    obtain ⟨kr, hkr, hke, h2, h3, _⟩ := pruneB_famSpec_sim_pl (blksSim_symm_pl h) hl' hl kr' hkr'
    exact ⟨kr, hkr, ((keyEq_iff h2 h3).1 hke).symm⟩

/-- the `?Sized` parameters of the single candidate of two presentations agree as a set -/
theorem famUL_sim_pl {blks blks' : List Blk} (h : BlksSim_pl blks blks') (p : T) : p ∈ famUL blks → p ∈ famUL blks' := by
  have hw := blksSim_wf_pl h
  have hw' := blksSim_wf_pl (blksSim_symm_pl h)
  cases h with
  | nil => exact id
  | @cons b1 b1' rest rest' h1 ht =>
    cases ht with
    | nil =>
      show p ∈ b1.unsized → p ∈ b1'.unsized
      exact (h1.uns p).1
    | @cons b2 b2' tl tl' h2 ht2 =>
      have hall : BlksSim_pl (b1 :: b2 :: tl) (b1' :: b2' :: tl') := .cons h1 (.cons h2 ht2)
      simp only [famUL]
      rw [famU_mem (by simp), famU_mem (by simp), famB_spec b1 _ hw, famB_spec b1' _ hw']
      rintro ⟨⟨b, hb, hbp⟩, hpar⟩
      obtain ⟨b', hb', hs⟩ := forall₂_left hall b hb
      refine ⟨⟨b', hb', (hs.uns p).1 hbp⟩, ?_⟩
      obtain ⟨kr, hkr, rfl⟩ := List.mem_map.1 hpar
      obtain ⟨kr', hkr', hke, _⟩ := famSpec_sim_pl hall (lastB_mem b1 _) (lastB_mem b1' _) kr hkr
      exact List.mem_map.2 ⟨kr', hkr', (keyEq_fst hke).symm⟩

/-- two families correspond: same header, members position by position with the same rows as finite maps, the same
    keys up to spelling and order (`nk`: bounded type and dispatch key of the trait path), under corresponding keys
    every member has the same row as a finite map, and the same `?Sized` set -/
def FamSim_pl (e e' : T × ABG × List Blk) : Prop :=
  e.1 = e'.1 ∧ BlksSim_pl e.2.2 e'.2.2 ∧
  (e.2.1.bounds.map (fun kr => nk kr.1)).Perm (e'.2.1.bounds.map (fun kr => nk kr.1)) ∧
  (∀ kr ∈ e.2.1.bounds, ∃ kr' ∈ e'.2.1.bounds, keyEq kr.1 kr'.1 = true ∧ Forall2 RowEq_pl kr.2 kr'.2) ∧
  (∀ kr' ∈ e'.2.1.bounds, ∃ kr ∈ e.2.1.bounds, keyEq kr.1 kr'.1 = true ∧ Forall2 RowEq_pl kr.2 kr'.2) ∧
  ∀ p, p ∈ e.2.1.unsized ↔ p ∈ e'.2.1.unsized

theorem rowEq_symm_pl {rs rs' : List Row} (h : Forall2 RowEq_pl rs rs') : Forall2 RowEq_pl rs' rs :=
  forall2_imp_pl (fun _ _ hr a => (hr a).symm) (forall2_flip_pl h)

theorem grpOf_sim_pl {bk bk' : T × List Blk} (hid : bk.1 = bk'.1) (h : BlksSim_pl bk.2 bk'.2) (hne : bk.2 ≠ []) :
    FamSim_pl (grpOf_pl bk) (grpOf_pl bk') := by
  have hw := blksSim_wf_pl h
  have hw' := blksSim_wf_pl (blksSim_symm_pl h)
  have hne' : bk'.2 ≠ [] := by
    intro e
    have := forall2_length_pl h
    rw [e] at this
    exact hne (List.length_eq_zero_iff.1 this)
  obtain ⟨l, hl, hspec, _⟩ := famBL_spec hne hw
  obtain ⟨l', hl', hspec', _⟩ := famBL_spec hne' hw'
  refine ⟨hid, h, ?_, ?_, ?_, ?_⟩
  · show ((pruneB (famBL bk.2)).map _).Perm ((pruneB (famBL bk'.2)).map _)
    rw [hspec, hspec']
    exact pruneB_famSpec_keys_sim_pl h hl hl'
  · show ∀ kr ∈ pruneB (famBL bk.2), ∃ kr' ∈ pruneB (famBL bk'.2), _
    rw [hspec, hspec']
    intro kr hkr
    obtain ⟨kr', hkr', h1, _, _, h4⟩ := pruneB_famSpec_sim_pl h hl hl' kr hkr
    exact ⟨kr', hkr', h1, h4⟩
  · show ∀ kr' ∈ pruneB (famBL bk'.2), ∃ kr ∈ pruneB (famBL bk.2), _
    rw [hspec, hspec']
    intro kr' hkr'
    obtain ⟨kr, hkr, h1, h2, h3, h4⟩ := pruneB_famSpec_sim_pl (blksSim_symm_pl h) hl' hl kr' hkr'
    refine ⟨kr, hkr, ?_, rowEq_symm_pl h4⟩
    rw [keyEq_iff h3 h2, ((keyEq_iff h2 h3).1 h1)]
  · intro p
    exact ⟨famUL_sim_pl h p, famUL_sim_pl (blksSim_symm_pl h) p⟩

/-- the families of two presentations of the buckets correspond, family by family in the same order -/
theorem goFlat_sim_families_pl {l l' : List (T × List Blk)} {g g' : Groups} (h : BucketsSim_pl l l')
    (hl : ∀ bk ∈ l, selfWeak bk.1 = true ∧ bk.2 ≠ []) (hg : goFlat l [] = .ok g) (hg' : goFlat l' [] = .ok g') :
    Forall2 FamSim_pl g g' := by
  have hl' : ∀ bk' ∈ l', selfWeak bk'.1 = true ∧ bk'.2 ≠ [] := by
    intro bk' hbk'
    obtain ⟨bk, hbk, h1, h2⟩ := forall₂_right h bk' hbk'
    refine ⟨h1 ▸ (hl bk hbk).1, ?_⟩
    intro e
    have := forall2_length_pl h2
    rw [e] at this
    exact (hl bk hbk).2 (List.length_eq_zero_iff.1 this)
  rw [goFlat_ok_groups_pl hl hg, goFlat_ok_groups_pl hl' hg']
  clear hg hg' hl'
  induction h with
  | nil => exact .nil
  | @cons bk bk' t t' hb _ ih =>
    exact .cons (grpOf_sim_pl hb.1 hb.2 (hl bk (by simp)).2) (ih (fun b hb => hl b (List.mem_cons_of_mem _ hb)))

/-! ### presentations that differ by the placement and order of the bounds -/

/-- `b'` presents the block `b` with its bounds placed / ordered differently: the same canonical header, and the
    bounds `TraitBoundsVisitor::find` lists for `b'` are a permutation of those it lists for `b` -/
def PlacedAs (b b' : Blk) : Prop := groupIdOf b.item = groupIdOf b'.item ∧ b'.raw.Perm b.raw

/-- executable form of `PlacedAs` -/
def placedAsB (b b' : Blk) : Bool := groupIdOf b.item == groupIdOf b'.item && b'.raw.isPerm b.raw

theorem placedAsB_iff {b b' : Blk} : placedAsB b b' = true ↔ PlacedAs b b' := by
  simp only [placedAsB, PlacedAs, Bool.and_eq_true, beq_iff_eq, List.isPerm_iff]

/-- executable form of `Forall2` -/
def forall2B_pl {α β : Type} (r : α → β → Bool) : List α → List β → Bool
  | [], [] => true
  | a :: l1, b :: l2 => r a b && forall2B_pl r l1 l2
  | _, _ => false

theorem forall2B_iff_pl {α β : Type} {r : α → β → Bool} {R : α → β → Prop} (hr : ∀ a b, r a b = true ↔ R a b) :
    ∀ (l1 : List α) (l2 : List β), forall2B_pl r l1 l2 = true ↔ Forall2 R l1 l2
  | [], [] => by simp [forall2B_pl, Forall2.nil]
  | [], _ :: _ => by simp only [forall2B_pl]; exact ⟨fun h => (by cases h), fun h => (by cases h)⟩
  | _ :: _, [] => by simp only [forall2B_pl]; exact ⟨fun h => (by cases h), fun h => (by cases h)⟩
  | a :: l1, b :: l2 => by
      simp only [forall2B_pl, Bool.and_eq_true, hr, forall2B_iff_pl hr l1 l2]
      constructor
      · rintro ⟨h1, h2⟩; exact .cons h1 h2
      · intro h; cases h with | cons h1 h2 => exact ⟨h1, h2⟩

/-- bucket by bucket the same header, and block by block a presentation with the bounds placed / ordered differently -/
def BucketsPlaced (l l' : List (T × List Blk)) : Prop :=
  Forall2 (fun bk bk' => bk.1 = bk'.1 ∧ Forall2 PlacedAs bk.2 bk'.2) l l'

/-- executable form of `BucketsPlaced` -/
def bucketsPlacedB (l l' : List (T × List Blk)) : Bool :=
  forall2B_pl (fun bk bk' => bk.1 == bk'.1 && forall2B_pl placedAsB bk.2 bk'.2) l l'

theorem bucketsPlacedB_iff {l l' : List (T × List Blk)} : bucketsPlacedB l l' = true ↔ BucketsPlaced l l' := by
  unfold bucketsPlacedB BucketsPlaced
  apply forall2B_iff_pl
  intro bk bk'
  simp only [Bool.and_eq_true, beq_iff_eq, forall2B_iff_pl (fun a b => placedAsB_iff (b := a) (b' := b))]

/-- executable side condition on the buckets (what `flatWF0` gives for the buckets `mkBuckets` builds, plus
    `noConflictingBindings`): a header that matches itself does so with identity bindings only, no bucket is empty,
    every trait path of a bound can be compared, no associated type is bound twice to different payloads under one
    key, and the blocks of a bucket are pairwise different -/
def flatBucketsOK_pl (l : List (T × List Blk)) : Bool :=
  l.all (fun bk => selfWeak bk.1 && !bk.2.isEmpty && bk.2.all (fun b => wfBlk b && noConflictingBindings b) &&
    decide bk.2.Nodup)

/-- the blocks of every bucket are pairwise different (true of the buckets `mkBuckets` builds) -/
def bucketsNodup_pl (l : List (T × List Blk)) : Bool := l.all (fun bk => decide bk.2.Nodup)

theorem flatBucketsOK_spec_pl {l : List (T × List Blk)} (h : flatBucketsOK_pl l = true) :
    ∀ bk ∈ l, (selfWeak bk.1 = true ∧ bk.2 ≠ []) ∧ (∀ b ∈ bk.2, wfBlk b = true ∧ noConflictingBindings b = true) ∧
      bk.2.Nodup := by
  intro bk hbk
  simp only [flatBucketsOK_pl, List.all_eq_true, Bool.and_eq_true, Bool.not_eq_true', List.isEmpty_eq_false_iff,
    decide_eq_true_eq] at h
  obtain ⟨⟨⟨h1, h2⟩, h3⟩, h4⟩ := h bk hbk
  exact ⟨⟨h1, h2⟩, h3, h4⟩

theorem bucketsSim_of_placed_pl {l l' : List (T × List Blk)} (h : BucketsPlaced l l')
    (hok : ∀ bk ∈ l, ∀ b ∈ bk.2, wfBlk b = true ∧ noConflictingBindings b = true) : BucketsSim_pl l l' := by
  induction h with
  | nil => exact .nil
  | @cons bk bk' t t' hb _ ih =>
    refine .cons ⟨hb.1, ?_⟩ (ih (fun b hb => hok b (List.mem_cons_of_mem _ hb)))
    have hbk := hok bk (by simp)
    generalize bk.2 = blks at hb hbk
    generalize bk'.2 = blks' at hb
    have h2 := hb.2
    clear hb
    induction h2 with
    | nil => exact .nil
    | @cons b b' u u' hbb _ ih2 =>
      exact .cons (blkSim_of_perm_pl hbb.2 (hbk b (by simp)).1 (hbk b (by simp)).2)
        (ih2 (fun x hx => hbk x (List.mem_cons_of_mem _ hx)))

/-- **acceptance does not depend on the placement and order of the bounds** (loop over explicit flat buckets): the
    same verdict — accepted, "Unable to form impl group" for the same header, or the same panic -/
theorem goFlat_placement_verdict_pl {l l' : List (T × List Blk)} (hpl : BucketsPlaced l l')
    (hok : flatBucketsOK_pl l = true) (hnd' : bucketsNodup_pl l' = true) :
    (goFlat l []).verdict = (goFlat l' []).verdict := by
  have hs := flatBucketsOK_spec_pl hok
  apply goFlat_sim_verdict_pl (bucketsSim_of_placed_pl hpl (fun bk hbk => (hs bk hbk).2.1))
    (fun bk hbk => (hs bk hbk).1) (fun bk hbk => (hs bk hbk).2.2)
  simpa [bucketsNodup_pl] using hnd'

/-- **the families do not depend on the placement and order of the bounds** (loop over explicit flat buckets) -/
theorem goFlat_placement_families_pl {l l' : List (T × List Blk)} {g g' : Groups} (hpl : BucketsPlaced l l')
    (hok : flatBucketsOK_pl l = true) (hg : goFlat l [] = .ok g) (hg' : goFlat l' [] = .ok g') :
    Forall2 FamSim_pl g g' := by
  have hs := flatBucketsOK_spec_pl hok
  exact goFlat_sim_families_pl (bucketsSim_of_placed_pl hpl (fun bk hbk => (hs bk hbk).2.1))
    (fun bk hbk => (hs bk hbk).1) hg hg'

/-! ### on `parseGroups` -/

/-- no block of the invocation binds an associated type twice to different payloads under one key -/
def noConflictingBindingsAll (items : List T) : Bool := (items.map mkBlk).all noConflictingBindings

theorem buckets_ok_pl (items : List T) (hwf : flatWF0 items = true) (hc : noConflictingBindingsAll items = true) :
    flatBucketsOK_pl (mkBuckets (items.map mkBlk)) = true := by
  simp only [flatBucketsOK_pl, List.all_eq_true, Bool.and_eq_true, Bool.not_eq_true', List.isEmpty_eq_false_iff,
    decide_eq_true_eq]
  intro bk hbk
  obtain ⟨h1, h2, h3, h4, h5⟩ := buckets_facts items hwf bk hbk
  refine ⟨⟨⟨h1, h2⟩, fun b hb => ⟨h4 b hb, ?_⟩⟩, h3⟩
  simp only [noConflictingBindingsAll, List.all_eq_true] at hc
  exact hc b ((h5 b).1 hb).1

theorem buckets_nodup_pl (items : List T) : bucketsNodup_pl (mkBuckets (items.map mkBlk)) = true := by
  simp only [bucketsNodup_pl, List.all_eq_true, decide_eq_true_eq]
  intro bk hbk
  exact nodup_of_items_nodup ((mkBuckets_inv (items.map mkBlk)).good bk hbk).2.1

theorem bucketsPlaced_ids_pl {l l' : List (T × List Blk)} (h : BucketsPlaced l l') : l.map (·.1) = l'.map (·.1) := by
  induction h with
  | nil => rfl
  | cons hb _ ih => simp only [List.map_cons, ih, hb.1]

/-- two un-nested invocations whose buckets correspond up to the placement / order of the bounds: `parseGroups` is the
    loop over the buckets for both -/
theorem parseGroups_placed_flat_pl {items items' : List T}
    (hpl : BucketsPlaced (mkBuckets (items.map mkBlk)) (mkBuckets (items'.map mkBlk)))
    (hms : msPairs ((mkBuckets (items.map mkBlk)).map (·.1)) = []) :
    parseGroups items = goFlat (mkBuckets (items.map mkBlk)) [] ∧
    parseGroups items' = goFlat (mkBuckets (items'.map mkBlk)) [] := by
  have hms' : msPairs ((mkBuckets (items'.map mkBlk)).map (·.1)) = [] := by
    rw [← bucketsPlaced_ids_pl hpl]; exact hms
  exact ⟨parseGroups_flat items (no_subsets_of_msPairs_nil hms), parseGroups_flat items' (no_subsets_of_msPairs_nil hms')⟩

theorem parseGroups_placement_verdict_pl {items items' : List T}
    (hpl : BucketsPlaced (mkBuckets (items.map mkBlk)) (mkBuckets (items'.map mkBlk)))
    (hms : msPairs ((mkBuckets (items.map mkBlk)).map (·.1)) = []) (hwf : flatWF0 items = true)
    (hc : noConflictingBindingsAll items = true) :
    (parseGroups items).verdict = (parseGroups items').verdict := by
  obtain ⟨h1, h2⟩ := parseGroups_placed_flat_pl hpl hms
  rw [h1, h2]
  exact goFlat_placement_verdict_pl hpl (buckets_ok_pl items hwf hc) (buckets_nodup_pl items')

theorem parseGroups_placement_families_pl {items items' : List T} {g g' : Groups}
    (hpl : BucketsPlaced (mkBuckets (items.map mkBlk)) (mkBuckets (items'.map mkBlk)))
    (hms : msPairs ((mkBuckets (items.map mkBlk)).map (·.1)) = []) (hwf : flatWF0 items = true)
    (hc : noConflictingBindingsAll items = true) (hg : parseGroups items = .ok g) (hg' : parseGroups items' = .ok g') :
    Forall2 FamSim_pl g g' := by
  obtain ⟨h1, h2⟩ := parseGroups_placed_flat_pl hpl hms
  rw [h1] at hg
  rw [h2] at hg'
  exact goFlat_placement_families_pl hpl (buckets_ok_pl items hwf hc) hg hg'

/-! ### the semantic level: the same block -/

/-- the generics of a (canonical) block -/
def genericsOf_pl (item : T) : T := (implGenerics item).getD (.node "?" [] [])

/-- `it'` presents the block `it` with its bounds placed / ordered differently: `PlacedAs` on the canonical blocks,
    and the same declared type parameters (as a set) -/
def PlacedItem (it it' : T) : Prop :=
  PlacedAs (mkBlk it) (mkBlk it') ∧
  ∀ x, x ∈ typeParamNames (genericsOf_pl (canon it)) ↔ x ∈ typeParamNames (genericsOf_pl (canon it'))

/-- executable form of `PlacedItem` -/
def placedItemB (it it' : T) : Bool :=
  placedAsB (mkBlk it) (mkBlk it') &&
  (typeParamNames (genericsOf_pl (canon it))).all (fun x => (typeParamNames (genericsOf_pl (canon it'))).contains x) &&
  (typeParamNames (genericsOf_pl (canon it'))).all (fun x => (typeParamNames (genericsOf_pl (canon it))).contains x)

theorem placedItemB_iff {it it' : T} : placedItemB it it' = true ↔ PlacedItem it it' := by
  simp only [placedItemB, PlacedItem, Bool.and_eq_true, placedAsB_iff, List.all_eq_true, List.contains_iff_mem]
  constructor
  · rintro ⟨⟨h1, h2⟩, h3⟩; exact ⟨h1, fun x => ⟨h2 x, h3 x⟩⟩
  · rintro ⟨h1, h2⟩; exact ⟨⟨h1, fun x => (h2 x).1⟩, fun x => (h2 x).2⟩

theorem applies_of_sub_pl {W : World} {b b' : Block} (hh : b'.hdr = b.hdr) (hc : ∀ c ∈ b'.clauses, c ∈ b.clauses)
    (hs : ∀ p ∈ b'.sizedParams, p ∈ b.sizedParams) {q : T} : applies W b q → applies W b' q := by
  rintro ⟨ρ, h0, h1, h2, h3⟩
  exact ⟨ρ, wkB_of_sub hh hc hs h0, by rw [hh]; exact h1, fun c hcm => h2 c (hc c hcm), fun p hp => h3 p (hs p hp)⟩

theorem isMaybeSizedOn_perm_pl {raw raw' : List RawBound} (hp : raw'.Perm raw) (x : String) :
    isMaybeSizedOn raw' x = isMaybeSizedOn raw x := by
  unfold isMaybeSizedOn
  exact hp.any_eq

theorem mkBlock_sub_pl {it it' : T} (hraw : ∀ rb, rb ∈ (mkBlk it').raw → rb ∈ (mkBlk it).raw)
    (hany : ∀ x, isMaybeSizedOn (mkBlk it').raw x = isMaybeSizedOn (mkBlk it).raw x)
    (hhdr : groupIdOf (mkBlk it').item = groupIdOf (mkBlk it).item)
    (hnames : ∀ x, x ∈ typeParamNames (genericsOf_pl (canon it')) → x ∈ typeParamNames (genericsOf_pl (canon it)))
    (W : World) (q : T) : applies W (mkBlock (canon it)) q → applies W (mkBlock (canon it')) q := by
  apply applies_of_sub_pl
  · exact hhdr
  · intro c hc
    simp only [mkBlock, List.mem_map, List.mem_filter] at hc ⊢
    obtain ⟨rb, ⟨h1, h2⟩, rfl⟩ := hc
    exact ⟨rb, ⟨hraw rb h1, h2⟩, rfl⟩
  · intro p hp
    simp only [mkBlock, List.mem_filter] at hp ⊢
    refine ⟨hnames p hp.1, ?_⟩
    have := hany p
    simp only [mkBlk] at this
    rw [← this]
    exact hp.2

/-- a block and its presentation with the bounds placed / ordered differently apply to the same queries -/
theorem applies_placed_pl {it it' : T} (h : PlacedItem it it') (W : World) (q : T) :
    applies W (mkBlock (canon it)) q ↔ applies W (mkBlock (canon it')) q := by
  obtain ⟨⟨hid, hp⟩, hn⟩ := h
  constructor
  · exact mkBlock_sub_pl (fun rb => hp.mem_iff.1) (isMaybeSizedOn_perm_pl hp) hid.symm (fun x => (hn x).2) W q
  · exact mkBlock_sub_pl (fun rb => hp.mem_iff.2) (isMaybeSizedOn_perm_pl hp.symm) hid (fun x => (hn x).1) W q

theorem exists_applies_placed_pl {items items' : List T} (h : Forall2 PlacedItem items items') (W : World) (q : T) :
    (∃ it ∈ items, applies W (mkBlock (canon it)) q) ↔ (∃ it' ∈ items', applies W (mkBlock (canon it')) q) := by
  constructor
  · rintro ⟨it, hit, ha⟩
    obtain ⟨it', hit', hp⟩ := forall₂_left h it hit
    exact ⟨it', hit', (applies_placed_pl hp W q).1 ha⟩
  · rintro ⟨it', hit', ha⟩
    obtain ⟨it, hit, hp⟩ := forall₂_right h it' hit'
    exact ⟨it, hit, (applies_placed_pl hp W q).2 ha⟩

/-! ### helpers for closed examples -/

/-- two blocks with the same header and different texts form one bucket -/
theorem mkBuckets_pair_pl (b1 b2 : Blk) (h : groupIdOf b2.item = groupIdOf b1.item) (hne : b1.item ≠ b2.item) :
    mkBuckets [b1, b2] = [(groupIdOf b1.item, [b1, b2])] := by
  simp [mkBuckets, h, hne]

/-- two invocations of two blocks each, all with one header, block by block presentations of each other -/
theorem bucketsPlaced_pair_pl (a b a' b' : T) (h : groupIdOf (mkBlk b).item = groupIdOf (mkBlk a).item)
    (hne : (mkBlk a).item ≠ (mkBlk b).item) (h' : groupIdOf (mkBlk b').item = groupIdOf (mkBlk a').item)
    (hne' : (mkBlk a').item ≠ (mkBlk b').item) (ha : PlacedAs (mkBlk a) (mkBlk a')) (hb : PlacedAs (mkBlk b) (mkBlk b')) :
    BucketsPlaced (mkBuckets ([a, b].map mkBlk)) (mkBuckets ([a', b'].map mkBlk)) := by
  show BucketsPlaced (mkBuckets [mkBlk a, mkBlk b]) (mkBuckets [mkBlk a', mkBlk b'])
  rw [mkBuckets_pair_pl _ _ h hne, mkBuckets_pair_pl _ _ h' hne']
  exact .cons ⟨ha.1, .cons ha (.cons hb .nil)⟩ .nil

/-! ### an executable form of the correspondence of two families (for the test harness) -/

/-- executable form of `RowEq_pl` -/
def rowEqB_pl (r r' : Row) : Bool := (r ++ r').all (fun e => rowLookup r e.1 == rowLookup r' e.1)

theorem rowEqB_iff_pl {r r' : Row} : rowEqB_pl r r' = true ↔ RowEq_pl r r' := by
  simp only [rowEqB_pl, List.all_eq_true, beq_iff_eq, RowEq_pl]
  constructor
  · intro h a
    by_cases h1 : a ∈ r.map (·.1)
    · obtain ⟨e, he, rfl⟩ := List.mem_map.1 h1
      exact h e (List.mem_append.2 (Or.inl he))
    · by_cases h2 : a ∈ r'.map (·.1)
      · obtain ⟨e, he, rfl⟩ := List.mem_map.1 h2
        exact h e (List.mem_append.2 (Or.inr he))
      · have n1 : rowLookup r a = none := by
          cases hl : rowLookup r a with
          | none => rfl
          | some v => exact absurd ((rowLookup_isSome_iff_fa r a).1 (by rw [hl]; rfl)) h1
        have n2 : rowLookup r' a = none := by
          cases hl : rowLookup r' a with
          | none => rfl
          | some v => exact absurd ((rowLookup_isSome_iff_fa r' a).1 (by rw [hl]; rfl)) h2
        rw [n1, n2]
  · intro h e _
    exact h e.1

/-- executable consequence of `FamSim_pl` together with `PlacedAs` for the members: what the harness compares on the
    families computed for two presentations of an invocation -/
def famSimB_pl (e e' : T × ABG × List Blk) : Bool :=
  e.1 == e'.1 && forall2B_pl placedAsB e.2.2 e'.2.2 &&
  (e.2.1.bounds.map (fun kr => nk kr.1)).isPerm (e'.2.1.bounds.map (fun kr => nk kr.1)) &&
  e.2.1.bounds.all (fun kr => e'.2.1.bounds.any (fun kr' => keyEq kr.1 kr'.1 && forall2B_pl rowEqB_pl kr.2 kr'.2)) &&
  e'.2.1.bounds.all (fun kr' => e.2.1.bounds.any (fun kr => keyEq kr.1 kr'.1 && forall2B_pl rowEqB_pl kr.2 kr'.2)) &&
  e.2.1.unsized.all (fun p => e'.2.1.unsized.contains p) && e'.2.1.unsized.all (fun p => e.2.1.unsized.contains p)

theorem famSimB_of_pl {e e' : T × ABG × List Blk} (h : FamSim_pl e e') (hm : Forall2 PlacedAs e.2.2 e'.2.2) :
    famSimB_pl e e' = true := by
  obtain ⟨h1, _, h3, h4, h5, h6⟩ := h
  have hrows : ∀ rs rs', Forall2 RowEq_pl rs rs' → forall2B_pl rowEqB_pl rs rs' = true :=
    fun rs rs' hr => (forall2B_iff_pl (fun a b => rowEqB_iff_pl (r := a) (r' := b)) rs rs').2 hr
  simp only [famSimB_pl, Bool.and_eq_true, beq_iff_eq, List.all_eq_true, List.any_eq_true, List.contains_iff_mem,
    List.isPerm_iff]
  refine ⟨⟨⟨⟨⟨⟨h1, (forall2B_iff_pl (fun a b => placedAsB_iff (b := a) (b' := b)) _ _).2 hm⟩, h3⟩, ?_⟩, ?_⟩,
    fun p hp => (h6 p).1 hp⟩, fun p hp => (h6 p).2 hp⟩
  · intro kr hkr
    obtain ⟨kr', hkr', hk, hr⟩ := h4 kr hkr
    exact ⟨kr', hkr', hk, hrows _ _ hr⟩
  · intro kr' hkr'
    obtain ⟨kr, hkr, hk, hr⟩ := h5 kr' hkr'
    exact ⟨kr, hkr, hk, hrows _ _ hr⟩

theorem forall2_and_pl {α β : Type} {R S : α → β → Prop} {l1 : List α} {l2 : List β} (h1 : Forall2 R l1 l2)
    (h2 : Forall2 S l1 l2) : Forall2 (fun a b => R a b ∧ S a b) l1 l2 := by
  induction h1 with
  | nil => exact .nil
  | cons hab _ ih =>
    cases h2 with
    | cons hs ht => exact .cons ⟨hab, hs⟩ (ih ht)

/-! ### moving a bound permutes what `TraitBoundsVisitor::find` lists -/

/-- the trait bounds a generic parameter contributes -/
def paramBounds_pl (xp : String × T) : List RawBound :=
  match typeParamBounds xp.2 with
  | some (x, bs) => boundsOf (mkTypeIdent x) bs
  | none => []

/-- the trait bounds a where-predicate contributes -/
def whereBounds_pl (w : T) : List RawBound :=
  match w with
  | .node "WherePredicate::Type" [] [.node "PredicateType" [] [_, bounded, .node "List" [] bs]] => boundsOf bounded bs
  | _ => []

/-- the generic parameters with their identifiers, in declaration order -/
def identParams_pl (g : T) : List (String × T) :=
  (genericsParams g).filterMap (fun p => (paramIdent p).map (fun x => (x, p)))

theorem findBounds_eq_pl (g : T) :
    findBounds g = (sortByIdent (identParams_pl g)).flatMap paramBounds_pl ++ (genericsWhere g).flatMap whereBounds_pl := rfl

/-- the trait bounds of a block without the sorting of the parameters: parameters in declaration order, then the
    where-clause -/
def unsortedBounds_pl (g : T) : List RawBound :=
  (identParams_pl g).flatMap paramBounds_pl ++ (genericsWhere g).flatMap whereBounds_pl

theorem insertByIdent_perm_pl (x : String × T) : ∀ (ys : List (String × T)), (insertByIdent x ys).Perm (x :: ys)
  | [] => List.Perm.refl _
  | y :: ys => by
      unfold insertByIdent
      split
      · exact ((insertByIdent_perm_pl x ys).cons y).trans (List.Perm.swap x y ys)
      · exact List.Perm.refl _

theorem sortByIdent_perm_pl : ∀ (xs : List (String × T)), (sortByIdent xs).Perm xs
  | [] => List.Perm.refl _
  | x :: xs => by
      show (insertByIdent x (sortByIdent xs)).Perm (x :: xs)
      exact (insertByIdent_perm_pl x _).trans ((sortByIdent_perm_pl xs).cons x)

/-- `TraitBoundsVisitor::find` lists the bounds of the parameters in declaration order and of the where-clause, up
    to a permutation (it sorts the parameters by identifier) -/
theorem findBounds_perm_unsorted_pl (g : T) : (findBounds g).Perm (unsortedBounds_pl g) := by
  rw [findBounds_eq_pl]
  unfold unsortedBounds_pl
  exact List.Perm.append_right _ ((sortByIdent_perm_pl _).flatMap_right _)

theorem boundsOf_append_pl (bounded : T) (bs1 bs2 : List T) :
    boundsOf bounded (bs1 ++ bs2) = boundsOf bounded bs1 ++ boundsOf bounded bs2 := by
  unfold boundsOf
  rw [List.filterMap_append]

/-- the type parameter `x` with the bounds `bs` (the other fields — attributes, colon, `=`, default — arbitrary) -/
def typeParam_pl (a c e d : T) (x : String) (bs : List T) : T :=
  .node "GenericParam::Type" [] [.node "TypeParam" [] [a, .node "Ident" [x] [], c, .node "List" [] bs, e, d]]

/-- the where-predicate `bounded: bs` -/
def wherePred_pl (lts bounded : T) (bs : List T) : T :=
  .node "WherePredicate::Type" [] [.node "PredicateType" [] [lts, bounded, .node "List" [] bs]]

theorem identParams_typeParam_pl (a c e d : T) (x : String) (bs : List T) (pre post : List T) :
    (pre ++ [typeParam_pl a c e d x bs] ++ post).filterMap (fun p => (paramIdent p).map (fun x => (x, p))) =
      pre.filterMap (fun p => (paramIdent p).map (fun x => (x, p))) ++ [(x, typeParam_pl a c e d x bs)] ++
        post.filterMap (fun p => (paramIdent p).map (fun x => (x, p))) := by
  simp [List.filterMap_append, typeParam_pl, paramIdent]

theorem paramBounds_typeParam_pl (a c e d : T) (x : String) (bs : List T) :
    paramBounds_pl (x, typeParam_pl a c e d x bs) = boundsOf (mkTypeIdent x) bs := by
  simp [paramBounds_pl, typeParam_pl, typeParamBounds]

theorem whereBounds_wherePred_pl (lts bounded : T) (bs : List T) :
    whereBounds_pl (wherePred_pl lts bounded bs) = boundsOf bounded bs := by
  simp [whereBounds_pl, wherePred_pl]

/-- **moving bounds of a type parameter from their inline position to a new where-predicate at the end of the
    where-clause permutes the list of bounds** (`g`, `g'`: the generics before and after, described through the
    accessors: the parameter `x` has the inline bounds `bs1 ++ bs2` before and `bs1` after, and the where-clause gains
    the predicate `x: bs2`) -/
theorem findBounds_move_pl (g g' : T) (pre post : List T) (a c e d lts : T) (x : String) (bs1 bs2 : List T)
    (hps : genericsParams g = pre ++ [typeParam_pl a c e d x (bs1 ++ bs2)] ++ post)
    (hps' : genericsParams g' = pre ++ [typeParam_pl a c e d x bs1] ++ post)
    (hw : genericsWhere g' = genericsWhere g ++ [wherePred_pl lts (mkTypeIdent x) bs2]) :
    (findBounds g').Perm (findBounds g) := by
  refine (findBounds_perm_unsorted_pl g').trans (List.Perm.trans ?_ (findBounds_perm_unsorted_pl g).symm)
  unfold unsortedBounds_pl identParams_pl
  rw [hps, hps', hw, identParams_typeParam_pl, identParams_typeParam_pl]
  simp only [List.flatMap_append, List.flatMap_cons, List.flatMap_nil, List.append_nil, paramBounds_typeParam_pl,
    whereBounds_wherePred_pl, boundsOf_append_pl]
  rw [List.perm_iff_count]
  intro r
  simp only [List.count_append]
  omega

/-- re-ordering the where-predicates permutes the list of bounds -/
theorem findBounds_where_perm_pl (g g' : T) (hps : genericsParams g' = genericsParams g)
    (hw : (genericsWhere g').Perm (genericsWhere g)) : (findBounds g').Perm (findBounds g) := by
  rw [findBounds_eq_pl, findBounds_eq_pl]
  unfold identParams_pl
  rw [hps]
  exact List.Perm.append_left _ (hw.flatMap_right _)

/-- re-ordering the bounds of one where-predicate permutes the list of bounds -/
theorem boundsOf_perm_pl (bounded : T) {bs bs' : List T} (h : bs'.Perm bs) : (boundsOf bounded bs').Perm (boundsOf bounded bs) := by
  unfold boundsOf
  exact h.filterMap _

/-! ### from a block-by-block correspondence of two invocations to the correspondence of their buckets -/

theorem forall2_append_pl {α β : Type} {R : α → β → Prop} {l1 m1 : List α} {l2 m2 : List β} (h : Forall2 R l1 l2)
    (hm : Forall2 R m1 m2) : Forall2 R (l1 ++ m1) (l2 ++ m2) := by
  induction h with
  | nil => exact hm
  | cons hab _ ih => exact .cons hab ih

theorem find_bucket_none_placed_pl {acc acc' : List (T × List Blk)} (h : BucketsPlaced acc acc') (id : T) :
    (acc.find? (fun e => e.1 == id)).isSome = (acc'.find? (fun e => e.1 == id)).isSome := by
  induction h with
  | nil => rfl
  | @cons bk bk' t t' hb _ ih =>
    rw [List.find?_cons, List.find?_cons, ← hb.1]
    cases (bk.1 == id) with
    | true => rfl
    | false => exact ih

/-- one step of `mkBuckets` on two presentations of a block whose text is new on both sides -/
theorem bucketStep_placed_pl {acc acc' : List (T × List Blk)} (h : BucketsPlaced acc acc') {b b' : Blk} (hb : PlacedAs b b')
    (hnew : ∀ bk ∈ acc, ∀ x ∈ bk.2, x.item ≠ b.item) (hnew' : ∀ bk ∈ acc', ∀ x ∈ bk.2, x.item ≠ b'.item) :
    BucketsPlaced (bucketStep acc b) (bucketStep acc' b') := by
  have hsome := find_bucket_none_placed_pl h (groupIdOf b.item)
  unfold bucketStep
  dsimp only
  rw [← hb.1]
  cases hf : acc.find? (fun e => e.1 == groupIdOf b.item) with
  | none =>
    rw [hf] at hsome
    cases hf' : acc'.find? (fun e => e.1 == groupIdOf b.item) with
    | some _ => rw [hf'] at hsome; cases hsome
    | none =>
      dsimp only
      exact forall2_append_pl h (.cons ⟨rfl, .cons hb .nil⟩ .nil)
  | some e0 =>
    rw [hf] at hsome
    cases hf' : acc'.find? (fun e => e.1 == groupIdOf b.item) with
    | none => rw [hf'] at hsome; cases hsome
    | some e0' =>
      dsimp only
      clear hf hf' hsome
      induction h with
      | nil => exact .nil
      | @cons bk bk' t t' hbk _ ih =>
        have hn1 : bk.2.any (fun x => x.item == b.item) = false := by
          rw [List.any_eq_false]
          intro x hx
          simpa using hnew bk (by simp) x hx
        have hn2 : bk'.2.any (fun x => x.item == b'.item) = false := by
          rw [List.any_eq_false]
          intro x hx
          simpa using hnew' bk' (by simp) x hx
        simp only [List.map_cons]
        refine .cons ?_ (ih (fun k hk => hnew k (List.mem_cons_of_mem _ hk)) (fun k hk => hnew' k (List.mem_cons_of_mem _ hk)))
        rw [← hbk.1]
        cases (bk.1 == groupIdOf b.item) with
        | false => exact hbk
        | true =>
          simp only [if_true, hn1, hn2, Bool.false_eq_true, if_false]
          exact ⟨trivial, forall2_append_pl hbk.2 (.cons hb .nil)⟩

theorem foldl_bucketStep_placed_pl : ∀ (rest rest' pre pre' : List Blk) (acc acc' : List (T × List Blk)),
    Forall2 PlacedAs rest rest' → BucketsPlaced acc acc' → BInv pre acc → BInv pre' acc' →
    ((pre ++ rest).map (·.item)).Nodup → ((pre' ++ rest').map (·.item)).Nodup →
    BucketsPlaced (rest.foldl bucketStep acc) (rest'.foldl bucketStep acc')
  | _, _, _, _, _, _, .nil, h, _, _, _, _ => h
  | _, _, pre, pre', acc, acc', .cons (a := b) (b := b') (l1 := rest) (l2 := rest') hb ht, h, hi, hi', hnd, hnd' => by
      rw [List.foldl_cons, List.foldl_cons]
      have fresh : ∀ (pre rest : List Blk) (b : Blk) (acc : List (T × List Blk)), BInv pre acc →
          ((pre ++ b :: rest).map (·.item)).Nodup → ∀ bk ∈ acc, ∀ x ∈ bk.2, x.item ≠ b.item := by
        intro pre rest b acc hi hnd bk hbk x hx e
        have hxp : x ∈ pre := (hi.good bk hbk).2.2 x hx
        rw [List.map_append, List.nodup_append] at hnd
        exact hnd.2.2 x.item (List.mem_map.2 ⟨x, hxp, rfl⟩) b.item (by simp) e
      apply foldl_bucketStep_placed_pl rest rest' (pre ++ [b]) (pre' ++ [b']) _ _ ht
        (bucketStep_placed_pl h hb (fresh pre rest b acc hi hnd) (fresh pre' rest' b' acc' hi' hnd'))
        (bucketStep_inv hi b) (bucketStep_inv hi' b')
      · simpa using hnd
      · simpa using hnd'

/-- **two invocations that correspond block by block** (pairwise different block texts on both sides): their buckets
    correspond -/
theorem mkBuckets_placed_pl {bs bs' : List Blk} (h : Forall2 PlacedAs bs bs') (hnd : (bs.map (·.item)).Nodup)
    (hnd' : (bs'.map (·.item)).Nodup) : BucketsPlaced (mkBuckets bs) (mkBuckets bs') := by
  rw [mkBuckets_eq, mkBuckets_eq]
  exact foldl_bucketStep_placed_pl bs bs' [] [] [] [] h .nil
    ⟨fun bk hbk => (by cases hbk), fun b hb => (by cases hb)⟩ ⟨fun bk hbk => (by cases hbk), fun b hb => (by cases hb)⟩
    (by simpa using hnd) (by simpa using hnd')

/-- all executable hypotheses of the placement theorems on two invocations, in one check: block by block
    `placedAsB`, pairwise different canonical block texts on both sides, no header of the first invocation generalises
    a different one, `flatWF0` and `noConflictingBindingsAll` for the first invocation -/
def placementPreB (items items' : List T) : Bool :=
  forall2B_pl placedAsB (items.map mkBlk) (items'.map mkBlk) &&
  decide ((items.map mkBlk).map (·.item)).Nodup && decide ((items'.map mkBlk).map (·.item)).Nodup &&
  (msPairs ((mkBuckets (items.map mkBlk)).map (·.1))).isEmpty && flatWF0 items && noConflictingBindingsAll items

theorem placementPreB_spec {items items' : List T} (h : placementPreB items items' = true) :
    BucketsPlaced (mkBuckets (items.map mkBlk)) (mkBuckets (items'.map mkBlk)) ∧
    msPairs ((mkBuckets (items.map mkBlk)).map (·.1)) = [] ∧ flatWF0 items = true ∧
    noConflictingBindingsAll items = true := by
  simp only [placementPreB, Bool.and_eq_true, decide_eq_true_eq, List.isEmpty_iff] at h
  obtain ⟨⟨⟨⟨⟨h1, h2⟩, h3⟩, h4⟩, h5⟩, h6⟩ := h
  exact ⟨mkBuckets_placed_pl ((forall2B_iff_pl (fun a b => placedAsB_iff (b := a) (b' := b)) _ _).1 h1) h2 h3, h4, h5, h6⟩

end DI
