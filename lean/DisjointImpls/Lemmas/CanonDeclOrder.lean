/-
  Declaration-order invariance of parameter canonicalisation (C13 / C06): permuting the generic parameter list of
  `impl<…>` changes neither the numbering the indexer computes nor anything of the canonical item except the order
  of the (renamed) declarations. Statements: `Props/C13.lean` (`C13_declOrder_*`).

  The indexer states of the two runs differ only in the order of the names still waiting (`PermS`); every primitive
  step respects that, `paramNode` finds the same declaration when the declared type / const names are distinct, and
  the bounds of the indexed parameters are visited in index order.
-/
import DisjointImpls.CanonAlphaDefs
import DisjointImpls.Lemmas.CanonIdem
namespace DI

/-! ### States that differ in the order of the waiting names only -/

/-- same indexed names and indices; the names still waiting are a rearrangement -/
def PermS (s s' : IxState) : Prop :=
  s.unLt.Perm s'.unLt ∧ s.unTy.Perm s'.unTy ∧ s.unCo.Perm s'.unCo ∧
  s.ixLt = s'.ixLt ∧ s.ixTy = s'.ixTy ∧ s.ixCo = s'.ixCo ∧ s.next = s'.next

theorem PermS.refl (s : IxState) : PermS s s :=
  ⟨List.Perm.refl _, List.Perm.refl _, List.Perm.refl _, rfl, rfl, rfl, rfl⟩

theorem PermS.renaming {s s' : IxState} (h : PermS s s') : s.renaming = s'.renaming := by
  obtain ⟨_, _, _, h4, h5, h6, _⟩ := h
  unfold IxState.renaming
  rw [h4, h5, h6]

theorem PermS.unindexed {s s' : IxState} (h : PermS s s') : s.unindexed = s'.unindexed := by
  obtain ⟨h1, h2, h3, _⟩ := h
  unfold IxState.unindexed
  rw [h1.length_eq, h2.length_eq, h3.length_eq]

theorem contains_perm {l l' : List String} (h : l.Perm l') (x : String) : l.contains x = l'.contains x := by
  rw [Bool.eq_iff_iff]
  simp only [List.contains_iff_mem]
  exact h.mem_iff

theorem PermS.lt {s s' : IxState} (h : PermS s s') (x : String) : PermS (ltIdent s x) (ltIdent s' x) := by
  obtain ⟨h1, h2, h3, h4, h5, h6, h7⟩ := h
  unfold ltIdent
  rw [contains_perm h1 x]
  split
  · exact ⟨h1.erase x, h2, h3, by simp only [h4, h7], h5, h6, by simp only [h7]⟩
  · exact ⟨h1, h2, h3, h4, h5, h6, h7⟩

theorem PermS.ty {s s' : IxState} (h : PermS s s') (x : String) :
    PermS (tyIdent s x).1 (tyIdent s' x).1 ∧ (tyIdent s x).2 = (tyIdent s' x).2 := by
  obtain ⟨h1, h2, h3, h4, h5, h6, h7⟩ := h
  unfold tyIdent
  rw [contains_perm h2 x]
  split
  · exact ⟨⟨h1, h2.erase x, h3, h4, by simp only [h5, h7], h6, by simp only [h7]⟩, rfl⟩
  · exact ⟨⟨h1, h2, h3, h4, h5, h6, h7⟩, rfl⟩

theorem PermS.co {s s' : IxState} (h : PermS s s') (x : String) : PermS (coIdent s x) (coIdent s' x) := by
  obtain ⟨h1, h2, h3, h4, h5, h6, h7⟩ := h
  unfold coIdent
  rw [contains_perm h3 x]
  split
  · exact ⟨h1, h2, h3.erase x, h4, h5, by simp only [h6, h7], by simp only [h7]⟩
  · exact ⟨h1, h2, h3, h4, h5, h6, h7⟩

theorem PermS.ex {s s' : IxState} (h : PermS s s') (x : String) : PermS (exIdent s x) (exIdent s' x) := by
  obtain ⟨ht, hb⟩ := h.ty x
  unfold exIdent
  rw [show tyIdent s x = ((tyIdent s x).1, (tyIdent s x).2) from rfl,
    show tyIdent s' x = ((tyIdent s' x).1, (tyIdent s' x).2) from rfl, hb]
  cases (tyIdent s' x).2 with
  | true => exact ht
  | false => exact ht.co x

theorem PermS.ixL_of : ∀ (ks : List T), (∀ t ∈ ks, ∀ s s', PermS s s' → PermS (ixT s t) (ixT s' t)) →
    ∀ s s', PermS s s' → PermS (ixL s ks) (ixL s' ks)
  | [], _, s, s', h => by rw [ixL_nil, ixL_nil]; exact h
  | t :: ts, ih, s, s', h => by
      rw [ixL_cons, ixL_cons]
      exact PermS.ixL_of ts (fun t' ht' => ih t' (List.mem_cons_of_mem _ ht')) _ _ (ih t (by simp) s s' h)

/-- indexing one tree from two such states gives two such states -/
theorem PermS.ixT : ∀ (t : T) (s s' : IxState), PermS s s' → PermS (ixT s t) (ixT s' t) := by
  apply T.ind
  · intro n s s' h; rw [ixT_tparam, ixT_tparam]; exact (h.ty n).1
  · intro n s s' h; rw [ixT_eparam, ixT_eparam]; exact h.ex n
  · intro k as ks ih s s' h
    rcases node_shape k ks with hh | ⟨x, rfl, rfl⟩ | ⟨q, p, rfl, rfl⟩ | ⟨a, q, p, rfl, rfl⟩ | hh
    · rcases hh with rfl | rfl
      · rw [ixT_ign, ixT_ign]; exact h
      · rw [ixT_eq, ixT_eq]; exact h
    · rw [ixT_lifetime, ixT_lifetime]; exact h.lt x
    · rw [ixT_typePath, ixT_typePath]
      have hq := ih q (by simp) s s' h
      apply ih p (by simp)
      cases firstSegIdent p with
      | none => exact hq
      | some x => exact (hq.ty x).1
    · rw [ixT_exprPath, ixT_exprPath]
      have hq := ih q (by simp) s s' h
      apply ih p (by simp)
      cases firstSegIdent p with
      | none => exact hq
      | some x => exact hq.ex x
    · by_cases hg : k = "Generics"
      · subst hg; rw [ixT_generics, ixT_generics]; exact h
      · rw [ixT_of_other _ as hh hg, ixT_of_other _ as hh hg]
        exact PermS.ixL_of ks ih s s' h

theorem PermS.ixL (ks : List T) (s s' : IxState) (h : PermS s s') : PermS (ixL s ks) (ixL s' ks) :=
  PermS.ixL_of ks (fun t _ => PermS.ixT t) s s' h

theorem PermS.rstep {s s' : IxState} (h : PermS s s') (ip : Nat × T) : PermS (rstep s ip) (rstep s' ip) := by
  unfold DI.rstep
  split
  · split
    · exact PermS.ixL _ _ _ h
    · exact h
  · exact h

theorem PermS.foldl_rstep : ∀ (l : List (Nat × T)) (s s' : IxState), PermS s s' →
    PermS (l.foldl DI.rstep s) (l.foldl DI.rstep s')
  | [], _, _, h => h
  | ip :: l, s, s', h => by
      rw [List.foldl_cons, List.foldl_cons]
      exact PermS.foldl_rstep l _ _ (h.rstep ip)

/-! ### `paramNode` does not depend on the declaration order -/

theorem find?_perm_unique {α : Type} {f : α → Bool} {l l' : List α} (hp : l.Perm l')
    (hu : (l.filter f).length ≤ 1) : l.find? f = l'.find? f := by
  rw [← List.head?_filter, ← List.head?_filter]
  have hf := hp.filter f
  match hl : l.filter f, hu with
  | [], _ =>
    rw [hl] at hf
    rw [List.nil_perm.1 hf]
  | [a], _ =>
    rw [hl] at hf
    rw [← List.singleton_perm.1 hf]
  | _ :: _ :: _, hu => simp at hu

/-- the name under which `paramNode` finds a declaration -/
def declSel (p : T) : Option String := if ltGuard p then paramIdent p else none

theorem filter_declSel_le_one (x : String) : ∀ (ps : List T), (ps.filterMap declSel).Nodup →
    (ps.filter (fun p => ltGuard p && paramIdent p == some x)).length ≤ 1
  | [], _ => by simp
  | p :: ps, hn => by
      rw [List.filter_cons]
      split
      · next hp =>
        simp only [Bool.and_eq_true, beq_iff_eq] at hp
        have hs : declSel p = some x := by unfold declSel; rw [if_pos hp.1, hp.2]
        rw [List.filterMap_cons, hs, List.nodup_cons] at hn
        have : ps.filter (fun p => ltGuard p && paramIdent p == some x) = [] := by
          rw [List.filter_eq_nil_iff]
          intro p' hp' hf
          simp only [Bool.and_eq_true, beq_iff_eq] at hf
          apply hn.1
          rw [List.mem_filterMap]
          exact ⟨p', hp', by unfold declSel; rw [if_pos hf.1, hf.2]⟩
        rw [this]
        simp
      · have hn' : (ps.filterMap declSel).Nodup := by
          rw [List.filterMap_cons] at hn
          split at hn
          · exact hn
          · exact (List.nodup_cons.1 hn).2
        exact filter_declSel_le_one x ps hn'

/-- the declared type and const names, in declaration order, are a rearrangement of the type names followed by the
    const names -/
theorem declSel_perm : ∀ (ps : List T),
    (ps.filterMap declSel).Perm
      (ps.filterMap (kindSel "GenericParam::Type") ++ ps.filterMap (kindSel "GenericParam::Const"))
  | [] => List.Perm.refl _
  | p :: ps => by
      have ih := declSel_perm ps
      cases hp : paramIdent p with
      | none =>
        have e1 : declSel p = none := by unfold declSel; rw [hp]; split <;> rfl
        have e2 : ∀ kind, kindSel kind p = none := by
          intro kind; unfold kindSel; split
          · rw [hp]; split <;> rfl
          · rfl
        rw [List.filterMap_cons, List.filterMap_cons, List.filterMap_cons, e1, e2, e2]
        exact ih
      | some y0 =>
        obtain ⟨k, y, sh⟩ := param_cases ⟨⟨[], [], []⟩, [], [], []⟩ p (by rw [hp]; rfl)
        have e1 : declSel p = if k.ns then none else some y := by
          unfold declSel; rw [sh.guard, sh.ident]; cases k.ns <;> rfl
        have e2 := sh.sel .ty
        have e3 := sh.sel .co
        simp only [kindStr] at e2 e3
        rw [List.filterMap_cons, List.filterMap_cons, List.filterMap_cons, e1, e2, e3]
        cases k with
        | lt => exact ih
        | ty => exact List.Perm.cons y ih
        | co =>
          simp only [PK.ns, Bool.false_eq_true, if_false, reduceCtorEq]
          exact (List.Perm.cons y ih).trans List.perm_middle.symm

theorem paramNode_perm (lt0 : T) (ps ps' : List T) (gt0 wc : T) (hp : ps'.Perm ps)
    (hn : (kindNames (.node "Generics" [] [lt0, .node "List" [] ps, gt0, wc]) "GenericParam::Type" ++
           kindNames (.node "Generics" [] [lt0, .node "List" [] ps, gt0, wc]) "GenericParam::Const").Nodup)
    (x : String) :
    paramNode (.node "Generics" [] [lt0, .node "List" [] ps', gt0, wc]) x =
      paramNode (.node "Generics" [] [lt0, .node "List" [] ps, gt0, wc]) x := by
  rw [paramNode_eq, paramNode_eq]
  show ps'.find? _ = ps.find? _
  symm
  apply find?_perm_unique hp.symm
  apply filter_declSel_le_one x ps
  exact (declSel_perm ps).nodup_iff.2 hn

/-! ### One round, the loop, the whole indexing -/

section Order
variable (lt0 : T) (ps ps' : List T) (gt0 wc : T) (hp : ps'.Perm ps)
  (hn : (kindNames (.node "Generics" [] [lt0, .node "List" [] ps, gt0, wc]) "GenericParam::Type" ++
         kindNames (.node "Generics" [] [lt0, .node "List" [] ps, gt0, wc]) "GenericParam::Const").Nodup)

include hp hn in
theorem roundNodes_perm {s s' : IxState} (h : PermS s s') :
    roundNodes s (.node "Generics" [] [lt0, .node "List" [] ps', gt0, wc]) =
      roundNodes s' (.node "Generics" [] [lt0, .node "List" [] ps, gt0, wc]) := by
  obtain ⟨_, _, _, _, h5, h6, _⟩ := h
  unfold roundNodes
  rw [h5, h6]
  congr 1
  apply filterMap_congr'
  rintro ⟨x, i⟩ _
  show (paramNode _ x).map _ = (paramNode _ x).map _
  rw [paramNode_perm lt0 ps ps' gt0 wc hp hn x]

include hp hn in
theorem ixRound_perm {s s' : IxState} (h : PermS s s') :
    PermS (ixRound s (.node "Generics" [] [lt0, .node "List" [] ps', gt0, wc]))
      (ixRound s' (.node "Generics" [] [lt0, .node "List" [] ps, gt0, wc])) := by
  rw [ixRound_eq, ixRound_eq, roundNodes_perm lt0 ps ps' gt0 wc hp hn h]
  have hf := PermS.foldl_rstep (roundNodes s' (.node "Generics" [] [lt0, .node "List" [] ps, gt0, wc])) s s' h
  cases wcOf wc with
  | none => exact hf
  | some w => exact PermS.ixT w _ _ hf

include hp hn in
theorem ixLoop_perm : ∀ (fuel prev : Nat) (s s' : IxState), PermS s s' →
    PermS (ixLoop fuel prev s (.node "Generics" [] [lt0, .node "List" [] ps', gt0, wc]))
      (ixLoop fuel prev s' (.node "Generics" [] [lt0, .node "List" [] ps, gt0, wc]))
  | 0, _, s, s', h => by rw [ixLoop, ixLoop]; exact h
  | fuel + 1, prev, s, s', h => by
      rw [ixLoop, ixLoop, h.unindexed]
      split
      · exact ixLoop_perm fuel _ _ _ (ixRound_perm lt0 ps ps' gt0 wc hp hn h)
      · exact h

end Order

theorem kindNames_perm (lt0 : T) (ps ps' : List T) (gt0 wc : T) (hp : ps'.Perm ps) (kind : String) :
    (kindNames (.node "Generics" [] [lt0, .node "List" [] ps', gt0, wc]) kind).Perm
      (kindNames (.node "Generics" [] [lt0, .node "List" [] ps, gt0, wc]) kind) := by
  rw [kindNames_eq, kindNames_eq]
  exact hp.filterMap _

theorem ixT_item (s : IxState) (a d u g tr sf items : T) (hg : ∃ as ks, g = .node "Generics" as ks) :
    ixT s (.node "ItemImpl" [] [a, d, u, g, tr, sf, items]) = ixT (ixT (ixT (ixT (ixT (ixT s a) d) u) tr) sf) items := by
  obtain ⟨as, ks, rfl⟩ := hg
  rw [ixT_node _ [] _ (by decide) (by decide) (by decide) (by decide) (by decide) (by decide)]
  simp only [ixL_cons, ixL_nil, ixT_generics]

/-- **the indexer does not depend on the declaration order**: the two final states differ in the order of the
    parameters that were never reached only -/
theorem indexImpl_perm (a d u lt0 : T) (ps ps' : List T) (gt0 wc tr sf items : T) (hp : ps'.Perm ps)
    (hn : (kindNames (.node "Generics" [] [lt0, .node "List" [] ps, gt0, wc]) "GenericParam::Type" ++
           kindNames (.node "Generics" [] [lt0, .node "List" [] ps, gt0, wc]) "GenericParam::Const").Nodup) :
    PermS (indexImpl (.node "ItemImpl" [] [a, d, u, .node "Generics" [] [lt0, .node "List" [] ps', gt0, wc], tr, sf, items]))
      (indexImpl (.node "ItemImpl" [] [a, d, u, .node "Generics" [] [lt0, .node "List" [] ps, gt0, wc], tr, sf, items])) := by
  unfold indexImpl
  simp only [implGenerics, Option.getD_some]
  have h0 : PermS
      ⟨kindNames (.node "Generics" [] [lt0, .node "List" [] ps', gt0, wc]) "GenericParam::Lifetime",
       kindNames (.node "Generics" [] [lt0, .node "List" [] ps', gt0, wc]) "GenericParam::Type",
       kindNames (.node "Generics" [] [lt0, .node "List" [] ps', gt0, wc]) "GenericParam::Const", [], [], [], 0⟩
      ⟨kindNames (.node "Generics" [] [lt0, .node "List" [] ps, gt0, wc]) "GenericParam::Lifetime",
       kindNames (.node "Generics" [] [lt0, .node "List" [] ps, gt0, wc]) "GenericParam::Type",
       kindNames (.node "Generics" [] [lt0, .node "List" [] ps, gt0, wc]) "GenericParam::Const", [], [], [], 0⟩ :=
    ⟨kindNames_perm lt0 ps ps' gt0 wc hp _, kindNames_perm lt0 ps ps' gt0 wc hp _,
     kindNames_perm lt0 ps ps' gt0 wc hp _, rfl, rfl, rfl, rfl⟩
  rw [ixT_item _ a d u _ tr sf items ⟨_, _, rfl⟩, ixT_item _ a d u _ tr sf items ⟨_, _, rfl⟩]
  have h1 := PermS.ixT items _ _ (PermS.ixT sf _ _ (PermS.ixT tr _ _ (PermS.ixT u _ _ (PermS.ixT d _ _ (PermS.ixT a _ _ h0)))))
  rw [h1.unindexed]
  exact ixLoop_perm lt0 ps ps' gt0 wc hp hn _ _ _ _ h1

/-! ### The canonical item -/

theorem namesDistinct_tyco {item : T} (h : namesDistinct (canonCtx item) = true) :
    ((canonCtx item).dTy ++ (canonCtx item).dCo).Nodup := by
  simp only [namesDistinct, Bool.and_eq_true, decide_eq_true_eq] at h
  exact h.2

theorem declOrder_permS (item : T) (ps' : List T) (hdecl : implDeclsOK item = true)
    (hd : namesDistinct (canonCtx item) = true) (hp : ps'.Perm (implParams item)) :
    PermS (indexImpl (setParams ps' item)) (indexImpl item) := by
  obtain ⟨a, d, u, lt0, ps, gt0, wc, tr, sf, items, rfl, _⟩ := implDeclsOK_inv hdecl
  exact indexImpl_perm a d u lt0 ps ps' gt0 wc tr sf items hp (namesDistinct_tyco hd)

theorem declOrder_canon (item : T) (ps' : List T) (hdecl : implDeclsOK item = true)
    (hd : namesDistinct (canonCtx item) = true) (hp : ps'.Perm (implParams item)) :
    canon (setParams ps' item) = setParams (ps'.map (declF (indexImpl item).renaming)) (canon item) ∧
    implParams (canon item) = (implParams item).map (declF (indexImpl item).renaming) := by
  have hr := (declOrder_permS item ps' hdecl hd hp).renaming
  obtain ⟨a, d, u, lt0, ps, gt0, wc, tr, sf, items, rfl, _⟩ := implDeclsOK_inv hdecl
  have e1 : setParams ps' (.node "ItemImpl" [] [a, d, u, .node "Generics" [] [lt0, .node "List" [] ps, gt0, wc], tr, sf, items]) =
      .node "ItemImpl" [] [a, d, u, .node "Generics" [] [lt0, .node "List" [] ps', gt0, wc], tr, sf, items] := rfl
  rw [e1] at hr ⊢
  rw [canon_shape a d u lt0 ps' gt0 wc tr sf items _ rfl, canon_shape a d u lt0 ps gt0 wc tr sf items _ rfl, hr]
  exact ⟨rfl, rfl⟩

theorem implTraitPath_generics (a d u g g' tr sf items : T) :
    implTraitPath (.node "ItemImpl" [] [a, d, u, g, tr, sf, items]) =
      implTraitPath (.node "ItemImpl" [] [a, d, u, g', tr, sf, items]) := by
  unfold implTraitPath
  split
  · next heq => cases heq; rfl
  · next hne =>
    split
    · next heq => cases heq; exact absurd rfl (hne _ _ _ _ _ _ _ _)
    · rfl

theorem mkHdr_setParams (ps' : List T) (item : T) : mkHdr (setParams ps' item) = mkHdr item := by
  unfold setParams
  split
  · next a d u lt0 ps gt0 wc tr sf items =>
    unfold mkHdr
    rw [implTraitPath_generics a d u _ (.node "Generics" [] [lt0, .node "List" [] ps, gt0, wc])]
    rfl
  · rfl

theorem implTrait_setParams (ps' : List T) (item : T) : implTrait (setParams ps' item) = implTrait item := by
  unfold setParams; split <;> rfl
theorem implSelfTy_setParams (ps' : List T) (item : T) : implSelfTy (setParams ps' item) = implSelfTy item := by
  unfold setParams; split <;> rfl
theorem implItems_generics (a d u g g' tr sf items : T) :
    implItems (.node "ItemImpl" [] [a, d, u, g, tr, sf, items]) =
      implItems (.node "ItemImpl" [] [a, d, u, g', tr, sf, items]) := by
  unfold implItems
  split
  · next heq => cases heq; rfl
  · next hne =>
    split
    · next heq => cases heq; exact absurd rfl (hne _ _ _ _ _ _ _)
    · rfl

theorem implItems_setParams (ps' : List T) (item : T) : implItems (setParams ps' item) = implItems item := by
  unfold setParams
  split
  · next a d u lt0 ps gt0 wc tr sf items => exact implItems_generics a d u _ _ tr sf items
  · rfl

theorem genericsWhere_params (lt0 l l' gt0 wc : T) :
    genericsWhere (.node "Generics" [] [lt0, l, gt0, wc]) = genericsWhere (.node "Generics" [] [lt0, l', gt0, wc]) := by
  unfold genericsWhere
  split
  · next heq => cases heq; rfl
  · next hne =>
    split
    · next heq => cases heq; exact absurd rfl (hne _ _ _ _)
    · rfl

theorem genericsWhere_setParams (ps' : List T) (item : T) :
    genericsWhere ((implGenerics (setParams ps' item)).getD (.node "?" [] [])) =
      genericsWhere ((implGenerics item).getD (.node "?" [] [])) := by
  unfold setParams
  split
  · next a d u lt0 ps gt0 wc tr sf items =>
    simp only [implGenerics, Option.getD_some]
    exact genericsWhere_params _ _ _ _ _
  · rfl

end DI
