/-
  C16 — the helper trait's parameter list and every use of the helper trait agree position by position and kind by kind
  (trait mode).  Proof-only definitions (`…_ha`) and lemmas; the headline theorems are in `Props/C16.lean`.

  Model functions read here: `helperGenerics`, `helperTraitOfTrait`, `helperImpl`, `helperImpls`, `helperRef`
  (`Expand.lean`).  What the real code does (checked against /repo/src):
  * helper_trait.rs:61-92 `combine_generic_args`: parameters of the helper trait = lifetimes of the definition, then the
    key parameters `_ŠČ<start+i>: ?Sized`, then the definition's other parameters;
  * main_trait.rs:184-209 `combine_generic_args`: arguments of the main impl's helper reference = lifetime arguments of
    the block's trait path, then one projection per key, then the other arguments;
  * disjoint.rs:53-80: arguments of a helper impl's trait path = the member's row, CHAINED IN FRONT OF the block's own
    arguments, lifetimes included: the `syn` tree has type arguments before lifetime arguments.  No code of the macro
    re-orders them; what rustc sees is nevertheless lifetimes-first, because `syn`'s printer of
    `AngleBracketedGenericArguments` prints the lifetime arguments first "regardless of their order in args"
    (syn-2.0.x src/path.rs, `print_angle_bracketed_generic_arguments`).  `printedArgs_inh` (Lemmas/ExpandInherent.lean) is
    that printer on argument lists; the alignment of a helper impl holds for the PRINTED list and fails for the tree
    (`C16_helper_impl_tree_order_counterexample`).
-/
import DisjointImpls.Lemmas.ExpandItems
namespace DI

open XOK

/-! ### kinds of parameters and arguments, defaults -/

/-- the three kinds of generic parameters / arguments -/
inductive GKind_ha where
  | lifetime | type | const
  deriving DecidableEq, Repr

def paramKind_ha : T → Option GKind_ha
  | .node "GenericParam::Lifetime" _ _ => some .lifetime
  | .node "GenericParam::Type" _ _ => some .type
  | .node "GenericParam::Const" _ _ => some .const
  | _ => none

def argKind_ha : T → Option GKind_ha
  | .node "GenericArgument::Lifetime" _ _ => some .lifetime
  | .node "GenericArgument::Type" _ _ => some .type
  | .node "GenericArgument::Const" _ _ => some .const
  | _ => none

/-- the default of a type parameter (`U = u32`) or of a const parameter (`const N: usize = 3`); a lifetime parameter
    has none -/
def paramDefault_ha : T → Option T
  | .node "GenericParam::Type" [] [.node "TypeParam" [] [_, _, _, _, _, .node "Some" [] [d]]] => some d
  | .node "GenericParam::Const" [] [.node "ConstParam" [] [_, _, _, _, .node "Some" [] [d]]] => some d
  | _ => none

def hasDefault_ha (p : T) : Bool := (paramDefault_ha p).isSome

/-- THE SIDE CONDITION (executable): the argument list `as` matches the parameter list `ps` kind by kind and position by
    position — a lifetime argument for a lifetime parameter, a type argument for a type parameter, a const argument for a
    const parameter; there are no more arguments than parameters; arguments may be missing only at the end and only for
    parameters that have a default (so never for a lifetime parameter). -/
def kindsMatch_ha : List T → List T → Bool
  | ps, [] => ps.all hasDefault_ha
  | [], _ :: _ => false
  | p :: ps, a :: as => (paramKind_ha p).isSome && (paramKind_ha p == argKind_ha a) && kindsMatch_ha ps as

theorem isLifetimeParam_kind_ha (p : T) : isLifetimeParam p = (paramKind_ha p == some .lifetime) := by
  unfold isLifetimeParam paramKind_ha
  split <;> split <;> simp_all

theorem isLifetimeArg_kind_ha (a : T) : isLifetimeArg a = (argKind_ha a == some .lifetime) := by
  unfold isLifetimeArg argKind_ha
  split <;> split <;> simp_all

theorem hasDefault_not_lifetime_ha {p : T} (h : hasDefault_ha p = true) : isLifetimeParam p = false := by
  unfold hasDefault_ha paramDefault_ha at h
  unfold isLifetimeParam
  split at h <;> simp_all

theorem kindsMatch_nil_ha (ps : List T) : kindsMatch_ha ps [] = ps.all hasDefault_ha := by
  cases ps <;> simp [kindsMatch_ha]

theorem kindsMatch_cons_ha (p a : T) (ps as : List T) :
    kindsMatch_ha (p :: ps) (a :: as) =
      ((paramKind_ha p).isSome && (paramKind_ha p == argKind_ha a) && kindsMatch_ha ps as) := by
  simp [kindsMatch_ha]

/-- a matching pair is a pair of lifetimes or a pair of non-lifetimes -/
theorem kind_eq_lifetime_ha {p a : T} (h : (paramKind_ha p == argKind_ha a) = true) :
    isLifetimeArg a = isLifetimeParam p := by
  rw [isLifetimeParam_kind_ha, isLifetimeArg_kind_ha, eq_of_beq h]

/-- plain reading of `kindsMatch_ha`: no more arguments than parameters, equal (and known) kinds at every supplied
    position, a default for every parameter beyond the last argument -/
theorem kindsMatch_spec_ha : ∀ (ps as : List T), kindsMatch_ha ps as = true →
    as.length ≤ ps.length ∧
    (∀ (i : Nat) (h1 : i < ps.length) (h2 : i < as.length),
        (paramKind_ha ps[i]).isSome = true ∧ paramKind_ha ps[i] = argKind_ha as[i]) ∧
    (∀ p ∈ ps.drop as.length, hasDefault_ha p = true)
  | ps, [], h => by
      rw [kindsMatch_nil_ha] at h
      refine ⟨Nat.zero_le _, fun i _ h2 => absurd h2 (Nat.not_lt_zero _), ?_⟩
      simpa using h
  | [], _ :: _, h => by simp [kindsMatch_ha] at h
  | p :: ps, a :: as, h => by
      rw [kindsMatch_cons_ha] at h
      simp only [Bool.and_eq_true] at h
      obtain ⟨⟨h1, h2⟩, h3⟩ := h
      obtain ⟨i1, i2, i3⟩ := kindsMatch_spec_ha ps as h3
      refine ⟨by simpa using i1, ?_, by simpa using i3⟩
      intro i hi1 hi2
      cases i with
      | zero => exact ⟨h1, eq_of_beq h2⟩
      | succ j => simpa using i2 j (by simpa using hi1) (by simpa using hi2)

/-- and conversely -/
theorem kindsMatch_of_spec_ha : ∀ (ps as : List T), as.length ≤ ps.length →
    (∀ (i : Nat) (h1 : i < ps.length) (h2 : i < as.length),
        (paramKind_ha ps[i]).isSome = true ∧ paramKind_ha ps[i] = argKind_ha as[i]) →
    (∀ p ∈ ps.drop as.length, hasDefault_ha p = true) → kindsMatch_ha ps as = true
  | ps, [], _, _, h3 => by
      rw [kindsMatch_nil_ha]; simpa using h3
  | [], _ :: _, h1, _, _ => by simp at h1
  | p :: ps, a :: as, h1, h2, h3 => by
      rw [kindsMatch_cons_ha]
      simp only [Bool.and_eq_true]
      have h0 := h2 0 (by simp) (by simp)
      refine ⟨⟨h0.1, by simpa using h0.2⟩, kindsMatch_of_spec_ha ps as (by simpa using h1) ?_ (by simpa using h3)⟩
      intro i hi1 hi2
      have := h2 (i + 1) (by simpa using hi1) (by simpa using hi2)
      simp only [List.getElem_cons_succ] at this
      exact this

/-! ### hoisting the lifetimes on both sides keeps every (parameter, argument) pair together -/

theorem filter_lifetime_of_defaults_ha : ∀ (ps : List T), ps.all hasDefault_ha = true →
    ps.filter isLifetimeParam = [] ∧ ps.filter (fun p => !isLifetimeParam p) = ps
  | [], _ => by simp
  | p :: ps, h => by
      simp only [List.all_cons, Bool.and_eq_true] at h
      obtain ⟨i1, i2⟩ := filter_lifetime_of_defaults_ha ps h.2
      have := hasDefault_not_lifetime_ha h.1
      simp [this, i1, i2]

/-- THE STABLE-PARTITION LEMMA. If `as` matches `ps`, then filtering the lifetimes out of both lists (what
    `combine_generic_args` does to the parameters, and what `combine_generic_args` of main_trait.rs / `syn`'s printer do
    to the arguments) pairs every argument with the SAME parameter as before; both halves match again and there are
    exactly as many lifetime arguments as lifetime parameters. -/
theorem kindsMatch_filter_ha : ∀ (ps as : List T), kindsMatch_ha ps as = true →
    kindsMatch_ha (ps.filter isLifetimeParam) (as.filter isLifetimeArg) = true ∧
    (ps.filter isLifetimeParam).length = (as.filter isLifetimeArg).length ∧
    kindsMatch_ha (ps.filter (fun p => !isLifetimeParam p)) (as.filter (fun a => !isLifetimeArg a)) = true ∧
    List.zip (ps.filter isLifetimeParam) (as.filter isLifetimeArg) =
      (List.zip ps as).filter (fun pa => isLifetimeParam pa.1) ∧
    List.zip (ps.filter (fun p => !isLifetimeParam p)) (as.filter (fun a => !isLifetimeArg a)) =
      (List.zip ps as).filter (fun pa => !isLifetimeParam pa.1) ∧
    (ps.filter (fun p => !isLifetimeParam p)).drop (as.filter (fun a => !isLifetimeArg a)).length = ps.drop as.length
  | ps, [], h => by
      rw [kindsMatch_nil_ha] at h
      obtain ⟨i1, i2⟩ := filter_lifetime_of_defaults_ha ps h
      simp [i1, i2, kindsMatch_nil_ha, h]
  | [], _ :: _, h => by simp [kindsMatch_ha] at h
  | p :: ps, a :: as, h => by
      rw [kindsMatch_cons_ha] at h
      simp only [Bool.and_eq_true] at h
      obtain ⟨⟨h1, h2⟩, h3⟩ := h
      obtain ⟨i1, i2, i3, i4, i5, i6⟩ := kindsMatch_filter_ha ps as h3
      have hk := kind_eq_lifetime_ha h2
      cases hp : isLifetimeParam p with
      | true =>
        rw [hp] at hk
        simp only [List.filter_cons, hp, hk, if_true, Bool.not_true, Bool.false_eq_true, if_false, List.zip_cons_cons,
          List.length_cons]
        refine ⟨?_, by omega, i3, by rw [i4], i5, by simpa using i6⟩
        rw [kindsMatch_cons_ha, h1, h2, i1]; rfl
      | false =>
        rw [hp] at hk
        simp only [List.filter_cons, hp, hk, if_true, Bool.not_false, Bool.false_eq_true, if_false, List.zip_cons_cons]
        refine ⟨i1, i2, ?_, i4, by rw [i5], by simpa using i6⟩
        rw [kindsMatch_cons_ha, h1, h2, i3]; rfl

theorem kindsMatch_append_ha : ∀ (A C B D : List T), A.length = C.length → kindsMatch_ha A C = true →
    kindsMatch_ha B D = true → kindsMatch_ha (A ++ B) (C ++ D) = true
  | [], [], _, _, _, _, h => by simpa using h
  | [], _ :: _, _, _, hl, _, _ => by simp at hl
  | _ :: _, [], _, _, hl, _, _ => by simp at hl
  | p :: A, a :: C, B, D, hl, h1, h2 => by
      rw [kindsMatch_cons_ha] at h1
      simp only [Bool.and_eq_true] at h1
      simp only [List.cons_append]
      rw [kindsMatch_cons_ha, h1.1.1, h1.1.2, kindsMatch_append_ha A C B D (by simpa using hl) h1.2 h2]; rfl

/-- lists of equal length whose parameters and arguments all have one kind -/
theorem kindsMatch_uniform_ha (k : GKind_ha) : ∀ (K R : List T), K.length = R.length →
    (∀ p ∈ K, paramKind_ha p = some k) → (∀ a ∈ R, argKind_ha a = some k) → kindsMatch_ha K R = true
  | [], [], _, _, _ => by simp [kindsMatch_ha]
  | [], _ :: _, hl, _, _ => by simp at hl
  | _ :: _, [], hl, _, _ => by simp at hl
  | p :: K, a :: R, hl, h1, h2 => by
      rw [kindsMatch_cons_ha, h1 p (by simp), h2 a (by simp),
        kindsMatch_uniform_ha k K R (by simpa using hl) (fun q hq => h1 q (by simp [hq])) (fun q hq => h2 q (by simp [hq]))]
      simp

/-! ### assembling `lifetimes ++ keys ++ others` on both sides -/

/-- THE ASSEMBLY LEMMA. `ps` the definition's parameters, `ua` the user's arguments matching them; `K` key parameters and
    `R` key arguments (a row of payloads, or the projections), equally many, all of kind "type". Then the list
    `lifetimes(ua) ++ R ++ others(ua)` matches `lifetimes(ps) ++ K ++ others(ps)`; position by position the pairs are the
    user's (parameter, argument) pairs with a lifetime parameter, then the key pairs `(K[i], R[i])`, then the user's other
    pairs; the `i`-th key pair sits at position `#lifetimes + i` on both sides; and the parameters left without an argument
    are exactly the definition's parameters the user left without an argument. -/
theorem align_assembly_ha (ps ua K R : List T) (hk : kindsMatch_ha ps ua = true) (hKR : K.length = R.length)
    (hK : ∀ p ∈ K, paramKind_ha p = some .type) (hR : ∀ a ∈ R, argKind_ha a = some .type) :
    kindsMatch_ha (ps.filter isLifetimeParam ++ K ++ ps.filter (fun p => !isLifetimeParam p))
      (ua.filter isLifetimeArg ++ R ++ ua.filter (fun a => !isLifetimeArg a)) = true ∧
    List.zip (ps.filter isLifetimeParam ++ K ++ ps.filter (fun p => !isLifetimeParam p))
        (ua.filter isLifetimeArg ++ R ++ ua.filter (fun a => !isLifetimeArg a)) =
      (List.zip ps ua).filter (fun pa => isLifetimeParam pa.1) ++ List.zip K R ++
      (List.zip ps ua).filter (fun pa => !isLifetimeParam pa.1) ∧
    (ps.filter isLifetimeParam ++ K ++ ps.filter (fun p => !isLifetimeParam p)).drop
        (ua.filter isLifetimeArg ++ R ++ ua.filter (fun a => !isLifetimeArg a)).length = ps.drop ua.length ∧
    (∀ i, i < K.length →
      (ps.filter isLifetimeParam ++ K ++ ps.filter (fun p => !isLifetimeParam p))[(ps.filter isLifetimeParam).length + i]? = K[i]? ∧
      (ua.filter isLifetimeArg ++ R ++ ua.filter (fun a => !isLifetimeArg a))[(ps.filter isLifetimeParam).length + i]? = R[i]?) := by
  obtain ⟨i1, i2, i3, i4, i5, i6⟩ := kindsMatch_filter_ha ps ua hk
  refine ⟨?_, ?_, ?_, ?_⟩
  · rw [List.append_assoc, List.append_assoc]
    exact kindsMatch_append_ha _ _ _ _ i2 i1
      (kindsMatch_append_ha _ _ _ _ hKR (kindsMatch_uniform_ha .type K R hKR hK hR) i3)
  · rw [List.zip_append (by simp [i2, hKR]), List.zip_append i2, i4, i5]
  · have hlen : (ua.filter isLifetimeArg ++ R ++ ua.filter (fun a => !isLifetimeArg a)).length =
        (ps.filter isLifetimeParam ++ K).length + (ua.filter (fun a => !isLifetimeArg a)).length := by
      simp only [List.length_append, i2, hKR]
    rw [hlen, List.drop_append, List.drop_of_length_le (by omega)]
    simp only [List.nil_append, Nat.add_sub_cancel_left]
    exact i6
  · intro i hi
    constructor
    · rw [List.append_assoc, List.getElem?_append_right (by omega)]
      simp [List.getElem?_append_left hi]
    · rw [i2, List.append_assoc, List.getElem?_append_right (by omega)]
      simp [List.getElem?_append_left (hKR ▸ hi)]

/-! ### the key parameters of the helper trait -/

theorem keyParams_length_ha (start nkeys : Nat) : (inhKeyParams_inh start nkeys).length = nkeys := by
  simp [inhKeyParams_inh]

theorem keyParams_get_ha (start nkeys i : Nat) (h : i < nkeys) :
    (inhKeyParams_inh start nkeys)[i]? = some (keyParam (genIndexedIdent (start + i))) := by
  simp [inhKeyParams_inh, h]

theorem keyParam_facts_ha (x : String) :
    paramKind_ha (keyParam x) = some .type ∧ paramDefault_ha (keyParam x) = none ∧ paramIdent (keyParam x) = some x ∧
    isLifetimeParam (keyParam x) = false ∧ hasDefault_ha (keyParam x) = false := by
  simp [keyParam, paramKind_ha, paramDefault_ha, paramIdent, isLifetimeParam, hasDefault_ha, tIdent, tNone]

theorem keyParams_mem_ha {start nkeys : Nat} {p : T} (h : p ∈ inhKeyParams_inh start nkeys) :
    ∃ i, i < nkeys ∧ p = keyParam (genIndexedIdent (start + i)) := by
  obtain ⟨i, hi, rfl⟩ := List.mem_map.1 h
  exact ⟨i, List.mem_range.1 hi, rfl⟩

theorem keyParams_kind_ha {start nkeys : Nat} {p : T} (h : p ∈ inhKeyParams_inh start nkeys) :
    paramKind_ha p = some .type := by
  obtain ⟨i, _, rfl⟩ := keyParams_mem_ha h
  exact (keyParam_facts_ha _).1

/-- the key parameters are pairwise differently named -/
theorem keyParams_nodup_ha (start nkeys : Nat) : ((inhKeyParams_inh start nkeys).map paramIdent).Nodup := by
  have : (inhKeyParams_inh start nkeys).map paramIdent =
      (List.range nkeys).map (fun i => some (genIndexedIdent (start + i))) := by
    simp [inhKeyParams_inh, List.map_map, Function.comp_def, (keyParam_facts_ha _).2.2.1]
  rw [this]
  exact List.Pairwise.map _ (fun a b hab e => hab (by
    have := genIndexedIdent_inj (Option.some.inj e); omega)) List.nodup_range

/-- THE EXACT FRESHNESS CONDITION (executable): no type or const parameter of the definition is spelled like one of the
    `nkeys` key parameters `_ŠČ<len ps>` … `_ŠČ<len ps + nkeys - 1>` (a lifetime may be: lifetimes are another name space) -/
def keyNamesFresh_ha (ps : List T) (nkeys : Nat) : Bool :=
  (List.range nkeys).all (fun i =>
    !((ps.filter (fun p => !isLifetimeParam p)).map paramIdent).contains (some (genIndexedIdent (ps.length + i))))

theorem keyNamesFresh_iff_ha (ps : List T) (nkeys : Nat) :
    keyNamesFresh_ha ps nkeys = true ↔
      ∀ k ∈ inhKeyParams_inh ps.length nkeys, ∀ p ∈ ps.filter (fun p => !isLifetimeParam p), paramIdent k ≠ paramIdent p := by
  unfold keyNamesFresh_ha
  simp only [List.all_eq_true, List.mem_range, Bool.not_eq_true', List.contains_eq_mem, decide_eq_false_iff_not,
    List.mem_map, not_exists, not_and]
  constructor
  · intro h k hk p hp e
    obtain ⟨i, hi, rfl⟩ := keyParams_mem_ha hk
    rw [(keyParam_facts_ha _).2.2.1] at e
    exact h i hi p hp e.symm
  · intro h i hi p hp e
    have hk : keyParam (genIndexedIdent (ps.length + i)) ∈ inhKeyParams_inh ps.length nkeys :=
      List.mem_map.2 ⟨i, List.mem_range.2 hi, rfl⟩
    exact h _ hk p hp (by rw [(keyParam_facts_ha _).2.2.1, e])

/-! ### the helper trait's parameter list -/

theorem helperParams_filters_ha (ps : List T) (nkeys : Nat) :
    (helperParams_it ps nkeys).filter isLifetimeParam = ps.filter isLifetimeParam ∧
    (helperParams_it ps nkeys).filter (fun p => !isLifetimeParam p) =
      inhKeyParams_inh ps.length nkeys ++ ps.filter (fun p => !isLifetimeParam p) := by
  have hK1 : (inhKeyParams_inh ps.length nkeys).filter isLifetimeParam = [] := by
    apply List.filter_eq_nil_iff.2
    intro p hp
    obtain ⟨i, _, rfl⟩ := keyParams_mem_ha hp
    simp [(keyParam_facts_ha _).2.2.2.1]
  have hK2 : (inhKeyParams_inh ps.length nkeys).filter (fun p => !isLifetimeParam p) = inhKeyParams_inh ps.length nkeys := by
    apply List.filter_eq_self.2
    intro p hp
    obtain ⟨i, _, rfl⟩ := keyParams_mem_ha hp
    simp [(keyParam_facts_ha _).2.2.2.1]
  unfold helperParams_it
  simp only [List.filter_append, List.filter_filter, hK1, hK2]
  simp

/-- defaults are trailing among the type/const parameters -/
def defaultsTrailing_ha (ps : List T) : Bool :=
  ((ps.filter (fun p => !isLifetimeParam p)).dropWhile (fun p => !hasDefault_ha p)).all hasDefault_ha

theorem dropWhile_keys_ha (O : List T) : ∀ (K : List T), (∀ p ∈ K, hasDefault_ha p = false) →
    (K ++ O).dropWhile (fun p => !hasDefault_ha p) = O.dropWhile (fun p => !hasDefault_ha p)
  | [], _ => rfl
  | k :: K, h => by
      have hk := h k (by simp)
      simp only [List.cons_append, List.dropWhile_cons, hk, Bool.not_false, if_true]
      exact dropWhile_keys_ha O K (fun p hp => h p (by simp [hp]))

theorem defaultsTrailing_helper_ha (ps : List T) (nkeys : Nat) :
    defaultsTrailing_ha (helperParams_it ps nkeys) = defaultsTrailing_ha ps := by
  unfold defaultsTrailing_ha
  rw [(helperParams_filters_ha ps nkeys).2, dropWhile_keys_ha]
  intro p hp
  obtain ⟨i, _, rfl⟩ := keyParams_mem_ha hp
  exact (keyParam_facts_ha _).2.2.2.2

theorem filterMap_default_lifetimes_ha : ∀ (ps : List T),
    ps.filterMap paramDefault_ha = (ps.filter (fun p => !isLifetimeParam p)).filterMap paramDefault_ha
  | [] => rfl
  | p :: ps => by
      cases hp : isLifetimeParam p with
      | true =>
        have : paramDefault_ha p = none := by
          cases hd : paramDefault_ha p with
          | none => rfl
          | some d =>
            have := hasDefault_not_lifetime_ha (p := p) (by simp [hasDefault_ha, hd])
            rw [hp] at this; cases this
        simp [hp, this, filterMap_default_lifetimes_ha ps]
      | false =>
        simp [List.filterMap_cons, hp, filterMap_default_lifetimes_ha ps]

/-- the defaults of the helper trait are the defaults of the definition, in the same order -/
theorem helperParams_defaults_ha (ps : List T) (nkeys : Nat) :
    (helperParams_it ps nkeys).filterMap paramDefault_ha = ps.filterMap paramDefault_ha := by
  rw [filterMap_default_lifetimes_ha (helperParams_it ps nkeys), (helperParams_filters_ha ps nkeys).2,
    List.filterMap_append, ← filterMap_default_lifetimes_ha ps]
  have : (inhKeyParams_inh ps.length nkeys).filterMap paramDefault_ha = [] := by
    apply List.filterMap_eq_nil_iff.2
    intro p hp
    obtain ⟨i, _, rfl⟩ := keyParams_mem_ha hp
    exact (keyParam_facts_ha _).2.1
  rw [this]; rfl

/-! ### the two uses of the helper trait -/

theorem rowArgs_length_ha (idents : List (BKey × String)) (row : List (Option T)) (h : row.length = idents.length) :
    (rowArgs idents row).length = idents.length := by
  simp [rowArgs, h]

theorem rowArgs_kind_ha (idents : List (BKey × String)) (row : List (Option T)) :
    ∀ a ∈ rowArgs idents row, argKind_ha a = some .type := by
  intro a ha
  obtain ⟨ir, _, rfl⟩ := List.mem_map.1 ha
  cases ir.2 <;> simp [asGenericArg, gaType, argKind_ha]

/-- the `i`-th entry of a printed row comes from the `i`-th key and the `i`-th column of the member's row: the payload as
    written, or (wildcard) the projection of the `i`-th key -/
theorem rowArgs_get_ha (idents : List (BKey × String)) (row : List (Option T)) (i : Nat) (h1 : i < idents.length)
    (h2 : i < row.length) :
    (rowArgs idents row)[i]? = some (match row[i] with
      | some p => gaType p
      | none => gaType (projection idents[i].1.1 idents[i].1.2 idents[i].2)) := by
  have hz : (List.zip idents row)[i]? = some (idents[i], row[i]) :=
    List.getElem?_zip_eq_some.2 ⟨List.getElem?_eq_getElem h1, List.getElem?_eq_getElem h2⟩
  simp only [rowArgs, List.getElem?_map, hz, Option.map_some, asGenericArg]
  cases row[i] <;> rfl

theorem rowArgs_filters_ha (idents : List (BKey × String)) (row : List (Option T)) :
    (rowArgs idents row).filter isLifetimeArg = [] ∧
    (rowArgs idents row).filter (fun a => !isLifetimeArg a) = rowArgs idents row := by
  have h : ∀ a ∈ rowArgs idents row, isLifetimeArg a = false := by
    intro a ha
    rw [isLifetimeArg_kind_ha, rowArgs_kind_ha idents row a ha]; rfl
  exact ⟨List.filter_eq_nil_iff.2 (fun a ha => by simp [h a ha]), List.filter_eq_self.2 (fun a ha => by simp [h a ha])⟩

/-- what `syn` prints for the arguments of a helper impl: the user's lifetimes, the row, the user's other arguments -/
theorem printed_row_ha (idents : List (BKey × String)) (row : List (Option T)) (ua : List T) :
    printedArgs_inh (rowArgs idents row ++ ua) =
      ua.filter isLifetimeArg ++ rowArgs idents row ++ ua.filter (fun a => !isLifetimeArg a) := by
  unfold printedArgs_inh
  rw [List.filter_append, List.filter_append, (rowArgs_filters_ha idents row).1, (rowArgs_filters_ha idents row).2]
  simp

/-- the arguments of a helper impl of trait mode: the member's row in front of the member's own trait arguments -/
theorem helperImpl_args_ha {idx : Nat} {idents : List (BKey × String)} {row : List (Option T)} {member h : T}
    (hh : helperImpl idx none idents row member = some h) :
    ∃ mp hp, implTraitPath member = some mp ∧ traitPathOf h = some hp ∧
      XOK.segArgs (XOK.lastSeg hp) = rowArgs idents row ++ traitArgsOf_it mp := by
  obtain ⟨a, d, u, g, b, p, s, items, x, args, na, rfl, hl, hna, rfl⟩ := helperImpl_trait_inv_it hh
  refine ⟨p, pathNode noLead [.node "PathSegment" [] [tIdent (genIdentStr x idx), na]], rfl,
    by simp [traitPathOf, kid, kids, kind, tSome], ?_⟩
  have hhp : XOK.lastSeg (pathNode noLead [.node "PathSegment" [] [tIdent (genIdentStr x idx), na]]) =
      .node "PathSegment" [] [tIdent (genIdentStr x idx), na] := by
    simp [XOK.lastSeg, segsOf, pathNode, tList, kid, kids, lastOf]
  rw [hhp]
  unfold traitArgsOf_it
  rw [hl]
  rcases hna with ⟨rfl, rfl⟩ | ⟨c2, old, rfl, rfl⟩
  · simp [XOK.segArgs, kid, kids, kind, angle, tList, noArgs]
  · simp [XOK.segArgs, kid, kids, kind, tList]

theorem projs_kind_ha (idents : List (BKey × String)) :
    ∀ a ∈ idents.map (fun kx => gaType (projection kx.1.1 kx.1.2 kx.2)), argKind_ha a = some .type := by
  intro a ha
  obtain ⟨kx, _, rfl⟩ := List.mem_map.1 ha
  simp [gaType, argKind_ha]

/-- the arguments of the main impl's helper reference -/
theorem helperRef_args_ha (name : String) (idents : List (BKey × String)) (ua : List T) :
    XOK.segArgs (XOK.lastSeg (helperRef name idents ua)) =
      ua.filter isLifetimeArg ++ idents.map (fun kx => gaType (projection kx.1.1 kx.1.2 kx.2)) ++
      ua.filter (fun a => !isLifetimeArg a) := by
  simp [helperRef, XOK.lastSeg, XOK.segsOf, pathNode, tList, XOK.kid, XOK.kids, XOK.lastOf, seg, XOK.segArgs, angle, XOK.kind]

/-- the reference is already in printed order -/
theorem printed_ref_ha (idents : List (BKey × String)) (ua : List T) :
    printedArgs_inh (ua.filter isLifetimeArg ++ idents.map (fun kx => gaType (projection kx.1.1 kx.1.2 kx.2)) ++
      ua.filter (fun a => !isLifetimeArg a)) =
    ua.filter isLifetimeArg ++ idents.map (fun kx => gaType (projection kx.1.1 kx.1.2 kx.2)) ++
      ua.filter (fun a => !isLifetimeArg a) := by
  have h : ∀ a ∈ idents.map (fun kx => gaType (projection kx.1.1 kx.1.2 kx.2)), isLifetimeArg a = false := by
    intro a ha
    rw [isLifetimeArg_kind_ha, projs_kind_ha idents a ha]; rfl
  have e1 : (idents.map (fun kx => gaType (projection kx.1.1 kx.1.2 kx.2))).filter isLifetimeArg = [] :=
    List.filter_eq_nil_iff.2 (fun a ha => by simp [h a ha])
  have e2 : (idents.map (fun kx => gaType (projection kx.1.1 kx.1.2 kx.2))).filter (fun a => !isLifetimeArg a) =
      idents.map (fun kx => gaType (projection kx.1.1 kx.1.2 kx.2)) :=
    List.filter_eq_self.2 (fun a ha => by simp [h a ha])
  unfold printedArgs_inh
  have e3 : ua.filter (fun _ => false) = [] := List.filter_eq_nil_iff.2 (fun a _ => by simp)
  simp only [List.filter_append, List.filter_filter, e1, e2]
  simp [e3]

theorem payload_row_length_ha {g : ABG} {row : List (Option T)} (h : row ∈ g.payloads) : row.length = g.idents.length := by
  unfold ABG.payloads at h
  split at h
  · cases h
  · obtain ⟨i, _, rfl⟩ := List.mem_map.1 h
    simp

/-! ### one helper impl, the main reference, the whole family -/

/-- a helper impl against the parameter list `helperParams_it ps nkeys` -/
theorem helperImpl_aligned_ha {idx : Nat} {idents : List (BKey × String)} {row : List (Option T)} {member h : T} (ps : List T)
    (hh : helperImpl idx none idents row member = some h) (hrow : row.length = idents.length) :
    ∃ mp hp, implTraitPath member = some mp ∧ traitPathOf h = some hp ∧
      XOK.segArgs (XOK.lastSeg hp) = rowArgs idents row ++ traitArgsOf_it mp ∧
      printedArgs_inh (XOK.segArgs (XOK.lastSeg hp)) =
        (traitArgsOf_it mp).filter isLifetimeArg ++ rowArgs idents row ++ (traitArgsOf_it mp).filter (fun a => !isLifetimeArg a) ∧
      (kindsMatch_ha ps (traitArgsOf_it mp) = true →
        kindsMatch_ha (helperParams_it ps idents.length) (printedArgs_inh (XOK.segArgs (XOK.lastSeg hp))) = true ∧
        List.zip (helperParams_it ps idents.length) (printedArgs_inh (XOK.segArgs (XOK.lastSeg hp))) =
          (List.zip ps (traitArgsOf_it mp)).filter (fun pa => isLifetimeParam pa.1) ++
          List.zip (inhKeyParams_inh ps.length idents.length) (rowArgs idents row) ++
          (List.zip ps (traitArgsOf_it mp)).filter (fun pa => !isLifetimeParam pa.1) ∧
        (helperParams_it ps idents.length).drop (printedArgs_inh (XOK.segArgs (XOK.lastSeg hp))).length =
          ps.drop (traitArgsOf_it mp).length ∧
        (∀ i, i < idents.length →
          (helperParams_it ps idents.length)[(ps.filter isLifetimeParam).length + i]? =
            some (keyParam (genIndexedIdent (ps.length + i))) ∧
          (printedArgs_inh (XOK.segArgs (XOK.lastSeg hp)))[(ps.filter isLifetimeParam).length + i]? =
            (rowArgs idents row)[i]?)) := by
  obtain ⟨mp, hp, h1, h2, h3⟩ := helperImpl_args_ha hh
  refine ⟨mp, hp, h1, h2, h3, by rw [h3, printed_row_ha], ?_⟩
  intro hk
  rw [h3, printed_row_ha]
  have hKR : (inhKeyParams_inh ps.length idents.length).length = (rowArgs idents row).length := by
    rw [keyParams_length_ha, rowArgs_length_ha idents row hrow]
  obtain ⟨a1, a2, a3, a4⟩ := align_assembly_ha ps (traitArgsOf_it mp) (inhKeyParams_inh ps.length idents.length)
    (rowArgs idents row) hk hKR (fun p hp => keyParams_kind_ha hp) (rowArgs_kind_ha idents row)
  refine ⟨a1, a2, a3, ?_⟩
  intro i hi
  have := a4 i (by rw [keyParams_length_ha]; exact hi)
  rw [keyParams_get_ha _ _ _ hi] at this
  exact this

/-- the main impl's helper reference against the parameter list `helperParams_it ps nkeys` -/
theorem helperRef_aligned_ha (name : String) (idents : List (BKey × String)) (ps ua : List T)
    (hk : kindsMatch_ha ps ua = true) :
    kindsMatch_ha (helperParams_it ps idents.length) (XOK.segArgs (XOK.lastSeg (helperRef name idents ua))) = true ∧
    List.zip (helperParams_it ps idents.length) (XOK.segArgs (XOK.lastSeg (helperRef name idents ua))) =
      (List.zip ps ua).filter (fun pa => isLifetimeParam pa.1) ++
      List.zip (inhKeyParams_inh ps.length idents.length) (idents.map (fun kx => gaType (projection kx.1.1 kx.1.2 kx.2))) ++
      (List.zip ps ua).filter (fun pa => !isLifetimeParam pa.1) ∧
    (helperParams_it ps idents.length).drop (XOK.segArgs (XOK.lastSeg (helperRef name idents ua))).length =
      ps.drop ua.length ∧
    (∀ (i : Nat) (hi : i < idents.length),
      (helperParams_it ps idents.length)[(ps.filter isLifetimeParam).length + i]? =
        some (keyParam (genIndexedIdent (ps.length + i))) ∧
      (XOK.segArgs (XOK.lastSeg (helperRef name idents ua)))[(ps.filter isLifetimeParam).length + i]? =
        some (gaType (projection idents[i].1.1 idents[i].1.2 idents[i].2))) := by
  rw [helperRef_args_ha]
  have hKR : (inhKeyParams_inh ps.length idents.length).length =
      (idents.map (fun kx => gaType (projection kx.1.1 kx.1.2 kx.2))).length := by
    rw [keyParams_length_ha, List.length_map]
  obtain ⟨a1, a2, a3, a4⟩ := align_assembly_ha ps ua (inhKeyParams_inh ps.length idents.length)
    (idents.map (fun kx => gaType (projection kx.1.1 kx.1.2 kx.2))) hk hKR (fun p hp => keyParams_kind_ha hp)
    (projs_kind_ha idents)
  refine ⟨a1, a2, a3, ?_⟩
  intro i hi
  have := a4 i (by rw [keyParams_length_ha]; exact hi)
  rw [keyParams_get_ha _ _ _ hi] at this
  refine ⟨this.1, ?_⟩
  rw [this.2]
  simp [hi]

/-- THE SIDE CONDITION ON A FAMILY (executable): every member's trait arguments match the definition's parameters -/
def familyKindsMatch_ha (tr : T) (g : T × ABG × List Blk) : Bool :=
  g.2.2.all (fun b => match implTraitPath b.item with
    | some mp => kindsMatch_ha (traitParamsOf_it tr) (traitArgsOf_it mp)
    | none => false)

theorem helperTrait_params_ha {tr ht : T} {idx nkeys : Nat} (hht : helperTraitOfTrait tr idx nkeys = some ht)
    (hgs : genericsShaped_it (kid tr 6) = true) :
    traitParams_inh ht = helperParams_it (traitParamsOf_it tr) nkeys ∧
    kid (kid ht 6) 3 = kid (kid tr 6) 3 := by
  obtain ⟨a, v, u, au, r, x, gg, c, sup, items, rfl, rfl⟩ := helperTraitOfTrait_inv_it hht
  have hgs' : genericsShaped_it gg = true := by simpa [kid, kids] using hgs
  obtain ⟨e1, _, _, e4, _⟩ := helperGenerics_shaped_it nkeys hgs'
  refine ⟨?_, ?_⟩
  · simp only [traitParams_inh, traitParamsOf_it, kid, kids, List.getD_cons_succ, List.getD_cons_zero]
    exact e1
  · simpa [kid, kids] using e4

theorem family_aligned_ha {tr : T} {idx : Nat} {g : T × ABG × List Blk} {ht : T} {hs : List T} {m : T}
    (hht : helperTraitOfTrait tr idx g.2.1.idents.length = some ht)
    (hhs : helperImpls idx g = some hs) (hm : mainImplOfTrait tr idx g = .ok m)
    (hgs : genericsShaped_it (kid tr 6) = true) (hk : familyKindsMatch_ha tr g = true) :
    traitParams_inh ht = helperParams_it (traitParamsOf_it tr) g.2.1.idents.length ∧
    (∀ h ∈ hs, ∃ hp, traitPathOf h = some hp ∧
      kindsMatch_ha (traitParams_inh ht) (printedArgs_inh (XOK.segArgs (XOK.lastSeg hp))) = true) ∧
    (∃ href, mainHref_inh m = some href ∧
      printedArgs_inh (XOK.segArgs (XOK.lastSeg href)) = XOK.segArgs (XOK.lastSeg href) ∧
      kindsMatch_ha (traitParams_inh ht) (XOK.segArgs (XOK.lastSeg href)) = true) := by
  have hps := (helperTrait_params_ha hht hgs).1
  obtain ⟨first, rest, tp, st, unsafety, lt, gt, wc, x0, params, items, tname, targs, finals, hg, hp, hs', hres, hlast, hf, rfl⟩ :=
    mainImplOfTrait_items_inv_it hm
  simp only [familyKindsMatch_ha, List.all_eq_true] at hk
  refine ⟨hps, ?_, ?_⟩
  · have htr : inherentFamily_inh g = false := by simp [inherentFamily_inh, hg, hp]
    obtain ⟨hl, hget⟩ := helperImpls_trait_get_it hhs htr
    intro h hmem
    obtain ⟨i, hi, rfl⟩ := List.getElem_of_mem hmem
    have h1 : i < g.2.2.length := by omega
    have h2 : i < g.2.1.payloads.length := by omega
    have hrow := payload_row_length_ha (List.getElem_mem h2)
    obtain ⟨mp, hpath, e1, e2, _, _, e5⟩ := helperImpl_aligned_ha (traitParamsOf_it tr) (hget i h1 h2 hi) hrow
    have hki := hk _ (List.getElem_mem h1)
    rw [e1] at hki
    exact ⟨hpath, e2, by rw [hps]; exact (e5 hki).1⟩
  · refine ⟨_, mainHref_main_it _ _ _ _ _ _ _ _ _ _ _ _, ?_, ?_⟩
    · unfold mainHrefOf_it
      rw [helperRef_args_ha, printed_ref_ha]
    · have hk1 := hk first (by rw [hg]; simp)
      rw [hp] at hk1
      rw [hps]
      exact (helperRef_aligned_ha _ g.2.1.idents _ _ hk1).1

/-- the generator's own zip agrees with `kindsMatch_ha` up to arity: if `zipTraitArgs` succeeds (as it does whenever the
    main impl is generated), there are no more arguments than parameters and every parameter beyond the last argument has a
    default, then the arguments match the parameters -/
theorem kindsMatch_of_zip_ha : ∀ (ps as : List T) (am : ArgMap), zipTraitArgs ps as = some am → as.length ≤ ps.length →
    (ps.drop as.length).all hasDefault_ha = true → kindsMatch_ha ps as = true
  | ps, [], _, _, _, h3 => by rw [kindsMatch_nil_ha]; simpa using h3
  | [], _ :: _, _, _, h2, _ => by simp at h2
  | p :: ps, a :: as, am, h1, h2, h3 => by
      rw [zipTraitArgs] at h1
      cases hz : zipTraitArgs ps as with
      | none => rw [hz] at h1; cases h1
      | some m' =>
        rw [hz] at h1
        have ih := kindsMatch_of_zip_ha ps as m' hz (by simpa using h2) (by simpa using h3)
        rw [kindsMatch_cons_ha, ih]
        simp only at h1
        split at h1
        · simp [paramKind_ha, argKind_ha]
        · simp [paramKind_ha, argKind_ha]
        · simp [paramKind_ha, argKind_ha]
        · cases h1

end DI
