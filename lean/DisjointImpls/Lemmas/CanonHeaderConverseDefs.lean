/-
  Executable definitions for the CONVERSE of alpha-invariance on the level of block HEADERS (C13 / C06; statements in
  `Props/C13.lean` `C13_header_*`, `C13_same_header_only_if_renaming`, `Props/C06.lean`
  `C06_same_bucket_iff_headers_alpha_equivalent`; proofs in `Lemmas/CanonHeaderConverse.lean`). Definitions only:
  * `hdrIx_hc item`, `hdrRenaming_hc item`   the indexer run on the header (trait path, self type) ALONE, from the start
                                  state of the block (the declared names), and the renaming read off it;
  * `hdrFirst_hc item`            the indexer reaches trait path and self type FIRST: what precedes them in the block
                                  (attributes, `default`, `unsafe`, the `Generics` node, the `!` of a negative impl)
                                  hands out no number;
  * `strayFree_hc item`           no identifier in parameter position of the CANONICAL header is a reserved identifier
                                  (`_ŠČ…`) that is not the (new) spelling of a declared parameter of its own position
                                  (lifetime / type / const) — `impl<T> Kita for (T, _ŠČ1)` and `impl<T, U> Kita for (T, U)`
                                  have the same canonical header;
  * `hdrShapeOK_hc item`          the side conditions of the tree-level converse `C13_same_resolved_only_if_renaming`,
                                  for the header and the header's renaming;
  * `hdrConverseOK_hc item`       the ONE side condition of `C13_same_header_only_if_renaming`;
  * `hdrRenamingBetween_hc`       the computed renaming between two headers (`rH ; rH'⁻¹`).
-/
import DisjointImpls.Lemmas.CanonRoundTripDefs
import DisjointImpls.Lemmas.CanonAlphaHeader
namespace DI

/-- the indexer run on the header alone, from the start state of the block -/
def hdrIx_hc (item : T) : IxState := ixT (ixInit item) (mkHdr item)

/-- **the header's renaming**: the numbers the header alone hands out -/
def hdrRenaming_hc (item : T) : Renaming := (hdrIx_hc item).renaming

/-- **the indexer reaches the header first**: after attributes, defaultness, unsafety, the (skipped) `Generics` node, the
    trait and the self type, the indexer is in the state the header alone produces — nothing before the trait path hands
    out a number -/
def hdrFirst_hc (item : T) : Bool :=
  match item with
  | .node "ItemImpl" [] [a, d, u, g, tr, s, _] => ixL (ixInit item) [a, d, u, g, tr, s] == hdrIx_hc item
  | _ => false

/-- a reserved identifier is one of `names` -/
def resIn_hc (names : List String) (n : String) : Bool := !reserved_cr n || names.contains n

/-- per position: a reserved identifier in lifetime / type / expression position is the (new) spelling of a declared
    lifetime / type / const parameter -/
def strayP_hc (c : CCtx) : NP := ⟨resIn_hc c.imgLt, resIn_hc c.imgTy, resIn_hc c.imgCo⟩

/-- **no stray reserved identifiers in the canonical header** -/
def strayFree_hc (item : T) : Bool := alP (strayP_hc (canonCtx item)) (mkHdr (canon item))

/-- the side conditions of the tree-level converse, for the header `mkHdr item` and the header's renaming `rH`:
    `renOK_cr` (renamed heads are plain, const heads bare), `qsInvOK_rt` on the renamed header (the user did not write
    `<T>::A`), `acOK_rt` (no capture, lone renamed paths without atoms / attributes), `decNF_cr` (decoder normal form) -/
def hdrShapeOK_hc (item : T) : Bool :=
  let rH := hdrRenaming_hc item
  let h := mkHdr item
  renOK_cr rH.tyNames_cr.contains rH h && qsInvOK_rt rH.tyNames_cr.contains (acT_cr rH h) && acOK_rt rH h && decNF_cr h

/-- **the side condition of the header-level converse**, on the block before canonicalisation:
    * `canonWF item`       the side condition of idempotence (declarations readable, names distinct, no capture);
    * `hdrFirst_hc item`   the header is numbered first;
    * `ixVis (mkHdr item)` the indexer visits the whole trait path and self type (no nested `Generics` node, the
                           attributes of an expression path are an ignored child);
    * `hdrShapeOK_hc item` the shape conditions of the tree-level converse on the header;
    * `strayFree_hc item`  no stray reserved identifier in the canonical header -/
def hdrConverseOK_hc (item : T) : Bool :=
  canonWF item && hdrFirst_hc item && ixVis (mkHdr item) && hdrShapeOK_hc item && strayFree_hc item

/-- **the renaming between two headers**: `rH ; rH'⁻¹` — it pairs the `i`-th numbered parameter of the header of `item`
    with the `i`-th numbered parameter of the header of `item'` -/
def hdrRenamingBetween_hc (item item' : T) : Renaming :=
  (hdrRenaming_hc item).comp_rt (hdrRenaming_hc item').inv_rt

end DI
