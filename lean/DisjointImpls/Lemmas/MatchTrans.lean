/-
  Transitivity of the matcher (`Props/C09.lean`, `C09_trans`): on an executable fragment of trees
  (`okT_tr`: no lenient / order-dependent / panicking kind, no anonymous lifetime, well-shaped generic arguments;
  wrappers, ignored children, lifetimes and qualified paths are allowed), for a middle tree whose ignored children face
  ignored children of the target (`faces_tr b c`) and a target in which sub-trees that are equal modulo presentation are
  equal (`presInj_tr c`), `sup a b = yes` and `sup b c = yes` imply `sup a c = yes`.

  Direct proof by induction on `a`, following `supS / supL / supLast` (`trans_tr`). The invariant (`FImg_tr`) describes
  every entry of the answer of `a → c` as the image (`Img_tr`) of the entry of `a → b` for the same parameter under the
  match `b → c`; the merges of `a → c` succeed because images are unique (`Img_functional_tr`), which rests on
  RIGIDITY (`rig_tr`): a pattern of the fragment matched against two sub-trees of the target with compatible answers
  forces them to be equal modulo presentation, hence — `presInj_tr` — equal. Core-only.
-/
import DisjointImpls.Lemmas.MatchComplete
namespace DI

/-! ### The fragment -/

/-- kinds whose arm is lenient (`Pat::Wild`, `OptWild`), order-dependent (`Expr::Binary`) or `unimplemented!()` -/
def lenientKind_tr (k : String) : Bool :=
  k == "Pat::Wild" || k == "Stmt::Item" || panicsOnSameKind k || k == "Expr::Binary" || k == "OptWild"

/-- a node that is neither a transparent wrapper nor an ignored child -/
def properNode_tr : T → Bool
  | .node k _ _ => !isWrapper k && !isIgnored k
  | _ => false

/-- generic arguments: `GenericArgument::Const [] [e]` with `e` a proper node; `GenericArgument::Type [] [x]` with `x` a
    type parameter or a proper node (the matcher looks at these shapes literally, path.rs:173-179) -/
def gaOK_tr (k : String) (as : List String) (ks : List T) : Bool :=
  (k != "GenericArgument::Const" || (as.isEmpty && match ks with | [e] => properNode_tr e | _ => false)) &&
  (k != "GenericArgument::Type" || (as.isEmpty && match ks with | [.tparam _] => true | [e] => properNode_tr e | _ => false))

def nodeOK_tr (k : String) (as : List String) (ks : List T) : Bool :=
  !lenientKind_tr k && (lifetimeIdent (.node k as ks) != some "_") &&
  (pathParam PARAM_PREFIX (.node k as ks)).isNone && gaOK_tr k as ks && (k != "QSelf" || as.isEmpty)

mutual
/-- the fragment on which transitivity is proved; nothing is required beneath an ignored child -/
def okT_tr : T → Bool
  | .tparam _ => true
  | .eparam _ => true
  | .node k as ks =>
      if isIgnored k then true
      else if isWrapper k then okTL_tr ks
      else nodeOK_tr k as ks && okTL_tr ks
def okTL_tr : List T → Bool
  | [] => true
  | t :: ts => okT_tr t && okTL_tr ts
end

mutual
/-- every `Ign` child of `a` faces an `Ign` child of `b`, every `IgnL` child of `a` faces itself
    (`b` already stripped at the root) -/
def faces_tr : T → T → Bool
  | .tparam _, _ => true
  | .eparam _, _ => true
  | .node k as ks, b =>
      if isWrapper k then facesLast_tr ks b
      else if k == "Ign" then isIgnNode b
      else if k == "IgnL" then b == .node k as ks
      else match b with
        | .node k' _ ks' => if k == k' then facesL_tr ks ks' else true
        | _ => true
def facesL_tr : List T → List T → Bool
  | a :: as, b :: bs => faces_tr a (stripTop b) && facesL_tr as bs
  | _, _ => true
def facesLast_tr : List T → T → Bool
  | [], _ => true
  | [e], b => faces_tr e b
  | _ :: es, b => facesLast_tr es b
end

mutual
/-- the sub-trees the matcher can reach (not beneath ignored children) -/
def subs_tr : T → List T
  | .tparam n => [.tparam n]
  | .eparam n => [.eparam n]
  | .node k as ks => .node k as ks :: (if isIgnored k then [] else subsL_tr ks)
def subsL_tr : List T → List T
  | [] => []
  | t :: ts => subs_tr t ++ subsL_tr ts
end

/-- sub-trees of `c` that are equal modulo presentation (`erase`) are equal up to wrappers at their root -/
def presInj_tr (c : T) : Bool :=
  let l := (subs_tr c).map (fun u => (erase u, stripTop u))
  l.all (fun p => l.all (fun q => p.1 != q.1 || p.2 == q.2))

/-! ### Basic facts -/

theorem okTL_iff_tr : ∀ {ks : List T}, okTL_tr ks = true ↔ ∀ t ∈ ks, okT_tr t = true
  | [] => by simp [okTL_tr]
  | t :: ts => by simp [okTL_tr, okTL_iff_tr (ks := ts)]

theorem mem_subsL_tr {x : T} : ∀ {ks : List T}, x ∈ subsL_tr ks ↔ ∃ t ∈ ks, x ∈ subs_tr t
  | [] => by simp [subsL_tr]
  | t :: ts => by simp [subsL_tr, mem_subsL_tr (ks := ts)]

theorem self_mem_subs_tr : ∀ t : T, t ∈ subs_tr t
  | .tparam _ => by simp [subs_tr]
  | .eparam _ => by simp [subs_tr]
  | .node _ _ _ => by simp [subs_tr]

theorem isWrapper_not_ignored_tr {k : String} (h : isWrapper k = true) : isIgnored k = false := by
  have h1 := isWrapper_ne_ign h
  have h2 := isWrapper_ne_ignL h
  simp [isIgnored, h1, h2]

theorem isIgnored_false_tr {k : String} (hi : k ≠ "Ign") (hil : k ≠ "IgnL") : isIgnored k = false := by
  simp [isIgnored, hi, hil]

theorem okT_node_wrapper_tr {k : String} {as : List String} {ks : List T} (hw : isWrapper k = true)
    (h : okT_tr (.node k as ks) = true) : okTL_tr ks = true := by
  rw [okT_tr, if_neg (by simp [isWrapper_not_ignored_tr hw]), if_pos hw] at h
  exact h

theorem okT_node_tr {k : String} {as : List String} {ks : List T} (hw : isWrapper k = false)
    (hi : k ≠ "Ign") (hil : k ≠ "IgnL") (h : okT_tr (.node k as ks) = true) :
    nodeOK_tr k as ks = true ∧ okTL_tr ks = true := by
  rw [okT_tr, if_neg (by simp [isIgnored_false_tr hi hil]), if_neg (by simp [hw])] at h
  simpa using h

theorem okT_stripTop_tr : ∀ b : T, okT_tr b = true → okT_tr (stripTop b) = true := by
  apply T.ind
  · intro n h; rw [stripTop]; exact h
  · intro n h; rw [stripTop]; exact h
  · intro k as ks ih h
    rw [stripTop]
    by_cases hw : isWrapper k = true
    · rw [if_pos hw]
      have hk := okT_node_wrapper_tr hw h
      exact stripLast_sub (Q := fun t => okT_tr t = true) ks _ h
        (fun t ht => ih t ht (okTL_iff_tr.1 hk t ht))
    · rw [if_neg hw]; exact h

theorem stripLast_sub_ne_tr {Q : T → Prop} : ∀ (ks : List T) (d : T), ks ≠ [] → (∀ t ∈ ks, Q (stripTop t)) →
    Q (stripLast ks d)
  | [], _, hne, _ => absurd rfl hne
  | [e], d, _, h => by rw [stripLast]; exact h e (by simp)
  | e :: e' :: es, d, _, h => by
      rw [stripLast]
      · exact stripLast_sub_ne_tr (e' :: es) d (by simp) (fun t ht => h t (List.mem_cons_of_mem _ ht))
      · intro x; cases x

theorem stripTop_wrapper_nil_tr {k : String} (as : List String) (hw : isWrapper k = true) :
    stripTop (.node k as []) = .node k as [] := by rw [stripTop, if_pos hw, stripLast]

theorem stripTop_wrapper_cons_tr {k : String} (as : List String) (e : T) (es : List T) (hw : isWrapper k = true) :
    stripTop (.node k as (e :: es)) = stripLast (e :: es) (.node k as (e :: es)) := by rw [stripTop, if_pos hw]

theorem stripTop_plain_tr {k : String} (as : List String) (ks : List T) (hw : isWrapper k = false) :
    stripTop (.node k as ks) = .node k as ks := by rw [stripTop, if_neg (by simp [hw])]

/-- `stripTop` is idempotent -/
theorem stripTop_idem_tr : ∀ b : T, stripTop (stripTop b) = stripTop b := by
  apply T.ind
  · intro n; rw [stripTop, stripTop]
  · intro n; rw [stripTop, stripTop]
  · intro k as ks ih
    by_cases hw : isWrapper k = true
    · cases ks with
      | nil => rw [stripTop_wrapper_nil_tr as hw, stripTop_wrapper_nil_tr as hw]
      | cons e es =>
        rw [stripTop_wrapper_cons_tr as e es hw]
        exact stripLast_sub_ne_tr (Q := fun t => stripTop t = t) (e :: es) _ (by simp) (fun t ht => ih t ht)
    · have hw' : isWrapper k = false := by simpa using hw
      rw [stripTop_plain_tr as ks hw', stripTop_plain_tr as ks hw']

/-- the matcher does not see wrappers at the root of its left argument -/
theorem supS_stripTop_tr (x : T) : ∀ b : T, supS b x = supS (stripTop b) x := by
  apply T.ind
  · intro n; rw [stripTop]
  · intro n; rw [stripTop]
  · intro k as ks ih
    by_cases hw : isWrapper k = true
    · cases ks with
      | nil => rw [stripTop_wrapper_nil_tr as hw]
      | cons e es =>
        rw [stripTop_wrapper_cons_tr as e es hw, supS_wrapper _ _ _ hw]
        have : ∀ (ks : List T) (d : T), ks ≠ [] → (∀ t ∈ ks, supS t x = supS (stripTop t) x) →
            supLast ks x = supS (stripLast ks d) x := by
          intro ks
          induction ks with
          | nil => intro d h; exact absurd rfl h
          | cons e es ihl =>
            intro d _ h
            cases es with
            | nil => rw [supLast, stripLast]; exact h e (by simp)
            | cons e' es' =>
              rw [supLast, stripLast]
              · exact ihl d (by simp) (fun t ht => h t (List.mem_cons_of_mem _ ht))
              · intro x; cases x
              · intro x; cases x
        exact this (e :: es) _ (by simp) ih
    · have hw' : isWrapper k = false := by simpa using hw
      rw [stripTop_plain_tr as ks hw']

theorem faces_wrapper_tr {k : String} (as : List String) (ks : List T) (b : T) (hw : isWrapper k = true) :
    faces_tr (.node k as ks) b = facesLast_tr ks b := by
  unfold faces_tr; simp [hw]

theorem faces_stripTop_tr (x : T) : ∀ b : T, faces_tr b x = true → faces_tr (stripTop b) x = true := by
  apply T.ind
  · intro n h; rw [stripTop]; exact h
  · intro n h; rw [stripTop]; exact h
  · intro k as ks ih h
    by_cases hw : isWrapper k = true
    · cases ks with
      | nil => rw [stripTop_wrapper_nil_tr as hw]; exact h
      | cons e es =>
        rw [stripTop_wrapper_cons_tr as e es hw]
        rw [faces_wrapper_tr _ _ _ hw] at h
        have : ∀ (ks : List T) (d : T), ks ≠ [] → (∀ t ∈ ks, faces_tr t x = true → faces_tr (stripTop t) x = true) →
            facesLast_tr ks x = true → faces_tr (stripLast ks d) x = true := by
          intro ks
          induction ks with
          | nil => intro d h; exact absurd rfl h
          | cons e es ihl =>
            intro d _ h hf
            cases es with
            | nil => rw [stripLast]; rw [facesLast_tr] at hf; exact h e (by simp) hf
            | cons e' es' =>
              rw [stripLast]
              · refine ihl d (by simp) (fun t ht => h t (List.mem_cons_of_mem _ ht)) ?_
                rw [facesLast_tr] at hf
                · exact hf
                · intro x; cases x
              · intro x; cases x
        exact this (e :: es) _ (by simp) ih h
    · have hw' : isWrapper k = false := by simpa using hw
      rw [stripTop_plain_tr as ks hw']; exact h

/-! ### Inversion of `supS` on a node of the fragment -/

theorem lenientKind_false_tr {k : String} (h : lenientKind_tr k = false) :
    (k == "Pat::Wild") = false ∧ (k == "Stmt::Item") = false ∧ panicsOnSameKind k = false ∧
    (k == "Expr::Binary") = false ∧ (k == "OptWild") = false := by
  simp only [lenientKind_tr, Bool.or_eq_false_iff] at h
  obtain ⟨⟨⟨⟨h1, h2⟩, h3⟩, h5⟩, h6⟩ := h
  exact ⟨h1, h2, h3, h5, h6⟩

inductive FragNN_tr (k : String) (as : List String) (ks : List T) (k' : String) (as' : List String)
    (ks' : List T) (σ : Subst) (l : Bool) : Prop
  | gaConst (n : String) (e : T) : k = "GenericArgument::Type" → as = [] → ks = [.tparam n] →
      k' = "GenericArgument::Const" → as' = [] → ks' = [e] → σ = [(n, .ex e)] → l = false →
      FragNN_tr k as ks k' as' ks' σ l
  | lifetime (x y : String) : k = k' → k = "Lifetime" → lifetimeIdent (.node k as ks) = some x →
      lifetimeIdent (.node k' as' ks') = some y → σ = [] → (x = "_" ∨ y = "_" ∨ x = y) →
      FragNN_tr k as ks k' as' ks' σ l
  | qself (ty : T) (rest : List T) (ty' : T) : k = k' → k = "QSelf" → ks = ty :: rest → ks' = ty' :: rest →
      supS ty (stripTop ty') = .yes σ l → allIdentity σ = true → FragNN_tr k as ks k' as' ks' σ l
  | dflt : k = k' → k ≠ "Lifetime" → k ≠ "QSelf" → as = as' → supL ks ks' [] false = .yes σ l →
      FragNN_tr k as ks k' as' ks' σ l

theorem supS_frag_inv_tr {k : String} {as : List String} {ks : List T} {k' : String} {as' : List String}
    {ks' : List T} {σ : Subst} {l : Bool} (hw : isWrapper k = false) (hi : k ≠ "Ign") (hil : k ≠ "IgnL")
    (hl : lenientKind_tr k = false) (hp : pathParam PARAM_PREFIX (.node k as ks) = none)
    (hk1 : k' ≠ "Pat::Wild") (hk2 : k' ≠ "Stmt::Item")
    (h : supS (.node k as ks) (.node k' as' ks') = .yes σ l) : FragNN_tr k as ks k' as' ks' σ l := by
  obtain ⟨l1, l2, l3, l5, l6⟩ := lenientKind_false_tr hl
  unfold supS at h
  rw [if_neg (by simp [hw]), if_neg (by simp [hi]), if_neg (by simp [hil])] at h
  dsimp only at h
  rw [if_neg (by simp [l1, hk1]), if_neg (by simp [l2, hk2])] at h
  by_cases hne : (k != k') = true
  · rw [if_pos hne] at h
    split at h
    · cases h; exact .gaConst _ _ rfl rfl rfl rfl rfl rfl rfl rfl
    · cases h
  rw [if_neg hne] at h
  have hkk : k = k' := by simpa using hne
  subst hkk
  rw [if_neg (by simp [l3])] at h
  by_cases hlt : (k == "Lifetime") = true
  · rw [if_pos hlt] at h
    split at h
    · next x y hx hy =>
      by_cases hu : (x == "_" || y == "_") = true
      · rw [if_pos hu] at h; cases h
        refine .lifetime x y rfl (eq_of_beq hlt) hx hy rfl ?_
        simp only [Bool.or_eq_true, beq_iff_eq] at hu
        rcases hu with hu | hu
        · exact Or.inl hu
        · exact Or.inr (Or.inl hu)
      · rw [if_neg hu] at h
        by_cases hxy : (x == y) = true
        · rw [if_pos hxy] at h; cases h
          exact .lifetime x y rfl (eq_of_beq hlt) hx hy rfl (Or.inr (Or.inr (eq_of_beq hxy)))
        · rw [if_neg hxy] at h; cases h
    · cases h
  rw [if_neg hlt] at h
  rw [if_neg (by simp [hp])] at h
  by_cases hq : (k == "QSelf") = true
  · rw [if_pos hq] at h
    split at h
    · next ty rest ty' rest' =>
      split at h
      · cases h
      · cases h
      · next σ0 l0 hs =>
        by_cases hc : (rest == rest' && allIdentity σ0) = true
        · rw [if_pos hc] at h; cases h
          simp only [Bool.and_eq_true] at hc
          have hr := eq_of_beq hc.1
          subst hr
          exact .qself ty rest ty' rfl (eq_of_beq hq) rfl rfl hs hc.2
        · rw [if_neg hc] at h; cases h
    · cases h
  rw [if_neg hq, if_neg (by simp [l5]), if_neg (by simp [l6])] at h
  by_cases has : (as == as') = true
  · rw [if_pos has] at h
    exact .dflt rfl (by simpa using hlt) (by simpa using hq) (eq_of_beq has) h
  · rw [if_neg has] at h; cases h

/-- a node of the fragment answers `no` to a parameter -/
theorem supS_frag_param_tr {k : String} {as : List String} {ks : List T} (hw : isWrapper k = false) (hi : k ≠ "Ign")
    (hil : k ≠ "IgnL") {b : T} (hb : ∀ k' as' ks', b ≠ .node k' as' ks') : supS (.node k as ks) b = .no := by
  unfold supS
  rw [if_neg (by simp [hw]), if_neg (by simp [hi]), if_neg (by simp [hil])]
  cases b with
  | tparam n => rfl
  | eparam n => rfl
  | node k' as' ks' => exact absurd rfl (hb k' as' ks')

theorem specialKind_false_of_frag_tr {k : String} (hw : isWrapper k = false) (hi : k ≠ "Ign") (hil : k ≠ "IgnL")
    (hl : lenientKind_tr k = false) (hlt : k ≠ "Lifetime") (hq : k ≠ "QSelf") : specialKind k = false := by
  obtain ⟨l1, l2, l3, l5, l6⟩ := lenientKind_false_tr hl
  simp [specialKind, hw, hi, hil, l1, l2, l3, l5, l6, hlt, hq]

/-- forward computation of the default rule on the fragment -/
theorem supS_frag_dflt_tr {k : String} (as : List String) (ks ks' : List T) (hw : isWrapper k = false) (hi : k ≠ "Ign")
    (hil : k ≠ "IgnL") (hl : lenientKind_tr k = false) (hlt : k ≠ "Lifetime") (hq : k ≠ "QSelf")
    (hp : pathParam PARAM_PREFIX (.node k as ks) = none) :
    supS (.node k as ks) (.node k as ks') = supL ks ks' [] false := by
  rcases supS_ordinary as as ks ks' (specialKind_false_of_frag_tr hw hi hil hl hlt hq) with ⟨n, hn, _⟩ | ⟨_, h⟩
  · rw [hp] at hn; cases hn
  · rw [h]; simp

/-! ### The scope: the reachable sub-trees of the target -/

/-- what the induction needs to know about the set `S` of reachable sub-trees of the target `c` -/
structure Scope_tr (S : T → Prop) : Prop where
  kids : ∀ {k : String} {as : List String} {ks : List T}, S (.node k as ks) → isIgnored k = false → ∀ t ∈ ks, S t
  ok : ∀ {x : T}, S x → okT_tr x = true
  inj : ∀ {u v : T}, S u → S v → erase u = erase v → stripTop u = stripTop v

theorem Scope_tr.strip {S : T → Prop} (hS : Scope_tr S) : ∀ x : T, S x → S (stripTop x) := by
  apply T.ind
  · intro n h; rw [stripTop]; exact h
  · intro n h; rw [stripTop]; exact h
  · intro k as ks ih h
    by_cases hw : isWrapper k = true
    · cases ks with
      | nil => rw [stripTop_wrapper_nil_tr as hw]; exact h
      | cons e es =>
        rw [stripTop_wrapper_cons_tr as e es hw]
        exact stripLast_sub_ne_tr (Q := S) (e :: es) _ (by simp)
          (fun t ht => ih t ht (hS.kids h (isWrapper_not_ignored_tr hw) t ht))
    · have hw' : isWrapper k = false := by simpa using hw
      rw [stripTop_plain_tr as ks hw']; exact h

theorem okT_root_tr {k : String} {as : List String} {ks : List T} (h : okT_tr (.node k as ks) = true) :
    k ≠ "Pat::Wild" ∧ k ≠ "Stmt::Item" := by
  by_cases hig : isIgnored k = true
  · simp only [isIgnored, Bool.or_eq_true, beq_iff_eq] at hig
    rcases hig with rfl | rfl <;> exact ⟨by decide, by decide⟩
  by_cases hw : isWrapper k = true
  · simp only [isWrapper, Bool.or_eq_true, beq_iff_eq] at hw
    rcases hw with ((rfl | rfl) | rfl) | rfl <;> exact ⟨by decide, by decide⟩
  rw [okT_tr, if_neg hig, if_neg hw] at h
  simp only [Bool.and_eq_true, nodeOK_tr, Bool.not_eq_true'] at h
  obtain ⟨l1, l2, _⟩ := lenientKind_false_tr h.1.1.1.1.1
  exact ⟨by simpa using l1, by simpa using l2⟩

theorem nodeOK_parts_tr {k : String} {as : List String} {ks : List T} (h : nodeOK_tr k as ks = true) :
    lenientKind_tr k = false ∧ lifetimeIdent (.node k as ks) ≠ some "_" ∧
    pathParam PARAM_PREFIX (.node k as ks) = none ∧ gaOK_tr k as ks = true ∧ (k = "QSelf" → as = []) := by
  simp only [nodeOK_tr, Bool.and_eq_true, Bool.not_eq_true', bne_iff_ne, ne_eq, Option.isNone_iff_eq_none,
    Bool.or_eq_true, List.isEmpty_iff] at h
  refine ⟨h.1.1.1.1, h.1.1.1.2, h.1.1.2, h.1.2, fun hk => ?_⟩
  rcases h.2 with h2 | h2
  · exact absurd hk h2
  · exact h2

/-! ### `supL` step by step -/

theorem supL_cons_inv_tr {a : T} {as : List T} {b : T} {bs : List T} {acc : Subst} {fl : Bool} {σ : Subst} {l : Bool}
    (h : supL (a :: as) (b :: bs) acc fl = .yes σ l) :
    ∃ σ1 f acc', supS a (stripTop b) = .yes σ1 f ∧ merge acc σ1 = some acc' ∧ supL as bs acc' (fl || f) = .yes σ l := by
  rw [supL] at h
  split at h
  · cases h
  · cases h
  · next σ1 f h1 =>
    split at h
    · cases h
    · next acc' hm => exact ⟨σ1, f, acc', h1, hm, h⟩

theorem supL_cons_fwd_tr {a : T} (as : List T) {b : T} (bs : List T) {acc : Subst} (fl : Bool) {σ1 : Subst} {f : Bool}
    {acc' : Subst} (h1 : supS a (stripTop b) = .yes σ1 f) (hm : merge acc σ1 = some acc') :
    supL (a :: as) (b :: bs) acc fl = supL as bs acc' (fl || f) := by
  rw [supL]; simp only [h1, hm]

theorem supL_ext_tr : ∀ (as bs : List T) (acc : Subst) (fl : Bool) (σ : Subst) (l : Bool),
    supL as bs acc fl = .yes σ l → Ext acc σ
  | [], [], acc, fl, σ, l, h => by rw [supL] at h; cases h; exact Ext.refl _
  | [], _ :: _, _, _, _, _, h => by rw [supL_nil_cons] at h; cases h
  | _ :: _, [], _, _, _, _, h => by rw [supL_cons_nil] at h; cases h
  | a :: as, b :: bs, acc, fl, σ, l, h => by
      obtain ⟨σ1, f, acc', _, hm, h'⟩ := supL_cons_inv_tr h
      exact (merge_ext σ1 acc acc' hm).1.trans (supL_ext_tr as bs acc' _ σ l h')

theorem faces_node_tr {k : String} {as as' : List String} {ks ks' : List T} (hw : isWrapper k = false)
    (hi : k ≠ "Ign") (hil : k ≠ "IgnL") :
    faces_tr (.node k as ks) (.node k as' ks') = facesL_tr ks ks' := by
  rw [faces_tr]; simp [hw, hi, hil]

theorem facesL_cons_tr (a : T) (as : List T) (b : T) (bs : List T) :
    facesL_tr (a :: as) (b :: bs) = (faces_tr a (stripTop b) && facesL_tr as bs) := by
  rw [facesL_tr]

/-! ### Rigidity: a pattern matched against two targets with compatible answers -/

def RigP_tr (S : T → Prop) (t : T) : Prop :=
  ∀ (c c' : T) (τ1 τ1' : Subst) (l l' : Bool) (τ : Subst), okT_tr t = true → S c → S c' →
    supS t c = .yes τ1 l → supS t c' = .yes τ1' l' → Ext τ1 τ → Ext τ1' τ →
    faces_tr t c = true → faces_tr t c' = true → erase c = erase c'

theorem rigL_tr {S : T → Prop} (hS : Scope_tr S) : ∀ (ks cs cs' : List T) (acc : Subst) (fl : Bool) (acc' : Subst)
    (fl' : Bool) (τ1 : Subst) (l : Bool) (τ1' : Subst) (l' : Bool) (τ : Subst),
    (∀ t ∈ ks, RigP_tr S t) → okTL_tr ks = true → (∀ x ∈ cs, S x) → (∀ x ∈ cs', S x) →
    supL ks cs acc fl = .yes τ1 l → supL ks cs' acc' fl' = .yes τ1' l' → Ext τ1 τ → Ext τ1' τ →
    facesL_tr ks cs = true → facesL_tr ks cs' = true → eraseL cs = eraseL cs'
  | [], [], [], _, _, _, _, _, _, _, _, _, _, _, _, _, _, _, _, _, _, _ => rfl
  | [], _ :: _, _, _, _, _, _, _, _, _, _, _, _, _, _, _, h, _, _, _, _, _ => by rw [supL_nil_cons] at h; cases h
  | [], [], _ :: _, _, _, _, _, _, _, _, _, _, _, _, _, _, _, h, _, _, _, _ => by rw [supL_nil_cons] at h; cases h
  | _ :: _, [], _, _, _, _, _, _, _, _, _, _, _, _, _, _, h, _, _, _, _, _ => by rw [supL_cons_nil] at h; cases h
  | _ :: _, _ :: _, [], _, _, _, _, _, _, _, _, _, _, _, _, _, _, h, _, _, _, _ => by rw [supL_cons_nil] at h; cases h
  | t :: ts, c :: cs, c' :: cs', acc, fl, acc', fl', τ1, l, τ1', l', τ, ih, hok, hs, hs', h, h', he, he', hf, hf' => by
      rw [okTL_tr] at hok; simp only [Bool.and_eq_true] at hok
      rw [facesL_cons_tr] at hf hf'; simp only [Bool.and_eq_true] at hf hf'
      obtain ⟨σ1, f, a1, h1, hm, hr⟩ := supL_cons_inv_tr h
      obtain ⟨σ1', f', a1', h1', hm', hr'⟩ := supL_cons_inv_tr h'
      have e1 : Ext σ1 τ := ((merge_ext σ1 acc a1 hm).2.trans (supL_ext_tr _ _ _ _ _ _ hr)).trans he
      have e1' : Ext σ1' τ := ((merge_ext σ1' acc' a1' hm').2.trans (supL_ext_tr _ _ _ _ _ _ hr')).trans he'
      have hc := ih t (by simp) (stripTop c) (stripTop c') σ1 σ1' f f' τ hok.1 (hS.strip c (hs c (by simp)))
        (hS.strip c' (hs' c' (by simp))) h1 h1' e1 e1' hf.1 hf'.1
      rw [erase_stripTop, erase_stripTop] at hc
      have hrest := rigL_tr hS ts cs cs' a1 _ a1' _ τ1 l τ1' l' τ (fun t ht => ih t (List.mem_cons_of_mem _ ht)) hok.2
        (fun x hx => hs x (List.mem_cons_of_mem _ hx)) (fun x hx => hs' x (List.mem_cons_of_mem _ hx))
        hr hr' he he' hf.2 hf'.2
      rw [eraseL, eraseL, hc, hrest]

theorem rigLast_tr {S : T → Prop} : ∀ (ks : List T) (c c' : T) (τ1 τ1' : Subst) (l l' : Bool) (τ : Subst),
    (∀ t ∈ ks, RigP_tr S t) → okTL_tr ks = true → S c → S c' →
    supLast ks c = .yes τ1 l → supLast ks c' = .yes τ1' l' → Ext τ1 τ → Ext τ1' τ →
    facesLast_tr ks c = true → facesLast_tr ks c' = true → erase c = erase c'
  | [], _, _, _, _, _, _, _, _, _, _, _, h, _, _, _, _, _ => by rw [supLast] at h; cases h
  | [e], c, c', τ1, τ1', l, l', τ, ih, hok, hs, hs', h, h', he, he', hf, hf' => by
      rw [supLast] at h h'
      rw [facesLast_tr] at hf hf'
      rw [okTL_tr] at hok; simp only [Bool.and_eq_true] at hok
      exact ih e (by simp) c c' τ1 τ1' l l' τ hok.1 hs hs' h h' he he' hf hf'
  | e :: e' :: es, c, c', τ1, τ1', l, l', τ, ih, hok, hs, hs', h, h', he, he', hf, hf' => by
      rw [okTL_tr] at hok; simp only [Bool.and_eq_true] at hok
      have g : supLast (e' :: es) c = .yes τ1 l := by
        rw [supLast] at h
        · exact h
        · intro x; cases x
      have g' : supLast (e' :: es) c' = .yes τ1' l' := by
        rw [supLast] at h'
        · exact h'
        · intro x; cases x
      have gf : facesLast_tr (e' :: es) c = true := by
        rw [facesLast_tr] at hf
        · exact hf
        · intro x; cases x
      have gf' : facesLast_tr (e' :: es) c' = true := by
        rw [facesLast_tr] at hf'
        · exact hf'
        · intro x; cases x
      exact rigLast_tr (e' :: es) c c' τ1 τ1' l l' τ (fun t ht => ih t (List.mem_cons_of_mem _ ht)) hok.2 hs hs'
        g g' he he' gf gf'

theorem lookup_of_ext_single_tr {n : String} {v : Val} {τ : Subst} (h : Ext [(n, v)] τ) : lookup τ n = some v :=
  h n v (lookup_single n v)

theorem faces_ign_tr (as : List String) (ks : List T) (b : T) :
    faces_tr (.node "Ign" as ks) b = isIgnNode b := by
  unfold faces_tr; simp [isWrapper]

theorem faces_ignL_tr (as : List String) (ks : List T) (b : T) :
    faces_tr (.node "IgnL" as ks) b = (b == .node "IgnL" as ks) := by
  unfold faces_tr; simp [isWrapper]

/-- the value the matcher reports for the type parameter `n` facing `b` -/
def valT_tr (n : String) (b : T) : Val := if b = .tparam n then .identity else .ty b
def valE_tr (n : String) (b : T) : Val := if b = .eparam n then .identity else .ex b

theorem valT_inj_tr {n : String} {b b' : T} (h : valT_tr n b = valT_tr n b') : b = b' := by
  unfold valT_tr at h
  split at h <;> split at h
  · next h1 h2 => rw [h1, h2]
  · cases h
  · cases h
  · injection h
theorem valE_inj_tr {n : String} {b b' : T} (h : valE_tr n b = valE_tr n b') : b = b' := by
  unfold valE_tr at h
  split at h <;> split at h
  · next h1 h2 => rw [h1, h2]
  · cases h
  · cases h
  · injection h

theorem valT_ne_ex_tr (n : String) (b e : T) : valT_tr n b ≠ .ex e := by
  unfold valT_tr; split <;> simp
theorem valE_ne_ty_tr (n : String) (b e : T) : valE_tr n b ≠ .ty e := by
  unfold valE_tr; split <;> simp

theorem supS_tparam_tr (n : String) (b : T) : supS (.tparam n) b = .yes [(n, valT_tr n b)] false :=
  supS_tparam_fwd n b
theorem supS_eparam_tr (n : String) (b : T) : supS (.eparam n) b = .yes [(n, valE_tr n b)] false :=
  supS_eparam_fwd n b

theorem rig_node_tr {S : T → Prop} (hS : Scope_tr S) (k : String) (as : List String) (ks : List T)
    (ih : ∀ t ∈ ks, RigP_tr S t) : RigP_tr S (.node k as ks) := by
  intro c c' τ1 τ1' l l' τ hok hs hs' h h' he he' hf hf'
  by_cases hw : isWrapper k = true
  · rw [supS_wrapper _ _ _ hw] at h h'
    rw [faces_wrapper_tr _ _ _ hw] at hf hf'
    exact rigLast_tr ks c c' τ1 τ1' l l' τ ih (okT_node_wrapper_tr hw hok) hs hs' h h' he he' hf hf'
  have hw : isWrapper k = false := by simpa using hw
  by_cases hi : k = "Ign"
  · subst hi
    rw [faces_ign_tr] at hf hf'
    obtain ⟨a1, k1, rfl⟩ := isIgnNode_inv hf
    obtain ⟨a2, k2, rfl⟩ := isIgnNode_inv hf'
    rw [erase_ign, erase_ign]
  by_cases hil : k = "IgnL"
  · subst hil
    rw [faces_ignL_tr] at hf hf'
    rw [eq_of_beq hf, eq_of_beq hf']
  obtain ⟨hnode, hkids⟩ := okT_node_tr hw hi hil hok
  obtain ⟨hlen, hlife, hpp, hga, hqas⟩ := nodeOK_parts_tr hnode
  -- both targets are nodes
  cases c with
  | tparam m => rw [supS_frag_param_tr hw hi hil (by intro _ _ _ e; cases e)] at h; cases h
  | eparam m => rw [supS_frag_param_tr hw hi hil (by intro _ _ _ e; cases e)] at h; cases h
  | node k1 as1 ks1 =>
  cases c' with
  | tparam m => rw [supS_frag_param_tr hw hi hil (by intro _ _ _ e; cases e)] at h'; cases h'
  | eparam m => rw [supS_frag_param_tr hw hi hil (by intro _ _ _ e; cases e)] at h'; cases h'
  | node k2 as2 ks2 =>
  have r1 := okT_root_tr (hS.ok hs)
  have r2 := okT_root_tr (hS.ok hs')
  have inv1 := supS_frag_inv_tr hw hi hil hlen hpp r1.1 r1.2 h
  have inv2 := supS_frag_inv_tr hw hi hil hlen hpp r2.1 r2.2 h'
  -- a `GenericArgument::Type [tparam n]` cannot match by the default rule with an `ex` value
  have gaClash : ∀ (n : String) (e : T) (ks' : List T) (σ' : Subst) (f : Bool), ks = [.tparam n] →
      lookup τ n = some (.ex e) → supL ks ks' [] false = .yes σ' f → Ext σ' τ → False := by
    intro n e ks' σ' f hks hl hsup hext
    subst hks
    obtain ⟨b0, σ1, _, hs1, hext1⟩ := supL_single hsup
    rw [supS_tparam_tr] at hs1
    cases hs1
    have := lookup_of_ext_single_tr (hext1.trans hext)
    rw [hl] at this
    injection this with this
    exact valT_ne_ex_tr _ _ _ this.symm
  cases inv1 with
  | gaConst n e hk has hks hk1 has1 hks1 hσ _ =>
    subst hσ
    have hl := lookup_of_ext_single_tr he
    cases inv2 with
    | gaConst n' e' _ _ hks' hk2 has2 hks2 hσ' _ =>
      subst hσ'
      rw [hks] at hks'
      cases hks'
      have hl' := lookup_of_ext_single_tr he'
      rw [hl] at hl'
      cases hl'
      rw [hk1, has1, hks1, hk2, has2, hks2]
    | lifetime x y _ hk' _ _ _ _ => rw [hk] at hk'; exact absurd hk' (by decide)
    | qself _ _ _ _ hk' _ _ _ _ => rw [hk] at hk'; exact absurd hk' (by decide)
    | dflt _ _ _ _ hsup => exact (gaClash n e _ _ _ hks hl hsup he').elim
  | lifetime x y hkk hk hx hy _ hxy =>
    cases inv2 with
    | gaConst n' e' hk' _ _ _ _ _ _ _ => rw [hk] at hk'; exact absurd hk' (by decide)
    | lifetime x' y' hkk' _ hx' hy' _ hxy' =>
      rw [hx] at hx'; cases hx'
      have hx0 : x ≠ "_" := fun e => hlife (e ▸ hx)
      have hy0 : y ≠ "_" := by
        intro e
        have hc1 := hS.ok hs
        subst hkk
        have := (nodeOK_parts_tr (okT_node_tr hw hi hil hc1).1).2.1
        exact this (e ▸ hy)
      have hy0' : y' ≠ "_" := by
        intro e
        have hc1 := hS.ok hs'
        subst hkk'
        have := (nodeOK_parts_tr (okT_node_tr hw hi hil hc1).1).2.1
        exact this (e ▸ hy')
      have e1 : x = y := by rcases hxy with h | h | h <;> first | exact absurd h hx0 | exact absurd h hy0 | exact h
      have e2 : x = y' := by rcases hxy' with h | h | h <;> first | exact absurd h hx0 | exact absurd h hy0' | exact h
      rw [lifetimeIdent_inv hy, lifetimeIdent_inv hy', ← e1, ← e2]
    | qself _ _ _ _ hk' _ _ _ _ => rw [hk] at hk'; exact absurd hk' (by decide)
    | dflt _ hk' _ _ _ => exact absurd hk hk'
  | qself ty rest ty1 hkk hk hks hks1 hsq _ =>
    cases inv2 with
    | gaConst n' e' hk' _ _ _ _ _ _ _ => rw [hk] at hk'; exact absurd hk' (by decide)
    | lifetime _ _ _ hk' _ _ _ _ => rw [hk] at hk'; exact absurd hk' (by decide)
    | qself ty' rest' ty2 hkk' _ hks' hks2 hsq' _ =>
      subst hkk hkk' hks hks1
      cases hks'
      subst hks2
      have has1 := (nodeOK_parts_tr (okT_node_tr hw hi hil (hS.ok hs)).1).2.2.2.2 hk
      have has2 := (nodeOK_parts_tr (okT_node_tr hw hi hil (hS.ok hs')).1).2.2.2.2 hk
      rw [faces_node_tr hw hi hil, facesL_cons_tr] at hf hf'
      simp only [Bool.and_eq_true] at hf hf'
      rw [okTL_tr] at hkids; simp only [Bool.and_eq_true] at hkids
      have hS1 := hS.kids hs (isIgnored_false_tr hi hil) ty1 (by simp)
      have hS2 := hS.kids hs' (isIgnored_false_tr hi hil) ty2 (by simp)
      have := ih ty (by simp) (stripTop ty1) (stripTop ty2) τ1 τ1' l l' τ hkids.1 (hS.strip _ hS1) (hS.strip _ hS2)
        hsq hsq' he he' hf.1 hf'.1
      rw [erase_stripTop, erase_stripTop] at this
      rw [erase_plain _ _ hw hi, erase_plain _ _ hw hi, eraseL, eraseL, this, has1, has2]
    | dflt _ _ hk' _ _ => exact absurd hk hk'
  | dflt hkk hnl hnq has hsup =>
    cases inv2 with
    | gaConst n' e' _ _ hks' _ _ _ hσ' _ =>
      subst hσ'
      exact (gaClash n' e' _ _ _ hks' (lookup_of_ext_single_tr he') hsup he).elim
    | lifetime x' y' _ hk' _ _ _ _ => exact absurd hk' hnl
    | qself _ _ _ _ hk' _ _ _ _ => exact absurd hk' hnq
    | dflt hkk' _ _ has' hsup' =>
      subst hkk hkk' has has'
      rw [faces_node_tr hw hi hil] at hf hf'
      have := rigL_tr hS ks ks1 ks2 [] false [] false τ1 l τ1' l' τ ih hkids
        (hS.kids hs (isIgnored_false_tr hi hil)) (hS.kids hs' (isIgnored_false_tr hi hil)) hsup hsup' he he' hf hf'
      rw [erase_plain _ _ hw hi, erase_plain _ _ hw hi, this]

theorem rig_tr {S : T → Prop} (hS : Scope_tr S) : ∀ t : T, RigP_tr S t := by
  apply T.ind
  · intro n c c' τ1 τ1' l l' τ _ _ _ h h' he he' _ _
    rw [supS_tparam_tr] at h h'
    cases h; cases h'
    have h1 := lookup_of_ext_single_tr he
    have h2 := lookup_of_ext_single_tr he'
    rw [h1] at h2
    injection h2 with h2
    rw [valT_inj_tr h2]
  · intro n c c' τ1 τ1' l l' τ _ _ _ h h' he he' _ _
    rw [supS_eparam_tr] at h h'
    cases h; cases h'
    have h1 := lookup_of_ext_single_tr he
    have h2 := lookup_of_ext_single_tr he'
    rw [h1] at h2
    injection h2 with h2
    rw [valE_inj_tr h2]
  · exact rig_node_tr hS

/-! ### The image of a reported value under the second match -/

/-- `w` is what the match `a → c` reports for `n` when `a → b` reported `v` and `b → c` answered (a sub-answer of) `τ` -/
def Img_tr (S : T → Prop) (τ : Subst) (n : String) (v w : Val) : Prop :=
  match v with
  | .identity => lookup τ n = some w
  | .ty t =>
      (∃ c1 τ1 l, okT_tr t = true ∧ supS t c1 = .yes τ1 l ∧ Ext τ1 τ ∧ faces_tr t c1 = true ∧ S c1 ∧
        stripTop c1 = c1 ∧ w = valT_tr n c1) ∨
      (∃ m e, t = .tparam m ∧ lookup τ m = some (.ex e) ∧ w = .ex e)
  | .ex t =>
      ∃ c1 τ1 l, okT_tr t = true ∧ supS t c1 = .yes τ1 l ∧ Ext τ1 τ ∧ faces_tr t c1 = true ∧ S c1 ∧
        stripTop c1 = c1 ∧ w = valE_tr n c1

theorem Img_functional_tr {S : T → Prop} (hS : Scope_tr S) {τ : Subst} {n : String} {v w w' : Val}
    (h : Img_tr S τ n v w) (h' : Img_tr S τ n v w') : w = w' := by
  cases v with
  | identity =>
    simp only [Img_tr] at h h'
    rw [h] at h'; injection h'
  | ty t =>
    simp only [Img_tr] at h h'
    rcases h with ⟨c1, τ1, l, hok, hs, he, hf, hsc, hst, rfl⟩ | ⟨m, e, rfl, hl, rfl⟩
    · rcases h' with ⟨c1', τ1', l', _, hs', he', hf', hsc', hst', rfl⟩ | ⟨m, e, rfl, hl, rfl⟩
      · have := rig_tr hS t c1 c1' τ1 τ1' l l' τ hok hsc hsc' hs hs' he he' hf hf'
        have := hS.inj hsc hsc' this
        rw [hst, hst'] at this
        rw [this]
      · rw [supS_tparam_tr] at hs; cases hs
        have := lookup_of_ext_single_tr he
        rw [hl] at this; injection this with this
        exact absurd this.symm (valT_ne_ex_tr _ _ _)
    · rcases h' with ⟨c1', τ1', l', _, hs', he', _, _, _, rfl⟩ | ⟨m', e', hm, hl', rfl⟩
      · rw [supS_tparam_tr] at hs'; cases hs'
        have := lookup_of_ext_single_tr he'
        rw [hl] at this; injection this with this
        exact absurd this.symm (valT_ne_ex_tr _ _ _)
      · cases hm
        rw [hl] at hl'; injection hl'
  | ex t =>
    simp only [Img_tr] at h h'
    obtain ⟨c1, τ1, l, hok, hs, he, hf, hsc, hst, rfl⟩ := h
    obtain ⟨c1', τ1', l', _, hs', he', hf', hsc', hst', rfl⟩ := h'
    have := rig_tr hS t c1 c1' τ1 τ1' l l' τ hok hsc hsc' hs hs' he he' hf hf'
    have := hS.inj hsc hsc' this
    rw [hst, hst'] at this
    rw [this]

/-- the invariant of the answer of `a → c`: every entry is the image of the entry of `a → b` for the same parameter -/
def FImg_tr (S : T → Prop) (σ τ : Subst) (p : String × Val) : Prop :=
  ∃ v, lookup σ p.1 = some v ∧ Img_tr S τ p.1 v p.2

theorem FImg_functional_tr {S : T → Prop} (hS : Scope_tr S) (σ τ : Subst) : Functional (FImg_tr S σ τ) := by
  intro n w w' ⟨v, hv, hi⟩ ⟨v', hv', hi'⟩
  simp only at hv hv' hi hi'
  rw [hv] at hv'; injection hv' with hv'; subst hv'
  exact Img_functional_tr hS hi hi'

theorem Img_mono_tr {S : T → Prop} {τ τ' : Subst} (he : Ext τ τ') {n : String} {v w : Val}
    (h : Img_tr S τ n v w) : Img_tr S τ' n v w := by
  cases v with
  | identity => simp only [Img_tr] at h ⊢; exact he _ _ h
  | ty t =>
    simp only [Img_tr] at h ⊢
    rcases h with ⟨c1, τ1, l, hok, hs, he1, hf, hsc, hst, hw⟩ | ⟨m, e, ht, hl, hw⟩
    · exact Or.inl ⟨c1, τ1, l, hok, hs, he1.trans he, hf, hsc, hst, hw⟩
    · exact Or.inr ⟨m, e, ht, he _ _ hl, hw⟩
  | ex t =>
    simp only [Img_tr] at h ⊢
    obtain ⟨c1, τ1, l, hok, hs, he1, hf, hsc, hst, hw⟩ := h
    exact ⟨c1, τ1, l, hok, hs, he1.trans he, hf, hsc, hst, hw⟩

theorem FImg_mono_tr {S : T → Prop} {σ σ' τ τ' : Subst} (hσ : Ext σ σ') (hτ : Ext τ τ') {p : String × Val}
    (h : FImg_tr S σ τ p) : FImg_tr S σ' τ' p := by
  obtain ⟨v, hv, hi⟩ := h
  exact ⟨v, hσ _ _ hv, Img_mono_tr hτ hi⟩

/-! ### Transitivity -/

def TransP_tr (S : T → Prop) (a : T) : Prop :=
  ∀ (b c : T) (σ : Subst) (l1 : Bool) (τ : Subst) (l2 : Bool), okT_tr a = true → okT_tr b = true →
    S c → stripTop c = c → supS a b = .yes σ l1 → supS b c = .yes τ l2 → faces_tr b c = true →
    ∃ ρ l, supS a c = .yes ρ l ∧ ∀ p ∈ ρ, FImg_tr S σ τ p

theorem transL_tr {S : T → Prop} (hS : Scope_tr S) : ∀ (as bs cs : List T) (accσ : Subst) (fl : Bool) (σ : Subst)
    (l1 : Bool) (accτ : Subst) (fl' : Bool) (τ : Subst) (l2 : Bool) (accρ : Subst) (fl'' : Bool),
    (∀ a ∈ as, TransP_tr S a) → okTL_tr as = true → okTL_tr bs = true → (∀ c ∈ cs, S c) →
    supL as bs accσ fl = .yes σ l1 → supL bs cs accτ fl' = .yes τ l2 → facesL_tr bs cs = true →
    (∀ p ∈ accρ, FImg_tr S σ τ p) →
    ∃ ρ l, supL as cs accρ fl'' = .yes ρ l ∧ ∀ p ∈ ρ, FImg_tr S σ τ p
  | [], [], [], _, _, _, _, _, _, _, _, accρ, fl'', _, _, _, _, _, _, _, hacc =>
      ⟨accρ, fl'', by rw [supL], hacc⟩
  | [], [], _ :: _, _, _, _, _, _, _, _, _, _, _, _, _, _, _, _, h, _, _ => by rw [supL_nil_cons] at h; cases h
  | [], _ :: _, _, _, _, _, _, _, _, _, _, _, _, _, _, _, _, h, _, _, _ => by rw [supL_nil_cons] at h; cases h
  | _ :: _, [], _, _, _, _, _, _, _, _, _, _, _, _, _, _, _, h, _, _, _ => by rw [supL_cons_nil] at h; cases h
  | _ :: _, _ :: _, [], _, _, _, _, _, _, _, _, _, _, _, _, _, _, _, h, _, _ => by rw [supL_cons_nil] at h; cases h
  | a :: as, b :: bs, c :: cs, accσ, fl, σ, l1, accτ, fl', τ, l2, accρ, fl'', ih, hoka, hokb, hs, h, h', hf,
      hacc => by
      rw [okTL_tr] at hoka hokb; simp only [Bool.and_eq_true] at hoka hokb
      rw [facesL_cons_tr] at hf; simp only [Bool.and_eq_true] at hf
      obtain ⟨σ1, f, aσ, h1, hm, hr⟩ := supL_cons_inv_tr h
      obtain ⟨τa, f', aτ, h1', hm', hr'⟩ := supL_cons_inv_tr h'
      have eσ : Ext σ1 σ := (merge_ext σ1 accσ aσ hm).2.trans (supL_ext_tr _ _ _ _ _ _ hr)
      have eτ : Ext τa τ := (merge_ext τa accτ aτ hm').2.trans (supL_ext_tr _ _ _ _ _ _ hr')
      rw [supS_stripTop_tr] at h1'
      obtain ⟨ρ1, lρ, hρ1, hF1⟩ := ih a (by simp) (stripTop b) (stripTop c) σ1 f τa f' hoka.1
        (okT_stripTop_tr b hokb.1) (hS.strip c (hs c (by simp))) (stripTop_idem_tr c) h1 h1'
        (faces_stripTop_tr _ b hf.1)
      have hF1' : ∀ p ∈ ρ1, FImg_tr S σ τ p := fun p hp => FImg_mono_tr eσ eτ (hF1 p hp)
      obtain ⟨aρ, hmρ⟩ := merge_ok (FImg_functional_tr hS σ τ) ρ1 accρ hacc hF1'
      have haρ : ∀ p ∈ aρ, FImg_tr S σ τ p := fun p hp =>
        (merge_mem ρ1 accρ aρ hmρ p hp).elim (hacc p) (hF1' p)
      obtain ⟨ρ, l, hρ, hF⟩ := transL_tr hS as bs cs aσ _ σ l1 aτ _ τ l2 aρ (fl'' || lρ)
        (fun t ht => ih t (List.mem_cons_of_mem _ ht)) hoka.2 hokb.2 (fun x hx => hs x (List.mem_cons_of_mem _ hx))
        hr hr' hf.2 haρ
      exact ⟨ρ, l, by rw [supL_cons_fwd_tr as cs fl'' hρ1 hmρ]; exact hρ, hF⟩

theorem transLast_tr {S : T → Prop} : ∀ (ks : List T) (b c : T) (σ : Subst) (l1 : Bool) (τ : Subst) (l2 : Bool),
    (∀ a ∈ ks, TransP_tr S a) → okTL_tr ks = true → okT_tr b = true → S c → stripTop c = c →
    supLast ks b = .yes σ l1 → supS b c = .yes τ l2 → faces_tr b c = true →
    ∃ ρ l, supLast ks c = .yes ρ l ∧ ∀ p ∈ ρ, FImg_tr S σ τ p
  | [], _, _, _, _, _, _, _, _, _, _, _, h, _, _ => by rw [supLast] at h; cases h
  | [e], b, c, σ, l1, τ, l2, ih, hok, hokb, hs, hst, h, h', hf => by
      rw [supLast] at h
      rw [okTL_tr] at hok; simp only [Bool.and_eq_true] at hok
      obtain ⟨ρ, l, hρ, hF⟩ := ih e (by simp) b c σ l1 τ l2 hok.1 hokb hs hst h h' hf
      exact ⟨ρ, l, by rw [supLast]; exact hρ, hF⟩
  | e :: e' :: es, b, c, σ, l1, τ, l2, ih, hok, hokb, hs, hst, h, h', hf => by
      rw [okTL_tr] at hok; simp only [Bool.and_eq_true] at hok
      have g : supLast (e' :: es) b = .yes σ l1 := by
        rw [supLast] at h
        · exact h
        · intro x; cases x
      obtain ⟨ρ, l, hρ, hF⟩ := transLast_tr (e' :: es) b c σ l1 τ l2
        (fun t ht => ih t (List.mem_cons_of_mem _ ht)) hok.2 hokb hs hst g h' hf
      refine ⟨ρ, l, ?_, hF⟩
      rw [supLast]
      · exact hρ
      · intro x; cases x

theorem properNode_inv_tr {e : T} (h : properNode_tr e = true) :
    ∃ k as ks, e = .node k as ks ∧ isWrapper k = false ∧ k ≠ "Ign" ∧ k ≠ "IgnL" := by
  cases e with
  | tparam n => simp [properNode_tr] at h
  | eparam n => simp [properNode_tr] at h
  | node k as ks =>
    simp only [properNode_tr, Bool.and_eq_true, Bool.not_eq_true', isIgnored, Bool.or_eq_false_iff, beq_eq_false_iff_ne] at h
    exact ⟨k, as, ks, rfl, h.1, h.2.1, h.2.2⟩

theorem gaOK_const_tr {as : List String} {e : T} (h : gaOK_tr "GenericArgument::Const" as [e] = true) :
    properNode_tr e = true := by
  simp only [gaOK_tr, Bool.and_eq_true, Bool.or_eq_true] at h
  rcases h.1 with h1 | h1
  · simp at h1
  · exact h1.2

theorem gaOK_type_tr {as : List String} {a1 : T} (h : gaOK_tr "GenericArgument::Type" as [a1] = true) :
    (∃ n, a1 = .tparam n) ∨ properNode_tr a1 = true := by
  simp only [gaOK_tr, Bool.and_eq_true, Bool.or_eq_true] at h
  rcases h.2 with h1 | h1
  · simp at h1
  · have h2 := h1.2
    cases a1 with
    | tparam n => exact Or.inl ⟨n, rfl⟩
    | eparam n => exact Or.inr h2
    | node k as ks => exact Or.inr h2

theorem supL_single_right_tr {ks : List T} {b0 : T} {σ : Subst} {l : Bool}
    (h : supL ks [b0] [] false = .yes σ l) :
    ∃ a1 σ1, ks = [a1] ∧ supS a1 (stripTop b0) = .yes σ1 l ∧ Ext σ1 σ := by
  cases ks with
  | nil => rw [supL_nil_cons] at h; cases h
  | cons a1 rest =>
    cases rest with
    | nil =>
      obtain ⟨b0', σ1, hb, hs, he⟩ := supL_single h
      cases hb
      exact ⟨a1, σ1, rfl, hs, he⟩
    | cons a2 rest =>
      obtain ⟨_, _, _, _, _, hr⟩ := supL_cons_inv_tr h
      rw [supL_cons_nil] at hr; cases hr

theorem allIdentity_mem_tr {σ : Subst} (h : allIdentity σ = true) {p : String × Val} (hp : p ∈ σ) :
    p.2 = .identity := by
  simp only [allIdentity, List.all_eq_true, beq_iff_eq] at h
  exact h p hp

theorem trans_node_tr {S : T → Prop} (hS : Scope_tr S) (k : String) (as : List String) (ks : List T)
    (ih : ∀ t ∈ ks, TransP_tr S t) : TransP_tr S (.node k as ks) := by
  intro b c σ l1 τ l2 hoka hokb hs hst h h' hf
  by_cases hw : isWrapper k = true
  · rw [supS_wrapper _ _ _ hw] at h
    obtain ⟨ρ, l, hρ, hF⟩ := transLast_tr ks b c σ l1 τ l2 ih (okT_node_wrapper_tr hw hoka) hokb hs hst h h' hf
    exact ⟨ρ, l, by rw [supS_wrapper _ _ _ hw]; exact hρ, hF⟩
  have hw : isWrapper k = false := by simpa using hw
  by_cases hi : k = "Ign"
  · subst hi
    exact ⟨[], false, supS_ign _ _ _, fun p hp => by cases hp⟩
  by_cases hil : k = "IgnL"
  · subst hil
    exact ⟨[], _, supS_ignL _ _ _, fun p hp => by cases hp⟩
  obtain ⟨hnode, hkids⟩ := okT_node_tr hw hi hil hoka
  obtain ⟨hlen, hlife, hpp, hga, _⟩ := nodeOK_parts_tr hnode
  cases b with
  | tparam m => rw [supS_frag_param_tr hw hi hil (by intro _ _ _ e; cases e)] at h; cases h
  | eparam m => rw [supS_frag_param_tr hw hi hil (by intro _ _ _ e; cases e)] at h; cases h
  | node kb asb ksb =>
  have rb := okT_root_tr hokb
  have inv1 := supS_frag_inv_tr hw hi hil hlen hpp rb.1 rb.2 h
  cases inv1 with
  | gaConst n e hk has hks hkb hasb hksb hσ _ =>
    subst hk has hks hkb hasb hksb hσ
    obtain ⟨hnodeb, hkidsb⟩ := okT_node_tr (k := "GenericArgument::Const") (by decide) (by decide) (by decide) hokb
    obtain ⟨hlenb, _, hppb, hgab, _⟩ := nodeOK_parts_tr hnodeb
    cases c with
    | tparam m => rw [supS_frag_param_tr (by decide) (by decide) (by decide) (by intro _ _ _ e; cases e)] at h'; cases h'
    | eparam m => rw [supS_frag_param_tr (by decide) (by decide) (by decide) (by intro _ _ _ e; cases e)] at h'; cases h'
    | node kc asc ksc =>
    have rc := okT_root_tr (hS.ok hs)
    have inv2 := supS_frag_inv_tr (by decide) (by decide) (by decide) hlenb hppb rc.1 rc.2 h'
    cases inv2 with
    | gaConst _ _ hk' _ _ _ _ _ _ _ => exact absurd hk' (by decide)
    | lifetime _ _ _ hk' _ _ _ _ => exact absurd hk' (by decide)
    | qself _ _ _ _ hk' _ _ _ _ => exact absurd hk' (by decide)
    | dflt hkc _ _ hasc hsup =>
      subst hkc hasc
      obtain ⟨e'', σ1', hksc, hs1, he1⟩ := supL_single hsup
      subst hksc
      have hokc := hS.ok hs
      obtain ⟨hnodec, _⟩ := okT_node_tr (k := "GenericArgument::Const") (by decide) (by decide) (by decide) hokc
      obtain ⟨_, _, _, hgac, _⟩ := nodeOK_parts_tr hnodec
      obtain ⟨k2, as2, ks2, rfl, hw2, _, _⟩ := properNode_inv_tr (gaOK_const_tr hgac)
      rw [stripTop_plain_tr as2 ks2 hw2] at hs1
      rw [faces_node_tr (by decide) (by decide) (by decide), facesL_cons_tr, stripTop_plain_tr as2 ks2 hw2] at hf
      simp only [Bool.and_eq_true] at hf
      refine ⟨_, _, supS_gaConst n _, ?_⟩
      intro p hp
      simp only [List.mem_singleton] at hp; subst hp
      refine ⟨.ex e, lookup_single _ _, ?_⟩
      simp only [Img_tr]
      refine ⟨_, σ1', l2, okTL_iff_tr.1 hkidsb e (by simp), hs1, he1, hf.1,
        hS.kids hs (by decide) _ (by simp), stripTop_plain_tr as2 ks2 hw2, ?_⟩
      unfold valE_tr; rw [if_neg (by intro e; cases e)]
  | lifetime x y hkk hk hx hy hσ hxy =>
    subst hkk hσ
    have hx0 : x ≠ "_" := fun e => hlife (e ▸ hx)
    obtain ⟨hnodeb, _⟩ := okT_node_tr hw hi hil hokb
    obtain ⟨hlenb, hlifeb, hppb, _, _⟩ := nodeOK_parts_tr hnodeb
    have hy0 : y ≠ "_" := fun e => hlifeb (e ▸ hy)
    have exy : x = y := by rcases hxy with h | h | h <;> first | exact absurd h hx0 | exact absurd h hy0 | exact h
    subst exy
    cases c with
    | tparam m => rw [supS_frag_param_tr hw hi hil (by intro _ _ _ e; cases e)] at h'; cases h'
    | eparam m => rw [supS_frag_param_tr hw hi hil (by intro _ _ _ e; cases e)] at h'; cases h'
    | node kc asc ksc =>
    have rc := okT_root_tr (hS.ok hs)
    have inv2 := supS_frag_inv_tr hw hi hil hlenb hppb rc.1 rc.2 h'
    cases inv2 with
    | gaConst _ _ hk' _ _ _ _ _ _ _ => rw [hk] at hk'; exact absurd hk' (by decide)
    | lifetime y' z hkc _ hy' hz _ hyz =>
      subst hkc
      rw [hy] at hy'; cases hy'
      obtain ⟨hnodec, _⟩ := okT_node_tr hw hi hil (hS.ok hs)
      have hz0 : z ≠ "_" := fun e => (nodeOK_parts_tr hnodec).2.1 (e ▸ hz)
      have exz : x = z := by rcases hyz with h | h | h <;> first | exact absurd h hx0 | exact absurd h hz0 | exact h
      subst exz
      rw [lifetimeIdent_inv hx, lifetimeIdent_inv hz]
      obtain ⟨l, hl⟩ := supS_lifetime x
      exact ⟨[], l, hl, fun p hp => by cases hp⟩
    | qself _ _ _ _ hk' _ _ _ _ => rw [hk] at hk'; exact absurd hk' (by decide)
    | dflt _ hk' _ _ _ => exact absurd hk hk'
  | qself ty rest ty' hkk hk hks hksb hsq hidσ =>
    subst hkk hks hksb
    obtain ⟨hnodeb, hkidsb⟩ := okT_node_tr hw hi hil hokb
    obtain ⟨hlenb, _, hppb, _, _⟩ := nodeOK_parts_tr hnodeb
    cases c with
    | tparam m => rw [supS_frag_param_tr hw hi hil (by intro _ _ _ e; cases e)] at h'; cases h'
    | eparam m => rw [supS_frag_param_tr hw hi hil (by intro _ _ _ e; cases e)] at h'; cases h'
    | node kc asc ksc =>
    have rc := okT_root_tr (hS.ok hs)
    have inv2 := supS_frag_inv_tr hw hi hil hlenb hppb rc.1 rc.2 h'
    cases inv2 with
    | gaConst _ _ hk' _ _ _ _ _ _ _ => rw [hk] at hk'; exact absurd hk' (by decide)
    | lifetime _ _ _ hk' _ _ _ _ => rw [hk] at hk'; exact absurd hk' (by decide)
    | qself ty2 rest2 ty'' hkc _ hksb2 hksc hsq' hidτ =>
      subst hkc hksc
      cases hksb2
      rw [okTL_tr] at hkids hkidsb; simp only [Bool.and_eq_true] at hkids hkidsb
      rw [faces_node_tr hw hi hil, facesL_cons_tr] at hf
      simp only [Bool.and_eq_true] at hf
      rw [supS_stripTop_tr] at hsq'
      have hS'' := hS.kids hs (isIgnored_false_tr hi hil) ty'' (by simp)
      obtain ⟨ρ, l, hρ, hF⟩ := ih ty (by simp) (stripTop ty') (stripTop ty'') σ l1 τ l2 hkids.1
        (okT_stripTop_tr _ hkidsb.1) (hS.strip _ hS'') (stripTop_idem_tr _) hsq hsq' (faces_stripTop_tr _ _ hf.1)
      have hidρ : allIdentity ρ = true := by
        simp only [allIdentity, List.all_eq_true, beq_iff_eq]
        intro p hp
        obtain ⟨v, hv, hi⟩ := hF p hp
        have hv' : v = .identity := allIdentity_mem_tr hidσ (lookup_mem σ p.1 v hv)
        subst hv'
        simp only [Img_tr] at hi
        exact allIdentity_mem_tr hidτ (lookup_mem τ p.1 p.2 hi)
      subst hk
      exact ⟨ρ, l, supS_qself_yes as asc ty ty'' rest rest hρ (by simp [hidρ]), hF⟩
    | dflt _ _ hk' _ _ => exact absurd hk hk'
  | dflt hkk hnl hnq has hsup =>
    subst hkk has
    obtain ⟨hnodeb, hkidsb⟩ := okT_node_tr hw hi hil hokb
    obtain ⟨_, _, hppb, _, _⟩ := nodeOK_parts_tr hnodeb
    cases c with
    | tparam m => rw [supS_frag_param_tr hw hi hil (by intro _ _ _ e; cases e)] at h'; cases h'
    | eparam m => rw [supS_frag_param_tr hw hi hil (by intro _ _ _ e; cases e)] at h'; cases h'
    | node kc asc ksc =>
    have rc := okT_root_tr (hS.ok hs)
    have inv2 := supS_frag_inv_tr hw hi hil hlen hppb rc.1 rc.2 h'
    cases inv2 with
    | gaConst m e hk has hksb hkc hasc hksc hτ _ =>
      subst hk has hksb hkc hasc hksc hτ
      obtain ⟨a1, σ1, hks, hs1, he1⟩ := supL_single_right_tr hsup
      subst hks
      rw [stripTop] at hs1
      rcases gaOK_type_tr hga with ⟨n, rfl⟩ | hprop
      · rw [supS_tparam_tr] at hs1
        cases hs1
        refine ⟨_, _, supS_gaConst n e, ?_⟩
        intro p hp
        simp only [List.mem_singleton] at hp; subst hp
        refine ⟨valT_tr n (.tparam m), lookup_of_ext_single_tr he1, ?_⟩
        have hτm : lookup [(m, Val.ex e)] m = some (.ex e) := lookup_single _ _
        unfold valT_tr
        split
        · next heq =>
          cases heq
          simp only [Img_tr]; exact hτm
        · simp only [Img_tr]
          exact Or.inr ⟨m, e, rfl, hτm, rfl⟩
      · obtain ⟨k2, as2, ks2, rfl, hw2, hi2, hil2⟩ := properNode_inv_tr hprop
        rw [supS_frag_param_tr hw2 hi2 hil2 (by intro _ _ _ e; cases e)] at hs1; cases hs1
    | lifetime _ _ _ hk' _ _ _ _ => exact absurd hk' hnl
    | qself _ _ _ _ hk' _ _ _ _ => exact absurd hk' hnq
    | dflt hkc _ _ hasc hsup' =>
      subst hkc hasc
      rw [faces_node_tr hw hi hil] at hf
      obtain ⟨ρ, l, hρ, hF⟩ := transL_tr hS ks ksb ksc [] false σ l1 [] false τ l2 [] false ih hkids hkidsb
        (hS.kids hs (isIgnored_false_tr hi hil)) hsup hsup' hf (fun p hp => by cases hp)
      exact ⟨ρ, l, by rw [supS_frag_dflt_tr as ks ksc hw hi hil hlen hnl hnq hpp]; exact hρ, hF⟩

theorem trans_tr {S : T → Prop} (hS : Scope_tr S) : ∀ a : T, TransP_tr S a := by
  apply T.ind
  · intro n b c σ l1 τ l2 _ hokb hs hst h h' hf
    rw [supS_tparam_tr] at h; cases h
    refine ⟨_, _, supS_tparam_tr n c, ?_⟩
    intro p hp
    simp only [List.mem_singleton] at hp; subst hp
    refine ⟨valT_tr n b, lookup_single _ _, ?_⟩
    by_cases hb : b = .tparam n
    · subst hb
      rw [supS_tparam_tr] at h'; cases h'
      have : valT_tr n (.tparam n) = .identity := by simp [valT_tr]
      rw [this]; simp only [Img_tr]
      exact lookup_single _ _
    · have : valT_tr n b = .ty b := by simp [valT_tr, hb]
      rw [this]; simp only [Img_tr]
      exact Or.inl ⟨c, τ, l2, hokb, h', Ext.refl _, hf, hs, hst, rfl⟩
  · intro n b c σ l1 τ l2 _ hokb hs hst h h' hf
    rw [supS_eparam_tr] at h; cases h
    refine ⟨_, _, supS_eparam_tr n c, ?_⟩
    intro p hp
    simp only [List.mem_singleton] at hp; subst hp
    refine ⟨valE_tr n b, lookup_single _ _, ?_⟩
    by_cases hb : b = .eparam n
    · subst hb
      rw [supS_eparam_tr] at h'; cases h'
      have : valE_tr n (.eparam n) = .identity := by simp [valE_tr]
      rw [this]; simp only [Img_tr]
      exact lookup_single _ _
    · have : valE_tr n b = .ex b := by simp [valE_tr, hb]
      rw [this]; simp only [Img_tr]
      exact ⟨c, τ, l2, hokb, h', Ext.refl _, hf, hs, hst, rfl⟩
  · exact trans_node_tr hS

/-! ### The scope of a concrete target -/

theorem subs_node_tr {k : String} {as : List String} {ks : List T} (hig : isIgnored k = false) :
    subs_tr (.node k as ks) = .node k as ks :: subsL_tr ks := by
  rw [subs_tr]; simp [hig]

theorem subs_trans_tr : ∀ (C : T) (x : T), x ∈ subs_tr C → ∀ y ∈ subs_tr x, y ∈ subs_tr C := by
  apply T.ind
  · intro n x hx y hy
    simp only [subs_tr, List.mem_singleton] at hx; subst hx; exact hy
  · intro n x hx y hy
    simp only [subs_tr, List.mem_singleton] at hx; subst hx; exact hy
  · intro k as ks ih x hx y hy
    by_cases hig : isIgnored k = true
    · have : subs_tr (.node k as ks) = [.node k as ks] := by rw [subs_tr]; simp [hig]
      rw [this, List.mem_singleton] at hx; subst hx; exact hy
    · have hig : isIgnored k = false := by simpa using hig
      rw [subs_node_tr hig] at hx ⊢
      rcases List.mem_cons.1 hx with rfl | hx
      · rw [subs_node_tr hig] at hy; exact hy
      · obtain ⟨t, ht, hxt⟩ := mem_subsL_tr.1 hx
        exact List.mem_cons_of_mem _ (mem_subsL_tr.2 ⟨t, ht, ih t ht x hxt y hy⟩)

theorem okT_subs_tr : ∀ (C : T), okT_tr C = true → ∀ x ∈ subs_tr C, okT_tr x = true := by
  apply T.ind
  · intro n h x hx
    simp only [subs_tr, List.mem_singleton] at hx; subst hx; exact h
  · intro n h x hx
    simp only [subs_tr, List.mem_singleton] at hx; subst hx; exact h
  · intro k as ks ih h x hx
    by_cases hig : isIgnored k = true
    · have : subs_tr (.node k as ks) = [.node k as ks] := by rw [subs_tr]; simp [hig]
      rw [this, List.mem_singleton] at hx; subst hx; exact h
    · have hig' : isIgnored k = false := by simpa using hig
      rw [subs_node_tr hig'] at hx
      rcases List.mem_cons.1 hx with rfl | hx
      · exact h
      · obtain ⟨t, ht, hxt⟩ := mem_subsL_tr.1 hx
        have hk : okTL_tr ks = true := by
          rw [okT_tr, if_neg hig] at h
          by_cases hw : isWrapper k = true
          · rw [if_pos hw] at h; exact h
          · rw [if_neg hw] at h; simp only [Bool.and_eq_true] at h; exact h.2
        exact ih t ht (okTL_iff_tr.1 hk t ht) x hxt

theorem presInj_spec_tr {c : T} (h : presInj_tr c = true) {u v : T} (hu : u ∈ subs_tr c) (hv : v ∈ subs_tr c)
    (he : erase u = erase v) : stripTop u = stripTop v := by
  simp only [presInj_tr, List.all_eq_true, List.mem_map, forall_exists_index, and_imp,
    forall_apply_eq_imp_iff₂, Bool.or_eq_true, bne_iff_ne, ne_eq, beq_iff_eq] at h
  rcases h u hu v hv with h1 | h1
  · exact absurd he h1
  · exact h1

/-- the reachable sub-trees of a target of the fragment in which presentation is used consistently -/
theorem scope_of_tr {c : T} (hok : okT_tr c = true) (hinj : presInj_tr c = true) : Scope_tr (· ∈ subs_tr c) where
  kids := by
    intro k as ks h hig t ht
    refine subs_trans_tr c _ h t ?_
    rw [subs_node_tr hig]
    exact List.mem_cons_of_mem _ (mem_subsL_tr.2 ⟨t, ht, self_mem_subs_tr t⟩)
  ok := fun h => okT_subs_tr c hok _ h
  inj := fun hu hv he => presInj_spec_tr hinj hu hv he

/-- TRANSITIVITY of "the matcher answers yes" on the fragment -/
theorem sup_trans_tr (a b c : T) (σ τ : Subst) (l1 l2 : Bool) (ha : okT_tr a = true) (hb : okT_tr b = true)
    (hc : okT_tr c = true) (hf : faces_tr b (stripTop c) = true) (hinj : presInj_tr c = true)
    (h1 : sup a b = .yes σ l1) (h2 : sup b c = .yes τ l2) : ∃ ρ l, sup a c = .yes ρ l := by
  have hS := scope_of_tr hc hinj
  unfold sup at h1 h2 ⊢
  rw [supS_stripTop_tr] at h2
  obtain ⟨ρ, l, hρ, _⟩ := trans_tr hS a (stripTop b) (stripTop c) σ l1 τ l2 ha (okT_stripTop_tr b hb)
    (hS.strip c (self_mem_subs_tr c)) (stripTop_idem_tr c) h1 h2 (faces_stripTop_tr _ b hf)
  exact ⟨ρ, l, hρ⟩

end DI
