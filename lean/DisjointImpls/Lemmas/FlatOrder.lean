/-
  Block-order independence of the grouping search for invocations without nested headers (C05).

  In a flat bucket (all members carry the bucket's own header `c`, `selfIdentity c`), `flatSearch c blks []` returns
  exactly one candidate; its keys and rows are computed by `famB` (a left fold of `joinB` over the blocks). Under
  well-formed trait paths (`keyEq` is then an equivalence) `famB` is characterised order-free by `famSpec`: the keys
  are those keys of the last block that every block has, and the row of a member for a key is the member's own
  folded row for it. The candidate filter (`accB`) only depends on that characterisation through membership, hence
  it is invariant under permuting the blocks (`accB_perm`).

  Then the driver loop (`goFlat_outcome`: what `goFlat` returns, bucket by bucket — a bucket with two or more blocks
  under a header that does not match itself makes the search panic, `bucketPanics`), the outcome of `parseGroups`
  (`parseGroups_flat_ok_iff`, `parseGroups_flat_kinds`), its invariance under permutations (`flat_acceptance_perm0`,
  `flat_acceptance_perm`), and the correspondence of the families of two orders (`flat_families_perm`: members, keys
  up to `keyEq`, rows, `?Sized` parameters as a set) with the order-free description of a family (`flat_family_char`).
  `keyEq` is an equivalence only on well-formed trait paths (`wfBlk`); `nk` is the normal form it compares.
-/
import DisjointImpls.Lemmas.GroupLemmas
namespace DI

/-! ### `findKey` / `insertKey` under a map of the values -/

theorem findKey_map {α β : Type} (f : α → β) : ∀ (bs : List (BKey × α)) (k : BKey),
    findKey (bs.map (fun e => (e.1, f e.2))) k = (findKey bs k).map f
  | [], _ => rfl
  | (k', v) :: rest, k => by
      simp only [List.map_cons, findKey]
      split
      · rfl
      · exact findKey_map f rest k

theorem insertKey_map {α β : Type} (f : α → β) (bs : List (BKey × α)) (k : BKey) (v : α) :
    insertKey (bs.map (fun e => (e.1, f e.2))) k (f v) = (insertKey bs k v).map (fun e => (e.1, f e.2)) := by
  unfold insertKey
  simp only [List.any_map, Function.comp_def]
  split
  · simp only [List.map_map]
    apply List.map_congr_left
    intro e _
    simp only [Function.comp]
    split <;> rfl
  · simp

theorem findKey_some_any {α : Type} : ∀ {bs : List (BKey × α)} {k : BKey} {v : α}, findKey bs k = some v →
    bs.any (fun e => keyEq e.1 k) = true
  | [], _, _, h => by simp [findKey] at h
  | (k', w) :: rest, k, v, h => by
      simp only [findKey] at h
      simp only [List.any_cons, Bool.or_eq_true]
      split at h
      · next hk => exact Or.inl hk
      · exact Or.inr (findKey_some_any h)

theorem findKey_none_all {α : Type} : ∀ {bs : List (BKey × α)} {k : BKey}, findKey bs k = none →
    ∀ e ∈ bs, keyEq e.1 k = false
  | [], _, _, e, he => by cases he
  | (k', w) :: rest, k, h, e, he => by
      simp only [findKey] at h
      split at h
      · cases h
      · next hk =>
        rcases List.mem_cons.1 he with rfl | he
        · simpa using hk
        · exact findKey_none_all h e he

theorem insertKey_keys_of_any {α : Type} {bs : List (BKey × α)} {k : BKey} (v : α)
    (h : bs.any (fun e => keyEq e.1 k) = true) : (insertKey bs k v).map (·.1) = bs.map (·.1) := by
  unfold insertKey
  rw [if_pos h, List.map_map]
  apply List.map_congr_left
  intro e _
  simp only [Function.comp]
  split <;> rfl

/-! ### `otherFold`: the keys are pairwise different, and `ABG.new` is `otherFold` with singleton rows -/

def otherStep (acc : List (BKey × Row)) (rb : RawBound) : List (BKey × Row) :=
  match findKey acc (rb.bounded, rb.tr) with
  | some r => insertKey acc (rb.bounded, rb.tr) (Row.extend r rb.binds)
  | none => acc ++ [((rb.bounded, rb.tr), Row.extend [] rb.binds)]

theorem otherFold_eq (b : Blk) : otherFold b = b.raw.foldl otherStep [] := rfl

theorem otherStep_keys (acc : List (BKey × Row)) (rb : RawBound) :
    ((otherStep acc rb).map (·.1) = acc.map (·.1) ∧ acc.any (fun e => keyEq e.1 (rb.bounded, rb.tr)) = true) ∨
    ((otherStep acc rb).map (·.1) = acc.map (·.1) ++ [(rb.bounded, rb.tr)] ∧
      ∀ e ∈ acc, keyEq e.1 (rb.bounded, rb.tr) = false) := by
  unfold otherStep
  split
  · next r hf =>
    have := findKey_some_any hf
    exact Or.inl ⟨insertKey_keys_of_any _ this, this⟩
  · next hf =>
    exact Or.inr ⟨by simp, findKey_none_all hf⟩

theorem foldl_otherStep_keys : ∀ (raw : List RawBound) (acc : List (BKey × Row)),
    DistinctKeys (acc.map (·.1)) →
    DistinctKeys ((raw.foldl otherStep acc).map (·.1)) ∧
    ∀ k ∈ (raw.foldl otherStep acc).map (·.1), k ∈ acc.map (·.1) ∨ ∃ rb ∈ raw, k = (rb.bounded, rb.tr)
  | [], acc, h => ⟨h, fun k hk => Or.inl hk⟩
  | rb :: raw, acc, h => by
      rw [List.foldl_cons]
      have hstep : DistinctKeys ((otherStep acc rb).map (·.1)) ∧
          ∀ k ∈ (otherStep acc rb).map (·.1), k ∈ acc.map (·.1) ∨ k = (rb.bounded, rb.tr) := by
        rcases otherStep_keys acc rb with ⟨e, _⟩ | ⟨e, hn⟩
        · rw [e]; exact ⟨h, fun k hk => Or.inl hk⟩
        · rw [e]
          refine ⟨?_, fun k hk => by simpa using hk⟩
          unfold DistinctKeys at h ⊢
          rw [List.pairwise_append]
          refine ⟨h, by simp, ?_⟩
          intro a ha b hb
          simp only [List.mem_singleton] at hb
          obtain ⟨e0, he0, rfl⟩ := List.mem_map.1 ha
          rw [hb]; exact hn e0 he0
      obtain ⟨h1, h2⟩ := foldl_otherStep_keys raw _ hstep.1
      refine ⟨h1, fun k hk => ?_⟩
      rcases h2 k hk with h3 | ⟨rb', hrb', e⟩
      · rcases hstep.2 k h3 with h4 | h4
        · exact Or.inl h4
        · exact Or.inr ⟨rb, by simp, h4⟩
      · exact Or.inr ⟨rb', List.mem_cons_of_mem _ hrb', e⟩

/-- no key of the folded bounds of a block is `keyEq` to a later one (by construction) -/
theorem otherFold_distinct (b : Blk) : DistinctKeys ((otherFold b).map (·.1)) :=
  (foldl_otherStep_keys b.raw [] List.Pairwise.nil).1

/-- every key of the folded bounds is one of the block's bounds -/
theorem otherFold_keys_raw (b : Blk) {e : BKey × Row} (he : e ∈ otherFold b) :
    ∃ rb ∈ b.raw, e.1 = (rb.bounded, rb.tr) := by
  rcases (foldl_otherStep_keys b.raw [] List.Pairwise.nil).2 e.1 (List.mem_map.2 ⟨e, he, rfl⟩) with h | h
  · cases h
  · exact h

/-- the bounds of a fresh group: the folded bounds, one row each -/
def newB (b : Blk) : List (BKey × List Row) := (otherFold b).map (fun e => (e.1, [e.2]))

theorem new_bounds (b : Blk) : (ABG.new b).bounds = newB b := by
  unfold ABG.new newB
  rw [otherFold_eq]
  simp only
  suffices h : ∀ (raw : List RawBound) (acc : List (BKey × Row)),
      raw.foldl (fun (acc : List (BKey × List Row)) rb =>
        match findKey acc (rb.bounded, rb.tr) with
        | some (r0 :: rest) => insertKey acc (rb.bounded, rb.tr) (Row.extend r0 rb.binds :: rest)
        | some [] => insertKey acc (rb.bounded, rb.tr) [Row.extend [] rb.binds]
        | none => acc ++ [((rb.bounded, rb.tr), [Row.extend [] rb.binds])])
        (acc.map (fun e => (e.1, [e.2]))) =
      (raw.foldl otherStep acc).map (fun e => (e.1, [e.2])) from h b.raw []
  intro raw
  induction raw with
  | nil => intro acc; rfl
  | cons rb raw ih =>
    intro acc
    rw [List.foldl_cons, List.foldl_cons, ← ih]
    congr 1
    rw [findKey_map (fun r => [r])]
    unfold otherStep
    cases findKey acc (rb.bounded, rb.tr) with
    | none => simp
    | some r =>
      simp only [Option.map_some]
      exact insertKey_map (fun r => [r]) acc _ _

/-! ### one step of the flat search: the single intersection -/

/-- the keys of the new member that the group has, each with the group's rows plus the new member's row -/
def joinB (B : List (BKey × List Row)) (b : Blk) : List (BKey × List Row) :=
  (otherFold b).filterMap (fun e => (findKey B e.1).map (fun rows => (e.1, rows ++ [e.2])))

theorem pairwise_filterMap_keys {α β : Type} (f : BKey × α → Option (BKey × β)) (hf : ∀ e e', f e = some e' → e'.1 = e.1) :
    ∀ (l : List (BKey × α)), DistinctKeys (l.map (·.1)) → DistinctKeys ((l.filterMap f).map (·.1))
  | [], _ => List.Pairwise.nil
  | e :: l, h => by
      unfold DistinctKeys at h ⊢
      simp only [List.map_cons, List.pairwise_cons] at h
      have ih := pairwise_filterMap_keys f hf l h.2
      rw [List.filterMap_cons]
      cases hfe : f e with
      | none => exact ih
      | some e' =>
        simp only [List.map_cons, List.pairwise_cons]
        refine ⟨?_, ih⟩
        intro k hk
        obtain ⟨x, hx, rfl⟩ := List.mem_map.1 hk
        obtain ⟨y, hy, hxy⟩ := List.mem_filterMap.1 hx
        rw [hf e e' hfe, hf y x hxy]
        exact h.1 _ (List.mem_map.2 ⟨y, hy, rfl⟩)

theorem joinB_distinct (B : List (BKey × List Row)) (b : Blk) : DistinctKeys ((joinB B b).map (·.1)) := by
  apply pairwise_filterMap_keys _ _ _ (otherFold_distinct b)
  intro e e' h
  cases hf : findKey B e.1 with
  | none => rw [hf] at h; cases h
  | some rows => rw [hf] at h; cases h; rfl

/-- the `?Sized` parameters after a join: those of the group and of the new member that are still the bounded type
    of some key -/
def joinU (B : List (BKey × List Row)) (U : List T) (b : Blk) : List T :=
  ((U ++ b.unsized).eraseDups).filter (fun p => ((joinB B b).map (fun e => e.1.1)).contains p)

theorem intersection_flat (g : ABG) (curr : Blk) {σ : Subst} (hσ : allIdentity σ = true) :
    g.intersection curr σ = [⟨joinB g.bounds curr, joinU g.bounds g.unsized curr⟩] := by
  rw [intersection_eq]
  unfold interWith
  have hper : ∀ (F : BKey × Row → BKey → Option (BKey × List Row)) (l : List (BKey × Row)),
      l.map (fun e => (substituteBound σ e.1.1 e.1.2).map (F e)) = (l.map (fun e => F e e.1)).map (fun x => [x]) := by
    intro F l
    rw [List.map_map]
    apply List.map_congr_left
    intro e _
    simp [substituteBound_identity σ hσ]
  have hfm : ∀ (F' : BKey × Row → Option (BKey × List Row)),
      (∀ e, F' e = (findKey g.bounds e.1).map (fun rows => (e.1, rows ++ [e.2]))) →
      List.filterMap F' (otherFold curr) = joinB g.bounds curr := by
    intro F' h
    unfold joinB
    congr 1
    funext e
    exact h e
  dsimp only
  rw [hper, cartesianG_singletons]
  simp only [List.map_cons, List.map_nil, List.filterMap_map, Function.comp_def, id]
  rw [hfm]
  · rw [foldl_insertKey_distinct _ [] (by simpa [DistinctKeys] using joinB_distinct g.bounds curr)]
    rfl
  · intro e
    cases findKey g.bounds e.1 <;> rfl

/-- bounds and `?Sized` parameters of a group, joined with one more block -/
def joinBU (s : List (BKey × List Row) × List T) (b : Blk) : List (BKey × List Row) × List T :=
  (joinB s.1 b, joinU s.1 s.2 b)

theorem foldl_joinBU_fst : ∀ (impls : List Blk) (s : List (BKey × List Row) × List T),
    (impls.foldl joinBU s).1 = impls.foldl joinB s.1
  | [], _ => rfl
  | b :: impls, s => by rw [List.foldl_cons, List.foldl_cons, foldl_joinBU_fst impls]; rfl

/-- the bounds of the single candidate: join the blocks one after the other -/
def famB (b1 : Blk) (rest : List Blk) : List (BKey × List Row) := rest.foldl joinB (newB b1)
/-- the `?Sized` parameters of the single candidate -/
def famU (b1 : Blk) (rest : List Blk) : List T := (rest.foldl joinBU (newB b1, b1.unsized)).2

theorem flatSearch_join {c : T} {σ : Subst} {l : Bool} (hself : sup c c = .yes σ l) (hσ : allIdentity σ = true) :
    ∀ (impls : List Blk) (B : List (BKey × List Row)) (u : List T) (ms : List Blk),
      flatSearch c impls [(c, ⟨B, u⟩, ms)] =
        .ok [[(c, ⟨impls.foldl joinB B, (impls.foldl joinBU (B, u)).2⟩, ms ++ impls)]]
  | [], B, u, ms => by simp [flatSearch]
  | curr :: other, B, u, ms => by
      have hinter := intersection_flat ⟨B, u⟩ curr hσ
      have hrec := flatSearch_join hself hσ other (joinB B curr) (joinU B u curr) (ms ++ [curr])
      rw [flatSearch]
      simp [hself, hinter, setGroup, hrec, joinBU]

theorem flatSearch_root {c : T} (hself : selfIdentity c = true) (b1 : Blk) (rest : List Blk) :
    flatSearch c (b1 :: rest) [] = .ok [[(c, ⟨famB b1 rest, famU b1 rest⟩, b1 :: rest)]] := by
  obtain ⟨σ, l, hs, hσ⟩ : ∃ σ l, sup c c = .yes σ l ∧ allIdentity σ = true := by
    unfold selfIdentity at hself
    split at hself
    · next σ l h => exact ⟨σ, l, h, hself⟩
    · cases hself
  have hnew : ABG.new b1 = ⟨newB b1, b1.unsized⟩ := by
    have h1 := new_bounds b1
    have h3 : (ABG.new b1).unsized = b1.unsized := rfl
    cases hg : ABG.new b1 with
    | mk bd un => rw [hg] at h1 h3; simp only at h1 h3; rw [h1, h3]
  have hrec := flatSearch_join hs hσ rest (newB b1) b1.unsized [b1]
  rw [flatSearch]
  simp [hnew, hrec, famB, famU]

/-! ### well-formed keys: `keyEq` is equality of normal forms -/

/-- what `keyEq` compares: the bounded type and the dispatch key of the trait path -/
def nk (k : BKey) : T × TraitKey := (k.1, keyOf' k.2)
def WfKey (k : BKey) : Prop := wfPath k.2 = true

theorem keyEq_iff {a b : BKey} (ha : WfKey a) (hb : WfKey b) : keyEq a b = true ↔ nk a = nk b := by
  unfold keyEq nk
  rw [tbEq_eq ha hb]
  by_cases h : keyOf' a.2 = keyOf' b.2 <;> simp [h, Prod.ext_iff]

theorem keyEq_refl {a : BKey} (ha : WfKey a) : keyEq a a = true := (keyEq_iff ha ha).2 rfl

theorem keyEq_congr_right {a k k' : BKey} (ha : WfKey a) (hk : WfKey k) (hk' : WfKey k') (h : nk k = nk k') :
    keyEq a k = keyEq a k' := by
  rw [Bool.eq_iff_iff, keyEq_iff ha hk, keyEq_iff ha hk', h]

theorem findKey_congr {α : Type} : ∀ {bs : List (BKey × α)}, (∀ e ∈ bs, WfKey e.1) → ∀ {k k' : BKey}, WfKey k → WfKey k' →
    nk k = nk k' → findKey bs k = findKey bs k'
  | [], _, _, _, _, _, _ => rfl
  | (k0, v) :: rest, hbs, k, k', hk, hk', h => by
      simp only [findKey]
      rw [keyEq_congr_right (hbs (k0, v) (by simp)) hk hk' h,
        findKey_congr (fun e he => hbs e (List.mem_cons_of_mem _ he)) hk hk' h]

theorem findKey_some_mem {α : Type} : ∀ {bs : List (BKey × α)} {k : BKey} {v : α}, findKey bs k = some v →
    ∃ k', (k', v) ∈ bs ∧ keyEq k' k = true
  | [], _, _, h => by simp [findKey] at h
  | (k', w) :: rest, k, v, h => by
      simp only [findKey] at h
      split at h
      · next hk => cases h; exact ⟨k', by simp, hk⟩
      · obtain ⟨k'', hk, he⟩ := findKey_some_mem h; exact ⟨k'', List.mem_cons_of_mem _ hk, he⟩

theorem findKey_isSome_of_mem {α : Type} : ∀ {bs : List (BKey × α)} {k : BKey} {e : BKey × α}, e ∈ bs → keyEq e.1 k = true →
    (findKey bs k).isSome = true
  | [], _, _, h, _ => by cases h
  | (k', w) :: rest, k, e, h, hk => by
      simp only [findKey]
      split
      · rfl
      · next hne =>
        rcases List.mem_cons.1 h with rfl | h
        · exact absurd hk hne
        · exact findKey_isSome_of_mem h hk

theorem findKey_of_mem_distinct {α : Type} : ∀ {bs : List (BKey × α)}, DistinctKeys (bs.map (·.1)) → ∀ {e : BKey × α}, e ∈ bs →
    keyEq e.1 e.1 = true → findKey bs e.1 = some e.2
  | [], _, _, h, _ => by cases h
  | x :: rest, hd, e, h, hr => by
      unfold DistinctKeys at hd
      simp only [List.map_cons, List.pairwise_cons] at hd
      rcases List.mem_cons.1 h with rfl | h
      · simp [findKey, hr]
      · have : keyEq x.1 e.1 = false := hd.1 _ (List.mem_map.2 ⟨e, h, rfl⟩)
        simp only [findKey, this, Bool.false_eq_true, if_false]
        exact findKey_of_mem_distinct hd.2 h hr

/-- looking up a key in a list filtered and relabelled by functions of the key that respect `keyEq` -/
theorem findKey_filterMap {α β : Type} (p : BKey → Bool) (g : BKey → β) (k : BKey) : ∀ (l : List (BKey × α)),
    (∀ e ∈ l, keyEq e.1 k = true → p e.1 = p k ∧ g e.1 = g k) →
    findKey (l.filterMap (fun e => if p e.1 then some (e.1, g e.1) else none)) k =
      if p k then (findKey l k).map (fun _ => g k) else none
  | [], _ => by simp [findKey]
  | e :: l, h => by
      have ih := findKey_filterMap p g k l (fun e he => h e (List.mem_cons_of_mem _ he))
      rw [List.filterMap_cons]
      obtain ⟨k0, v⟩ := e
      by_cases hk : keyEq k0 k = true
      · obtain ⟨h1, h2⟩ := h (k0, v) (by simp) hk
        simp only at h1 h2
        by_cases hp : p k = true
        · simp [findKey, hk, h1, h2, hp]
        · simp only [h1, hp, Bool.false_eq_true, if_false]
          rw [ih]; simp [hp]
      · by_cases hp0 : p k0 = true
        · simp only [hp0, if_true, findKey, hk, Bool.false_eq_true, if_false]
          exact ih
        · simp only [hp0, Bool.false_eq_true, if_false, findKey, hk]
          exact ih

theorem filterMap_congr_fo {α β : Type} {f g : α → Option β} : ∀ {l : List α}, (∀ x ∈ l, f x = g x) →
    l.filterMap f = l.filterMap g
  | [], _ => rfl
  | x :: l, h => by
      rw [List.filterMap_cons, List.filterMap_cons, h x (by simp),
        filterMap_congr_fo (fun y hy => h y (List.mem_cons_of_mem _ hy))]

theorem filterMap_eq_map_of {α β : Type} {f : α → Option β} {g : α → β} : ∀ {l : List α}, (∀ x ∈ l, f x = some (g x)) →
    l.filterMap f = l.map g
  | [], _ => rfl
  | x :: l, h => by
      rw [List.filterMap_cons, h x (by simp), List.map_cons,
        filterMap_eq_map_of (fun y hy => h y (List.mem_cons_of_mem _ hy))]

/-! ### the order-free characterisation of the single candidate -/

/-- every trait path in the bounds of the block can be compared: at least one segment, every segment has an identifier,
    the last one has no, angle-bracketed or — since /repo 94aac73 — parenthesized arguments (`wfPath`) -/
def wfBlk (b : Blk) : Bool := b.raw.all (fun rb => wfPath rb.tr)

/-- the member's own row for a key: the block's bounds folded per key, looked up with `keyEq` -/
def rowOf (b : Blk) (k : BKey) : Option Row := findKey (otherFold b) k
def rowD (b : Blk) (k : BKey) : Row := (rowOf b k).getD []
/-- every block has a bound with this key -/
def hasKey (blks : List Blk) (k : BKey) : Bool := blks.all (fun b => (rowOf b k).isSome)

/-- the family of the blocks `blks`, spelled and ordered as in the block `l`: the keys of `l` that every block has,
    each with the members' own rows -/
def famSpec (blks : List Blk) (l : Blk) : List (BKey × List Row) :=
  (otherFold l).filterMap (fun e => if hasKey blks e.1 then some (e.1, blks.map (fun b => rowD b e.1)) else none)

theorem wfBlk_key {b : Blk} (hb : wfBlk b = true) {e : BKey × Row} (he : e ∈ otherFold b) : WfKey e.1 := by
  obtain ⟨rb, hrb, h⟩ := otherFold_keys_raw b he
  simp only [wfBlk, List.all_eq_true] at hb
  rw [h]; exact hb rb hrb

theorem rowOf_congr {b : Blk} (hb : wfBlk b = true) {k k' : BKey} (hk : WfKey k) (hk' : WfKey k') (h : nk k = nk k') :
    rowOf b k = rowOf b k' :=
  findKey_congr (fun _ he => wfBlk_key hb he) hk hk' h

theorem rowOf_self {b : Blk} (hb : wfBlk b = true) {e : BKey × Row} (he : e ∈ otherFold b) : rowOf b e.1 = some e.2 :=
  findKey_of_mem_distinct (otherFold_distinct b) he (keyEq_refl (wfBlk_key hb he))

theorem hasKey_congr {blks : List Blk} (hw : ∀ b ∈ blks, wfBlk b = true) {k k' : BKey} (hk : WfKey k) (hk' : WfKey k')
    (h : nk k = nk k') : hasKey blks k = hasKey blks k' := by
  unfold hasKey
  rw [Bool.eq_iff_iff, List.all_eq_true, List.all_eq_true]
  constructor
  · intro h1 b hb; rw [← rowOf_congr (hw b hb) hk hk' h]; exact h1 b hb
  · intro h1 b hb; rw [rowOf_congr (hw b hb) hk hk' h]; exact h1 b hb

theorem rowD_congr {b : Blk} (hb : wfBlk b = true) {k k' : BKey} (hk : WfKey k) (hk' : WfKey k') (h : nk k = nk k') :
    rowD b k = rowD b k' := by
  unfold rowD; rw [rowOf_congr hb hk hk' h]

theorem famSpec_find {blks : List Blk} {l : Blk} (hw : ∀ b ∈ blks, wfBlk b = true) (hl : l ∈ blks) {k : BKey} (hk : WfKey k) :
    findKey (famSpec blks l) k = if hasKey blks k then some (blks.map (fun b => rowD b k)) else none := by
  unfold famSpec
  rw [findKey_filterMap (hasKey blks) (fun k => blks.map (fun b => rowD b k)) k]
  · by_cases hp : hasKey blks k = true
    · simp only [hp, if_true]
      have : (rowOf l k).isSome = true := by
        simp only [hasKey, List.all_eq_true] at hp
        exact hp l hl
      unfold rowOf at this
      cases hf : findKey (otherFold l) k with
      | none => rw [hf] at this; cases this
      | some r => rfl
    · simp [hp]
  · intro e he hke
    have hwe : WfKey e.1 := wfBlk_key (hw l hl) he
    have hn : nk e.1 = nk k := (keyEq_iff hwe hk).1 hke
    refine ⟨hasKey_congr hw hwe hk hn, ?_⟩
    apply List.map_congr_left
    intro b hb
    exact rowD_congr (hw b hb) hwe hk hn

theorem newB_spec {b : Blk} (hb : wfBlk b = true) : newB b = famSpec [b] b := by
  unfold newB famSpec
  symm
  apply filterMap_eq_map_of
  intro e he
  have := rowOf_self hb he
  simp [hasKey, rowD, this]

theorem joinB_spec {blks : List Blk} {l b : Blk} (hw : ∀ x ∈ blks, wfBlk x = true) (hb : wfBlk b = true) (hl : l ∈ blks) :
    joinB (famSpec blks l) b = famSpec (blks ++ [b]) b := by
  unfold joinB
  conv => rhs; unfold famSpec
  apply filterMap_congr_fo
  intro e he
  have hs := rowOf_self hb he
  rw [famSpec_find hw hl (wfBlk_key hb he)]
  have hk : hasKey (blks ++ [b]) e.1 = hasKey blks e.1 := by
    simp [hasKey, hs]
  rw [hk]
  by_cases hp : hasKey blks e.1 = true
  · simp [hp, rowD, hs]
  · simp [hp]

/-- the last block of a non-empty list given as head and tail -/
def lastB : Blk → List Blk → Blk
  | l, [] => l
  | _, b :: rest => lastB b rest

theorem lastB_mem : ∀ (l : Blk) (rest : List Blk), lastB l rest ∈ l :: rest
  | l, [] => by simp [lastB]
  | l, b :: rest => by
      simp only [lastB]
      exact List.mem_cons_of_mem _ (lastB_mem b rest)

theorem foldl_joinB_spec : ∀ (rest pre : List Blk) (l : Blk), l ∈ pre → (∀ x ∈ pre ++ rest, wfBlk x = true) →
    rest.foldl joinB (famSpec pre l) = famSpec (pre ++ rest) (lastB l rest)
  | [], pre, l, _, _ => by simp [lastB]
  | b :: rest, pre, l, hl, hw => by
      rw [List.foldl_cons, joinB_spec (fun x hx => hw x (List.mem_append.2 (Or.inl hx))) (hw b (by simp)) hl]
      have := foldl_joinB_spec rest (pre ++ [b]) b (by simp) (by simpa using hw)
      simpa [lastB] using this

/-- the single candidate of a flat bucket, order-free: the keys every block has (spelled and ordered as in the
    last block), each with the members' own rows -/
theorem famB_spec (b1 : Blk) (rest : List Blk) (hw : ∀ x ∈ b1 :: rest, wfBlk x = true) :
    famB b1 rest = famSpec (b1 :: rest) (lastB b1 rest) := by
  unfold famB
  rw [newB_spec (hw b1 (by simp))]
  exact foldl_joinB_spec rest [b1] b1 (by simp) (by simpa using hw)

/-! ### the candidate filter on the single candidate -/

def pruneB (B : List (BKey × List Row)) : List (BKey × List Row) := B.filter (fun e => e.2.any (fun r => !r.isEmpty))

/-- the candidate filter, on the bounds of one group: a key with a binding is left, and no row generalises another -/
def accB (B : List (BKey × List Row)) : Bool := !((pruneB B).isEmpty || (ABG.mk (pruneB B) []).isOverlapping)

theorem isOverlapping_unsized (P : List (BKey × List Row)) (u : List T) :
    (ABG.mk P u).isOverlapping = (ABG.mk P []).isOverlapping := rfl

theorem filterCandidate_one (c : T) (B : List (BKey × List Row)) (u : List T) (ms : List Blk) :
    filterCandidate [(c, ABG.mk B u, ms)] = if accB B then some [(c, ABG.mk (pruneB B) u, ms)] else none := by
  unfold filterCandidate accB
  simp only [List.map_cons, List.map_nil, List.any_cons, List.any_nil, Bool.or_false, ABG.prune]
  have : (List.filter (fun e => e.2.any fun r => !r.isEmpty) B) = pruneB B := rfl
  rw [this, isOverlapping_unsized (pruneB B) u]
  cases ((pruneB B).isEmpty || (ABG.mk (pruneB B) []).isOverlapping) <;> simp

theorem mem_dedupStr_foldl (x : String) : ∀ (l acc : List String),
    x ∈ l.foldl (fun acc x => if acc.contains x then acc else acc ++ [x]) acc ↔ x ∈ acc ∨ x ∈ l
  | [], acc => by simp
  | y :: l, acc => by
      rw [List.foldl_cons, mem_dedupStr_foldl x l]
      by_cases h : acc.contains y = true
      · have hy : y ∈ acc := by simpa using h
        simp only [h, if_true, List.mem_cons]
        constructor
        · rintro (h1 | h1)
          · exact Or.inl h1
          · exact Or.inr (Or.inr h1)
        · rintro (h1 | h1 | h1)
          · exact Or.inl h1
          · exact Or.inl (h1 ▸ hy)
          · exact Or.inr h1
      · simp only [h, Bool.false_eq_true, if_false, List.mem_append, List.mem_cons, List.not_mem_nil, or_false]
        constructor
        · rintro ((h1 | h1) | h1)
          · exact Or.inl h1
          · exact Or.inr (Or.inl h1)
          · exact Or.inr (Or.inr h1)
        · rintro (h1 | h1 | h1)
          · exact Or.inl (Or.inl h1)
          · exact Or.inl (Or.inr h1)
          · exact Or.inr h1

theorem mem_dedupStr {x : String} {l : List String} : x ∈ dedupStr l ↔ x ∈ l := by
  unfold dedupStr
  rw [mem_dedupStr_foldl]
  simp

theorem mem_idents {B : List (BKey × List Row)} {u : List T} {kx : BKey × String} :
    kx ∈ (ABG.mk B u).idents ↔ ∃ e ∈ B, kx.1 = e.1 ∧ ∃ r ∈ e.2, kx.2 ∈ r.map (·.1) := by
  unfold ABG.idents
  simp only [List.mem_flatMap, List.mem_map, mem_dedupStr]
  constructor
  · rintro ⟨e, he, x, ⟨r, hr, hx⟩, rfl⟩
    exact ⟨e, he, rfl, r, hr, hx⟩
  · rintro ⟨e, he, hk, r, hr, hx⟩
    exact ⟨e, he, kx.2, ⟨r, hr, hx⟩, by rw [← hk]⟩

/-- the payload of a member for a key and an associated-type identifier: the binding, or `none` (wildcard) -/
def cell (b : Blk) (kx : BKey × String) : Option T := rowLookup (rowD b kx.1) kx.2

/-- rows aligned with the members: the payload row of a member only depends on the member -/
theorem payloads_spec {B : List (BKey × List Row)} {u : List T} {blks : List Blk} (hne : B ≠ [])
    (hrows : ∀ e ∈ B, e.2 = blks.map (fun b => rowD b e.1)) (hd : DistinctKeys (B.map (·.1)))
    (hr : ∀ e ∈ B, keyEq e.1 e.1 = true) :
    (ABG.mk B u).payloads = blks.map (fun b => (ABG.mk B u).idents.map (cell b)) := by
  cases B with
  | nil => exact absurd rfl hne
  | cons first rest =>
    unfold ABG.payloads
    simp only
    have hlen : first.2.length = blks.length := by rw [hrows first (by simp)]; simp
    rw [hlen]
    apply List.ext_getElem
    · simp
    · intro i h1 h2
      simp only [List.getElem_map, List.getElem_range]
      apply List.map_congr_left
      intro kx hkx
      obtain ⟨e, he, hk, _⟩ := mem_idents.1 hkx
      have hf : findKey (first :: rest) e.1 = some e.2 := findKey_of_mem_distinct hd he (hr e he)
      have hi : i < blks.length := by simpa using h2
      have hrow : e.2[i]? = some (rowD blks[i] e.1) := by rw [hrows e he]; simp [hi]
      simp only [cell, hk, hf, hrow]

/-- one position of `rowGeneralises` -/
def genCell (a b : Option T) : Bool :=
  match a, b with
  | some e1, some e2 => (match sup e1 e2 with | .yes _ _ => true | _ => false)
  | none, _ => true
  | _, _ => false

theorem rowGeneralises_map {α : Type} (I : List α) (f g : α → Option T) :
    rowGeneralises (I.map f) (I.map g) = I.all (fun kx => genCell (f kx) (g kx)) := by
  unfold rowGeneralises
  simp only [List.length_map, beq_self_eq_true, Bool.true_and]
  induction I with
  | nil => rfl
  | cons a I ih =>
    simp only [List.map_cons, List.zip_cons_cons, List.all_cons, ih]
    congr 1

theorem overlapping_iff {g : ABG} {blks : List Blk} {pr : Blk → List (Option T)} (hps : g.payloads = blks.map pr)
    (hnd : blks.Nodup) :
    g.isOverlapping = true ↔ ∃ b ∈ blks, ∃ b' ∈ blks, b ≠ b' ∧ rowGeneralises (pr b) (pr b') = true := by
  unfold ABG.isOverlapping
  simp only [hps, List.any_eq_true, List.mem_range, List.length_map, Bool.and_eq_true, bne_iff_ne, ne_eq]
  constructor
  · rintro ⟨i, hi, j, hj, hij, h⟩
    rw [List.getElem?_eq_getElem (by simpa using hi), List.getElem?_eq_getElem (by simpa using hj)] at h
    simp only [List.getElem_map] at h
    refine ⟨blks[i], List.getElem_mem _, blks[j], List.getElem_mem _, ?_, h⟩
    intro e
    exact hij ((List.getElem_inj hnd).1 e)
  · rintro ⟨b, hb, b', hb', hne, h⟩
    obtain ⟨i, hi, rfl⟩ := List.mem_iff_getElem.1 hb
    obtain ⟨j, hj, rfl⟩ := List.mem_iff_getElem.1 hb'
    refine ⟨i, hi, j, hj, ?_, ?_⟩
    · intro e; subst e; exact hne rfl
    · rw [List.getElem?_eq_getElem (by simpa using hi), List.getElem?_eq_getElem (by simpa using hj)]
      simpa using h

/-! ### the filter on `famSpec`, through membership only -/

/-- `(k, x)` is a column of the family: every block has the key `k`, and some block binds `x` under it -/
def IdentOK (blks : List Blk) (kx : BKey × String) : Prop :=
  hasKey blks kx.1 = true ∧ ∃ b ∈ blks, kx.2 ∈ (rowD b kx.1).map (·.1)

/-- the columns (key, associated-type identifier) of the pruned family -/
def famIdents (blks : List Blk) (l : Blk) : List (BKey × String) := (ABG.mk (pruneB (famSpec blks l)) []).idents

theorem mem_famSpec {blks : List Blk} {l : Blk} {e : BKey × List Row} :
    e ∈ famSpec blks l ↔ ∃ e0 ∈ otherFold l, hasKey blks e0.1 = true ∧ e = (e0.1, blks.map (fun b => rowD b e0.1)) := by
  unfold famSpec
  simp only [List.mem_filterMap]
  constructor
  · rintro ⟨e0, he0, h⟩
    split at h
    · next hk => cases h; exact ⟨e0, he0, hk, rfl⟩
    · cases h
  · rintro ⟨e0, he0, hk, rfl⟩
    exact ⟨e0, he0, by simp [hk]⟩

theorem mem_famIdents {blks : List Blk} {l : Blk} {kx : BKey × String} :
    kx ∈ famIdents blks l ↔ (∃ e0 ∈ otherFold l, e0.1 = kx.1) ∧ IdentOK blks kx := by
  unfold famIdents IdentOK
  rw [mem_idents]
  constructor
  · rintro ⟨e, he, hk, r, hr, hx⟩
    have he' := (List.mem_filter.1 he).1
    obtain ⟨e0, he0, hkey, rfl⟩ := mem_famSpec.1 he'
    simp only at hk hr
    obtain ⟨b, hb, rfl⟩ := List.mem_map.1 hr
    exact ⟨⟨e0, he0, hk.symm⟩, by rw [hk]; exact hkey, b, hb, by rw [hk]; exact hx⟩
  · rintro ⟨⟨e0, he0, hk⟩, hkey, b, hb, hx⟩
    refine ⟨(e0.1, blks.map (fun b => rowD b e0.1)), ?_, hk.symm, rowD b e0.1, List.mem_map.2 ⟨b, hb, rfl⟩,
      by rw [hk]; exact hx⟩
    unfold pruneB
    rw [List.mem_filter]
    refine ⟨mem_famSpec.2 ⟨e0, he0, by rw [hk]; exact hkey, rfl⟩, ?_⟩
    simp only [List.any_eq_true, List.mem_map]
    refine ⟨rowD b e0.1, ⟨b, hb, rfl⟩, ?_⟩
    rw [hk]
    cases h : rowD b kx.1 with
    | nil => rw [h] at hx; cases hx
    | cons _ _ => rfl

theorem famSpec_distinct (blks : List Blk) (l : Blk) : DistinctKeys ((famSpec blks l).map (·.1)) := by
  apply pairwise_filterMap_keys _ _ _ (otherFold_distinct l)
  intro e e' h
  split at h
  · cases h; rfl
  · cases h

theorem pruneB_empty_iff (B : List (BKey × List Row)) : pruneB B = [] ↔ (ABG.mk (pruneB B) []).idents = [] := by
  constructor
  · intro h; rw [h]; rfl
  · intro h
    cases hP : pruneB B with
    | nil => rfl
    | cons e rest =>
      exfalso
      have he : e ∈ pruneB B := by rw [hP]; simp
      have hany := (List.mem_filter.1 he).2
      simp only [List.any_eq_true, Bool.not_eq_true', List.isEmpty_eq_false_iff] at hany
      obtain ⟨r, hr, hne⟩ := hany
      obtain ⟨x, hx⟩ := List.exists_mem_of_ne_nil _ hne
      have : (e.1, x.1) ∈ (ABG.mk (pruneB B) []).idents :=
        mem_idents.2 ⟨e, he, rfl, r, hr, List.mem_map.2 ⟨x, hx, rfl⟩⟩
      rw [h] at this
      cases this

/-- the candidate filter on the order-free family, phrased through membership only: some column exists, and no two
    different members have rows of which one generalises the other in every column -/
theorem accB_famSpec_iff {blks : List Blk} {l : Blk} (hw : ∀ b ∈ blks, wfBlk b = true) (hl : l ∈ blks) (hnd : blks.Nodup) :
    accB (famSpec blks l) = true ↔ famIdents blks l ≠ [] ∧
      ¬ ∃ b ∈ blks, ∃ b' ∈ blks, b ≠ b' ∧ ∀ kx ∈ famIdents blks l, genCell (cell b kx) (cell b' kx) = true := by
  unfold accB
  by_cases hP : pruneB (famSpec blks l) = []
  · have hI : famIdents blks l = [] := (pruneB_empty_iff _).1 hP
    simp [hP, hI]
  · have hI : famIdents blks l ≠ [] := fun h => hP ((pruneB_empty_iff _).2 h)
    have hsub : ∀ e ∈ pruneB (famSpec blks l), e ∈ famSpec blks l := fun e he => (List.mem_filter.1 he).1
    have hps := payloads_spec (u := []) (blks := blks) hP
      (by
        intro e he
        obtain ⟨e0, _, _, rfl⟩ := mem_famSpec.1 (hsub e he)
        rfl)
      (by
        have h1 := famSpec_distinct blks l
        unfold DistinctKeys at h1 ⊢
        exact h1.sublist (List.Sublist.map _ List.filter_sublist))
      (by
        intro e he
        obtain ⟨e0, he0, _, rfl⟩ := mem_famSpec.1 (hsub e he)
        exact keyEq_refl (wfBlk_key (hw l hl) he0))
    have hov := overlapping_iff hps hnd
    have hemp : (pruneB (famSpec blks l)).isEmpty = false := by
      cases h : pruneB (famSpec blks l) with
      | nil => exact absurd h hP
      | cons _ _ => rfl
    simp only [hemp, Bool.false_or, Bool.not_eq_true', ne_eq, hI, not_false_eq_true, true_and]
    rw [← Bool.not_eq_true, hov]
    simp only [rowGeneralises_map, List.all_eq_true]
    rfl

theorem cell_congr {b : Blk} (hb : wfBlk b = true) {k k' : BKey} (hk : WfKey k) (hk' : WfKey k') (h : nk k = nk k')
    (x : String) : cell b (k, x) = cell b (k', x) := by
  unfold cell
  simp only
  rw [rowD_congr hb hk hk' h]

theorem hasKey_iff {blks : List Blk} {k : BKey} : hasKey blks k = true ↔ ∀ b ∈ blks, (rowOf b k).isSome = true := by
  simp [hasKey]

/-- every column of one order is a column of the other order, up to the spelling of the key -/
theorem famIdents_corr {blks blks' : List Blk} {l l' : Blk} (hsub : ∀ x, x ∈ blks ↔ x ∈ blks')
    (hw : ∀ b ∈ blks, wfBlk b = true) (hl : l ∈ blks) (hl' : l' ∈ blks') :
    ∀ kx ∈ famIdents blks l, ∃ kx' ∈ famIdents blks' l', WfKey kx.1 ∧ WfKey kx'.1 ∧ nk kx.1 = nk kx'.1 ∧ kx.2 = kx'.2 := by
  intro kx hkx
  obtain ⟨⟨e0, he0, hk⟩, hkey, b, hb, hx⟩ := mem_famIdents.1 hkx
  have hwk : WfKey kx.1 := hk ▸ wfBlk_key (hw l hl) he0
  have hl'b : l' ∈ blks := (hsub l').2 hl'
  have hsome := hasKey_iff.1 hkey l' hl'b
  unfold rowOf at hsome
  cases hf : findKey (otherFold l') kx.1 with
  | none => rw [hf] at hsome; cases hsome
  | some r =>
    obtain ⟨k', hmem, hke⟩ := findKey_some_mem hf
    have hwk' : WfKey k' := wfBlk_key (hw l' hl'b) hmem
    have hn : nk k' = nk kx.1 := (keyEq_iff hwk' hwk).1 hke
    have hw' : ∀ b ∈ blks', wfBlk b = true := fun b hb => hw b ((hsub b).2 hb)
    refine ⟨(k', kx.2), mem_famIdents.2 ⟨⟨(k', r), hmem, rfl⟩, ?_, b, (hsub b).1 hb, ?_⟩, hwk, hwk', hn.symm, rfl⟩
    · show hasKey blks' k' = true
      rw [hasKey_congr hw' hwk' hwk hn]
      exact hasKey_iff.2 (fun x hx => hasKey_iff.1 hkey x ((hsub x).2 hx))
    · show kx.2 ∈ (rowD b k').map (·.1)
      rw [rowD_congr (hw b hb) hwk' hwk hn]
      exact hx

theorem accB_mono {blks blks' : List Blk} {l l' : Blk} (hsub : ∀ x, x ∈ blks ↔ x ∈ blks')
    (hw : ∀ b ∈ blks, wfBlk b = true) (hl : l ∈ blks) (hl' : l' ∈ blks') (hnd : blks.Nodup) (hnd' : blks'.Nodup) :
    accB (famSpec blks l) = true → accB (famSpec blks' l') = true := by
  have hw' : ∀ b ∈ blks', wfBlk b = true := fun b hb => hw b ((hsub b).2 hb)
  rw [accB_famSpec_iff hw hl hnd, accB_famSpec_iff hw' hl' hnd']
  rintro ⟨hI, hno⟩
  constructor
  · obtain ⟨kx, hkx⟩ := List.exists_mem_of_ne_nil _ hI
    obtain ⟨kx', hkx', _⟩ := famIdents_corr hsub hw hl hl' kx hkx
    exact List.ne_nil_of_mem hkx'
  · rintro ⟨b, hb, b', hb', hne, hall⟩
    apply hno
    refine ⟨b, (hsub b).2 hb, b', (hsub b').2 hb', hne, fun kx hkx => ?_⟩
    obtain ⟨kx', hkx', h1, h2, h3, h4⟩ := famIdents_corr hsub hw hl hl' kx hkx
    have := hall kx' hkx'
    have e1 : cell b kx = cell b kx' := by
      have := cell_congr (hw b ((hsub b).2 hb)) h1 h2 h3 kx.2
      obtain ⟨k, x⟩ := kx
      obtain ⟨k', x'⟩ := kx'
      simp only at h4
      subst h4
      exact this
    have e2 : cell b' kx = cell b' kx' := by
      have := cell_congr (hw b' ((hsub b').2 hb')) h1 h2 h3 kx.2
      obtain ⟨k, x⟩ := kx
      obtain ⟨k', x'⟩ := kx'
      simp only at h4
      subst h4
      exact this
    rw [e1, e2]; exact this

/-- the candidate filter does not depend on the order of the blocks (nor on which block comes last) -/
theorem accB_perm {blks blks' : List Blk} {l l' : Blk} (hp : blks.Perm blks') (hw : ∀ b ∈ blks, wfBlk b = true)
    (hl : l ∈ blks) (hl' : l' ∈ blks') (hnd : blks.Nodup) :
    accB (famSpec blks l) = accB (famSpec blks' l') := by
  have hsub : ∀ x, x ∈ blks ↔ x ∈ blks' := fun x => hp.mem_iff
  have hnd' : blks'.Nodup := hp.nodup_iff.1 hnd
  rw [Bool.eq_iff_iff]
  exact ⟨accB_mono hsub hw hl hl' hnd hnd',
    accB_mono (fun x => (hsub x).symm) (fun b hb => hw b ((hsub b).2 hb)) hl' hl hnd' hnd⟩

/-! ### buckets of an arbitrary list of blocks (textually identical blocks allowed) -/

/-- the canonical text determines the block (true for the blocks `mkBlk` builds) -/
def ItemDet (bs : List Blk) : Prop := ∀ b ∈ bs, ∀ b' ∈ bs, b.item = b'.item → b = b'

theorem itemDet_mkBlk (items : List T) : ItemDet (items.map mkBlk) := by
  intro b hb b' hb' h
  obtain ⟨r, _, rfl⟩ := List.mem_map.1 hb
  obtain ⟨r', _, rfl⟩ := List.mem_map.1 hb'
  simp only [mkBlk] at h ⊢
  rw [h]

/-- invariant of `mkBuckets`: buckets are non-empty, hold pairwise different texts taken from the input, and every
    input block is represented in the bucket of its header -/
structure BInv (pre : List Blk) (acc : List (T × List Blk)) : Prop where
  good : ∀ bk ∈ acc, bk.2 ≠ [] ∧ (bk.2.map (·.item)).Nodup ∧ ∀ b ∈ bk.2, b ∈ pre
  cover : ∀ b ∈ pre, ∃ bk ∈ acc, bk.1 = groupIdOf b.item ∧ ∃ b' ∈ bk.2, b'.item = b.item

theorem replace_items (b : Blk) (l : List Blk) :
    (l.map (fun x => if x.item == b.item then b else x)).map (·.item) = l.map (·.item) := by
  rw [List.map_map]
  apply List.map_congr_left
  intro x _
  simp only [Function.comp]
  split
  · next h => exact (eq_of_beq h).symm
  · rfl

theorem bucketStep_inv {pre : List Blk} {acc : List (T × List Blk)} (h : BInv pre acc) (b : Blk) :
    BInv (pre ++ [b]) (bucketStep acc b) := by
  obtain ⟨hg, hc⟩ := h
  unfold bucketStep
  dsimp only
  cases hf : acc.find? (fun e => e.1 == groupIdOf b.item) with
  | none =>
    dsimp only
    constructor
    · intro bk hbk
      rcases List.mem_append.1 hbk with hbk | hbk
      · obtain ⟨h1, h2, h3⟩ := hg bk hbk
        exact ⟨h1, h2, fun x hx => List.mem_append.2 (Or.inl (h3 x hx))⟩
      · simp only [List.mem_singleton] at hbk
        subst hbk
        exact ⟨by simp, by simp, fun x hx => by simp only [List.mem_singleton] at hx; subst hx; simp⟩
    · intro b0 hb0
      rcases List.mem_append.1 hb0 with hb0 | hb0
      · obtain ⟨bk, hbk, h1, h2⟩ := hc b0 hb0
        exact ⟨bk, List.mem_append.2 (Or.inl hbk), h1, h2⟩
      · simp only [List.mem_singleton] at hb0
        subst hb0
        exact ⟨(groupIdOf b0.item, [b0]), by simp, rfl, b0, by simp, rfl⟩
  | some e0 =>
    dsimp only
    have he0 := List.mem_of_find?_eq_some hf
    have hid0 : (e0.1 == groupIdOf b.item) = true := by simpa using List.find?_some hf
    constructor
    · intro bk hbk
      obtain ⟨e, he, rfl⟩ := List.mem_map.1 hbk
      obtain ⟨h1, h2, h3⟩ := hg e he
      by_cases hid : (e.1 == groupIdOf b.item) = true
      · rw [if_pos hid]
        dsimp only
        by_cases hany : e.2.any (fun x => x.item == b.item) = true
        · rw [if_pos hany]
          refine ⟨by simpa using h1, by rw [replace_items]; exact h2, ?_⟩
          intro x hx
          obtain ⟨y, hy, rfl⟩ := List.mem_map.1 hx
          split
          · simp
          · exact List.mem_append.2 (Or.inl (h3 y hy))
        · rw [if_neg hany]
          refine ⟨by simp, ?_, ?_⟩
          · rw [List.map_append, List.nodup_append]
            refine ⟨h2, by simp, ?_⟩
            intro a ha c hc'
            simp only [List.map_cons, List.map_nil, List.mem_singleton] at hc'
            obtain ⟨x, hx, rfl⟩ := List.mem_map.1 ha
            rw [hc']
            intro e'
            apply hany
            exact List.any_eq_true.2 ⟨x, hx, by simp [e']⟩
          · intro x hx
            rcases List.mem_append.1 hx with hx | hx
            · exact List.mem_append.2 (Or.inl (h3 x hx))
            · exact List.mem_append.2 (Or.inr hx)
      · rw [if_neg hid]
        exact ⟨h1, h2, fun x hx => List.mem_append.2 (Or.inl (h3 x hx))⟩
    · intro b0 hb0
      rcases List.mem_append.1 hb0 with hb0 | hb0
      · obtain ⟨bk, hbk, h1, b', hb', h2⟩ := hc b0 hb0
        refine ⟨_, List.mem_map.2 ⟨bk, hbk, rfl⟩, ?_, ?_⟩
        · split <;> exact h1
        · by_cases hid : (bk.1 == groupIdOf b.item) = true
          · rw [if_pos hid]
            dsimp only
            by_cases hany : bk.2.any (fun x => x.item == b.item) = true
            · rw [if_pos hany]
              refine ⟨_, List.mem_map.2 ⟨b', hb', rfl⟩, ?_⟩
              split
              · next hh => rw [← eq_of_beq hh]; exact h2
              · exact h2
            · rw [if_neg hany]
              exact ⟨b', List.mem_append.2 (Or.inl hb'), h2⟩
          · rw [if_neg hid]
            exact ⟨b', hb', h2⟩
      · simp only [List.mem_singleton] at hb0
        subst hb0
        refine ⟨_, List.mem_map.2 ⟨e0, he0, rfl⟩, ?_, ?_⟩
        · rw [if_pos hid0]; exact eq_of_beq hid0
        · rw [if_pos hid0]
          dsimp only
          by_cases hany : e0.2.any (fun x => x.item == b0.item) = true
          · rw [if_pos hany]
            obtain ⟨x, hx, hxi⟩ := List.any_eq_true.1 hany
            refine ⟨_, List.mem_map.2 ⟨x, hx, rfl⟩, ?_⟩
            rw [if_pos hxi]
          · rw [if_neg hany]
            exact ⟨b0, by simp, rfl⟩

theorem foldl_bucketStep_inv : ∀ (rest pre : List Blk) (acc : List (T × List Blk)), BInv pre acc →
    BInv (pre ++ rest) (rest.foldl bucketStep acc)
  | [], pre, acc, h => by simpa using h
  | b :: rest, pre, acc, h => by
      have := foldl_bucketStep_inv rest (pre ++ [b]) (bucketStep acc b) (bucketStep_inv h b)
      simpa using this

theorem mkBuckets_inv (bs : List Blk) : BInv bs (mkBuckets bs) := by
  have := foldl_bucketStep_inv bs [] [] ⟨fun bk hbk => (by cases hbk), fun b hb => (by cases hb)⟩
  simpa [mkBuckets_eq] using this

theorem bucket_unique {l : List (T × List Blk)} (hn : (l.map (·.1)).Nodup) {a b : T × List Blk} (ha : a ∈ l) (hb : b ∈ l)
    (h : a.1 = b.1) : a = b := by
  have h1 := find_bucket hn ha
  have h2 := find_bucket hn hb
  rw [h] at h1
  rw [h1] at h2
  exact Option.some.inj h2

theorem nodup_of_items_nodup {l : List Blk} (h : (l.map (·.item)).Nodup) : l.Nodup := by
  have h0 : List.Pairwise (fun x1 x2 => x1 ≠ x2) (l.map (·.item)) := h
  exact List.Pairwise.of_map (fun (x : Blk) => x.item) (fun a b (h : a.item ≠ b.item) e => h (by rw [e])) h0

/-- the members of a bucket: the input blocks with its header -/
theorem mkBuckets_mem_iff {bs : List Blk} (hdet : ItemDet bs) {bk : T × List Blk} (hbk : bk ∈ mkBuckets bs) (b : Blk) :
    b ∈ bk.2 ↔ b ∈ bs ∧ groupIdOf b.item = bk.1 := by
  obtain ⟨hg, hc⟩ := mkBuckets_inv bs
  constructor
  · intro hb
    exact ⟨(hg bk hbk).2.2 b hb, mkBuckets_wf bs bk hbk b hb⟩
  · rintro ⟨hb, hid⟩
    obtain ⟨bk0, hbk0, h1, b', hb', h2⟩ := hc b hb
    have : bk0 = bk := bucket_unique (mkBuckets_ids_nodup bs) hbk0 hbk (by rw [h1, hid])
    subst this
    have hb'in : b' ∈ bs := (hg bk0 hbk0).2.2 b' hb'
    rw [← hdet b' hb'in b hb h2]
    exact hb'

theorem mkBuckets_ids_iff (bs : List Blk) (id : T) :
    id ∈ (mkBuckets bs).map (·.1) ↔ ∃ b ∈ bs, groupIdOf b.item = id := by
  obtain ⟨hg, hc⟩ := mkBuckets_inv bs
  constructor
  · intro h
    obtain ⟨bk, hbk, rfl⟩ := List.mem_map.1 h
    obtain ⟨h1, _, h3⟩ := hg bk hbk
    obtain ⟨x, hx⟩ := List.exists_mem_of_ne_nil _ h1
    exact ⟨x, h3 x hx, mkBuckets_wf bs bk hbk x hx⟩
  · rintro ⟨b, hb, rfl⟩
    obtain ⟨bk, hbk, h1, _⟩ := hc b hb
    exact List.mem_map.2 ⟨bk, hbk, h1⟩

/-- `mkBuckets_perm` without the assumption of pairwise different block texts -/
theorem mkBuckets_perm' {bs bs' : List Blk} (hp : bs.Perm bs') (hdet : ItemDet bs) :
    ((mkBuckets bs).map (·.1)).Perm ((mkBuckets bs').map (·.1)) ∧
    ∀ id blks blks', (id, blks) ∈ mkBuckets bs → (id, blks') ∈ mkBuckets bs' → blks.Perm blks' := by
  have hdet' : ItemDet bs' := fun b hb b' hb' h => hdet b (hp.mem_iff.2 hb) b' (hp.mem_iff.2 hb') h
  constructor
  · apply (List.perm_ext_iff_of_nodup (mkBuckets_ids_nodup bs) (mkBuckets_ids_nodup bs')).2
    intro id
    rw [mkBuckets_ids_iff, mkBuckets_ids_iff]
    constructor
    · rintro ⟨b, hb, h⟩; exact ⟨b, hp.mem_iff.1 hb, h⟩
    · rintro ⟨b, hb, h⟩; exact ⟨b, hp.mem_iff.2 hb, h⟩
  · intro id blks blks' h1 h2
    have n1 := nodup_of_items_nodup ((mkBuckets_inv bs).good _ h1).2.1
    have n2 := nodup_of_items_nodup ((mkBuckets_inv bs').good _ h2).2.1
    apply (List.perm_ext_iff_of_nodup n1 n2).2
    intro b
    rw [mkBuckets_mem_iff hdet h1 b, mkBuckets_mem_iff hdet' h2 b]
    simp only
    constructor
    · rintro ⟨hb, h⟩; exact ⟨hp.mem_iff.1 hb, h⟩
    · rintro ⟨hb, h⟩; exact ⟨hp.mem_iff.2 hb, h⟩

/-! ### the driver loop over flat buckets -/

/-- the bounds of the single candidate of a bucket -/
def famBL : List Blk → List (BKey × List Row)
  | [] => []
  | b1 :: rest => famB b1 rest

/-- the `?Sized` parameters of the single candidate of a bucket -/
def famUL : List Blk → List T
  | [] => []
  | b1 :: rest => famU b1 rest

/-- the bucket passes the candidate filter -/
def accOK (blks : List Blk) : Bool := accB (famBL blks)

/-- a group of the result is the pruned single candidate of its bucket -/
def GroupOf (bk : T × List Blk) (e : T × ABG × List Blk) : Prop :=
  e.1 = bk.1 ∧ e.2.2 = bk.2 ∧ e.2.1.bounds = pruneB (famBL bk.2) ∧ e.2.1.unsized = famUL bk.2

/-- the header matches itself (the `unwrap()` of lib.rs:836 does not panic) -/
def selfYes (c : T) : Bool := match sup c c with | .yes _ _ => true | _ => false
/-- if the header matches itself, then with identity bindings only -/
def selfWeak (c : T) : Bool := match sup c c with | .yes σ _ => allIdentity σ | _ => true

theorem selfIdentity_iff (c : T) : selfIdentity c = (selfYes c && selfWeak c) := by
  unfold selfIdentity selfYes selfWeak
  cases sup c c <;> simp

/-- a bucket with one block never asks the matcher -/
theorem flatSearch_single (c : T) (b1 : Blk) :
    flatSearch c [b1] [] = .ok [[(c, ⟨famB b1 [], famU b1 []⟩, [b1])]] := by
  have hnew : ABG.new b1 = ⟨newB b1, b1.unsized⟩ := by
    have h1 := new_bounds b1
    have h3 : (ABG.new b1).unsized = b1.unsized := rfl
    cases hg : ABG.new b1 with
    | mk bd un => rw [hg] at h1 h3; simp only at h1 h3; rw [h1, h3]
  rw [flatSearch]
  simp [flatSearch, hnew, famB, famU]

/-- a bucket with two or more blocks whose header does not match itself: the search panics -/
theorem flatSearch_panics {c : T} (h : selfYes c = false) (b1 b2 : Blk) (tl : List Blk) :
    flatSearch c (b1 :: b2 :: tl) [] = .error .unwrapNone := by
  rw [flatSearch]
  simp only [List.foldl_nil, List.any_nil, Bool.false_eq_true, if_false, List.nil_append]
  rw [flatSearch]
  unfold selfYes at h
  cases hs : sup c c with
  | yes σ l => rw [hs] at h; cases h
  | no => simp [hs]
  | panic => simp [hs]

/-- the search of this bucket panics: two or more blocks and a header that does not match itself -/
def bucketPanics (bk : T × List Blk) : Bool := decide (2 ≤ bk.2.length) && !selfYes bk.1

/-- what the bucket-by-bucket loop returns -/
def FlatOutcome (l : List (T × List Blk)) (acc : Groups) : ParseResult → Prop
  | .ok g => (∀ bk ∈ l, bucketPanics bk = false ∧ accOK bk.2 = true) ∧ ∃ g', g = acc ++ g' ∧ Forall2 GroupOf l g'
  | .unableToForm id => ∃ bk ∈ l, bk.1 = id ∧ accOK bk.2 = false
  | .panic _ => ∃ bk ∈ l, bucketPanics bk = true

theorem goFlat_outcome : ∀ (l : List (T × List Blk)) (acc : Groups),
    (∀ bk ∈ l, selfWeak bk.1 = true ∧ bk.2 ≠ []) → FlatOutcome l acc (goFlat l acc)
  | [], acc, _ => by
      rw [goFlat]
      exact ⟨fun bk hbk => (by cases hbk), [], (by simp), Forall2.nil⟩
  | (r, blks) :: rest, acc, h => by
      obtain ⟨hself, hne⟩ := h (r, blks) (by simp)
      simp only at hself hne
      cases blks with
      | nil => exact absurd rfl hne
      | cons b1 tl =>
        by_cases hpan : bucketPanics (r, b1 :: tl) = true
        · -- the bucket panics
          have h2 : selfYes r = false := by
            simp only [bucketPanics, Bool.and_eq_true, Bool.not_eq_true'] at hpan
            exact hpan.2
          cases tl with
          | nil => simp [bucketPanics] at hpan
          | cons b2 tl2 =>
            rw [goFlat, flatSearch_panics h2]
            exact ⟨(r, b1 :: b2 :: tl2), by simp, hpan⟩
        · have hpan' : bucketPanics (r, b1 :: tl) = false := by simpa using hpan
          have hs : flatSearch r (b1 :: tl) [] = .ok [[(r, ⟨famB b1 tl, famU b1 tl⟩, b1 :: tl)]] := by
            cases tl with
            | nil => exact flatSearch_single r b1
            | cons b2 tl2 =>
              apply flatSearch_root
              rw [selfIdentity_iff, hself]
              simp only [bucketPanics, List.length_cons] at hpan'
              have : (2 ≤ tl2.length + 1 + 1) := by omega
              simpa [this] using hpan'
          rw [goFlat, hs]
          simp only [List.filterMap_cons, List.filterMap_nil, filterCandidate_one]
          by_cases hacc : accB (famB b1 tl) = true
          · simp only [hacc, if_true, chooseCandidate_single]
            have ih := goFlat_outcome rest (acc ++ [(r, ABG.mk (pruneB (famB b1 tl)) (famU b1 tl), b1 :: tl)])
              (fun bk hbk => h bk (List.mem_cons_of_mem _ hbk))
            revert ih
            cases goFlat rest (acc ++ [(r, ABG.mk (pruneB (famB b1 tl)) (famU b1 tl), b1 :: tl)]) with
            | ok g =>
              rintro ⟨h1, g', hg, hf⟩
              refine ⟨?_, (r, ABG.mk (pruneB (famB b1 tl)) (famU b1 tl), b1 :: tl) :: g', by rw [hg]; simp,
                .cons ⟨rfl, rfl, rfl, rfl⟩ hf⟩
              intro bk hbk
              rcases List.mem_cons.1 hbk with rfl | hbk
              · exact ⟨hpan', hacc⟩
              · exact h1 bk hbk
            | unableToForm id =>
              rintro ⟨bk, hbk, h1, h2⟩
              exact ⟨bk, List.mem_cons_of_mem _ hbk, h1, h2⟩
            | panic e =>
              rintro ⟨bk, hbk, h1⟩
              exact ⟨bk, List.mem_cons_of_mem _ hbk, h1⟩
          · simp only [hacc, Bool.false_eq_true, if_false, chooseCandidate]
            exact ⟨(r, b1 :: tl), by simp, rfl, by simpa [accOK, famBL] using hacc⟩

/-- executable side condition of the flat order theorems: every header matches itself with identity bindings only,
    and every trait path in the bounds can be compared by `TraitBound::eq` -/
def flatWF (items : List T) : Bool :=
  (items.map mkBlk).all (fun b => selfIdentity (groupIdOf b.item) && wfBlk b)

/-- the weaker side condition that suffices for acceptance and for the families: a header that matches itself does so
    with identity bindings only (it may also make the matcher panic), and the trait paths can be compared -/
def flatWF0 (items : List T) : Bool :=
  (items.map mkBlk).all (fun b => selfWeak (groupIdOf b.item) && wfBlk b)

theorem flatWF0_of_flatWF {items : List T} (h : flatWF items = true) : flatWF0 items = true := by
  simp only [flatWF, flatWF0, List.all_eq_true, Bool.and_eq_true] at h ⊢
  intro b hb
  have := (h b hb).1
  rw [selfIdentity_iff, Bool.and_eq_true] at this
  exact ⟨this.2, (h b hb).2⟩

/-- facts about the buckets of a well-formed invocation -/
theorem buckets_facts (items : List T) (hwf : flatWF0 items = true) :
    ∀ bk ∈ mkBuckets (items.map mkBlk), selfWeak bk.1 = true ∧ bk.2 ≠ [] ∧ bk.2.Nodup ∧
      (∀ b ∈ bk.2, wfBlk b = true) ∧ ∀ b, b ∈ bk.2 ↔ b ∈ items.map mkBlk ∧ groupIdOf b.item = bk.1 := by
  intro bk hbk
  obtain ⟨h1, h2, h3⟩ := (mkBuckets_inv (items.map mkBlk)).good bk hbk
  simp only [flatWF0, List.all_eq_true, Bool.and_eq_true] at hwf
  obtain ⟨x, hx⟩ := List.exists_mem_of_ne_nil _ h1
  have hxid := mkBuckets_wf _ bk hbk x hx
  exact ⟨hxid ▸ (hwf x (h3 x hx)).1, h1, nodup_of_items_nodup h2, fun b hb => (hwf b (h3 b hb)).2,
    mkBuckets_mem_iff (itemDet_mkBlk items) hbk⟩

/-- under the full side condition no bucket panics -/
theorem buckets_no_panic (items : List T) (hwf : flatWF items = true) :
    ∀ bk ∈ mkBuckets (items.map mkBlk), bucketPanics bk = false := by
  intro bk hbk
  obtain ⟨b, hb, hid⟩ := (mkBuckets_ids_iff _ bk.1).1 (List.mem_map.2 ⟨bk, hbk, rfl⟩)
  simp only [flatWF, List.all_eq_true, Bool.and_eq_true] at hwf
  have := (hwf b hb).1
  rw [hid, selfIdentity_iff, Bool.and_eq_true] at this
  simp [bucketPanics, this.1]

/-- the outcome of `parseGroups` on a flat, well-formed invocation -/
theorem parseGroups_flat_outcome (items : List T) (hms : msPairs ((mkBuckets (items.map mkBlk)).map (·.1)) = [])
    (hwf : flatWF0 items = true) :
    FlatOutcome (mkBuckets (items.map mkBlk)) [] (parseGroups items) := by
  rw [parseGroups_flat items (no_subsets_of_msPairs_nil hms)]
  apply goFlat_outcome
  intro bk hbk
  obtain ⟨h1, h2, _⟩ := buckets_facts items hwf bk hbk
  exact ⟨h1, h2⟩

/-- no bucket panics and every bucket passes the candidate filter -/
def AllOK (items : List T) : Prop :=
  ∀ bk ∈ mkBuckets (items.map mkBlk), bucketPanics bk = false ∧ accOK bk.2 = true

theorem parseGroups_flat_ok_iff (items : List T) (hms : msPairs ((mkBuckets (items.map mkBlk)).map (·.1)) = [])
    (hwf : flatWF0 items = true) :
    (∃ g, parseGroups items = .ok g) ↔ AllOK items := by
  have ho := parseGroups_flat_outcome items hms hwf
  cases hr : parseGroups items with
  | ok g =>
    rw [hr] at ho
    exact ⟨fun _ => ho.1, fun _ => ⟨g, rfl⟩⟩
  | unableToForm id =>
    rw [hr] at ho
    obtain ⟨bk, hbk, _, hno⟩ := ho
    exact ⟨fun ⟨g, h⟩ => (by cases h), fun h => by rw [(h bk hbk).2] at hno; cases hno⟩
  | panic e =>
    rw [hr] at ho
    obtain ⟨bk, hbk, hno⟩ := ho
    exact ⟨fun ⟨g, h⟩ => (by cases h), fun h => by rw [(h bk hbk).1] at hno; cases hno⟩

theorem parseGroups_flat_kinds (items : List T) (hms : msPairs ((mkBuckets (items.map mkBlk)).map (·.1)) = [])
    (hwf : flatWF items = true) :
    ((∃ g, parseGroups items = .ok g) ↔ AllOK items) ∧
    ((∃ id, parseGroups items = .unableToForm id) ↔ ¬ AllOK items) ∧
    (∀ e, parseGroups items ≠ .panic e) := by
  have hwf0 := flatWF0_of_flatWF hwf
  have hiff := parseGroups_flat_ok_iff items hms hwf0
  have ho := parseGroups_flat_outcome items hms hwf0
  have hnp : ∀ e, parseGroups items ≠ .panic e := by
    intro e he
    rw [he] at ho
    obtain ⟨bk, hbk, hno⟩ := ho
    rw [buckets_no_panic items hwf bk hbk] at hno
    cases hno
  refine ⟨hiff, ⟨fun ⟨id, h⟩ hall => ?_, fun hnot => ?_⟩, hnp⟩
  · obtain ⟨g, hg⟩ := hiff.2 hall
    rw [h] at hg; cases hg
  · cases hr : parseGroups items with
    | ok g => exact absurd (hiff.1 ⟨g, hr⟩) hnot
    | unableToForm id => exact ⟨id, rfl⟩
    | panic e => exact absurd hr (hnp e)

theorem accOK_perm {blks blks' : List Blk} (hp : blks.Perm blks') (hw : ∀ b ∈ blks, wfBlk b = true) (hnd : blks.Nodup) :
    accOK blks = accOK blks' := by
  cases blks with
  | nil => rw [List.nil_perm.1 hp]
  | cons b1 tl =>
    cases blks' with
    | nil => exact absurd (List.perm_nil.1 hp) (by simp)
    | cons b1' tl' =>
      have hw' : ∀ b ∈ b1' :: tl', wfBlk b = true := fun b hb => hw b (hp.mem_iff.2 hb)
      simp only [accOK, famBL]
      rw [famB_spec b1 tl hw, famB_spec b1' tl' hw']
      exact accB_perm hp hw (lastB_mem b1 tl) (lastB_mem b1' tl') hnd

theorem msPairs_nil_perm {ids ids' : List T} (hp : ids.Perm ids') (h : msPairs ids = []) : msPairs ids' = [] :=
  msPairs_nil_iff.2 (fun g1 h1 g2 h2 hne => msPairs_nil_iff.1 h g1 (hp.mem_iff.2 h1) g2 (hp.mem_iff.2 h2) hne)

/-- the hypotheses of the flat theorems carry over to any permutation of the blocks -/
theorem flat_hyps_perm0 {items items' : List T} (hp : items.Perm items')
    (hms : msPairs ((mkBuckets (items.map mkBlk)).map (·.1)) = []) (hwf : flatWF0 items = true) :
    msPairs ((mkBuckets (items'.map mkBlk)).map (·.1)) = [] ∧ flatWF0 items' = true := by
  have hpb : (items.map mkBlk).Perm (items'.map mkBlk) := hp.map _
  refine ⟨msPairs_nil_perm (mkBuckets_perm' hpb (itemDet_mkBlk items)).1 hms, ?_⟩
  simp only [flatWF0, List.all_eq_true] at hwf ⊢
  exact fun b hb => hwf b (hpb.mem_iff.2 hb)

theorem flat_hyps_perm {items items' : List T} (hp : items.Perm items')
    (hms : msPairs ((mkBuckets (items.map mkBlk)).map (·.1)) = []) (hwf : flatWF items = true) :
    msPairs ((mkBuckets (items'.map mkBlk)).map (·.1)) = [] ∧ flatWF items' = true := by
  have hpb : (items.map mkBlk).Perm (items'.map mkBlk) := hp.map _
  refine ⟨msPairs_nil_perm (mkBuckets_perm' hpb (itemDet_mkBlk items)).1 hms, ?_⟩
  simp only [flatWF, List.all_eq_true] at hwf ⊢
  exact fun b hb => hwf b (hpb.mem_iff.2 hb)

theorem allOK_perm {items items' : List T} (hp : items.Perm items') (hwf : flatWF0 items = true) : AllOK items → AllOK items' := by
  intro h bk' hbk'
  have hpb : (items.map mkBlk).Perm (items'.map mkBlk) := hp.map _
  obtain ⟨hids, hblks⟩ := mkBuckets_perm' hpb (itemDet_mkBlk items)
  have : bk'.1 ∈ (mkBuckets (items.map mkBlk)).map (·.1) := hids.mem_iff.2 (List.mem_map.2 ⟨bk', hbk', rfl⟩)
  obtain ⟨bk, hbk, hid⟩ := List.mem_map.1 this
  have hperm : bk.2.Perm bk'.2 := hblks bk.1 bk.2 bk'.2 hbk (by rw [hid]; exact hbk')
  obtain ⟨_, _, hn, hw, _⟩ := buckets_facts items hwf bk hbk
  obtain ⟨h1, h2⟩ := h bk hbk
  refine ⟨?_, by rw [← accOK_perm hperm hw hn]; exact h2⟩
  simp only [bucketPanics] at h1 ⊢
  rw [← hid, ← hperm.length_eq]
  exact h1

/-- acceptance does not depend on the order of the blocks (headers on which the matcher panics allowed) -/
theorem flat_acceptance_perm0 {items items' : List T} (hp : items.Perm items')
    (hms : msPairs ((mkBuckets (items.map mkBlk)).map (·.1)) = []) (hwf : flatWF0 items = true) :
    (∃ g, parseGroups items = .ok g) ↔ (∃ g', parseGroups items' = .ok g') := by
  obtain ⟨hms', hwf'⟩ := flat_hyps_perm0 hp hms hwf
  rw [parseGroups_flat_ok_iff items hms hwf, parseGroups_flat_ok_iff items' hms' hwf']
  exact ⟨allOK_perm hp hwf, allOK_perm hp.symm hwf'⟩

/-- acceptance, and the kind of rejection, do not depend on the order of the blocks -/
theorem flat_acceptance_perm {items items' : List T} (hp : items.Perm items')
    (hms : msPairs ((mkBuckets (items.map mkBlk)).map (·.1)) = []) (hwf : flatWF items = true) :
    ((∃ g, parseGroups items = .ok g) ↔ (∃ g', parseGroups items' = .ok g')) ∧
    ((∃ id, parseGroups items = .unableToForm id) ↔ (∃ id', parseGroups items' = .unableToForm id')) ∧
    (∀ e, parseGroups items ≠ .panic e) ∧ (∀ e, parseGroups items' ≠ .panic e) := by
  obtain ⟨hms', hwf'⟩ := flat_hyps_perm hp hms hwf
  obtain ⟨a1, a2, a3⟩ := parseGroups_flat_kinds items hms hwf
  obtain ⟨b1, b2, b3⟩ := parseGroups_flat_kinds items' hms' hwf'
  have hiff : AllOK items ↔ AllOK items' :=
    ⟨allOK_perm hp (flatWF0_of_flatWF hwf), allOK_perm hp.symm (flatWF0_of_flatWF hwf')⟩
  refine ⟨?_, ?_, a3, b3⟩
  · rw [a1, b1, hiff]
  · rw [a2, b2, hiff]

/-! ### the families do not depend on the order of the blocks -/

theorem zip_map_self {α β : Type} (f : α → β) : ∀ (l : List α), l.zip (l.map f) = l.map (fun a => (a, f a))
  | [] => rfl
  | a :: l => by simp [zip_map_self f l]

/-- every key of the family of one order is, up to spelling, a key of the family of the other order -/
theorem famSpec_corr {blks blks' : List Blk} {l l' : Blk} (hsub : ∀ x, x ∈ blks ↔ x ∈ blks')
    (hw : ∀ b ∈ blks, wfBlk b = true) (hl : l ∈ blks) (hl' : l' ∈ blks') :
    ∀ kr ∈ famSpec blks l, ∃ kr' ∈ famSpec blks' l', keyEq kr.1 kr'.1 = true := by
  intro kr hmem
  obtain ⟨e0, he0, hkey, rfl⟩ := mem_famSpec.1 hmem
  have hw' : ∀ b ∈ blks', wfBlk b = true := fun b hb => hw b ((hsub b).2 hb)
  have hwk : WfKey e0.1 := wfBlk_key (hw l hl) he0
  have hl'b : l' ∈ blks := (hsub l').2 hl'
  have hsome := hasKey_iff.1 hkey l' hl'b
  unfold rowOf at hsome
  cases hf : findKey (otherFold l') e0.1 with
  | none => rw [hf] at hsome; cases hsome
  | some r =>
    obtain ⟨k', hmem', hke⟩ := findKey_some_mem hf
    have hwk' : WfKey k' := wfBlk_key (hw l' hl'b) hmem'
    have hn : nk k' = nk e0.1 := (keyEq_iff hwk' hwk).1 hke
    refine ⟨(k', blks'.map (fun b => rowD b k')), mem_famSpec.2 ⟨(k', r), hmem', ?_, rfl⟩, (keyEq_iff hwk hwk').2 hn.symm⟩
    show hasKey blks' k' = true
    rw [hasKey_congr hw' hwk' hwk hn]
    exact hasKey_iff.2 (fun x hx => hasKey_iff.1 hkey x ((hsub x).2 hx))

/-- every key of the pruned family of one order is, up to spelling, a key of the pruned family of the other order,
    with the same row for every member -/
theorem pruneB_famSpec_corr {blks blks' : List Blk} {l l' : Blk} (hp : blks.Perm blks')
    (hw : ∀ b ∈ blks, wfBlk b = true) (hl : l ∈ blks) (hl' : l' ∈ blks') :
    ∀ kr ∈ pruneB (famSpec blks l), ∃ kr' ∈ pruneB (famSpec blks' l'),
      keyEq kr.1 kr'.1 = true ∧ (blks.zip kr.2).Perm (blks'.zip kr'.2) := by
  intro kr hkr
  obtain ⟨hmem, hany⟩ := List.mem_filter.1 hkr
  obtain ⟨e0, he0, hkey, rfl⟩ := mem_famSpec.1 hmem
  have hsub : ∀ x, x ∈ blks ↔ x ∈ blks' := fun x => hp.mem_iff
  have hw' : ∀ b ∈ blks', wfBlk b = true := fun b hb => hw b ((hsub b).2 hb)
  have hwk : WfKey e0.1 := wfBlk_key (hw l hl) he0
  have hl'b : l' ∈ blks := (hsub l').2 hl'
  have hsome := hasKey_iff.1 hkey l' hl'b
  unfold rowOf at hsome
  cases hf : findKey (otherFold l') e0.1 with
  | none => rw [hf] at hsome; cases hsome
  | some r =>
    obtain ⟨k', hmem', hke⟩ := findKey_some_mem hf
    have hwk' : WfKey k' := wfBlk_key (hw l' hl'b) hmem'
    have hn : nk k' = nk e0.1 := (keyEq_iff hwk' hwk).1 hke
    have hrows : ∀ b ∈ blks, rowD b k' = rowD b e0.1 := fun b hb => rowD_congr (hw b hb) hwk' hwk hn
    have hzip : (blks.zip (blks.map (fun b => rowD b e0.1))).Perm (blks'.zip (blks'.map (fun b => rowD b k'))) := by
      rw [zip_map_self, zip_map_self]
      have h1 : blks.map (fun b => (b, rowD b e0.1)) = blks.map (fun b => (b, rowD b k')) :=
        List.map_congr_left (fun b hb => by rw [hrows b hb])
      rw [h1]
      exact hp.map _
    refine ⟨(k', blks'.map (fun b => rowD b k')), ?_, (keyEq_iff hwk hwk').2 hn.symm, hzip⟩
    unfold pruneB
    rw [List.mem_filter]
    refine ⟨mem_famSpec.2 ⟨(k', r), hmem', ?_, rfl⟩, ?_⟩
    · show hasKey blks' k' = true
      rw [hasKey_congr hw' hwk' hwk hn]
      exact hasKey_iff.2 (fun x hx => hasKey_iff.1 hkey x ((hsub x).2 hx))
    · simp only [List.any_eq_true, List.mem_map] at hany ⊢
      obtain ⟨_, ⟨b, hb, rfl⟩, hne⟩ := hany
      exact ⟨rowD b k', ⟨b, (hsub b).1 hb, rfl⟩, by rw [hrows b hb]; exact hne⟩

theorem nodup_nk_of_distinct {B : List (BKey × List Row)} (hd : DistinctKeys (B.map (·.1))) (hw : ∀ e ∈ B, WfKey e.1) :
    (B.map (fun e => nk e.1)).Nodup := by
  unfold DistinctKeys at hd
  rw [List.pairwise_map] at hd
  rw [List.nodup_iff_pairwise_ne, List.pairwise_map]
  refine List.Pairwise.imp_of_mem ?_ hd
  intro a b ha hb h e
  rw [(keyEq_iff (hw a ha) (hw b hb)).2 e] at h
  cases h

theorem pruneB_famSpec_nodup {blks : List Blk} {l : Blk} (hwl : wfBlk l = true) :
    ((pruneB (famSpec blks l)).map (fun e => nk e.1)).Nodup := by
  apply nodup_nk_of_distinct
  · have h1 := famSpec_distinct blks l
    unfold DistinctKeys at h1 ⊢
    exact h1.sublist (List.Sublist.map _ List.filter_sublist)
  · intro e he
    obtain ⟨e0, he0, _, rfl⟩ := mem_famSpec.1 (List.mem_filter.1 he).1
    exact wfBlk_key hwl he0

/-- the keys of the pruned families of two orders agree up to spelling and order: their normal forms (bounded type,
    dispatch key of the trait path) are permutations of each other -/
theorem pruneB_famSpec_keys_perm {blks blks' : List Blk} {l l' : Blk} (hp : blks.Perm blks')
    (hw : ∀ b ∈ blks, wfBlk b = true) (hl : l ∈ blks) (hl' : l' ∈ blks') :
    ((pruneB (famSpec blks l)).map (fun e => nk e.1)).Perm ((pruneB (famSpec blks' l')).map (fun e => nk e.1)) := by
  have hw' : ∀ b ∈ blks', wfBlk b = true := fun b hb => hw b (hp.mem_iff.2 hb)
  have hwk : ∀ {bs : List Blk} {x : Blk}, (∀ b ∈ bs, wfBlk b = true) → x ∈ bs → ∀ e ∈ pruneB (famSpec bs x), WfKey e.1 := by
    intro bs x hbs hx e he
    obtain ⟨e0, he0, _, rfl⟩ := mem_famSpec.1 (List.mem_filter.1 he).1
    exact wfBlk_key (hbs x hx) he0
  apply (List.perm_ext_iff_of_nodup (pruneB_famSpec_nodup (hw l hl)) (pruneB_famSpec_nodup (hw' l' hl'))).2
  intro x
  simp only [List.mem_map]
  constructor
  · rintro ⟨kr, hkr, rfl⟩
    obtain ⟨kr', hkr', hke, _⟩ := pruneB_famSpec_corr hp hw hl hl' kr hkr
    exact ⟨kr', hkr', ((keyEq_iff (hwk hw hl kr hkr) (hwk hw' hl' kr' hkr')).1 hke).symm⟩
  · rintro ⟨kr', hkr', rfl⟩
    obtain ⟨kr, hkr, hke, _⟩ := pruneB_famSpec_corr hp.symm hw' hl' hl kr' hkr'
    exact ⟨kr, hkr, ((keyEq_iff (hwk hw' hl' kr' hkr') (hwk hw hl kr hkr)).1 hke).symm⟩

theorem forall₂_left {α β : Type} {R : α → β → Prop} {l1 : List α} {l2 : List β} (h : Forall2 R l1 l2) :
    ∀ a ∈ l1, ∃ b ∈ l2, R a b := by
  induction h with
  | nil => intro a ha; cases ha
  | cons hab _ ih =>
    intro a ha
    rcases List.mem_cons.1 ha with rfl | ha
    · exact ⟨_, by simp, hab⟩
    · obtain ⟨b, hb, hr⟩ := ih a ha
      exact ⟨b, List.mem_cons_of_mem _ hb, hr⟩

theorem groupOf_ids {l : List (T × List Blk)} {g : Groups} (h : Forall2 GroupOf l g) : g.map (·.1) = l.map (·.1) := by
  induction h with
  | nil => rfl
  | cons hab _ ih => simp only [List.map_cons, ih, hab.1]

/-- an accepted flat invocation: group by group the pruned single candidates of the buckets, in bucket order -/
theorem parseGroups_flat_groups {items : List T} {g : Groups} (h : parseGroups items = .ok g)
    (hms : msPairs ((mkBuckets (items.map mkBlk)).map (·.1)) = []) (hwf : flatWF0 items = true) : Forall2 GroupOf (mkBuckets (items.map mkBlk)) g := by
  have ho := parseGroups_flat_outcome items hms hwf
  rw [h] at ho
  obtain ⟨_, g', hg, hf⟩ := ho
  rw [hg]; exact hf

theorem famBL_spec {blks : List Blk} (hne : blks ≠ []) (hw : ∀ b ∈ blks, wfBlk b = true) :
    ∃ l ∈ blks, famBL blks = famSpec blks l ∧ blks.getLast? = some l := by
  cases blks with
  | nil => exact absurd rfl hne
  | cons b1 tl =>
    refine ⟨lastB b1 tl, lastB_mem b1 tl, famB_spec b1 tl hw, ?_⟩
    have : ∀ (l : Blk) (rest : List Blk), (l :: rest).getLast? = some (lastB l rest) := by
      intro l rest
      induction rest generalizing l with
      | nil => rfl
      | cons b rest ih => rw [List.getLast?_cons_cons, ih]; rfl
    exact this b1 tl

/-! ### the `?Sized` parameters of the single candidate, as a set -/

theorem mem_joinU {B : List (BKey × List Row)} {U : List T} {b : Blk} {p : T} :
    p ∈ joinU B U b ↔ (p ∈ U ∨ p ∈ b.unsized) ∧ p ∈ (joinB B b).map (fun e => e.1.1) := by
  unfold joinU
  simp only [List.mem_filter, List.mem_eraseDups, List.mem_append, List.contains_iff_mem]

theorem keyEq_fst {a b : BKey} (h : keyEq a b = true) : a.1 = b.1 := by
  unfold keyEq at h
  simp only [Bool.and_eq_true, beq_iff_eq] at h
  exact h.1

theorem joinB_params_sub {B : List (BKey × List Row)} {b : Blk} {p : T}
    (h : p ∈ (joinB B b).map (fun e => e.1.1)) : p ∈ B.map (fun e => e.1.1) := by
  obtain ⟨e, he, rfl⟩ := List.mem_map.1 h
  unfold joinB at he
  obtain ⟨e0, _, h0⟩ := List.mem_filterMap.1 he
  cases hf : findKey B e0.1 with
  | none => rw [hf] at h0; cases h0
  | some rows =>
    rw [hf] at h0
    cases h0
    obtain ⟨k', hmem, hke⟩ := findKey_some_mem hf
    exact List.mem_map.2 ⟨(k', rows), hmem, keyEq_fst hke⟩

theorem foldl_joinBU_unsized : ∀ (rest pre : List Blk) (B : List (BKey × List Row)) (U : List T),
    (∀ p, p ∈ U → ∃ b ∈ pre, p ∈ b.unsized) →
    (∀ p, (∃ b ∈ pre, p ∈ b.unsized) → p ∈ B.map (fun e => e.1.1) → p ∈ U) →
    (rest ≠ [] ∨ ∀ p ∈ U, p ∈ B.map (fun e => e.1.1)) →
    ∀ p, p ∈ (rest.foldl joinBU (B, U)).2 ↔
      (∃ b ∈ pre ++ rest, p ∈ b.unsized) ∧ p ∈ (rest.foldl joinB B).map (fun e => e.1.1)
  | [], pre, B, U, h1, h2, h3, p => by
      simp only [List.foldl_nil, List.append_nil]
      rcases h3 with h3 | h3
      · exact absurd rfl h3
      · exact ⟨fun hp => ⟨h1 p hp, h3 p hp⟩, fun ⟨ha, hb⟩ => h2 p ha hb⟩
  | b :: rest, pre, B, U, h1, h2, _, p => by
      rw [List.foldl_cons, List.foldl_cons]
      have := foldl_joinBU_unsized rest (pre ++ [b]) (joinB B b) (joinU B U b)
        (by
          intro q hq
          obtain ⟨hq1, _⟩ := mem_joinU.1 hq
          rcases hq1 with hq1 | hq1
          · obtain ⟨x, hx, hxq⟩ := h1 q hq1
            exact ⟨x, List.mem_append.2 (Or.inl hx), hxq⟩
          · exact ⟨b, by simp, hq1⟩)
        (by
          rintro q ⟨x, hx, hxq⟩ hqp
          refine mem_joinU.2 ⟨?_, hqp⟩
          rcases List.mem_append.1 hx with hx | hx
          · exact Or.inl (h2 q ⟨x, hx, hxq⟩ (joinB_params_sub hqp))
          · simp only [List.mem_singleton] at hx
            subst hx
            exact Or.inr hxq)
        (Or.inr (fun q hq => (mem_joinU.1 hq).2)) p
      simpa [joinBU] using this

theorem famU_mem {b1 : Blk} {rest : List Blk} (hne : rest ≠ []) (p : T) :
    p ∈ famU b1 rest ↔ (∃ b ∈ b1 :: rest, p ∈ b.unsized) ∧ p ∈ (famB b1 rest).map (fun e => e.1.1) := by
  unfold famU famB
  have := foldl_joinBU_unsized rest [b1] (newB b1) b1.unsized
    (fun q hq => ⟨b1, by simp, hq⟩)
    (by
      rintro q ⟨x, hx, hxq⟩ _
      simp only [List.mem_singleton] at hx
      subst hx
      exact hxq)
    (Or.inl hne) p
  simpa using this

/-- the `?Sized` parameters of the single candidate do not depend on the order of the blocks, as a set -/
theorem famUL_perm {blks blks' : List Blk} (hp : blks.Perm blks') (hw : ∀ b ∈ blks, wfBlk b = true) (p : T) :
    p ∈ famUL blks → p ∈ famUL blks' := by
  have hsub : ∀ x, x ∈ blks ↔ x ∈ blks' := fun x => hp.mem_iff
  have hw' : ∀ b ∈ blks', wfBlk b = true := fun b hb => hw b ((hsub b).2 hb)
  cases blks with
  | nil => rw [List.nil_perm.1 hp]; exact id
  | cons b1 rest =>
    cases blks' with
    | nil => exact absurd (List.perm_nil.1 hp) (by simp)
    | cons b1' rest' =>
      have hlen := hp.length_eq
      simp only [List.length_cons, Nat.add_right_cancel_iff] at hlen
      by_cases hr : rest = []
      · subst hr
        have hr' : rest' = [] := List.length_eq_zero_iff.1 hlen.symm
        subst hr'
        have : b1' = b1 := by simpa using (hsub b1').2 (by simp)
        subst this
        exact id
      · have hr' : rest' ≠ [] := by
          intro h; rw [h] at hlen; exact hr (List.length_eq_zero_iff.1 hlen)
        simp only [famUL]
        rw [famU_mem hr, famU_mem hr', famB_spec b1 rest hw, famB_spec b1' rest' hw']
        rintro ⟨⟨b, hb, hbp⟩, hpar⟩
        refine ⟨⟨b, (hsub b).1 hb, hbp⟩, ?_⟩
        obtain ⟨kr, hkr, rfl⟩ := List.mem_map.1 hpar
        obtain ⟨kr', hkr', hke⟩ := famSpec_corr hsub hw (lastB_mem b1 rest) (lastB_mem b1' rest') kr hkr
        exact List.mem_map.2 ⟨kr', hkr', (keyEq_fst hke).symm⟩

/-- the families of two orders of the same blocks correspond: same header, the same members up to order, the same
    keys up to spelling and order, and under corresponding keys every member has the same row -/
theorem flat_families_perm {items items' : List T} {g g' : Groups} (hp : items.Perm items')
    (hms : msPairs ((mkBuckets (items.map mkBlk)).map (·.1)) = []) (hwf : flatWF0 items = true)
    (h : parseGroups items = .ok g) (h' : parseGroups items' = .ok g') :
    (g.map (·.1)).Perm (g'.map (·.1)) ∧ (g.map (·.1)).Nodup ∧
    ∀ e ∈ g, ∃ e' ∈ g', e'.1 = e.1 ∧ e.2.2.Perm e'.2.2 ∧
      (e.2.1.bounds.map (fun kr => nk kr.1)).Perm (e'.2.1.bounds.map (fun kr => nk kr.1)) ∧
      (∀ kr ∈ e.2.1.bounds, ∃ kr' ∈ e'.2.1.bounds, keyEq kr.1 kr'.1 = true ∧ (e.2.2.zip kr.2).Perm (e'.2.2.zip kr'.2)) ∧
      ∀ p, p ∈ e.2.1.unsized ↔ p ∈ e'.2.1.unsized := by
  obtain ⟨hms', hwf'⟩ := flat_hyps_perm0 hp hms hwf
  have hf := parseGroups_flat_groups h hms hwf
  have hf' := parseGroups_flat_groups h' hms' hwf'
  have hpb : (items.map mkBlk).Perm (items'.map mkBlk) := hp.map _
  obtain ⟨hids, hblks⟩ := mkBuckets_perm' hpb (itemDet_mkBlk items)
  refine ⟨by rw [groupOf_ids hf, groupOf_ids hf']; exact hids, by rw [groupOf_ids hf]; exact mkBuckets_ids_nodup _, ?_⟩
  intro e he
  obtain ⟨bk, hbk, h1, h2, h3, h4⟩ := forall₂_right hf e he
  have : bk.1 ∈ (mkBuckets (items'.map mkBlk)).map (·.1) := hids.mem_iff.1 (List.mem_map.2 ⟨bk, hbk, rfl⟩)
  obtain ⟨bk', hbk', hid⟩ := List.mem_map.1 this
  obtain ⟨e', he', h1', h2', h3', h4'⟩ := forall₂_left hf' bk' hbk'
  have hperm : bk.2.Perm bk'.2 := hblks bk.1 bk.2 bk'.2 hbk (by rw [← hid]; exact hbk')
  obtain ⟨_, hne, _, hw, _⟩ := buckets_facts items hwf bk hbk
  obtain ⟨_, hne', _, hw', _⟩ := buckets_facts items' hwf' bk' hbk'
  obtain ⟨l, hl, hspec, _⟩ := famBL_spec hne hw
  obtain ⟨l', hl', hspec', _⟩ := famBL_spec hne' hw'
  refine ⟨e', he', by rw [h1', h1, hid], by rw [h2, h2']; exact hperm, ?_, ?_, ?_⟩
  · rw [h3, h3', hspec, hspec']
    exact pruneB_famSpec_keys_perm hperm hw hl hl'
  · rw [h2, h2', h3, h3', hspec, hspec']
    exact pruneB_famSpec_corr hperm hw hl hl'
  · intro p
    rw [h4, h4']
    exact ⟨famUL_perm hperm hw p, famUL_perm hperm.symm hw' p⟩

/-- an accepted family, order-free: the members are the input blocks with the header (each once); the keys are the
    keys of the last member that every member has and for which some member has a binding; the rows are the members'
    own rows -/
theorem flat_family_char {items : List T} {g : Groups} (h : parseGroups items = .ok g)
    (hms : msPairs ((mkBuckets (items.map mkBlk)).map (·.1)) = []) (hwf : flatWF0 items = true) :
    ∀ e ∈ g, e.2.2.Nodup ∧ (∀ b, b ∈ e.2.2 ↔ b ∈ items.map mkBlk ∧ groupIdOf b.item = e.1) ∧
      ∃ l, e.2.2.getLast? = some l ∧
        ∀ kr, kr ∈ e.2.1.bounds ↔
          (∃ r, (kr.1, r) ∈ otherFold l) ∧ hasKey e.2.2 kr.1 = true ∧ kr.2 = e.2.2.map (fun b => rowD b kr.1) ∧
            ∃ b ∈ e.2.2, rowD b kr.1 ≠ [] := by
  intro e he
  have hf := parseGroups_flat_groups h hms hwf
  obtain ⟨bk, hbk, h1, h2, h3, h4⟩ := forall₂_right hf e he
  obtain ⟨_, hne, hnodup, hw, hfil⟩ := buckets_facts items hwf bk hbk
  obtain ⟨l, _, hspec, hlast⟩ := famBL_spec hne hw
  refine ⟨by rw [h2]; exact hnodup, by rw [h2, h1]; exact hfil, l, by rw [h2]; exact hlast, ?_⟩
  intro kr
  rw [h3, h2, hspec]
  unfold pruneB
  rw [List.mem_filter, mem_famSpec]
  simp only [List.any_eq_true, Bool.not_eq_true', List.isEmpty_eq_false_iff]
  constructor
  · rintro ⟨⟨e0, he0, hk, rfl⟩, r, hr, hrne⟩
    obtain ⟨b, hb, rfl⟩ := List.mem_map.1 hr
    exact ⟨⟨e0.2, he0⟩, hk, rfl, b, hb, hrne⟩
  · rintro ⟨⟨r, hr⟩, hk, hrows, b, hb, hrne⟩
    refine ⟨⟨(kr.1, r), hr, hk, ?_⟩, rowD b kr.1, ?_, hrne⟩
    · exact Prod.ext rfl hrows
    · rw [hrows]; exact List.mem_map.2 ⟨b, hb, rfl⟩

/-- with pairwise different block texts the members of a family are the blocks with its header, in input order -/
theorem flat_family_members_filter {items : List T} {g : Groups} (h : parseGroups items = .ok g)
    (hms : msPairs ((mkBuckets (items.map mkBlk)).map (·.1)) = []) (hwf : flatWF0 items = true)
    (hnd : ((items.map mkBlk).map (·.item)).Nodup) :
    ∀ e ∈ g, e.2.2 = (items.map mkBlk).filter (fun b => groupIdOf b.item == e.1) := by
  intro e he
  have hf := parseGroups_flat_groups h hms hwf
  obtain ⟨bk, hbk, h1, h2, _⟩ := forall₂_right hf e he
  rw [h2, h1]
  exact (mkBuckets_char _ hnd).1 bk hbk

end DI
