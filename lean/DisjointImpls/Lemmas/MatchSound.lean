/-
  Helper lemmas for the C09 theorems (`Props/C09.lean`): substitutions (`lookup`, `merge`, `Ext`),
  instantiation / erasure, the well-formedness side conditions, an inversion lemma for `supS`,
  and the two inductions over the matcher (`supS_light`: keys / entries, `supS_good`: soundness).
  Core-only.
-/
import DisjointImpls.Match
namespace DI

/-! ### Induction principle for the nested tree type -/

theorem T.ind {P : T → Prop} (tp : ∀ n, P (.tparam n)) (ep : ∀ n, P (.eparam n))
    (nd : ∀ k as ks, (∀ t ∈ ks, P t) → P (.node k as ks)) : ∀ t, P t := by
  intro t
  refine T.rec (motive_1 := P) (motive_2 := fun ks => ∀ t ∈ ks, P t) tp ep
    (fun k as ks ih => nd k as ks ih) ?_ ?_ t
  · intro t h; cases h
  · intro hd tl ih1 ih2 t ht
    cases ht with
    | head => exact ih1
    | tail _ h => exact ih2 t h

/-! ### `lookup`, `merge`, `Ext` -/

/-- σ' extends σ: every binding of σ is a binding of σ'. -/
def Ext (σ σ' : Subst) : Prop := ∀ n v, lookup σ n = some v → lookup σ' n = some v

theorem Ext.refl (σ : Subst) : Ext σ σ := fun _ _ h => h
theorem Ext.trans {σ τ ρ : Subst} (h1 : Ext σ τ) (h2 : Ext τ ρ) : Ext σ ρ :=
  fun n v h => h2 n v (h1 n v h)
theorem Ext.nil (σ : Subst) : Ext [] σ := fun n v h => by simp [lookup] at h

theorem lookup_append (σ τ : Subst) (n : String) :
    lookup (σ ++ τ) n = (lookup σ n).or (lookup τ n) := by
  induction σ with
  | nil => simp [lookup]
  | cons h t ih => obtain ⟨m, v⟩ := h; simp [lookup]; split <;> simp [*]

theorem lookup_mem : ∀ (σ : Subst) (n : String) (v : Val), lookup σ n = some v → (n, v) ∈ σ
  | [], _, _, h => by simp [lookup] at h
  | (m, w) :: r, n, v, h => by
      simp only [lookup] at h
      split at h
      · next hm => subst hm; cases h; simp
      · exact List.mem_cons_of_mem _ (lookup_mem r n v h)

theorem lookup_none_iff : ∀ (σ : Subst) (n : String), lookup σ n = none ↔ n ∉ σ.map Prod.fst
  | [], n => by simp [lookup]
  | (m, w) :: r, n => by
      simp only [lookup, List.map_cons, List.mem_cons, not_or]
      split
      · next hm => subst hm; simp
      · next hm =>
        rw [lookup_none_iff r n]
        constructor
        · intro h; exact ⟨fun e => hm e.symm, h⟩
        · intro h; exact h.2

theorem merge_ext : ∀ (τ σ σ' : Subst), merge σ τ = some σ' → Ext σ σ' ∧ Ext τ σ'
  | [], σ, σ', h => by
      simp [merge] at h; subst h
      exact ⟨fun _ _ h => h, fun n v h => by simp [lookup] at h⟩
  | (n, v) :: rest, σ, σ', h => by
      simp only [merge] at h
      split at h
      · next v' hv' =>
        split at h
        · next hvv =>
          subst hvv
          obtain ⟨h1, h2⟩ := merge_ext rest σ σ' h
          refine ⟨h1, ?_⟩
          intro m w hm
          simp only [lookup] at hm
          split at hm
          · next hnm => subst hnm; cases hm; exact h1 _ _ hv'
          · exact h2 _ _ hm
        · cases h
      · next hnone =>
        obtain ⟨h1, h2⟩ := merge_ext rest (σ ++ [(n, v)]) σ' h
        refine ⟨?_, ?_⟩
        · intro m w hm
          apply h1
          simp [lookup_append, hm]
        · intro m w hm
          simp only [lookup] at hm
          split at hm
          · next hnm =>
            subst hnm; cases hm
            apply h1
            simp [lookup_append, hnone, lookup]
          · exact h2 _ _ hm

/-- every entry of a merge comes from one of the two arguments -/
theorem merge_mem : ∀ (τ σ σ' : Subst), merge σ τ = some σ' → ∀ p ∈ σ', p ∈ σ ∨ p ∈ τ
  | [], σ, σ', h => by
      simp [merge] at h; subst h
      intro p hp; exact Or.inl hp
  | (n, v) :: rest, σ, σ', h => by
      simp only [merge] at h
      intro p hp
      split at h
      · split at h
        · rcases merge_mem rest σ σ' h p hp with h1 | h1
          · exact Or.inl h1
          · exact Or.inr (List.mem_cons_of_mem _ h1)
        · cases h
      · rcases merge_mem rest (σ ++ [(n, v)]) σ' h p hp with h1 | h1
        · simp only [List.mem_append, List.mem_singleton] at h1
          rcases h1 with h1 | h1
          · exact Or.inl h1
          · subst h1; exact Or.inr (by simp)
        · exact Or.inr (List.mem_cons_of_mem _ h1)

/-- merging keeps the keys pairwise distinct -/
theorem merge_nodup : ∀ (τ σ σ' : Subst), merge σ τ = some σ' →
    (σ.map Prod.fst).Nodup → (σ'.map Prod.fst).Nodup
  | [], σ, σ', h, hn => by simp [merge] at h; subst h; exact hn
  | (n, v) :: rest, σ, σ', h, hn => by
      simp only [merge] at h
      split at h
      · split at h
        · exact merge_nodup rest σ σ' h hn
        · cases h
      · next hnone =>
        apply merge_nodup rest (σ ++ [(n, v)]) σ' h
        have hnot := (lookup_none_iff σ n).1 hnone
        simp only [List.map_append, List.map_cons, List.map_nil]
        rw [List.nodup_append]
        refine ⟨hn, by simp, ?_⟩
        intro a ha b hb
        simp only [List.mem_singleton] at hb
        subst hb
        intro e; subst e; exact hnot ha

/-! ### Inversion of `supS` on a node: one constructor per arm that can answer `yes` -/

theorem bindMerge_yes {acc : Subst} {fl : Bool} {r : R} {σ : Subst} {l : Bool}
    (h : bindMerge acc fl r = .yes σ l) :
    ∃ τ f, r = .yes τ f ∧ merge acc τ = some σ ∧ l = (fl || f) := by
  cases r with
  | no => simp [bindMerge] at h
  | panic => simp [bindMerge] at h
  | yes τ f =>
    simp only [bindMerge] at h
    split at h
    · cases h
    · next acc' hm =>
      cases h
      exact ⟨τ, f, rfl, hm, rfl⟩

inductive SupNN (k : String) (as : List String) (ks : List T) (k' : String) (as' : List String)
    (ks' : List T) (σ : Subst) (l : Bool) : Prop
  | wildSame : k = "Pat::Wild" → k' = "Pat::Wild" → supL ks ks' [] false = .yes σ l → SupNN k as ks k' as' ks' σ l
  | lossy : σ = [] → l = true → SupNN k as ks k' as' ks' σ l
  | gaConst (n : String) (e : T) : k = "GenericArgument::Type" → as = [] → ks = [.tparam n] →
      k' = "GenericArgument::Const" → as' = [] → ks' = [e] → σ = [(n, .ex e)] → l = false →
      SupNN k as ks k' as' ks' σ l
  | lifetime (x y : String) : k = k' → lifetimeIdent (.node k as ks) = some x →
      lifetimeIdent (.node k' as' ks') = some y → σ = [] → (l = false → x = y) → SupNN k as ks k' as' ks' σ l
  | pathParam (n : String) : k = k' → pathParam PARAM_PREFIX (.node k as ks) = some n →
      pathParam PARAM_PREFIX (.node k' as' ks') = some n → σ = [(n, .identity)] → l = false →
      SupNN k as ks k' as' ks' σ l
  | qself (ty : T) (rest : List T) (ty' : T) : k = k' → k = "QSelf" → ks = ty :: rest → ks' = ty' :: rest →
      supS ty (stripTop ty') = .yes σ l → SupNN k as ks k' as' ks' σ l
  | binary (op lft r att lft' r' att' : T) (σ1 : Subst) (f1 : Bool) (σ2 : Subst) (f2 : Bool) (σ12 : Subst)
      (σ3 : Subst) (f3 : Bool) : k = k' → k = "Expr::Binary" →
      ks = [op, lft, r, att] → ks' = [op, lft', r', att'] →
      supS lft (stripTop lft') = .yes σ1 f1 → supS r (stripTop r') = .yes σ2 f2 → merge σ1 σ2 = some σ12 →
      supS att (stripTop att') = .yes σ3 f3 → merge σ12 σ3 = some σ → l = ((f1 || f2) || f3) →
      SupNN k as ks k' as' ks' σ l
  | binarySwap (op lft r att lft' r' att' : T) (σ1 : Subst) (f1 : Bool) (σ2 : Subst) (f2 : Bool) (σ12 : Subst)
      (σ3 : Subst) (f3 : Bool) : k = k' → k = "Expr::Binary" →
      ks = [op, lft, r, att] → ks' = [op, lft', r', att'] →
      supS lft (stripTop r') = .yes σ1 f1 → supS r (stripTop lft') = .yes σ2 f2 → merge σ1 σ2 = some σ12 →
      supS att (stripTop att') = .yes σ3 f3 → merge σ12 σ3 = some σ → l = true →
      SupNN k as ks k' as' ks' σ l
  | optNone (x y : T) : k = k' → k = "OptWild" → ks = [x] → ks' = [y] →
      (isNoneNode x || isNoneNode y) = true → σ = [] → (l = false → x = y) → SupNN k as ks k' as' ks' σ l
  | optSome (x y : T) : k = k' → k = "OptWild" → ks = [x] → ks' = [y] →
      supS x (stripTop y) = .yes σ l → SupNN k as ks k' as' ks' σ l
  | dflt : k = k' → as = as' → supL ks ks' [] false = .yes σ l → SupNN k as ks k' as' ks' σ l

inductive SupNode (k : String) (as : List String) (ks : List T) (b : T) (σ : Subst) (l : Bool) : Prop
  | wrap : isWrapper k = true → supLast ks b = .yes σ l → SupNode k as ks b σ l
  | ign : isWrapper k = false → k = "Ign" → σ = [] → l = false → SupNode k as ks b σ l
  | ignL : isWrapper k = false → k = "IgnL" → σ = [] → (l = false → b = .node k as ks) → SupNode k as ks b σ l
  | node (k' : String) (as' : List String) (ks' : List T) : isWrapper k = false → k ≠ "Ign" → k ≠ "IgnL" →
      b = .node k' as' ks' → SupNN k as ks k' as' ks' σ l → SupNode k as ks b σ l

theorem supS_node_inv {k : String} {as : List String} {ks : List T} {b : T} {σ : Subst} {l : Bool}
    (h : supS (.node k as ks) b = .yes σ l) : SupNode k as ks b σ l := by
  unfold supS at h
  by_cases hw : isWrapper k = true
  · rw [if_pos hw] at h; exact .wrap hw h
  rw [if_neg hw] at h
  have hw : isWrapper k = false := by simpa using hw
  by_cases hi : (k == "Ign") = true
  · rw [if_pos hi] at h; cases h; exact .ign hw (eq_of_beq hi) rfl rfl
  rw [if_neg hi] at h
  have hi : k ≠ "Ign" := by simpa using hi
  by_cases hil : (k == "IgnL") = true
  · rw [if_pos hil] at h
    cases h
    refine .ignL hw (eq_of_beq hil) rfl ?_
    intro hd
    exact (Decidable.of_not_not (of_decide_eq_false hd)).symm
  rw [if_neg hil] at h
  have hil : k ≠ "IgnL" := by simpa using hil
  cases b with
  | tparam n => cases h
  | eparam n => cases h
  | node k' as' ks' =>
  refine .node k' as' ks' hw hi hil rfl ?_
  dsimp only at h
  by_cases hpw : (k == "Pat::Wild" || k' == "Pat::Wild") = true
  · rw [if_pos hpw] at h
    by_cases hkk : (k == k') = true
    · rw [if_pos hkk] at h
      have hkk := eq_of_beq hkk
      subst hkk
      have : k = "Pat::Wild" := by simpa using hpw
      exact .wildSame this this h
    · rw [if_neg hkk] at h; cases h; exact .lossy rfl rfl
  rw [if_neg hpw] at h
  by_cases hsi : (k == "Stmt::Item" || k' == "Stmt::Item") = true
  · rw [if_pos hsi] at h; cases h
  rw [if_neg hsi] at h
  by_cases hne : (k != k') = true
  · rw [if_pos hne] at h
    split at h
    · cases h; exact .gaConst _ _ rfl rfl rfl rfl rfl rfl rfl rfl
    · cases h
  rw [if_neg hne] at h
  have hkk : k = k' := by simpa using hne
  subst hkk
  by_cases hp : panicsOnSameKind k = true
  · rw [if_pos hp] at h; cases h
  rw [if_neg hp] at h
  by_cases hlt : (k == "Lifetime") = true
  · rw [if_pos hlt] at h
    split at h
    · next x y hx hy =>
      by_cases hu : (x == "_" || y == "_") = true
      · rw [if_pos hu] at h; cases h
        refine .lifetime x y rfl hx hy rfl ?_
        intro hxy; simpa using hxy
      · rw [if_neg hu] at h
        by_cases hxy : (x == y) = true
        · rw [if_pos hxy] at h; cases h
          exact .lifetime x y rfl hx hy rfl (fun _ => eq_of_beq hxy)
        · rw [if_neg hxy] at h; cases h
    · cases h
  rw [if_neg hlt] at h
  by_cases hpp : (k == "Path" && (pathParam PARAM_PREFIX (T.node k as ks)).isSome &&
      pathParam PARAM_PREFIX (T.node k as ks) == pathParam PARAM_PREFIX (T.node k as' ks')) = true
  · rw [if_pos hpp] at h
    split at h
    · next n hn =>
      cases h
      simp only [Bool.and_eq_true] at hpp
      have he := eq_of_beq hpp.2
      exact .pathParam n rfl hn (he ▸ hn) rfl rfl
    · cases h
  rw [if_neg hpp] at h
  by_cases hq : (k == "QSelf") = true
  · rw [if_pos hq] at h
    split at h
    · next ty rest ty' rest' =>
      split at h
      · cases h
      · cases h
      · next σ0 l0 hs =>
        by_cases hc : (rest == rest' && allIdentity σ0) = true
        · rw [if_pos hc] at h; cases h
          simp only [Bool.and_eq_true] at hc
          have hr := eq_of_beq hc.1
          subst hr
          exact .qself ty rest ty' rfl (eq_of_beq hq) rfl rfl hs
        · rw [if_neg hc] at h; cases h
    · cases h
  rw [if_neg hq] at h
  by_cases hb : (k == "Expr::Binary") = true
  · rw [if_pos hb] at h
    split at h
    · next op lft r att op' lft' r' att' =>
      by_cases hop : (op != op') = true
      · rw [if_pos hop] at h; cases h
      rw [if_neg hop] at h
      have hop : op = op' := by simpa using hop
      subst hop
      split at h
      · cases h
      · next σ1 f1 h1 =>
        split at h
        · next σ12 f12 h12 =>
          obtain ⟨σ2, f2, h2, hm12, hf12⟩ := bindMerge_yes h12
          obtain ⟨σ3, f3, h3, hm3, hf3⟩ := bindMerge_yes h
          subst hf12
          exact .binary op lft r att lft' r' att' σ1 f1 σ2 f2 σ12 σ3 f3 rfl (eq_of_beq hb) rfl rfl h1 h2 hm12 h3 hm3 hf3
        · next hno =>
          exact absurd h (hno σ l)
      · split at h
        · cases h
        · cases h
        · next σ1 f1 h1 =>
          split at h
          · next σ12 f12 h12 =>
            obtain ⟨σ2, f2, h2, hm12, hf12⟩ := bindMerge_yes h12
            obtain ⟨σ3, f3, h3, hm3, hf3⟩ := bindMerge_yes h
            subst hf12
            exact .binarySwap op lft r att lft' r' att' σ1 f1 σ2 f2 σ12 σ3 f3 rfl (eq_of_beq hb) rfl rfl h1 h2 hm12 h3 hm3
              (by simpa using hf3)
          · next hno =>
            exact absurd h (hno σ l)
    · cases h
  rw [if_neg hb] at h
  by_cases how : (k == "OptWild") = true
  · rw [if_pos how] at h
    split at h
    · next x y =>
      by_cases hn : (isNoneNode x || isNoneNode y) = true
      · rw [if_pos hn] at h; cases h
        refine .optNone x y rfl (eq_of_beq how) rfl rfl hn rfl ?_
        intro hd; simpa using hd
      · rw [if_neg hn] at h
        exact .optSome x y rfl (eq_of_beq how) rfl rfl h
    · cases h
  rw [if_neg how] at h
  by_cases has : (as == as') = true
  · rw [if_pos has] at h
    exact .dflt rfl (eq_of_beq has) h
  · rw [if_neg has] at h; cases h


/-! ### Unfolding `inst`, `erase`, `params` -/

theorem inst_tparam_ty {σ : Subst} {n : String} {t : T} (h : lookup σ n = some (.ty t)) :
    inst σ (.tparam n) = t := by
  rw [inst]; simp [h]
theorem inst_tparam_other {σ : Subst} {n : String} (h : ∀ t, lookup σ n ≠ some (.ty t)) :
    inst σ (.tparam n) = .tparam n := by
  rw [inst]; split
  · next t ht => exact absurd ht (h t)
  · rfl
theorem inst_eparam_ex {σ : Subst} {n : String} {t : T} (h : lookup σ n = some (.ex t)) :
    inst σ (.eparam n) = t := by
  rw [inst]; simp [h]
theorem inst_eparam_other {σ : Subst} {n : String} (h : ∀ t, lookup σ n ≠ some (.ex t)) :
    inst σ (.eparam n) = .eparam n := by
  rw [inst]; split
  · next t ht => exact absurd ht (h t)
  · rfl

theorem inst_ga_ex {σ : Subst} {n : String} {e : T} (h : lookup σ n = some (.ex e)) :
    inst σ (.node "GenericArgument::Type" [] [.tparam n]) = .node "GenericArgument::Const" [] [e] := by
  rw [inst]; simp [h]
theorem inst_ga_other {σ : Subst} {n : String} (h : ∀ e, lookup σ n ≠ some (.ex e)) :
    inst σ (.node "GenericArgument::Type" [] [.tparam n]) =
      .node "GenericArgument::Type" [] [inst σ (.tparam n)] := by
  rw [inst, inst]; split
  · next e he => exact absurd he (h e)
  · next t ht => simp [ht]
  · next h1 h2 =>
    split
    · next t ht => exact absurd ht (h2 t)
    · rfl

/-- the shape on which `inst` deviates from the homomorphic rule -/
def Special (k : String) (as : List String) (ks : List T) : Prop :=
  ∃ n, k = "GenericArgument::Type" ∧ as = [] ∧ ks = [.tparam n]

theorem inst_node_default (σ : Subst) {k : String} {as : List String} {ks : List T}
    (h : ¬ Special k as ks) : inst σ (.node k as ks) = .node k as (instL σ ks) := by
  rw [inst]
  intro n h1 h2 h3; exact h ⟨n, h1, h2, h3⟩

theorem not_special_of_ne {k : String} {as : List String} {ks : List T}
    (h : k ≠ "GenericArgument::Type") : ¬ Special k as ks := fun ⟨_, hk, _⟩ => h hk

theorem isWrapper_ne_ga {k : String} (h : isWrapper k = true) : k ≠ "GenericArgument::Type" := by
  intro e; subst e; simp [isWrapper] at h
theorem isWrapper_ne_ign {k : String} (h : isWrapper k = true) : k ≠ "Ign" := by
  intro e; subst e; simp [isWrapper] at h
theorem isWrapper_ne_ignL {k : String} (h : isWrapper k = true) : k ≠ "IgnL" := by
  intro e; subst e; simp [isWrapper] at h

def blank : T := .node "Ign" [] []

theorem erase_ign (as : List String) (ks : List T) : erase (.node "Ign" as ks) = blank := by
  rw [erase]; simp [blank]
theorem erase_wrapper {k : String} (as : List String) (ks : List T) (h : isWrapper k = true) :
    erase (.node k as ks) = eraseLast ks := by
  have := isWrapper_ne_ign h
  rw [erase]; simp [h, this]
theorem erase_plain {k : String} (as : List String) (ks : List T) (hw : isWrapper k = false)
    (hi : k ≠ "Ign") : erase (.node k as ks) = .node k as (eraseL ks) := by
  rw [erase]; simp [hw, hi]

theorem params_ignored {k : String} (as : List String) (ks : List T) (h : isIgnored k = true) :
    params (.node k as ks) = [] := by
  rw [params]; simp [h]
theorem params_node {k : String} (as : List String) (ks : List T) (hi : k ≠ "Ign") (hil : k ≠ "IgnL") :
    params (.node k as ks) = paramsL ks := by
  rw [params]; simp [isIgnored, hi, hil]

theorem mem_paramsL {n : String} : ∀ {ks : List T}, n ∈ paramsL ks ↔ ∃ t ∈ ks, n ∈ params t
  | [] => by simp [paramsL]
  | t :: ts => by simp [paramsL, mem_paramsL (ks := ts)]

theorem eraseLast_cons2 (a b : T) (l : List T) : eraseLast (a :: b :: l) = eraseLast (b :: l) := by
  rw [eraseLast]
  · intro e; cases e

/-! ### `erase (stripTop b) = erase b` -/

theorem erase_stripLast : ∀ (ks : List T) (d : T), (∀ t ∈ ks, erase (stripTop t) = erase t) → ks ≠ [] →
    erase (stripLast ks d) = eraseLast ks
  | [], _, _, h => absurd rfl h
  | [e], d, ih, _ => by
      rw [stripLast, eraseLast]; exact ih e (by simp)
  | e :: e' :: es, d, ih, _ => by
      rw [eraseLast_cons2]
      rw [stripLast]
      · exact erase_stripLast (e' :: es) d (fun t ht => ih t (List.mem_cons_of_mem _ ht)) (by simp)
      · intro x; cases x

theorem erase_stripTop : ∀ b : T, erase (stripTop b) = erase b := by
  apply T.ind
  · intro n; rw [stripTop]
  · intro n; rw [stripTop]
  · intro k as ks ih
    rw [stripTop]
    by_cases hw : isWrapper k = true
    · rw [if_pos hw]
      cases ks with
      | nil => rw [stripLast]
      | cons e es =>
        rw [erase_stripLast (e :: es) _ ih (by simp), erase_wrapper _ _ hw]
    · rw [if_neg hw]

/-! ### Parameter-free trees -/

mutual
def closed : T → Bool
  | .tparam _ => false
  | .eparam _ => false
  | .node _ _ ks => closedL ks
def closedL : List T → Bool
  | [] => true
  | t :: ts => closed t && closedL ts
end

theorem closedL_iff : ∀ {ks : List T}, closedL ks = true ↔ ∀ t ∈ ks, closed t = true
  | [] => by simp [closedL]
  | t :: ts => by simp [closedL, closedL_iff (ks := ts)]

theorem closed_not_special {k : String} {as : List String} {ks : List T} (h : closedL ks = true) :
    ¬ Special k as ks := by
  rintro ⟨n, _, _, rfl⟩
  simp [closedL, closed] at h

theorem instL_eq_self {σ : Subst} : ∀ {ks : List T}, (∀ t ∈ ks, inst σ t = t) → instL σ ks = ks
  | [], _ => by rw [instL]
  | t :: ts, h => by
      rw [instL, h t (by simp), instL_eq_self (fun t ht => h t (List.mem_cons_of_mem _ ht))]

theorem inst_closed (σ : Subst) : ∀ t : T, closed t = true → inst σ t = t := by
  apply T.ind
  · intro n h; simp [closed] at h
  · intro n h; simp [closed] at h
  · intro k as ks ih h
    rw [closed] at h
    rw [inst_node_default σ (closed_not_special h)]
    rw [instL_eq_self (fun t ht => ih t ht (closedL_iff.1 h t ht))]

theorem instL_closed (σ : Subst) {ks : List T} (h : closedL ks = true) : instL σ ks = ks :=
  instL_eq_self (fun t ht => inst_closed σ t (closedL_iff.1 h t ht))

theorem params_closed : ∀ t : T, closed t = true → params t = [] := by
  apply T.ind
  · intro n h; simp [closed] at h
  · intro n h; simp [closed] at h
  · intro k as ks ih h
    rw [closed] at h
    rw [params]
    split
    · rfl
    · apply List.eq_nil_iff_forall_not_mem.2
      intro n hn
      obtain ⟨t, ht, hnt⟩ := mem_paramsL.1 hn
      rw [ih t ht (closedL_iff.1 h t ht)] at hnt
      cases hnt

theorem paramsL_closed {ks : List T} (h : closedL ks = true) : paramsL ks = [] := by
  apply List.eq_nil_iff_forall_not_mem.2
  intro n hn
  obtain ⟨t, ht, hnt⟩ := mem_paramsL.1 hn
  rw [params_closed t (closedL_iff.1 h t ht)] at hnt
  cases hnt


/-! ### Side conditions under which the matcher's answer can be trusted

`wf` collects, node by node, what `supS` takes for granted about the shape of decoded trees
(`harness/syn_dbg.py` produces only such trees):
* an `IgnL` child contains no parameter;
* in a transparent wrapper every child but the last is an `Ign` child;
* the kinds whose arm does not compare atoms (`Pat::Wild`, `QSelf`, `Expr::Binary`, `OptWild`) have none;
* the children of `QSelf` after the type, and the operator of `Expr::Binary`, contain no parameter.
Nothing is required beneath an `Ign` child. -/

def isIgnNode : T → Bool
  | .node k _ _ => k == "Ign"
  | _ => false

/-- all children but the last are `Ign` children -/
def initIgn : List T → Bool
  | [] => true
  | [_] => true
  | t :: ts => isIgnNode t && initIgn ts

def atomFree (k : String) : Bool :=
  k == "Pat::Wild" || k == "QSelf" || k == "Expr::Binary" || k == "OptWild"

def wfNode (k : String) (as : List String) (ks : List T) : Bool :=
  (!isWrapper k || initIgn ks) &&
  (!atomFree k || as.isEmpty) &&
  (k != "QSelf" || closedL ks.tail) &&
  (k != "Expr::Binary" || closedL (ks.take 1))

mutual
def wf : T → Bool
  | .tparam _ => true
  | .eparam _ => true
  | .node k as ks =>
      if k == "Ign" then true
      else if k == "IgnL" then closedL ks
      else wfNode k as ks && wfL ks
def wfL : List T → Bool
  | [] => true
  | t :: ts => wf t && wfL ts
end

mutual
/-- every `Ign` child of `a` faces an `Ign` child of `b` (`b` already stripped at the root) -/
def ignFaces : T → T → Bool
  | .tparam _, _ => true
  | .eparam _, _ => true
  | .node k _ ks, b =>
      if isWrapper k then ignFacesLast ks b
      else if k == "Ign" then isIgnNode b
      else if k == "IgnL" then true
      else match b with
        | .node k' _ ks' => if k == k' then ignFacesL ks ks' else true
        | _ => true
def ignFacesL : List T → List T → Bool
  | a :: as, b :: bs => ignFaces a (stripTop b) && ignFacesL as bs
  | _, _ => true
def ignFacesLast : List T → T → Bool
  | [], _ => true
  | [e], b => ignFaces e b
  | _ :: es, b => ignFacesLast es b
end

def isBareConstParam (k : String) (as : List String) (ks : List T) : Bool :=
  k == "GenericArgument::Const" && as.isEmpty && (match ks with | [.eparam _] => true | _ => false)

mutual
/-- no const generic argument of `b` is a lone parameter (syn parses a lone identifier as a type argument) -/
def noConstParam : T → Bool
  | .tparam _ => true
  | .eparam _ => true
  | .node k as ks => !isBareConstParam k as ks && noConstParamL ks
def noConstParamL : List T → Bool
  | [] => true
  | t :: ts => noConstParam t && noConstParamL ts
end

theorem wfL_iff : ∀ {ks : List T}, wfL ks = true ↔ ∀ t ∈ ks, wf t = true
  | [] => by simp [wfL]
  | t :: ts => by simp [wfL, wfL_iff (ks := ts)]

theorem noConstParamL_iff : ∀ {ks : List T}, noConstParamL ks = true ↔ ∀ t ∈ ks, noConstParam t = true
  | [] => by simp [noConstParamL]
  | t :: ts => by simp [noConstParamL, noConstParamL_iff (ks := ts)]

theorem wf_node_inv {k : String} {as : List String} {ks : List T} (h : wf (.node k as ks) = true)
    (hi : k ≠ "Ign") (hil : k ≠ "IgnL") : wfNode k as ks = true ∧ wfL ks = true := by
  rw [wf] at h
  simpa [hi, hil] using h

theorem wf_ignL {as : List String} {ks : List T} (h : wf (.node "IgnL" as ks) = true) :
    closedL ks = true := by
  rw [wf] at h
  simpa using h

theorem wfNode_parts {k : String} {as : List String} {ks : List T} (h : wfNode k as ks = true) :
    (isWrapper k = true → initIgn ks = true) ∧ (atomFree k = true → as = []) ∧
    (k = "QSelf" → closedL ks.tail = true) ∧ (k = "Expr::Binary" → closedL (ks.take 1) = true) := by
  simp only [wfNode, Bool.and_eq_true] at h
  obtain ⟨⟨⟨h1, h2⟩, h3⟩, h4⟩ := h
  refine ⟨?_, ?_, ?_, ?_⟩
  · intro hw; simpa [hw] using h1
  · intro hk; simpa [hk] using h2
  · intro hk; simpa [hk] using h3
  · intro hk; simpa [hk] using h4

theorem wfNode_wrapper {k : String} {as : List String} {ks : List T} (h : wfNode k as ks = true)
    (hw : isWrapper k = true) : initIgn ks = true := (wfNode_parts h).1 hw
theorem wfNode_atoms {k : String} {as : List String} {ks : List T} (h : wfNode k as ks = true)
    (hk : atomFree k = true) : as = [] := (wfNode_parts h).2.1 hk
theorem wfNode_qself {as : List String} {t : T} {ts : List T} (h : wfNode "QSelf" as (t :: ts) = true) :
    closedL ts = true := (wfNode_parts h).2.2.1 rfl
theorem wfNode_binary {as : List String} {t : T} {ts : List T}
    (h : wfNode "Expr::Binary" as (t :: ts) = true) : closed t = true := by
  have := (wfNode_parts h).2.2.2 rfl
  simpa [closedL] using this


/-! ### `stripTop` returns a subtree -/

theorem stripLast_sub {Q : T → Prop} : ∀ (ks : List T) (d : T), Q d → (∀ t ∈ ks, Q (stripTop t)) →
    Q (stripLast ks d)
  | [], d, hd, _ => by rw [stripLast]; exact hd
  | [e], d, _, h => by rw [stripLast]; exact h e (by simp)
  | e :: e' :: es, d, hd, h => by
      rw [stripLast]
      · exact stripLast_sub (e' :: es) d hd (fun t ht => h t (List.mem_cons_of_mem _ ht))
      · intro x; cases x

theorem wf_stripTop : ∀ b : T, wf b = true → wf (stripTop b) = true := by
  apply T.ind
  · intro n h; rw [stripTop]; exact h
  · intro n h; rw [stripTop]; exact h
  · intro k as ks ih h
    rw [stripTop]
    by_cases hw : isWrapper k = true
    · rw [if_pos hw]
      have hk := wf_node_inv h (isWrapper_ne_ign hw) (isWrapper_ne_ignL hw)
      exact stripLast_sub (Q := fun t => wf t = true) ks _ h
        (fun t ht => ih t ht (wfL_iff.1 hk.2 t ht))
    · rw [if_neg hw]; exact h

theorem noConstParam_stripTop : ∀ b : T, noConstParam b = true → noConstParam (stripTop b) = true := by
  apply T.ind
  · intro n h; rw [stripTop]; exact h
  · intro n h; rw [stripTop]; exact h
  · intro k as ks ih h
    rw [stripTop]
    by_cases hw : isWrapper k = true
    · rw [if_pos hw]
      have hk : noConstParamL ks = true := by
        rw [noConstParam] at h; simp only [Bool.and_eq_true] at h; exact h.2
      exact stripLast_sub (Q := fun t => noConstParam t = true) ks _ h
        (fun t ht => ih t ht (noConstParamL_iff.1 hk t ht))
    · rw [if_neg hw]; exact h

theorem noConstParam_kids {k : String} {as : List String} {ks : List T}
    (h : noConstParam (.node k as ks) = true) : noConstParamL ks = true := by
  rw [noConstParam] at h; simp only [Bool.and_eq_true] at h; exact h.2

theorem noConstParam_bare {n : String} :
    noConstParam (.node "GenericArgument::Const" [] [.eparam n]) = false := by
  rw [noConstParam]; simp [isBareConstParam]

/-! ### Inversion of the recognisers -/

theorem lifetimeIdent_inv {t : T} {x : String} (h : lifetimeIdent t = some x) :
    t = .node "Lifetime" [] [.node "Ident" [x] []] := by
  unfold lifetimeIdent at h
  split at h
  · cases h; rfl
  · cases h

theorem pathParam_inv {p : String} {t : T} {n : String} (h : pathParam p t = some n) :
    t = .node "Path" [] [.node "IgnL" [] [.node "None" [] []],
      .node "List" [] [.node "PathSegment" [] [.node "Ident" [n] [], .node "PathArguments::None" [] []]]] := by
  unfold pathParam at h
  split at h
  · split at h
    · cases h; rfl
    · cases h
  · cases h

theorem isNoneNode_inv {t : T} (h : isNoneNode t = true) : t = .node "None" [] [] := by
  unfold isNoneNode at h
  split at h
  · rfl
  · cases h

theorem isIgnNode_inv {t : T} (h : isIgnNode t = true) : ∃ as ks, t = .node "Ign" as ks := by
  cases t with
  | tparam n => simp [isIgnNode] at h
  | eparam n => simp [isIgnNode] at h
  | node k as ks => simp [isIgnNode] at h; subst h; exact ⟨as, ks, rfl⟩


/-! ### First induction: keys are distinct, no entry binds a parameter to itself -/

def keys (σ : Subst) : List String := σ.map Prod.fst

/-- an entry does not bind a parameter to itself (the second half only where `b` has no lone const parameter) -/
def Ent (b : T) (p : String × Val) : Prop :=
  p.2 ≠ .ty (.tparam p.1) ∧ (noConstParam b = true → p.2 ≠ .ex (.eparam p.1))

theorem Ent.mono {b b' : T} {p : String × Val} (h : Ent b' p)
    (hb : noConstParam b = true → noConstParam b' = true) : Ent b p :=
  ⟨h.1, fun hn => h.2 (hb hn)⟩

def Light (b : T) (σ : Subst) : Prop := (keys σ).Nodup ∧ ∀ p ∈ σ, Ent b p

theorem Light.nil (b : T) : Light b [] := ⟨by simp [keys], fun p hp => by cases hp⟩

theorem Light.mono {b b' : T} {σ : Subst} (h : Light b' σ)
    (hb : noConstParam b = true → noConstParam b' = true) : Light b σ :=
  ⟨h.1, fun p hp => (h.2 p hp).mono hb⟩

theorem Light.merge {b : T} {σ τ ρ : Subst} (h1 : Light b σ) (h2 : Light b τ)
    (hm : merge σ τ = some ρ) : Light b ρ :=
  ⟨merge_nodup τ σ ρ hm h1.1, fun p hp => (merge_mem τ σ ρ hm p hp).elim (h1.2 p) (h2.2 p)⟩

theorem Light.single_identity (b : T) (n : String) : Light b [(n, .identity)] :=
  ⟨by simp [keys], fun p hp => by
    simp only [List.mem_singleton] at hp; subst hp
    exact ⟨by simp, fun _ => by simp⟩⟩

def LightP (a : T) : Prop := ∀ b σ l, supS a b = .yes σ l → Light b σ

theorem supL_nil_cons (b : T) (bs : List T) (acc : Subst) (fl : Bool) : supL [] (b :: bs) acc fl = .no := by
  rw [supL]
  all_goals (intros; simp_all)
theorem supL_cons_nil (a : T) (as : List T) (acc : Subst) (fl : Bool) : supL (a :: as) [] acc fl = .no := by
  rw [supL]
  all_goals (intros; simp_all)

theorem supL_light : ∀ (as bs : List T) (acc : Subst) (fl : Bool) (σ : Subst) (l : Bool) (B : T),
    (∀ t ∈ as, LightP t) → supL as bs acc fl = .yes σ l →
    (noConstParam B = true → noConstParamL bs = true) → Light B acc → Light B σ
  | [], [], acc, fl, σ, l, B, _, h, _, hacc => by
      rw [supL] at h; cases h; exact hacc
  | [], _ :: _, _, _, _, _, _, _, h, _, _ => by rw [supL_nil_cons] at h; cases h
  | _ :: _, [], _, _, _, _, _, _, h, _, _ => by rw [supL_cons_nil] at h; cases h
  | a :: as, b :: bs, acc, fl, σ, l, B, ih, h, hB, hacc => by
      rw [supL] at h
      split at h
      · cases h
      · cases h
      · next σ1 f h1 =>
        split at h
        · cases h
        · next acc' hm =>
          have hl1 : Light (stripTop b) σ1 := ih a (by simp) _ _ _ h1
          have hl1' : Light B σ1 := hl1.mono (fun hn => by
            have := noConstParamL_iff.1 (hB hn) b (by simp)
            exact noConstParam_stripTop b this)
          exact supL_light as bs acc' (fl || f) σ l B (fun t ht => ih t (List.mem_cons_of_mem _ ht)) h
            (fun hn => by
              have := hB hn
              rw [noConstParamL] at this; simp only [Bool.and_eq_true] at this; exact this.2)
            (hacc.merge hl1' hm)

theorem supLast_light : ∀ (ks : List T) (b : T) (σ : Subst) (l : Bool),
    (∀ t ∈ ks, LightP t) → supLast ks b = .yes σ l → Light b σ
  | [], _, _, _, _, h => by rw [supLast] at h; cases h
  | [e], b, σ, l, ih, h => by rw [supLast] at h; exact ih e (by simp) b σ l h
  | e :: e' :: es, b, σ, l, ih, h => by
      rw [supLast] at h
      · exact supLast_light (e' :: es) b σ l (fun t ht => ih t (List.mem_cons_of_mem _ ht)) h
      · intro x; cases x

theorem supS_light : ∀ a : T, LightP a := by
  apply T.ind
  · intro n b σ l h
    unfold supS at h
    split at h
    · cases h; exact Light.single_identity _ _
    · next hb =>
      cases h
      refine ⟨by simp [keys], fun p hp => ?_⟩
      simp only [List.mem_singleton] at hp; subst hp
      exact ⟨by simpa using hb, fun _ => by simp⟩
  · intro n b σ l h
    unfold supS at h
    split at h
    · cases h; exact Light.single_identity _ _
    · next hb =>
      cases h
      refine ⟨by simp [keys], fun p hp => ?_⟩
      simp only [List.mem_singleton] at hp; subst hp
      exact ⟨by simp, fun _ => by simpa using hb⟩
  · intro k as ks ih b σ l h
    cases supS_node_inv h with
    | wrap hw hl => exact supLast_light ks b σ l ih hl
    | ign _ _ hσ _ => subst hσ; exact Light.nil _
    | ignL _ _ hσ _ => subst hσ; exact Light.nil _
    | node k' as' ks' hw hi hil hb hnn =>
      subst hb
      have hkids : noConstParam (T.node k' as' ks') = true → noConstParamL ks' = true := noConstParam_kids
      have sub : ∀ {t t' : T} {τ : Subst} {f : Bool}, t ∈ ks → t' ∈ ks' → supS t (stripTop t') = .yes τ f →
          Light (T.node k' as' ks') τ := by
        intro t t' τ f ht ht' hs
        exact (ih t ht _ _ _ hs).mono (fun hn =>
          noConstParam_stripTop t' (noConstParamL_iff.1 (hkids hn) t' ht'))
      cases hnn with
      | wildSame _ _ hs => exact supL_light ks ks' [] false σ l _ ih hs hkids (Light.nil _)
      | lossy hσ _ => subst hσ; exact Light.nil _
      | gaConst n e _ _ _ hk' has' hks' hσ _ =>
        subst hσ hk' has' hks'
        refine ⟨by simp [keys], fun p hp => ?_⟩
        simp only [List.mem_singleton] at hp; subst hp
        refine ⟨by simp, fun hn => ?_⟩
        intro he
        simp only [Val.ex.injEq] at he
        subst he
        rw [noConstParam_bare] at hn; cases hn
      | lifetime x y _ _ _ hσ _ => subst hσ; exact Light.nil _
      | pathParam n _ _ _ hσ _ => subst hσ; exact Light.single_identity _ _
      | qself ty rest ty' _ _ hks hks' hs =>
        subst hks hks'
        exact sub (by simp) (by simp) hs
      | binary op lft r att lft' r' att' σ1 f1 σ2 f2 σ12 σ3 f3 _ _ hks hks' h1 h2 hm12 h3 hm3 _ =>
        subst hks hks'
        exact ((sub (by simp) (by simp) h1).merge (sub (by simp) (by simp) h2) hm12).merge
          (sub (by simp) (by simp) h3) hm3
      | binarySwap op lft r att lft' r' att' σ1 f1 σ2 f2 σ12 σ3 f3 _ _ hks hks' h1 h2 hm12 h3 hm3 _ =>
        subst hks hks'
        exact ((sub (by simp) (by simp) h1).merge (sub (by simp) (by simp) h2) hm12).merge
          (sub (by simp) (by simp) h3) hm3
      | optNone x y _ _ _ _ _ hσ _ => subst hσ; exact Light.nil _
      | optSome x y _ _ hks hks' hs =>
        subst hks hks'
        exact sub (by simp) (by simp) hs
      | dflt _ _ hs => exact supL_light ks ks' [] false σ l _ ih hs hkids (Light.nil _)


/-! ### Second induction: soundness and domain -/

/-- every visible parameter of `a` is bound -/
def Binds (a : T) (σ : Subst) : Prop := ∀ n ∈ params a, (lookup σ n).isSome = true
def BindsL (ks : List T) (σ : Subst) : Prop := ∀ n ∈ paramsL ks, (lookup σ n).isSome = true

theorem bindsL_iff {ks : List T} {σ : Subst} : BindsL ks σ ↔ ∀ t ∈ ks, Binds t σ := by
  constructor
  · intro h t ht n hn; exact h n (mem_paramsL.2 ⟨t, ht, hn⟩)
  · intro h n hn
    obtain ⟨t, ht, hnt⟩ := mem_paramsL.1 hn
    exact h t ht n hnt

theorem agree_of_binds {σ σ' : Subst} (he : Ext σ σ') {n : String} (h : (lookup σ n).isSome = true) :
    lookup σ n = lookup σ' n := by
  cases hl : lookup σ n with
  | none => simp [hl] at h
  | some v => rw [he n v hl]

theorem Binds.ext {a : T} {σ σ' : Subst} (h : Binds a σ) (he : Ext σ σ') : Binds a σ' := by
  intro n hn
  rw [← agree_of_binds he (h n hn)]; exact h n hn

/-- congruence of `erase ∘ inst` in the substitution, on the visible parameters -/
def CongP (σ σ' : Subst) (t : T) : Prop :=
  wf t = true → (∀ n ∈ params t, lookup σ n = lookup σ' n) → erase (inst σ t) = erase (inst σ' t)

theorem eraseL_instL_congr {σ σ' : Subst} : ∀ (ks : List T), (∀ t ∈ ks, CongP σ σ' t) → wfL ks = true →
    (∀ n ∈ paramsL ks, lookup σ n = lookup σ' n) → eraseL (instL σ ks) = eraseL (instL σ' ks)
  | [], _, _, _ => by simp [instL]
  | t :: ts, ih, hwf, h => by
      rw [wfL] at hwf; simp only [Bool.and_eq_true] at hwf
      rw [instL, instL, eraseL, eraseL]
      rw [ih t (by simp) hwf.1 (fun n hn => h n (by simp [paramsL, hn]))]
      rw [eraseL_instL_congr ts (fun t ht => ih t (List.mem_cons_of_mem _ ht)) hwf.2
        (fun n hn => h n (by simp [paramsL, hn]))]

theorem eraseLast_instL_cons2 (σ : Subst) (a b : T) (l : List T) :
    eraseLast (instL σ (a :: b :: l)) = eraseLast (instL σ (b :: l)) := by
  simp only [instL, eraseLast_cons2]

theorem eraseLast_instL_congr {σ σ' : Subst} : ∀ (ks : List T), (∀ t ∈ ks, CongP σ σ' t) → wfL ks = true →
    (∀ n ∈ paramsL ks, lookup σ n = lookup σ' n) → eraseLast (instL σ ks) = eraseLast (instL σ' ks)
  | [], _, _, _ => by simp [instL]
  | [e], ih, hwf, h => by
      rw [wfL] at hwf; simp only [Bool.and_eq_true] at hwf
      rw [instL, instL, instL, instL, eraseLast, eraseLast]
      exact ih e (by simp) hwf.1 (fun n hn => h n (by simp [paramsL, hn]))
  | e :: e' :: es, ih, hwf, h => by
      rw [wfL] at hwf; simp only [Bool.and_eq_true] at hwf
      rw [eraseLast_instL_cons2, eraseLast_instL_cons2]
      exact eraseLast_instL_congr (e' :: es) (fun t ht => ih t (List.mem_cons_of_mem _ ht)) hwf.2
        (fun n hn => h n (by rw [paramsL]; simp [hn]))

theorem erase_inst_congr (σ σ' : Subst) : ∀ t : T, CongP σ σ' t := by
  apply T.ind
  · intro n _ h
    have := h n (by simp [params])
    rw [inst, inst, this]
  · intro n _ h
    have := h n (by simp [params])
    rw [inst, inst, this]
  · intro k as ks ih hwf h
    by_cases hi : k = "Ign"
    · subst hi
      rw [inst_node_default σ (not_special_of_ne (by decide)),
        inst_node_default σ' (not_special_of_ne (by decide)), erase_ign, erase_ign]
    by_cases hil : k = "IgnL"
    · subst hil
      have hc := wf_ignL hwf
      have hc' : closed (T.node "IgnL" as ks) = true := by rw [closed]; exact hc
      rw [inst_closed σ _ hc', inst_closed σ' _ hc']
    obtain ⟨hn, hwfL⟩ := wf_node_inv hwf hi hil
    rw [params_node as ks hi hil] at h
    by_cases hs : Special k as ks
    · obtain ⟨n, rfl, rfl, rfl⟩ := hs
      have := h n (by simp [paramsL, params])
      rw [inst, inst, this]
    rw [inst_node_default σ hs, inst_node_default σ' hs]
    by_cases hw : isWrapper k = true
    · rw [erase_wrapper _ _ hw, erase_wrapper _ _ hw]
      exact eraseLast_instL_congr ks ih hwfL h
    · have hw : isWrapper k = false := by simpa using hw
      rw [erase_plain _ _ hw hi, erase_plain _ _ hw hi, eraseL_instL_congr ks ih hwfL h]

/-- the statement carried through the induction -/
def Good (a b : T) (σ : Subst) : Prop :=
  Binds a σ ∧ (wf b = true → ignFaces a b = true → erase (inst σ a) = erase b)

theorem Good.ext {a b : T} {σ σ' : Subst} (hwf : wf a = true) (h : Good a b σ) (he : Ext σ σ') :
    Good a b σ' := by
  refine ⟨h.1.ext he, fun hb hf => ?_⟩
  rw [← h.2 hb hf]
  exact (erase_inst_congr σ σ' a hwf (fun n hn => agree_of_binds he (h.1 n hn))).symm

def GoodP (a : T) : Prop := ∀ b σ, wf a = true → supS a b = .yes σ false → Good a b σ

theorem GoodP.kid {t t' : T} {τ σ : Subst} (hP : GoodP t) (hwf : wf t = true)
    (hs : supS t (stripTop t') = .yes τ false) (he : Ext τ σ) :
    Binds t σ ∧ (wf t' = true → ignFaces t (stripTop t') = true → erase (inst σ t) = erase t') := by
  have g := (hP _ _ hwf hs).ext hwf he
  exact ⟨g.1, fun hb hf => by rw [g.2 (wf_stripTop _ hb) hf, erase_stripTop]⟩

theorem supL_good : ∀ (as bs : List T) (acc : Subst) (fl : Bool) (σ : Subst),
    (∀ t ∈ as, GoodP t) → wfL as = true → supL as bs acc fl = .yes σ false →
    Ext acc σ ∧ fl = false ∧ BindsL as σ ∧
      (wfL bs = true → ignFacesL as bs = true → eraseL (instL σ as) = eraseL bs)
  | [], [], acc, fl, σ, _, _, h => by
      rw [supL] at h; cases h
      exact ⟨Ext.refl _, rfl, fun n hn => by simp [paramsL] at hn, fun _ _ => by simp [instL]⟩
  | [], _ :: _, _, _, _, _, _, h => by rw [supL_nil_cons] at h; cases h
  | _ :: _, [], _, _, _, _, _, h => by rw [supL_cons_nil] at h; cases h
  | a :: as, b :: bs, acc, fl, σ, ih, hwf, h => by
      rw [wfL] at hwf; simp only [Bool.and_eq_true] at hwf
      rw [supL] at h
      split at h
      · cases h
      · cases h
      · next σ1 f h1 =>
        split at h
        · cases h
        · next acc' hm =>
          obtain ⟨hext, hfl, hbinds, hsound⟩ := supL_good as bs acc' (fl || f) σ
            (fun t ht => ih t (List.mem_cons_of_mem _ ht)) hwf.2 h
          have hff : fl = false ∧ f = false := by simpa using hfl
          obtain ⟨rfl, rfl⟩ := hff
          obtain ⟨e1, e2⟩ := merge_ext σ1 acc acc' hm
          have g1 := (ih a (by simp)).kid hwf.1 h1 (e2.trans hext)
          refine ⟨e1.trans hext, rfl, ?_, ?_⟩
          · intro n hn
            rw [paramsL] at hn
            rcases List.mem_append.1 hn with hn | hn
            · exact g1.1 n hn
            · exact hbinds n hn
          · intro hwb hf
            rw [wfL] at hwb; rw [ignFacesL] at hf; simp only [Bool.and_eq_true] at hwb hf
            rw [instL, eraseL, eraseL, g1.2 hwb.1 hf.1, hsound hwb.2 hf.2]

theorem supL_single {a : T} {ks' : List T} {σ : Subst} {l : Bool}
    (h : supL [a] ks' [] false = .yes σ l) :
    ∃ b0 σ1, ks' = [b0] ∧ supS a (stripTop b0) = .yes σ1 l ∧ Ext σ1 σ := by
  cases ks' with
  | nil => rw [supL_cons_nil] at h; cases h
  | cons b0 bs =>
    rw [supL] at h
    split at h
    · cases h
    · cases h
    · next σ1 f h1 =>
      split at h
      · cases h
      · next acc' hm =>
        cases bs with
        | cons _ _ => rw [supL_nil_cons] at h; cases h
        | nil =>
          rw [supL] at h
          simp only [R.yes.injEq, Bool.false_or] at h
          obtain ⟨rfl, rfl⟩ := h
          exact ⟨b0, σ1, rfl, h1, (merge_ext σ1 [] _ hm).2⟩

theorem supLast_good : ∀ (ks : List T) (b : T) (σ : Subst),
    (∀ t ∈ ks, GoodP t) → wfL ks = true → initIgn ks = true → supLast ks b = .yes σ false →
    BindsL ks σ ∧ (wf b = true → ignFacesLast ks b = true → eraseLast (instL σ ks) = erase b)
  | [], _, _, _, _, _, h => by rw [supLast] at h; cases h
  | [e], b, σ, ih, hwf, _, h => by
      rw [supLast] at h
      rw [wfL] at hwf; simp only [Bool.and_eq_true] at hwf
      have g := ih e (by simp) b σ hwf.1 h
      refine ⟨fun n hn => g.1 n (by simpa [paramsL] using hn), fun hb hf => ?_⟩
      rw [ignFacesLast] at hf
      simp only [instL, eraseLast]; exact g.2 hb hf
  | e :: e' :: es, b, σ, ih, hwf, hinit, h => by
      rw [wfL] at hwf; simp only [Bool.and_eq_true] at hwf
      have h' : supLast (e' :: es) b = .yes σ false := by
        rw [supLast] at h
        · exact h
        · intro x; cases x
      have hinit' : isIgnNode e = true ∧ initIgn (e' :: es) = true := by
        rw [initIgn] at hinit
        · simpa using hinit
        · intro x; cases x
      obtain ⟨hb, hs⟩ := supLast_good (e' :: es) b σ (fun t ht => ih t (List.mem_cons_of_mem _ ht))
        hwf.2 hinit'.2 h'
      refine ⟨?_, fun hwb hf => ?_⟩
      · intro n hn
        rw [paramsL] at hn
        obtain ⟨as0, ks0, rfl⟩ := isIgnNode_inv hinit'.1
        rw [params_ignored _ _ (by decide), List.nil_append] at hn
        exact hb n hn
      · rw [eraseLast_instL_cons2]
        apply hs hwb
        rw [ignFacesLast] at hf
        · exact hf
        · intro x; cases x

theorem ignFaces_node {k : String} {as as' : List String} {ks ks' : List T} (hw : isWrapper k = false)
    (hi : k ≠ "Ign") (hil : k ≠ "IgnL") :
    ignFaces (.node k as ks) (.node k as' ks') = ignFacesL ks ks' := by
  rw [ignFaces]; simp [hw, hi, hil]


theorem supS_tparam_inv {n : String} {b : T} {σ : Subst} {l : Bool} (h : supS (.tparam n) b = .yes σ l) :
    l = false ∧ ((b = .tparam n ∧ σ = [(n, .identity)]) ∨ (b ≠ .tparam n ∧ σ = [(n, .ty b)])) := by
  unfold supS at h
  split at h
  · next hb => cases h; exact ⟨rfl, Or.inl ⟨hb, rfl⟩⟩
  · next hb => cases h; exact ⟨rfl, Or.inr ⟨hb, rfl⟩⟩

theorem supS_eparam_inv {n : String} {b : T} {σ : Subst} {l : Bool} (h : supS (.eparam n) b = .yes σ l) :
    l = false ∧ ((b = .eparam n ∧ σ = [(n, .identity)]) ∨ (b ≠ .eparam n ∧ σ = [(n, .ex b)])) := by
  unfold supS at h
  split at h
  · next hb => cases h; exact ⟨rfl, Or.inl ⟨hb, rfl⟩⟩
  · next hb => cases h; exact ⟨rfl, Or.inr ⟨hb, rfl⟩⟩

theorem lookup_single (n : String) (v : Val) : lookup [(n, v)] n = some v := by simp [lookup]

theorem goodP_tparam (n : String) : GoodP (.tparam n) := by
  intro b σ _ h
  obtain ⟨_, h | h⟩ := supS_tparam_inv h
  · obtain ⟨rfl, rfl⟩ := h
    refine ⟨fun m hm => ?_, fun _ _ => ?_⟩
    · simp [params] at hm; subst hm; simp [lookup]
    · rw [inst_tparam_other (by simp [lookup])]
  · obtain ⟨_, rfl⟩ := h
    refine ⟨fun m hm => ?_, fun _ _ => ?_⟩
    · simp [params] at hm; subst hm; simp [lookup]
    · rw [inst_tparam_ty (lookup_single _ _)]

theorem goodP_eparam (n : String) : GoodP (.eparam n) := by
  intro b σ _ h
  obtain ⟨_, h | h⟩ := supS_eparam_inv h
  · obtain ⟨rfl, rfl⟩ := h
    refine ⟨fun m hm => ?_, fun _ _ => ?_⟩
    · simp [params] at hm; subst hm; simp [lookup]
    · rw [inst_eparam_other (by simp [lookup])]
  · obtain ⟨_, rfl⟩ := h
    refine ⟨fun m hm => ?_, fun _ _ => ?_⟩
    · simp [params] at hm; subst hm; simp [lookup]
    · rw [inst_eparam_ex (lookup_single _ _)]

theorem ignFaces_wrapper {k : String} (as : List String) (ks : List T) (b : T) (hw : isWrapper k = true) :
    ignFaces (.node k as ks) b = ignFacesLast ks b := by
  unfold ignFaces; simp [hw]
theorem ignFaces_ign (as : List String) (ks : List T) (b : T) :
    ignFaces (.node "Ign" as ks) b = isIgnNode b := by
  unfold ignFaces; simp [isWrapper]

theorem goodP_node (k : String) (as : List String) (ks : List T) (ih : ∀ t ∈ ks, GoodP t) :
    GoodP (.node k as ks) := by
  intro b σ hwf h
  cases supS_node_inv h with
  | wrap hw hl =>
    obtain ⟨hn, hwfL⟩ := wf_node_inv hwf (isWrapper_ne_ign hw) (isWrapper_ne_ignL hw)
    obtain ⟨hb, hs⟩ := supLast_good ks b σ ih hwfL (wfNode_wrapper hn hw) hl
    refine ⟨?_, fun hwb hf => ?_⟩
    · intro n hn'
      rw [params_node as ks (isWrapper_ne_ign hw) (isWrapper_ne_ignL hw)] at hn'
      exact hb n hn'
    · rw [ignFaces_wrapper _ _ _ hw] at hf
      rw [inst_node_default σ (not_special_of_ne (isWrapper_ne_ga hw)), erase_wrapper _ _ hw]
      exact hs hwb hf
  | ign hw hk hσ _ =>
    subst hk hσ
    refine ⟨fun n hn => ?_, fun hwb hf => ?_⟩
    · rw [params_ignored _ _ (by decide)] at hn; cases hn
    · rw [ignFaces_ign] at hf
      obtain ⟨as', ks', rfl⟩ := isIgnNode_inv hf
      rw [inst_node_default _ (not_special_of_ne (by decide)), erase_ign, erase_ign]
  | ignL hw hk hσ hb =>
    subst hk hσ
    have hb := hb rfl; subst hb
    have hc : closed (.node "IgnL" as ks) = true := by rw [closed]; exact wf_ignL hwf
    refine ⟨fun n hn => ?_, fun _ _ => ?_⟩
    · rw [params_ignored _ _ (by decide)] at hn; cases hn
    · rw [inst_closed _ _ hc]
  | node k' as' ks' hw hi hil hb hnn =>
    subst hb
    obtain ⟨hn, hwfL⟩ := wf_node_inv hwf hi hil
    have hpar := params_node as ks hi hil
    cases hnn with
    | wildSame hk hk' hs =>
      subst hk hk'
      obtain ⟨_, _, hbL, hsL⟩ := supL_good ks ks' [] false σ ih hwfL hs
      have has : as = [] := wfNode_atoms hn (by decide)
      refine ⟨by rw [Binds, hpar]; exact hbL, fun hwb hf => ?_⟩
      obtain ⟨hn', hwfL'⟩ := wf_node_inv hwb hi hil
      have has' : as' = [] := wfNode_atoms hn' (by decide)
      rw [ignFaces_node hw hi hil] at hf
      rw [inst_node_default σ (not_special_of_ne (by decide)), erase_plain _ _ hw hi,
        erase_plain _ _ hw hi, hsL hwfL' hf, has, has']
    | lossy _ hl => cases hl
    | gaConst n e hk has hks hk' has' hks' hσ _ =>
      subst hk has hks hk' has' hks' hσ
      refine ⟨?_, fun _ _ => ?_⟩
      · rw [Binds, hpar]; intro m hm
        simp [paramsL, params] at hm; subst hm; simp [lookup]
      · rw [inst_ga_ex (lookup_single _ _)]
    | lifetime x y hkk hx hy hσ hxy =>
      have hxy := hxy rfl
      subst hkk hσ hxy
      have ha := lifetimeIdent_inv hx
      have hb := lifetimeIdent_inv hy
      have hc : closed (.node k as ks) = true := by rw [ha]; simp [closed, closedL]
      refine ⟨?_, fun _ _ => ?_⟩
      · rw [Binds, params_closed _ hc]; intro m hm; cases hm
      · rw [inst_closed _ _ hc, ha, hb]
    | pathParam n hkk hpa hpb hσ _ =>
      subst hkk hσ
      have ha := pathParam_inv hpa
      have hb := pathParam_inv hpb
      have hc : closed (.node k as ks) = true := by rw [ha]; simp [closed, closedL]
      refine ⟨?_, fun _ _ => ?_⟩
      · rw [Binds, params_closed _ hc]; intro m hm; cases hm
      · rw [inst_closed _ _ hc, ha, hb]
    | qself ty rest ty' hkk hk hks hks' hs =>
      subst hkk hk hks hks'
      have hwt : wf ty = true := wfL_iff.1 hwfL ty (by simp)
      have hrest : closedL rest = true := wfNode_qself hn
      have has : as = [] := wfNode_atoms hn (by decide)
      have kid := (ih ty (by simp)).kid hwt hs (Ext.refl σ)
      refine ⟨?_, fun hwb hf => ?_⟩
      · rw [Binds, hpar, paramsL, paramsL_closed hrest, List.append_nil]; exact kid.1
      · obtain ⟨hn', hwfL'⟩ := wf_node_inv hwb hi hil
        have has' : as' = [] := wfNode_atoms hn' (by decide)
        rw [ignFaces_node hw hi hil, ignFacesL] at hf
        simp only [Bool.and_eq_true] at hf
        rw [inst_node_default σ (not_special_of_ne (by decide)), instL, instL_closed σ hrest,
          erase_plain _ _ hw hi, erase_plain _ _ hw hi, eraseL, eraseL,
          kid.2 (wfL_iff.1 hwfL' ty' (by simp)) hf.1, has, has']
    | binary op lft r att lft' r' att' σ1 f1 σ2 f2 σ12 σ3 f3 hkk hk hks hks' h1 h2 hm12 h3 hm3 hl =>
      subst hkk hk hks hks'
      have hfs : (f1 = false ∧ f2 = false) ∧ f3 = false := by simpa using hl.symm
      obtain ⟨⟨rfl, rfl⟩, rfl⟩ := hfs
      obtain ⟨e1, e2⟩ := merge_ext σ2 σ1 σ12 hm12
      obtain ⟨e12, e3⟩ := merge_ext σ3 σ12 σ hm3
      have hop : closed op = true := wfNode_binary hn
      have has : as = [] := wfNode_atoms hn (by decide)
      have k1 := (ih lft (by simp)).kid (wfL_iff.1 hwfL lft (by simp)) h1 (e1.trans e12)
      have k2 := (ih r (by simp)).kid (wfL_iff.1 hwfL r (by simp)) h2 (e2.trans e12)
      have k3 := (ih att (by simp)).kid (wfL_iff.1 hwfL att (by simp)) h3 e3
      refine ⟨?_, fun hwb hf => ?_⟩
      · rw [Binds, hpar]
        simp only [paramsL, params_closed op hop, List.nil_append, List.append_nil]
        intro n hn
        simp only [List.mem_append] at hn
        rcases hn with hn | hn | hn
        · exact k1.1 n hn
        · exact k2.1 n hn
        · exact k3.1 n hn
      · obtain ⟨hn', hwfL'⟩ := wf_node_inv hwb hi hil
        have has' : as' = [] := wfNode_atoms hn' (by decide)
        rw [ignFaces_node hw hi hil] at hf
        simp only [ignFacesL, Bool.and_eq_true, and_true] at hf
        obtain ⟨_, hf1, hf2, hf3⟩ := hf
        rw [inst_node_default σ (not_special_of_ne (by decide)), erase_plain _ _ hw hi,
          erase_plain _ _ hw hi]
        simp only [instL, eraseL]
        rw [inst_closed σ op hop, k1.2 (wfL_iff.1 hwfL' lft' (by simp)) hf1,
          k2.2 (wfL_iff.1 hwfL' r' (by simp)) hf2, k3.2 (wfL_iff.1 hwfL' att' (by simp)) hf3, has, has']
    | binarySwap _ _ _ _ _ _ _ _ _ _ _ _ _ _ _ _ _ _ _ _ _ _ _ hl => cases hl
    | optNone x y hkk hk hks hks' hnone hσ hxy =>
      have hxy := hxy rfl
      subst hkk hk hks hks' hσ hxy
      have hx : isNoneNode x = true := by simpa using hnone
      have hx := isNoneNode_inv hx
      subst hx
      have has : as = [] := wfNode_atoms hn (by decide)
      have hc : closed (.node "OptWild" as [.node "None" [] []]) = true := by simp [closed, closedL]
      refine ⟨?_, fun hwb _ => ?_⟩
      · rw [Binds, params_closed _ hc]; intro m hm; cases hm
      · obtain ⟨hn', _⟩ := wf_node_inv hwb hi hil
        have has' : as' = [] := wfNode_atoms hn' (by decide)
        rw [inst_closed _ _ hc, has, has']
    | optSome x y hkk hk hks hks' hs =>
      subst hkk hk hks hks'
      have has : as = [] := wfNode_atoms hn (by decide)
      have kid := (ih x (by simp)).kid (wfL_iff.1 hwfL x (by simp)) hs (Ext.refl σ)
      refine ⟨?_, fun hwb hf => ?_⟩
      · rw [Binds, hpar]; simp only [paramsL, List.append_nil]; exact kid.1
      · obtain ⟨hn', hwfL'⟩ := wf_node_inv hwb hi hil
        have has' : as' = [] := wfNode_atoms hn' (by decide)
        rw [ignFaces_node hw hi hil] at hf
        simp only [ignFacesL, Bool.and_eq_true, and_true] at hf
        rw [inst_node_default σ (not_special_of_ne (by decide)), erase_plain _ _ hw hi,
          erase_plain _ _ hw hi]
        simp only [instL, eraseL]
        rw [kid.2 (wfL_iff.1 hwfL' y (by simp)) hf, has, has']
    | dflt hkk has hs =>
      subst hkk has
      by_cases hsp : Special k as ks
      · obtain ⟨n, rfl, rfl, rfl⟩ := hsp
        obtain ⟨b0, σ1, rfl, hs1, he⟩ := supL_single hs
        have kid := (goodP_tparam n).kid (t' := b0) (by rw [wf]) hs1 he
        have hv : ∃ v, lookup σ1 n = some v ∧ ∀ e, v ≠ .ex e := by
          obtain ⟨_, h | h⟩ := supS_tparam_inv hs1
          · exact ⟨.identity, by rw [h.2, lookup_single], by simp⟩
          · exact ⟨_, by rw [h.2, lookup_single], by simp⟩
        obtain ⟨v, hv1, hv2⟩ := hv
        have hv3 := he n v hv1
        refine ⟨?_, fun hwb hf => ?_⟩
        · rw [Binds, hpar]; simp only [paramsL, List.append_nil]; exact kid.1
        · obtain ⟨_, hwfL'⟩ := wf_node_inv hwb hi hil
          rw [ignFaces_node hw hi hil] at hf
          simp only [ignFacesL, Bool.and_eq_true, and_true] at hf
          rw [inst_ga_other (by rw [hv3]; intro e he'; exact hv2 e (Option.some.inj he')),
            erase_plain _ _ hw hi, erase_plain _ _ hw hi]
          simp only [eraseL]
          rw [kid.2 (wfL_iff.1 hwfL' b0 (by simp)) hf]
      · obtain ⟨_, _, hbL, hsL⟩ := supL_good ks ks' [] false σ ih hwfL hs
        refine ⟨by rw [Binds, hpar]; exact hbL, fun hwb hf => ?_⟩
        obtain ⟨_, hwfL'⟩ := wf_node_inv hwb hi hil
        rw [ignFaces_node hw hi hil] at hf
        rw [inst_node_default σ hsp, erase_plain _ _ hw hi, erase_plain _ _ hw hi, hsL hwfL' hf]

theorem supS_good : ∀ a : T, GoodP a := T.ind goodP_tparam goodP_eparam goodP_node

end DI
