/-
  Alpha-invariance of the canonical *header* without the condition `deadFixed` (C13 / C06): respelling a declared
  parameter that the indexer never reaches changes the canonical item (finding D21) but not its header (trait path and
  self type), because a name that occurs in a position the indexer visits is indexed (`ixT_complete`).
  Statements: `Props/C13.lean` (`C13_alpha_header_any`).
-/
import DisjointImpls.Lemmas.CanonAlpha
namespace DI

/-! ### A condition on the names in parameter position, for arbitrary predicates -/

/-- one predicate per position: lifetime, type path, expression path -/
structure NP where
  lt : String → Bool
  ty : String → Bool
  ex : String → Bool

mutual
/-- every identifier in parameter position satisfies the predicate of its position (same traversal as `alOK`) -/
def alP (P : NP) : T → Bool
  | .tparam n => P.ty n
  | .eparam n => P.ex n
  | .node "Ign" _ _ => true
  | .node "Eq" _ _ => true
  | .node "Lifetime" _ [.node "Ident" [x] []] => P.lt x
  | .node "Type::Path" _ [q, p] =>
      alP P q && alP P p && (match firstSegIdent p with | some x => P.ty x | none => true)
  | .node "Expr::Path" _ [att, q, p] =>
      alP P att && alP P q && alP P p && (match firstSegIdent p with | some x => P.ex x | none => true)
  | .node _ _ ks => alPL P ks
def alPL (P : NP) : List T → Bool
  | [] => true
  | t :: ts => alP P t && alPL P ts
end

theorem alP_of_other (P : NP) {k : String} (as : List String) {ks : List T} (h : NodeOther k ks) :
    alP P (.node k as ks) = alPL P ks := by
  obtain ⟨h1, h2, h3, h4, h5⟩ := h
  unfold alP
  split
  · next heq => cases heq
  · next heq => cases heq
  · next heq => cases heq; exact absurd rfl h1
  · next heq => cases heq; exact absurd rfl h2
  · next x heq => cases heq; exact absurd ⟨rfl, rfl⟩ (h3 x)
  · next q p heq => cases heq; exact absurd ⟨rfl, rfl⟩ (h4 q p)
  · next a q p heq => cases heq; exact absurd ⟨rfl, rfl⟩ (h5 a q p)
  · next heq => cases heq; rfl

theorem alPL_iff {P : NP} : ∀ {ks : List T}, alPL P ks = true ↔ ∀ t ∈ ks, alP P t = true
  | [] => by simp [alPL]
  | t :: ts => by simp [alPL, alPL_iff (ks := ts)]

theorem alP_ign (P : NP) (as : List String) (ks : List T) : alP P (.node "Ign" as ks) = true := by rw [alP]
theorem alP_eq (P : NP) (as : List String) (ks : List T) : alP P (.node "Eq" as ks) = true := by rw [alP]

theorem alP_typePath_iff {P : NP} {as : List String} {q p : T} :
    alP P (.node "Type::Path" as [q, p]) = true ↔
      alP P q = true ∧ alP P p = true ∧ ∀ x, firstSegIdent p = some x → P.ty x = true := by
  rw [alP]
  simp only [Bool.and_eq_true]
  constructor
  · rintro ⟨⟨hq, hp⟩, hm⟩
    refine ⟨hq, hp, fun x hx => ?_⟩
    rw [hx] at hm
    exact hm
  · rintro ⟨hq, hp, hm⟩
    refine ⟨⟨hq, hp⟩, ?_⟩
    cases hx : firstSegIdent p with
    | none => rfl
    | some x => exact hm x hx

theorem alP_exprPath_iff {P : NP} {as : List String} {a q p : T} :
    alP P (.node "Expr::Path" as [a, q, p]) = true ↔
      alP P a = true ∧ alP P q = true ∧ alP P p = true ∧ ∀ x, firstSegIdent p = some x → P.ex x = true := by
  rw [alP]
  simp only [Bool.and_eq_true]
  constructor
  · rintro ⟨⟨⟨ha, hq⟩, hp⟩, hm⟩
    refine ⟨ha, hq, hp, fun x hx => ?_⟩
    rw [hx] at hm
    exact hm
  · rintro ⟨ha, hq, hp, hm⟩
    refine ⟨⟨⟨ha, hq⟩, hp⟩, ?_⟩
    cases hx : firstSegIdent p with
    | none => rfl
    | some x => exact hm x hx

/-- the condition is monotone in the predicates -/
theorem alP_mono {P Q : NP} (hlt : ∀ n, P.lt n = true → Q.lt n = true) (hty : ∀ n, P.ty n = true → Q.ty n = true)
    (hex : ∀ n, P.ex n = true → Q.ex n = true) : ∀ t : T, alP P t = true → alP Q t = true := by
  apply T.ind
  · intro n h; rw [alP] at h ⊢; exact hty n h
  · intro n h; rw [alP] at h ⊢; exact hex n h
  · intro k as ks ih h
    rcases node_shape k ks with hh | ⟨x, rfl, rfl⟩ | ⟨q, p, rfl, rfl⟩ | ⟨a, q, p, rfl, rfl⟩ | hh
    · rcases hh with rfl | rfl
      · exact alP_ign Q as ks
      · exact alP_eq Q as ks
    · rw [alP] at h ⊢; exact hlt x h
    · rw [alP_typePath_iff] at h ⊢
      exact ⟨ih q (by simp) h.1, ih p (by simp) h.2.1, fun x hx => hty x (h.2.2 x hx)⟩
    · rw [alP_exprPath_iff] at h ⊢
      exact ⟨ih a (by simp) h.1, ih q (by simp) h.2.1, ih p (by simp) h.2.2.1, fun x hx => hex x (h.2.2.2 x hx)⟩
    · rw [alP_of_other P as hh] at h
      rw [alP_of_other Q as hh, alPL_iff]
      exact fun t ht => ih t ht (alPL_iff.1 h t ht)

/-! ### A name in a visited position is indexed -/

/-- the names that are no longer waiting in `s` -/
def livePred (s : IxState) : NP :=
  ⟨fun n => !s.unLt.contains n, fun n => !s.unTy.contains n, fun n => !s.unTy.contains n && !s.unCo.contains n⟩

theorem livePred_mono {s s' : IxState} (h : ∀ k, ∀ y ∈ s'.un k, y ∈ s.un k) (t : T)
    (ht : alP (livePred s) t = true) : alP (livePred s') t = true := by
  refine alP_mono ?_ ?_ ?_ t ht
  · intro n hn
    simp only [livePred, Bool.not_eq_true', ← Bool.not_eq_true, List.contains_iff_mem] at hn ⊢
    exact fun hm => hn (h .lt n hm)
  · intro n hn
    simp only [livePred, Bool.not_eq_true', ← Bool.not_eq_true, List.contains_iff_mem] at hn ⊢
    exact fun hm => hn (h .ty n hm)
  · intro n hn
    simp only [livePred, Bool.and_eq_true, Bool.not_eq_true', ← Bool.not_eq_true, List.contains_iff_mem] at hn ⊢
    exact ⟨fun hm => hn.1 (h .ty n hm), fun hm => hn.2 (h .co n hm)⟩

theorem isIgn_inv {a : T} (h : isIgn a = true) : ∃ as ks, a = .node "Ign" as ks := by
  unfold isIgn at h
  split at h
  · exact ⟨_, _, rfl⟩
  · cases h

theorem ixVisL_iff : ∀ {ks : List T}, ixVisL ks = true ↔ ∀ t ∈ ks, ixVis t = true
  | [] => by simp [ixVisL]
  | t :: ts => by simp [ixVisL, ixVisL_iff (ks := ts)]

theorem ixVis_generics (as : List String) (ks : List T) : ixVis (.node "Generics" as ks) = false := by rw [ixVis]

theorem ixVis_exprPath {as : List String} {a q p : T} (h : ixVis (.node "Expr::Path" as [a, q, p]) = true) :
    (∃ as' ks', a = .node "Ign" as' ks') ∧ ixVis q = true ∧ ixVis p = true := by
  rw [ixVis] at h
  simp only [Bool.and_eq_true] at h
  exact ⟨isIgn_inv h.1.1, h.1.2, h.2⟩

theorem ixVis_of_other {k : String} (as : List String) {ks : List T} (h : NodeOther k ks) (hg : k ≠ "Generics") :
    ixVis (.node k as ks) = ixVisL ks := by
  obtain ⟨h1, h2, _, _, h5⟩ := h
  unfold ixVis
  split
  · next heq => cases heq
  · next heq => cases heq
  · next heq => cases heq; exact absurd rfl h1
  · next heq => cases heq; exact absurd rfl h2
  · next heq => cases heq; exact absurd rfl hg
  · next a q p heq => cases heq; exact absurd ⟨rfl, rfl⟩ (h5 a q p)
  · next heq => cases heq; rfl

theorem ixVis_node {k : String} (as : List String) (ks : List T) (h1 : k ≠ "Ign") (h2 : k ≠ "Eq") (h3 : k ≠ "Generics")
    (h4 : k ≠ "Expr::Path") : ixVis (.node k as ks) = ixVisL ks := by
  unfold ixVis
  split
  · next heq => cases heq
  · next heq => cases heq
  · next heq => cases heq; exact absurd rfl h1
  · next heq => cases heq; exact absurd rfl h2
  · next heq => cases heq; exact absurd rfl h3
  · next heq => cases heq; exact absurd rfl h4
  · next heq => cases heq; rfl

theorem ixVis_typePath (as : List String) (q p : T) :
    ixVis (.node "Type::Path" as [q, p]) = (ixVis q && (ixVis p && true)) := by
  rw [ixVis_node as _ (by decide) (by decide) (by decide) (by decide), ixVisL, ixVisL, ixVisL]

theorem nodup_un_of_inv {s : IxState} (h : IxInv s) : s.unLt.Nodup ∧ s.unTy.Nodup ∧ s.unCo.Nodup :=
  ⟨(List.nodup_append.1 h.2.1).2.1, (List.nodup_append.1 h.2.2.1).2.1, (List.nodup_append.1 h.2.2.2).2.1⟩

theorem ltIdent_gone {s : IxState} (h : s.unLt.Nodup) (n : String) : n ∉ (ltIdent s n).unLt := by
  unfold ltIdent
  split
  · exact h.not_mem_erase
  · next hc => simpa using hc

theorem tyIdent_gone {s : IxState} (h : s.unTy.Nodup) (n : String) : n ∉ (tyIdent s n).1.unTy := by
  unfold tyIdent
  split
  · exact h.not_mem_erase
  · next hc => simpa using hc

theorem coIdent_gone {s : IxState} (h : s.unCo.Nodup) (n : String) : n ∉ (coIdent s n).unCo := by
  unfold coIdent
  split
  · exact h.not_mem_erase
  · next hc => simpa using hc

theorem coIdent_unTy (s : IxState) (n : String) : (coIdent s n).unTy = s.unTy := by
  unfold coIdent; split <;> rfl

theorem exIdent_gone {c : CCtx} (st : Stat c) {s : IxState} (hi : IxInv s) (hu : Un c s) (n : String) :
    n ∉ (exIdent s n).unTy ∧ n ∉ (exIdent s n).unCo := by
  obtain ⟨_, h2, h3⟩ := nodup_un_of_inv hi
  have hgone := tyIdent_gone h2 n
  unfold exIdent
  cases hh : (tyIdent s n).2 with
  | true =>
    simp only [hh, if_true]
    refine ⟨hgone, ?_⟩
    rw [tyIdent_miss_unCo]
    intro hco
    have hty : n ∈ s.unTy := by
      unfold tyIdent at hh
      split at hh
      · next hc => simpa using hc
      · cases hh
    cases st.disj .ty .co rfl n (hu .ty n hty) (hu .co n hco)
  | false =>
    simp only [hh, Bool.false_eq_true, if_false]
    refine ⟨?_, coIdent_gone (by rw [tyIdent_miss_unCo]; exact h3) n⟩
    rw [coIdent_unTy]
    exact hgone

theorem livePred_lt {s : IxState} {n : String} (h : n ∉ s.unLt) : (livePred s).lt n = true := by
  simpa [livePred] using h
theorem livePred_ty {s : IxState} {n : String} (h : n ∉ s.unTy) : (livePred s).ty n = true := by
  simpa [livePred] using h
theorem livePred_ex {s : IxState} {n : String} (h1 : n ∉ s.unTy) (h2 : n ∉ s.unCo) : (livePred s).ex n = true := by
  simp [livePred, h1, h2]

theorem IxInv.ixT {s : IxState} (h : IxInv s) (t : T) : IxInv (ixT s t) := ixT_rel ixInv_rel t s h
theorem IxInv.ty {s : IxState} (h : IxInv s) (x : String) : IxInv (tyIdent s x).1 := ixInv_rel.ty s x h
theorem IxInv.ex {s : IxState} (h : IxInv s) (x : String) : IxInv (exIdent s x) := ixInv_rel.ex s x h

theorem ixL_complete_of {c : CCtx} : ∀ (ks : List T),
    (∀ t ∈ ks, ∀ s, IxInv s → Un c s → ixVis t = true → alP (livePred (ixT s t)) t = true) →
    ∀ s, IxInv s → Un c s → ixVisL ks = true → alPL (livePred (ixL s ks)) ks = true
  | [], _, _, _, _, _ => by rw [alPL]
  | t :: ts, ih, s, hi, hu, hv => by
      have hv' := ixVisL_iff.1 hv
      rw [ixL_cons, alPL, Bool.and_eq_true]
      constructor
      · refine livePred_mono ?_ t (ih t (by simp) s hi hu (hv' t (by simp)))
        exact ixL_rel un_rel ts (fun t' _ => ixT_rel un_rel t') _
      · exact ixL_complete_of ts (fun t' ht' => ih t' (List.mem_cons_of_mem _ ht')) _ (hi.ixT t) (hu.ixT t)
          (ixVisL_iff.2 (fun t' ht' => hv' t' (List.mem_cons_of_mem _ ht')))

/-- **a name that occurs in a position the indexer visits is no longer waiting afterwards** -/
theorem ixT_complete (c : CCtx) (st : Stat c) : ∀ (t : T) (s : IxState), IxInv s → Un c s → ixVis t = true →
    alP (livePred (ixT s t)) t = true := by
  apply T.ind
  · intro n s hi _ _
    rw [ixT_tparam, alP]
    exact livePred_ty (tyIdent_gone (nodup_un_of_inv hi).2.1 n)
  · intro n s hi hu _
    rw [ixT_eparam, alP]
    obtain ⟨h1, h2⟩ := exIdent_gone st hi hu n
    exact livePred_ex h1 h2
  · intro k as ks ih s hi hu hv
    rcases node_shape k ks with h | ⟨x, rfl, rfl⟩ | ⟨q, p, rfl, rfl⟩ | ⟨a, q, p, rfl, rfl⟩ | h
    · rcases h with rfl | rfl
      · exact alP_ign _ as ks
      · exact alP_eq _ as ks
    · rw [ixT_lifetime, alP]
      exact livePred_lt (ltIdent_gone (nodup_un_of_inv hi).1 x)
    · rw [ixVis_typePath] at hv
      simp only [Bool.and_eq_true, and_true] at hv
      have hv' : ∀ t ∈ [q, p], ixVis t = true := by
        intro t ht
        rcases List.mem_cons.1 ht with rfl | ht
        · exact hv.1
        · rcases List.mem_cons.1 ht with rfl | ht
          · exact hv.2
          · cases ht
      have hq := ih q (by simp) s hi hu (hv' q (by simp))
      rw [ixT_typePath, alP_typePath_iff]
      cases hf : firstSegIdent p with
      | none =>
        simp only
        refine ⟨livePred_mono (ixT_rel un_rel p _) q hq, ih p (by simp) _ (hi.ixT q) (hu.ixT q) (hv' p (by simp)),
          fun x hx => by cases hx⟩
      | some x =>
        simp only
        refine ⟨?_, ih p (by simp) _ ((hi.ixT q).ty x) ((hu.ixT q).ty x) (hv' p (by simp)), ?_⟩
        · refine livePred_mono ?_ q hq
          exact un_rel.trans (un_rel.ty _ x) (ixT_rel un_rel p _)
        · intro x' hx'
          cases hx'
          have hgone := tyIdent_gone (nodup_un_of_inv (hi.ixT q)).2.1 x
          exact livePred_ty (fun hm => hgone (ixT_rel un_rel p _ .ty x hm))
    · obtain ⟨⟨as', ks', rfl⟩, hvq, hvp⟩ := ixVis_exprPath hv
      have hq := ih q (by simp) s hi hu hvq
      rw [ixT_exprPath, alP_exprPath_iff]
      cases hf : firstSegIdent p with
      | none =>
        simp only
        refine ⟨alP_ign _ _ _, livePred_mono (ixT_rel un_rel p _) q hq, ih p (by simp) _ (hi.ixT q) (hu.ixT q) hvp,
          fun x hx => by cases hx⟩
      | some x =>
        simp only
        refine ⟨alP_ign _ _ _, ?_, ih p (by simp) _ ((hi.ixT q).ex x) ((hu.ixT q).ex x) hvp, ?_⟩
        · refine livePred_mono ?_ q hq
          exact un_rel.trans (un_rel.ex _ x) (ixT_rel un_rel p _)
        · intro x' hx'
          cases hx'
          obtain ⟨g1, g2⟩ := exIdent_gone st (hi.ixT q) (hu.ixT q) x
          exact livePred_ex (fun hm => g1 (ixT_rel un_rel p _ .ty x hm)) (fun hm => g2 (ixT_rel un_rel p _ .co x hm))
    · by_cases hg : k = "Generics"
      · subst hg; rw [ixVis_generics] at hv; cases hv
      · have hv2 : ixVisL ks = true := by rwa [ixVis_of_other as h hg] at hv
        rw [ixT_of_other _ as h hg, alP_of_other _ as h]
        exact ixL_complete_of ks ih s hi hu hv2

/-! ### Resolving a respelled tree all of whose parameter names satisfy `P` -/

theorem rsL_arL_live_of {c cc : CCtx} {r' : Renaming} {P : NP} : ∀ (ks : List T),
    (∀ t ∈ ks, alOK c t = true → alP P t = true → rsOK cc t = true → rsT r' (arT c.r t) = rsT cc.r t) →
    alOKL c ks = true → alPL P ks = true → rsOKL cc ks = true → rsL r' (arL c.r ks) = rsL cc.r ks
  | [], _, _, _, _ => by rw [arL_nil, rsL_nil, rsL_nil]
  | t :: ts, ih, h1, h2, h3 => by
      have h1' := alOKL_iff.1 h1
      have h2' := alPL_iff.1 h2
      have h3' := rsOKL_iff.1 h3
      rw [arL_cons, rsL_cons, rsL_cons, ih t (by simp) (h1' t (by simp)) (h2' t (by simp)) (h3' t (by simp)),
        rsL_arL_live_of ts (fun t' ht' => ih t' (List.mem_cons_of_mem _ ht'))
          (alOKL_iff.2 (fun t' ht' => h1' t' (List.mem_cons_of_mem _ ht')))
          (alPL_iff.2 (fun t' ht' => h2' t' (List.mem_cons_of_mem _ ht')))
          (rsOKL_iff.2 (fun t' ht' => h3' t' (List.mem_cons_of_mem _ ht')))]

/-- `rsT_arT` with the facts about the two renamings required only for the names that satisfy `P` -/
theorem rsT_arT_live (c cc : CCtx) (r' : Renaming) (P : NP)
    (hlt : ∀ n, okLt c n = true → P.lt n = true → rn r'.lt (rn c.r.lt n) = rn cc.r.lt n)
    (hty : ∀ n, okTy c n = true → P.ty n = true →
      rlookup r'.ty (rn c.r.ty n) = rlookup cc.r.ty n ∧ (rlookup cc.r.ty n = none → rn c.r.ty n = n))
    (hex : ∀ n, okEx c n = true → P.ex n = true → rlookup r'.ty (exW c.r n) = rlookup cc.r.ty n ∧
      (rlookup cc.r.ty n = none → rlookup r'.co (exW c.r n) = rlookup cc.r.co n ∧
        (rlookup cc.r.co n = none → exW c.r n = n))) :
    ∀ t : T, alOK c t = true → alP P t = true → rsOK cc t = true → rsT r' (arT c.r t) = rsT cc.r t := by
  apply T.ind
  · intro n hok hp _
    rw [alOK] at hok
    rw [alP] at hp
    obtain ⟨e1, e2⟩ := hty n hok hp
    rw [arT_tparam, rsT_tparam, rsT_tparam, e1]
    cases hl : rlookup cc.r.ty n with
    | some m => rfl
    | none => simp only [Option.getD_none]; rw [e2 hl]
  · intro n hok hp _
    rw [alOK] at hok
    rw [alP] at hp
    obtain ⟨e1, e2⟩ := hex n hok hp
    rw [arT_eparam, rsT_eparam, rsT_eparam, e1]
    cases hl : rlookup cc.r.ty n with
    | some m => rfl
    | none =>
      obtain ⟨e3, e4⟩ := e2 hl
      rw [e3]
      cases hl2 : rlookup cc.r.co n with
      | some m => rfl
      | none => simp only [Option.or_none, Option.getD_none]; rw [e4 hl2]
  · intro k as ks ih hok hp hrs
    rcases node_shape k ks with h | ⟨x, rfl, rfl⟩ | ⟨q, p, rfl, rfl⟩ | ⟨a, q, p, rfl, rfl⟩ | h
    · rcases h with rfl | rfl
      · rw [arT_ign, rsT_ign, rsT_ign]
      · rw [arT_eq, rsT_eq, rsT_eq]
    · rw [alOK] at hok
      rw [alP] at hp
      have := hlt x hok hp
      rw [arT_lifetime, rsT_lifetime, rsT_lifetime]
      show T.node "Lifetime" as [T.node "Ident" [rn r'.lt (rn c.r.lt x)] []] =
        T.node "Lifetime" as [T.node "Ident" [rn cc.r.lt x] []]
      rw [this]
    · obtain ⟨hq, hp1, hx⟩ := alOK_typePath_inv hok
      obtain ⟨pq, pp, px⟩ := alP_typePath_iff.1 hp
      obtain ⟨hq', hp', _⟩ := rsOK_typePath_inv hrs
      rw [arT_typePath, rsT_typePath, rsT_typePath, rsT_mapHead, ih q (by simp) hq pq hq', ih p (by simp) hp1 pp hp']
      apply rsTypePath_mapHead
      intro x hfx
      rw [firstSegIdent_rsT] at hfx
      exact hty x (hx x hfx) (px x hfx)
    · obtain ⟨ha, hq, hp1, hx⟩ := alOK_exprPath_inv hok
      obtain ⟨pa, pq, pp, px⟩ := alP_exprPath_iff.1 hp
      obtain ⟨ha', hq', hp', hx'⟩ := rsOK_exprPath_inv hrs
      rw [arT_exprPath, rsT_exprPath, rsT_exprPath, rsT_mapHead, ih a (by simp) ha pa ha', ih q (by simp) hq pq hq',
        ih p (by simp) hp1 pp hp']
      apply rsExprPath_mapHead
      · intro x hfx
        rw [firstSegIdent_rsT] at hfx
        exact hex x (hx x hfx) (px x hfx)
      · intro x m hfx hl hl2
        rw [firstSegIdent_rsT] at hfx
        obtain ⟨hplain, hemp⟩ := (hx' x hfx).2.2 hl m hl2
        obtain ⟨rfl, x', rest, rfl⟩ := plainHead_inv hplain
        cases (by simpa [firstSegIdent_plainPath] using hfx : x' = x)
        rw [restSegments_plainPath] at hemp
        cases rest with
        | cons _ _ => cases hemp
        | nil => rw [rsT_noneNode, rsT_plainPath, rsL_nil]; exact ⟨rfl, rfl⟩
    · rw [alOK_of_other c as h] at hok
      rw [alP_of_other P as h] at hp
      rw [rsOK_of_other cc as h] at hrs
      rw [arT_of_other c.r as h, rsT_of_other r' as (nodeOther_arL c.r h), rsT_of_other cc.r as h,
        rsL_arL_live_of ks ih hok hp hrs]

/-! ### The two renamings on the names that are not waiting -/

section CompLive
variable (c : CCtx) (st : Stat c) (s : IxState)
  (hnm : ∀ k, ∀ y, y ∈ s.names k ↔ y ∈ c.D k)

include st hnm in
theorem comp_lk_live (k : PK) (n : String) (h : n ∈ c.D k ∨ n ∉ (c.D k).map (c.ρ k)) (hlive : n ∉ s.un k) :
    rlookup ((mapS c.r s).renaming.m k) (c.ρ k n) = rlookup (s.renaming.m k) n ∧
    (rlookup (s.renaming.m k) n = none → c.ρ k n = n) := by
  rw [mapS_renaming_m, renaming_m]
  by_cases hn : n ∈ c.D k
  · constructor
    · exact rlookup_ixmap_comm (c.ρ k) n (s.ix k)
        (fun a ha e => st.inj k k rfl a n (ix_mem_D c s hnm ha) hn e)
    · intro hl
      have hk := rlookup_none_notin hl
      rw [List.map_map] at hk
      have hnames := (hnm k n).2 hn
      rw [names_eq] at hnames
      rcases List.mem_append.1 hnames with h' | h'
      · exact absurd h' hk
      · exact absurd h' hlive
  · have hf : n ∉ (c.D k).map (c.ρ k) := by
      rcases h with h | h
      · exact absurd h hn
      · exact h
    have e : c.ρ k n = n := st.rho_notin hn
    rw [e]
    refine ⟨?_, fun _ => rfl⟩
    rw [rlookup_none_of_notin, rlookup_none_of_notin]
    · rw [List.map_map]
      exact fun ha => hn (ix_mem_D c s hnm ha)
    · rw [List.map_map]
      intro ha
      obtain ⟨p, hp, e'⟩ := List.mem_map.1 ha
      exact hf (List.mem_map.2 ⟨p.1, ix_mem_D c s hnm (List.mem_map.2 ⟨p, hp, rfl⟩), e'⟩)

include st hnm in
theorem live_lt (n : String) (hok : okLt c n = true) (hp : (livePred s).lt n = true) :
    rn (mapS c.r s).renaming.lt (rn c.r.lt n) = rn s.renaming.lt n := by
  simp only [okLt, Bool.or_eq_true, List.contains_iff_mem, Bool.not_eq_true', ← Bool.not_eq_true] at hok
  simp only [livePred, Bool.not_eq_true', ← Bool.not_eq_true, List.contains_iff_mem] at hp
  obtain ⟨e1, e2⟩ := comp_lk_live c st s hnm .lt n hok hp
  have e1' : rlookup (mapS c.r s).renaming.lt (rn c.r.lt n) = rlookup s.renaming.lt n := e1
  have e2' : rlookup s.renaming.lt n = none → rn c.r.lt n = n := e2
  unfold rn at e1' e2' ⊢
  rw [e1']
  cases hl : rlookup s.renaming.lt n with
  | some m => rfl
  | none => simp only [Option.getD_none]; exact e2' hl

include st hnm in
theorem live_ty (n : String) (hok : okTy c n = true) (hp : (livePred s).ty n = true) :
    rlookup (mapS c.r s).renaming.ty (rn c.r.ty n) = rlookup s.renaming.ty n ∧
    (rlookup s.renaming.ty n = none → rn c.r.ty n = n) := by
  simp only [okTy, Bool.or_eq_true, List.contains_iff_mem, Bool.not_eq_true', ← Bool.not_eq_true] at hok
  simp only [livePred, Bool.not_eq_true', ← Bool.not_eq_true, List.contains_iff_mem] at hp
  exact comp_lk_live c st s hnm .ty n hok hp

include st hnm in
theorem live_ex (n : String) (hok : okEx c n = true) (hp : (livePred s).ex n = true) :
    rlookup (mapS c.r s).renaming.ty (exW c.r n) = rlookup s.renaming.ty n ∧
    (rlookup s.renaming.ty n = none → rlookup (mapS c.r s).renaming.co (exW c.r n) = rlookup s.renaming.co n ∧
      (rlookup s.renaming.co n = none → exW c.r n = n)) := by
  simp only [livePred, Bool.and_eq_true, Bool.not_eq_true', ← Bool.not_eq_true, List.contains_iff_mem] at hp
  obtain ⟨hp1, hp2⟩ := hp
  by_cases hty : n ∈ c.dTy
  · have hco : n ∉ c.dCo := fun hco => by cases st.disj .ty .co rfl n hty hco
    have h2 : rlookup c.r.co n = none := by
      cases h2 : rlookup c.r.co n with
      | none => rfl
      | some v => exact absurd (st.dom .co n v h2) hco
    have e : exW c.r n = c.ρ .ty n := by
      unfold exW CCtx.ρ rn
      rw [h2, Option.or_none]
      rfl
    rw [e]
    obtain ⟨e1, e2⟩ := comp_lk_live c st s hnm .ty n (Or.inl hty) hp1
    refine ⟨e1, fun hl => ⟨?_, fun _ => e2 hl⟩⟩
    exact (comp_cross c st s hnm (k := .ty) (k' := .co) (by decide) rfl hty).trans
      (comp_r_none c s hnm (k := .co) hco).symm
  · have h1 : rlookup c.r.ty n = none := by
      cases h1 : rlookup c.r.ty n with
      | none => rfl
      | some v => exact absurd (st.dom .ty n v h1) hty
    by_cases hco : n ∈ c.dCo
    · have e : exW c.r n = c.ρ .co n := by
        unfold exW CCtx.ρ rn
        rw [h1, Option.none_or]
        rfl
      rw [e]
      obtain ⟨e1, e2⟩ := comp_lk_live c st s hnm .co n (Or.inl hco) hp2
      refine ⟨?_, fun _ => ⟨e1, e2⟩⟩
      exact (comp_cross c st s hnm (k := .co) (k' := .ty) (by decide) rfl hco).trans
        (comp_r_none c s hnm (k := .ty) hty).symm
    · have h2 : rlookup c.r.co n = none := by
        cases h2 : rlookup c.r.co n with
        | none => rfl
        | some v => exact absurd (st.dom .co n v h2) hco
      have e : exW c.r n = n := by unfold exW; simp [h1, h2]
      rw [e]
      simp only [okEx, Bool.or_eq_true, Bool.and_eq_true, List.contains_iff_mem, Bool.not_eq_true', ← Bool.not_eq_true] at hok
      have hf : n ∉ c.imgTy ∧ n ∉ c.imgCo := by
        rcases hok with (h | h) | h
        · exact absurd h hty
        · exact absurd h hco
        · exact h
      have a1 := comp_lk_live c st s hnm .ty n (Or.inr hf.1) hp1
      have a2 := comp_lk_live c st s hnm .co n (Or.inr hf.2) hp2
      rw [st.rho_notin (k := .ty) hty] at a1
      rw [st.rho_notin (k := .co) hco] at a2
      exact ⟨a1.1, fun _ => ⟨a2.1, fun _ => rfl⟩⟩

end CompLive

/-! ### The header -/

theorem mkHdr_congr (a d u g items a' d' u' g' items' tr sf : T) :
    mkHdr (.node "ItemImpl" [] [a, d, u, g, tr, sf, items]) = mkHdr (.node "ItemImpl" [] [a', d', u', g', tr, sf, items']) := by
  have e : implTraitPath (.node "ItemImpl" [] [a, d, u, g, tr, sf, items]) =
      implTraitPath (.node "ItemImpl" [] [a', d', u', g', tr, sf, items']) := by
    unfold implTraitPath
    split
    · next heq => cases heq; rfl
    · next hne =>
      split
      · next heq => cases heq; exact absurd rfl (hne _ _ _ _ _ _ _ _)
      · rfl
  unfold mkHdr
  rw [e]
  rfl

/-- the trait and the self type mention no parameter that is still waiting when the indexer is done -/
theorem header_live (c : CCtx) (st : Stat c) (a d u lt0 : T) (ps : List T) (gt0 wc tr sf items : T)
    (hD : ∀ k, c.D k = kindNames (.node "Generics" [] [lt0, .node "List" [] ps, gt0, wc]) (kindStr k))
    (hinv : IxInv (ixInit (.node "ItemImpl" [] [a, d, u, .node "Generics" [] [lt0, .node "List" [] ps, gt0, wc], tr, sf, items])))
    (hvtr : ixVis tr = true) (hvsf : ixVis sf = true) :
    alP (livePred (indexImpl (.node "ItemImpl" [] [a, d, u, .node "Generics" [] [lt0, .node "List" [] ps, gt0, wc], tr, sf, items]))) tr = true ∧
    alP (livePred (indexImpl (.node "ItemImpl" [] [a, d, u, .node "Generics" [] [lt0, .node "List" [] ps, gt0, wc], tr, sf, items]))) sf = true := by
  have hu0 : Un c (ixInit (.node "ItemImpl" [] [a, d, u, .node "Generics" [] [lt0, .node "List" [] ps, gt0, wc], tr, sf, items])) := by
    intro k y hy
    rw [hD k]
    cases k <;> exact hy
  have e : indexImpl (.node "ItemImpl" [] [a, d, u, .node "Generics" [] [lt0, .node "List" [] ps, gt0, wc], tr, sf, items]) =
      ixLoop ((ixT (ixInit (.node "ItemImpl" [] [a, d, u, .node "Generics" [] [lt0, .node "List" [] ps, gt0, wc], tr, sf, items]))
          (.node "ItemImpl" [] [a, d, u, .node "Generics" [] [lt0, .node "List" [] ps, gt0, wc], tr, sf, items])).unindexed + 2)
        ((ixT (ixInit (.node "ItemImpl" [] [a, d, u, .node "Generics" [] [lt0, .node "List" [] ps, gt0, wc], tr, sf, items]))
          (.node "ItemImpl" [] [a, d, u, .node "Generics" [] [lt0, .node "List" [] ps, gt0, wc], tr, sf, items])).unindexed + 1)
        (ixT (ixInit (.node "ItemImpl" [] [a, d, u, .node "Generics" [] [lt0, .node "List" [] ps, gt0, wc], tr, sf, items]))
          (.node "ItemImpl" [] [a, d, u, .node "Generics" [] [lt0, .node "List" [] ps, gt0, wc], tr, sf, items]))
        (.node "Generics" [] [lt0, .node "List" [] ps, gt0, wc]) := rfl
  rw [e]
  generalize ixInit _ = s0 at hinv hu0
  rw [ixT_item s0 a d u (.node "Generics" [] [lt0, .node "List" [] ps, gt0, wc]) tr sf items ⟨_, _, rfl⟩]
  have i3 : IxInv (ixT (ixT (ixT s0 a) d) u) := ((hinv.ixT a).ixT d).ixT u
  have u3 : Un c (ixT (ixT (ixT s0 a) d) u) := ((hu0.ixT a).ixT d).ixT u
  generalize ixT (ixT (ixT s0 a) d) u = s3 at i3 u3
  have vtr := ixT_complete c st tr s3 i3 u3 hvtr
  have vsf := ixT_complete c st sf (ixT s3 tr) (i3.ixT tr) (u3.ixT tr) hvsf
  constructor
  · refine livePred_mono ?_ tr vtr
    exact un_rel.trans (ixT_rel un_rel sf _) (un_rel.trans (ixT_rel un_rel items _) (ixLoop_rel un_rel _ _ _ _))
  · refine livePred_mono ?_ sf vsf
    exact un_rel.trans (ixT_rel un_rel items _) (ixLoop_rel un_rel _ _ _ _)

/-- **alpha-invariance of the canonical header, also when parameters that occur nowhere are respelled** -/
theorem canon_alpha_header (π : Renaming) (item : T) (hdecl : implDeclsOK item = true)
    (hd : namesDistinct (canonCtx item) = true) (hrs : rsOK (canonCtx item) item = true)
    (hal : alphaOKh π item = true) (hv : hdrVis item = true) :
    mkHdr (canon (alphaRename π item)) = mkHdr (canon item) := by
  simp only [alphaOKh, Bool.and_eq_true] at hal
  obtain ⟨⟨hdom, hinj⟩, hok⟩ := hal
  have st := alpha_stat π item hd hdom hinj
  have hnm : ∀ k y, y ∈ (indexImpl item).names k ↔ y ∈ (alphaCtx π item).D k := by
    intro k y; rw [alphaCtx_D]; exact canonCtx_mem_D item k y
  have hnd : (canonCtx item).dLt.Nodup ∧ ((canonCtx item).dTy ++ (canonCtx item).dCo).Nodup := by
    simpa [namesDistinct] using hd
  rw [List.nodup_append] at hnd
  have hinv : IxInv (ixInit item) := ixInit_inv item hnd.1 hnd.2.1 hnd.2.2.1
  obtain ⟨a, d, u, lt0, ps, gt0, wc, tr, sf, items, rfl, hps⟩ := implDeclsOK_inv hdecl
  have hvtr : ixVis tr = true := by
    simp only [hdrVis, implTrait, implSelfTy, Bool.and_eq_true] at hv
    exact hv.1
  have hvsf : ixVis sf = true := by
    simp only [hdrVis, implTrait, implSelfTy, Bool.and_eq_true] at hv
    exact hv.2
  have hlive := header_live (alphaCtx π _) st a d u lt0 ps gt0 wc tr sf items (fun k => by cases k <;> rfl) hinv hvtr hvsf
  have hix := indexImpl_commA (alphaCtx π _) st a d u lt0 ps gt0 wc tr sf items (fun k => by cases k <;> rfl) hps hok
  generalize hc : alphaCtx π _ = c at st hok hnm hlive hix
  generalize hcc : canonCtx _ = cc at hrs
  have hπ : c.r = π := by rw [← hc]; rfl
  have hr : cc.r = (indexImpl (.node "ItemImpl" [] [a, d, u, .node "Generics" [] [lt0, .node "List" [] ps, gt0, wc], tr, sf, items])).renaming := by
    rw [← hcc]; rfl
  rw [alOK_of_other c [] (nodeOther_of_ne _ (by decide) (by decide) (by decide) (by decide) (by decide))] at hok
  have hk := alOKL_iff.1 hok
  rw [rsOK_of_other cc [] (nodeOther_of_ne _ (by decide) (by decide) (by decide) (by decide) (by decide))] at hrs
  have rk := rsOKL_iff.1 hrs
  have key : ∀ t, alOK c t = true → alP (livePred (indexImpl (.node "ItemImpl" [] [a, d, u, .node "Generics" [] [lt0, .node "List" [] ps, gt0, wc], tr, sf, items]))) t = true →
      rsOK cc t = true →
      rsT (mapS c.r (indexImpl (.node "ItemImpl" [] [a, d, u, .node "Generics" [] [lt0, .node "List" [] ps, gt0, wc], tr, sf, items]))).renaming (arT c.r t) = rsT cc.r t := by
    intro t h1 h2 h3
    refine rsT_arT_live c cc _ _ ?_ ?_ ?_ t h1 h2 h3
    · intro n h1 h2; rw [hr]; exact live_lt c st _ hnm n h1 h2
    · intro n h1 h2; rw [hr]; exact live_ty c st _ hnm n h1 h2
    · intro n h1 h2; rw [hr]; exact live_ex c st _ hnm n h1 h2
  rw [hπ] at hix key
  rw [canon_shape a d u lt0 ps gt0 wc tr sf items cc.r hr, alpha_shape]
  unfold genA
  rw [canon_shape (arT π a) (arT π d) (arT π u) (arT π lt0) (ps.map (declA π)) (arT π gt0) (arT π wc) (arT π tr) (arT π sf)
      (arT π items) (mapS π (indexImpl (.node "ItemImpl" [] [a, d, u, .node "Generics" [] [lt0, .node "List" [] ps, gt0, wc], tr, sf, items]))).renaming
      (by rw [← hix, alpha_shape]; rfl)]
  rw [key tr (hk _ (by simp)) hlive.1 (rk _ (by simp)), key sf (hk _ (by simp)) hlive.2 (rk _ (by simp))]
  exact mkHdr_congr _ _ _ _ _ _ _ _ _ _ _ _

/-- the respelled impl has a well-formed parameter list with distinct names again (`alpha_decls` from `alphaOKh`) -/
theorem alpha_decls_h (π : Renaming) (item : T) (hdecl : implDeclsOK item = true) (hal : alphaOKh π item = true) :
    implDeclsOK (alphaRename π item) = true ∧ namesDistinct (canonCtx (alphaRename π item)) = true := by
  simp only [alphaOKh, Bool.and_eq_true] at hal
  obtain ⟨⟨_, hinj⟩, _⟩ := hal
  obtain ⟨a, d, u, lt0, ps, gt0, wc, tr, sf, items, rfl, hps⟩ := implDeclsOK_inv hdecl
  generalize hc : alphaCtx π _ = c at hinj
  have hπ : c.r = π := by rw [← hc]; rfl
  have hD : ∀ k, c.D k = kindNames (.node "Generics" [] [lt0, .node "List" [] ps, gt0, wc]) (kindStr k) := by
    intro k; rw [← hc]; cases k <;> rfl
  rw [alpha_shape, ← hπ]
  constructor
  · show ((ps.map (declA c.r)).all fun p => (paramIdent p).isSome) = true
    rw [List.all_eq_true]
    intro p' hp'
    obtain ⟨p, hp, rfl⟩ := List.mem_map.1 hp'
    obtain ⟨k, y, sh⟩ := param_casesA c p (hps p hp)
    rw [sh.identA]
    rfl
  · have e1 := kindNames_genA c lt0 ps gt0 wc hps .lt
    have e2 := kindNames_genA c lt0 ps gt0 wc hps .ty
    have e3 := kindNames_genA c lt0 ps gt0 wc hps .co
    rw [← hD] at e1 e2 e3
    simp only [kindStr] at e1 e2 e3
    show (decide (kindNames (genA c.r lt0 ps gt0 wc) "GenericParam::Lifetime").Nodup &&
      decide (kindNames (genA c.r lt0 ps gt0 wc) "GenericParam::Type" ++
        kindNames (genA c.r lt0 ps gt0 wc) "GenericParam::Const").Nodup) = true
    rw [e1, e2, e3]
    exact hinj

end DI
